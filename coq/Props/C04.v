(* C04 — site extraction and coordinates address exactly the requested columns.
   Only property theorems; proofs are in Proofs/SitesProofs.v. *)
From Coq Require Import List Bool NArith ZArith Sorted.
From Coq.Strings Require Import Byte.
Import ListNotations.
From GA.Base Require Import Bytes Align Dec.
From GA.Gen Require Import Alpha.
From GA.Model Require Import Sites.
From GA.Proofs Require Import SitesProofs RefCoordProofs PartitionProofs PartitionOracle.
From GA.Corr Require C04.
Local Open Scope Z_scope.

(* SubAlign succeeds exactly on windows inside the alignment (boundary values
   -1, 0, L-1, L, L+1 are decided by the arithmetic condition) and returns the
   addressed columns of every row, names and order kept *)
Theorem C04_subalign :
  forall rs s l,
  (forall b, sub_align rs s l = Some b ->
     (0 <= s /\ 0 <= l /\ s + l <= alen rs) /\
     b = map (fun r => (fst r, firstn (Z.to_nat l) (skipn (Z.to_nat s) (snd r)))) rs) /\
  (sub_align rs s l = None <-> ~ (0 <= s /\ 0 <= l /\ s + l <= alen rs)).
Proof. exact sub_align_spec. Qed.
Print Assumptions C04_subalign.

Theorem C04_subalign_frame :
  forall rs s l b, sub_align rs s l = Some b ->
  map fst b = map fst rs /\ (rectangular rs -> forall r, In r b -> length (snd r) = Z.to_nat l).
Proof. exact sub_align_frame. Qed.
Print Assumptions C04_subalign_frame.

(* SelectSites: any order, repeats allowed; out-of-range (incl. L) is an error *)
Theorem C04_select_sites :
  forall rs sites,
  (forall b, select_sites rs sites = Some b ->
     Forall (fun s => 0 <= s < alen rs) sites /\
     map fst b = map fst rs /\
     length b = length rs /\
     forall k r d, nth_error rs k = Some r ->
       exists r', nth_error b k = Some r' /\ fst r' = fst r /\ length (snd r') = length sites /\
       forall j s, nth_error sites j = Some s -> nth j (snd r') d = nth (Z.to_nat s) (snd r) x2d) /\
  (select_sites rs sites = None <-> ~ Forall (fun s => 0 <= s < alen rs) sites).
Proof. exact select_sites_spec. Qed.
Print Assumptions C04_select_sites.

(* InversePositions: sorted, disjoint from and jointly exhaustive with the request *)
Theorem C04_inverse_positions :
  forall rs sites,
  (forall inv, inverse_positions rs sites = Some inv ->
     Forall (fun s => 0 <= s < alen rs) sites /\
     StronglySorted Z.lt inv /\
     forall i, In i inv <-> (0 <= i < alen rs /\ ~ In i sites)) /\
  (inverse_positions rs sites = None <-> ~ Forall (fun s => 0 <= s < alen rs) sites).
Proof. exact inverse_positions_spec. Qed.
Print Assumptions C04_inverse_positions.

Theorem C04_inverse_coordinates :
  forall rs s l,
  (forall st ln, inverse_coordinates rs s l = Some (st, ln) ->
     (0 <= s /\ 0 <= l /\ s + l <= alen rs) /\
     st = (if s >? 0 then [0] else []) ++ (if s + l <? alen rs then [s + l] else []) /\
     ln = (if s >? 0 then [s] else []) ++ (if s + l <? alen rs then [alen rs - (s + l)] else [])) /\
  (inverse_coordinates rs s l = None <-> ~ (0 <= s /\ 0 <= l /\ s + l <= alen rs)).
Proof. exact inverse_coordinates_spec. Qed.
Print Assumptions C04_inverse_coordinates.

(* a window and its two complementary windows re-assemble every row *)
Theorem C04_window_tiles :
  forall (r : list byte) (s l : nat), (s + l <= length r)%nat ->
  firstn s r ++ firstn l (skipn s r) ++ skipn (s + l) r = r.
Proof. exact (@window_tiles byte). Qed.
Print Assumptions C04_window_tiles.

Theorem C04_trim :
  forall rs n from_start,
  (forall b, trim_sequences rs n from_start = Some b ->
     0 <= n < alen rs /\
     b = map (fun r => (fst r, if from_start then skipn (Z.to_nat n) (snd r)
                               else firstn (length (snd r) - Z.to_nat n) (snd r))) rs) /\
  (trim_sequences rs n from_start = None <-> ~ (0 <= n < alen rs)).
Proof. exact trim_sequences_spec. Qed.
Print Assumptions C04_trim.

(* replacing match characters after a diff-to-first restores the alignment *)
Theorem C04_diff_then_replace :
  forall rs, (forall r, In r rs -> ~ In POINT (snd r)) ->
  replace_match_chars (diff_with_first rs) = rs.
Proof. exact replace_diff_rows. Qed.
Print Assumptions C04_diff_then_replace.

Theorem C04_diff_row :
  forall f o, length f = length o -> forall i d, (i < length o)%nat ->
  nth i (diff_row f o) d = if beqb (nth i f d) (nth i o d) then POINT else nth i o d.
Proof. exact diff_row_spec. Qed.
Print Assumptions C04_diff_row.

(* Split: block k holds exactly the columns assigned to partition k, in
   increasing order; every assigned column is in exactly one block, so
   re-interleaving the blocks reproduces the alignment *)
Theorem C04_split :
  forall rs ps,
  (forall als, split rs ps = Some als ->
     (2 <= length (ps_names ps))%nat /\ ps_len ps = alen rs /\
     length als = length (ps_names ps) /\
     forall k, (k < length (ps_names ps))%nat ->
       nth k als [] =
         match positions_of (ps_parts ps) (Z.of_nat k) with
         | [] => []
         | pos => map (fun r => (fst r, map (fun s => nth (Z.to_nat s) (snd r) x2d) pos)) rs
         end) /\
  (split rs ps = None <-> ((length (ps_names ps) <= 1)%nat \/ ps_len ps <> alen rs)).
Proof. exact split_spec. Qed.
Print Assumptions C04_split.

Theorem C04_partition_blocks :
  forall parts,
  (forall pi, StronglySorted Z.lt (positions_of parts pi)) /\
  (forall i, 0 <= i < Z.of_nat (length parts) ->
     forall pi, In i (positions_of parts pi) <-> pi = nth (Z.to_nat i) parts (-1)).
Proof. intros parts. split; [intros pi; apply positions_of_sorted | apply positions_partition]. Qed.
Print Assumptions C04_partition_blocks.

(* AddRange (a line `name = start-end\modulo` of a partition file): refused, with nothing changed, when the
   bounds are wrong; otherwise it succeeds exactly when every addressed site start, start+modulo, ... <= end
   is still free, gives exactly those sites the index of the name (first occurrence, or a new last index) and
   leaves every other site as it was; on failure some addressed site already belonged to a partition *)
Theorem C04_add_range :
  forall ps pname s e m ps' ok,
  ps_wf ps -> add_range ps pname s e m = (ps', ok) ->
  ((s < 0 \/ ps_len ps <= e \/ m <= 0) -> ok = false /\ ps' = ps) /\
  ((0 <= s /\ e < ps_len ps /\ 0 < m) ->
     ps_wf ps' /\ ps_len ps' = ps_len ps /\
     (ok = true ->
        (forall j, 0 <= j -> addressed s e m j ->
           nth (Z.to_nat j) (ps_parts ps) (-1) = -1 /\ nth (Z.to_nat j) (ps_parts ps') (-1) = range_index ps pname) /\
        (forall j, 0 <= j -> ~ addressed s e m j ->
           nth (Z.to_nat j) (ps_parts ps') (-1) = nth (Z.to_nat j) (ps_parts ps) (-1))) /\
     (ok = false -> exists j, addressed s e m j /\ nth (Z.to_nat j) (ps_parts ps) (-1) <> -1)).
Proof. exact add_range_spec. Qed.
Print Assumptions C04_add_range.

(* so the block Split cuts for that partition gains exactly the addressed sites *)
Theorem C04_add_range_block :
  forall ps pname s e m ps',
  ps_wf ps -> add_range ps pname s e m = (ps', true) ->
  forall i, 0 <= i < ps_len ps ->
    (In i (positions_of (ps_parts ps') (range_index ps pname)) <->
     addressed s e m i \/ In i (positions_of (ps_parts ps) (range_index ps pname))).
Proof. exact add_range_block. Qed.
Print Assumptions C04_add_range_block.

(* non-vacuity: a fresh partition set is well formed; 1-9\3 addresses sites 1, 4, 7; 4-4 then collides *)
Example C04_add_range_nonvacuous :
  ps_wf (new_pset 10) /\
  let r := add_range (new_pset 10) [x70] 1 9 3 in
  snd r = true /\ ps_parts (fst r) = [-1; 0; -1; -1; 0; -1; -1; 0; -1; -1] /\
  snd (add_range (fst r) [x71] 4 4 1) = false.
Proof. split; [apply new_pset_wf; discriminate | exact add_range_example]. Qed.

(* a whole partition file (AddRange per range, in order): when every range is accepted, each range lay inside
   the alignment, every addressed site was free before and is addressed by exactly one range of the file, it
   carries the index under which that range's name stands in the final name list, and sites no range
   addresses keep what they had; names are only ever appended *)
Theorem C04_partition_file :
  forall l ps ps',
  ps_wf ps -> add_ranges ps l = (ps', true) ->
  ps_wf ps' /\ ps_len ps' = ps_len ps /\
  (exists ext, ps_names ps' = ps_names ps ++ ext) /\
  (forall x, In x l -> let '(s, e, m) := snd x in 0 <= s /\ e < ps_len ps /\ 0 < m) /\
  (forall j, 0 <= j -> (forall x, In x l -> ~ addressed_by x j) ->
     nth (Z.to_nat j) (ps_parts ps') (-1) = nth (Z.to_nat j) (ps_parts ps) (-1)) /\
  (forall j x, 0 <= j -> In x l -> addressed_by x j ->
     nth (Z.to_nat j) (ps_parts ps) (-1) = -1 /\
     name_index (fst x) (ps_names ps') 0 = Some (nth (Z.to_nat j) (ps_parts ps') (-1))) /\
  ForallOrdPairs (fun x y => forall j, 0 <= j -> ~ (addressed_by x j /\ addressed_by y j)) l.
Proof. exact add_ranges_spec. Qed.
Print Assumptions C04_partition_file.

(* and conversely: a file whose ranges lie inside the alignment, address only free sites and are pairwise
   disjoint is accepted - together with C04_partition_file, acceptance of a file on a fresh partition set is
   EXACTLY "in bounds and pairwise disjoint" *)
Theorem C04_partition_file_accepted :
  forall l ps,
  ps_wf ps ->
  (forall x, In x l -> let '(s, e, m) := snd x in 0 <= s /\ e < ps_len ps /\ 0 < m) ->
  (forall x j, In x l -> 0 <= j -> addressed_by x j -> nth (Z.to_nat j) (ps_parts ps) (-1) = -1) ->
  ForallOrdPairs (fun x y => forall j, 0 <= j -> ~ (addressed_by x j /\ addressed_by y j)) l ->
  snd (add_ranges ps l) = true.
Proof. exact add_ranges_complete. Qed.
Print Assumptions C04_partition_file_accepted.

(* the oracle of the correspondence (Corr/C04.v `covers`, the documented meaning of start-end\modulo) is the
   `addressed` of the theorems above *)
Theorem C04_oracle_covers_is_addressed :
  forall s e m i, 0 < m -> (GA.Corr.C04.covers (s, e, m) i = true <-> addressed s e m i).
Proof. exact covers_addressed. Qed.
Print Assumptions C04_oracle_covers_is_addressed.

Example C04_partition_file_nonvacuous :
  snd (add_ranges (new_pset 6) [([x70], (0, 5, 2)); ([x71], (1, 5, 2))]) = true /\
  ps_parts (fst (add_ranges (new_pset 6) [([x70], (0, 5, 2)); ([x71], (1, 5, 2))])) = [0; 1; 0; 1; 0; 1].
Proof. vm_compute. auto. Qed.

(* reference coordinates: a FINITE statement, by exhaustive evaluation in the kernel - for every
   reference row of length 1..7 over {A, C, gap} and every window (s, l) of its ungapped residues, the
   alignment window returned holds exactly those residues and starts and ends on a residue *)
Theorem C04_refcoordinates_small :
  forall n ref s l, In n [1; 2; 3; 4; 5; 6; 7]%nat -> In ref (bwords n [x41; x43; x2d]) ->
  0 <= s -> 0 < l -> s + l <= Z.of_nat (length (ungapb ref)) ->
  refcoord_ok ref s l = true.
Proof. exact refcoordinates_small. Qed.
Print Assumptions C04_refcoordinates_small.

(* The same clause for EVERY row and every window of its ungapped residues (unbounded, by induction over
   the row through the two phases of the loop): the alignment window returned holds exactly the requested
   residues and starts and ends on a residue - hence it is the smallest such window *)
Theorem C04_refcoordinates :
  forall rs name s l st ln ref,
  get_seq name rs = Some ref -> 0 <= s -> 0 < l -> s + l <= Z.of_nat (length (ungapb ref)) ->
  ref_coordinates rs name s l = Some (st, ln, false) ->
  ungapb (firstn (Z.to_nat ln) (skipn (Z.to_nat st) ref)) =
    firstn (Z.to_nat l) (skipn (Z.to_nat s) (ungapb ref)) /\
  nth (Z.to_nat st) ref x2d <> x2d /\ nth (Z.to_nat (st + ln - 1)) ref x2d <> x2d.
Proof. exact refcoordinates_window. Qed.
Print Assumptions C04_refcoordinates.

(* a window reaching beyond the ungapped reference is reported as an error *)
Theorem C04_refcoordinates_outside_is_error :
  forall rs name s l ref,
  get_seq name rs = Some ref -> 0 <= s -> 0 < l -> s + l > Z.of_nat (length (ungapb ref)) ->
  exists st ln, ref_coordinates rs name s l = Some (st, ln, true).
Proof. exact refcoordinates_outside_is_error. Qed.
Print Assumptions C04_refcoordinates_outside_is_error.

(* cutting an alignment in two at any column and concatenating the parts gives it back *)
Theorem C04_prefix_suffix :
  forall alpha rs k p q,
  rectangular rs -> NoDup (names rs) -> 0 <= k <= alen rs ->
  sub_align rs 0 k = Some p -> sub_align rs k (alen rs - k) = Some q ->
  concat alpha alpha p q = (rs, true).
Proof. exact prefix_suffix_concat. Qed.
Print Assumptions C04_prefix_suffix.

(* transposing twice gives the residues back *)
Theorem C04_transpose_twice :
  forall rs, rectangular rs -> 0 < alen rs ->
  map snd (transpose (transpose rs)) = map snd rs.
Proof. exact transpose_twice. Qed.
Print Assumptions C04_transpose_twice.

Example C04_nonvacuous :
  let rs := [([x61], [x41; x2d; x43; x47]); ([x62], [x54; x54; x2d; x41])] in
  sub_align rs 1 2 = Some [([x61], [x2d; x43]); ([x62], [x54; x2d])] /\
  select_sites rs [3; 0; 3] = Some [([x61], [x47; x41; x47]); ([x62], [x41; x54; x41])] /\
  select_sites rs [4] = None /\
  ref_coordinates rs [x61] 1 2 = Some (2, 2, false) /\
  concat 1 1 [([x61], [x41]); ([x62], [x43])] [([x63], [x47; x47]); ([x61], [x54; x54])]
    = ([([x61], [x41; x54; x54]); ([x62], [x43; x2d; x2d]); ([x63], [x2d; x47; x47])], true).
Proof. repeat split; vm_compute; reflexivity. Qed.
