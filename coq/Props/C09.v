(* C09 — pairwise local alignment is valid, self-consistent and optimal.
   Only property theorems; proofs are in Proofs/SWProofs.v. *)
From Coq Require Import List Bool NArith ZArith Lia.
From Coq.Strings Require Import Byte.
Import ListNotations.
From GA.Base Require Import Bytes.
From GA.Gen Require Import Subst.
From GA.Spec Require Import Local EDNAFULL.
From GA.Spec Require LocalEnum.
From GA.Model Require Import SW.
From GA.Proofs Require Import SWProofs SubstProofs EnumProofs GotohProofs TracebackProofs OptimalProofs OptimalAlign.
Local Open Scope Z_scope.

(* The validity checker evaluated (in the kernel) on every alignment returned by
   the implementation is sound: rows of equal length, no all-gap column, and
   ungapped rows equal to the input substrings delimited by the reported
   start and end positions *)
Theorem C09_validity_checker_sound :
  forall s1 s2 r1 r2 st1 st2 en1 en2,
  check_valid s1 s2 r1 r2 st1 st2 en1 en2 = true -> valid_alignment s1 s2 r1 r2 st1 st2 en1 en2.
Proof. exact check_valid_sound. Qed.
Print Assumptions C09_validity_checker_sound.

(* the built-in DNAfull and BLOSUM62 matrices (regenerated from the code) are
   square and symmetric, and the character maps index inside them *)
Theorem C09_matrices :
  symmetricb dnafull_subst_matrix = true /\ symmetricb blosum62_subst_matrix = true /\
  pos_in_range dna_to_matrix_pos (length dnafull_subst_matrix) = true /\
  pos_in_range prot_to_matrix_pos (length blosum62_subst_matrix) = true.
Proof. exact matrices_symmetric. Qed.
Print Assumptions C09_matrices.

(* the scoring function of the specification is the affine-gap score *)
Theorem C09_affine_gap_cost :
  forall sub opn ext (res : list byte) prev,
  res <> [] -> forallb (fun b => negb (isgap b)) res = true -> prev <> 1 ->
  score_cols sub opn ext (repeat GAPB (length res)) res prev = opn + (Z.of_nat (length res) - 1) * ext.
Proof. exact gap_run_cost. Qed.
Print Assumptions C09_affine_gap_cost.

Theorem C09_ungapped_score :
  forall sub opn ext r1 r2 prev,
  forallb (fun b => negb (isgap b)) r1 = true -> forallb (fun b => negb (isgap b)) r2 = true ->
  length r1 = length r2 ->
  score_cols sub opn ext r1 r2 prev = fold_right Z.add 0 (map (fun ab => sub (fst ab) (snd ab)) (combine r1 r2)).
Proof. exact nogap_score. Qed.
Print Assumptions C09_ungapped_score.

Theorem C09_oracle_nonneg : forall sub opn ext s1 s2, 0 <= gotoh_best sub opn ext s1 s2.
Proof. exact gotoh_best_nonneg. Qed.
Print Assumptions C09_oracle_nonneg.

(* NOT proved in this revision (kept as statements): that the Gotoh oracle is
   the maximum over all local alignments, and that the modelled aligner is
   valid / score-sound / optimal for all inputs.  They are checked on every
   generated and enumerated pair: validity through the sound checker above,
   score-soundness and optimality against the independent Gotoh program. *)
(* Validation of the oracle itself (a FINITE statement, by exhaustive evaluation in the kernel): on every
   pair of words of length 1..3 over {A, C, G} and four scoring schemes the Gotoh program returns exactly
   the maximum, over every pair of substrings and every global alignment of them, of the alignment score *)
Theorem C09_oracle_is_optimal_on_small_words :
  forall sc s1 s2, In sc small_schemes -> In s1 small_words -> In s2 small_words ->
  let '(m, x, o, e) := sc in gotoh_best (LocalEnum.mm m x) o e s1 s2 = LocalEnum.best_enum (LocalEnum.mm m x) o e s1 s2.
Proof. exact gotoh_matches_enumeration_small. Qed.
Print Assumptions C09_oracle_is_optimal_on_small_words.

(* The CODE MODEL on the same finite domain (exhaustive, in the kernel): the score it reports is that
   optimum, and the rows it returns score exactly what it reports *)
Theorem C09_code_model_optimal_on_small_words :
  forall sc s1 s2, In sc small_schemes -> In s1 small_words -> In s2 small_words ->
  let '(m, x, o, e) := sc in
  exists r, align_pair false (mkscheme false m x o e) s1 s2 = Some r /\
            r_score r = LocalEnum.best_enum (LocalEnum.mm m x) o e s1 s2 /\
            (r_score r = 0 \/ score_cols (LocalEnum.mm m x) o e (r_row1 r) (r_row2 r) 0 = r_score r).
Proof. exact code_model_optimal_small. Qed.
Print Assumptions C09_code_model_optimal_on_small_words.

(* ... and on 120 x 30 pairs of words of length 1..4 in the regime where the first-row seeding of the gap
   accumulators matters (the defect repaired by commit 849958e makes this statement false) *)
Theorem C09_code_model_optimal_on_medium_words :
  forall s1 s2, In s1 medium_words1 -> In s2 medium_words2 ->
  exists r, align_pair false (mkscheme false 10 (-8) (-6) (-1)) s1 s2 = Some r /\
            r_score r = LocalEnum.best_enum (LocalEnum.mm 10 (-8)) (-6) (-1) s1 s2.
Proof. exact code_model_optimal_medium. Qed.
Print Assumptions C09_code_model_optimal_on_medium_words.

(* the built-in nucleotide matrix of the code, read through the code's own character index, is the published
   EDNAFULL table (typed in independently, Spec/EDNAFULL.v) on all 15 x 15 IUPAC letters, and respects the
   IUPAC base sets: a base that belongs to an ambiguity code scores strictly above a base that does not *)
Theorem C09_dna_matrix_is_ednafull :
  forall a b, In a iupac_codes -> In b iupac_codes ->
  exists y, EDNAFULL.ednafull a b = Some y /\ dna_score a b = Some (2 * y).
Proof. exact dnafull_is_ednafull. Qed.
Print Assumptions C09_dna_matrix_is_ednafull.

Theorem C09_dna_matrix_respects_iupac_sets :
  forall code a b, In code iupac_codes -> In a bases -> In b bases -> member a code = true -> member b code = false ->
  exists sa sb, dna_score code a = Some sa /\ dna_score code b = Some sb /\ sb < sa.
Proof. exact dnafull_respects_iupac_sets. Qed.
Print Assumptions C09_dna_matrix_respects_iupac_sets.

(* both built-in matrices are symmetric; an identical pair of standard residues scores strictly above every
   other pair of its row *)
Theorem C09_matrices_symmetric_diagonal_dominant :
  symmetric_on dna_score iupac_codes = true /\ symmetric_on prot_score std_aa = true /\
  diagonal_dominates dna_score bases = true /\ diagonal_dominates prot_score std_aa = true.
Proof. exact (conj dna_symmetric (conj prot_symmetric (conj dna_diagonal prot_diagonal))). Qed.
Print Assumptions C09_matrices_symmetric_diagonal_dominant.

(* the exhaustive enumeration used to validate the oracle is complete: EVERY valid local alignment of any two
   sequences is enumerated, so none scores above best_enum (unbounded; gap costs not positive).  Together
   with the finite theorems above (oracle = enumeration = code model on the small domains) this makes the
   oracle's optimum the true optimum there. *)
Theorem C09_enumeration_dominates_every_valid_alignment :
  forall (sub : byte -> byte -> Z) opn ext s1 s2 r1 r2 st1 st2 en1 en2,
  opn <= 0 -> ext <= 0 -> valid_alignment s1 s2 r1 r2 st1 st2 en1 en2 ->
  score_cols sub opn ext r1 r2 0 <= LocalEnum.best_enum sub opn ext s1 s2.
Proof. exact best_enum_dominates. Qed.
Print Assumptions C09_enumeration_dominates_every_valid_alignment.

(* The Gotoh oracle is an upper bound of EVERY valid local alignment of ANY two sequences, for every
   substitution function and gap costs open <= extend < 0 (unbounded; by induction over the rows of the
   three-matrix table, each cell dominating every alignment that ends there with a pair, a gap in row 2
   or a gap in row 1).  A score reported by the implementation above the oracle is therefore impossible for
   a valid alignment, and "reported score = oracle" on a case means the reported alignment is optimal. *)
Theorem C09_gotoh_is_optimal :
  forall (sub : byte -> byte -> Z) opn ext s1 s2 r1 r2 st1 st2 en1 en2,
  opn <= ext -> ext < 0 -> valid_alignment s1 s2 r1 r2 st1 st2 en1 en2 ->
  score_cols sub opn ext r1 r2 0 <= gotoh_best sub opn ext s1 s2.
Proof.
  intros sub opn ext s1 s2 r1 r2 st1 st2 en1 en2 H1 H2 H3.
  exact (gotoh_dominates sub opn ext H1 H2 s1 s2 r1 r2 st1 st2 en1 en2 H3).
Qed.
Print Assumptions C09_gotoh_is_optimal.

(* ... and the bound is tight: the oracle's value is 0 (no alignment scores above the empty one) or the score of
   a valid local alignment (sequences without gap characters).  Hence gotoh_best IS the optimal local score. *)
Theorem C09_gotoh_is_attained :
  forall (sub : byte -> byte -> Z) opn ext s1 s2,
  opn <= ext -> ext < 0 ->
  (forall b, In b s1 -> isgap b = false) -> (forall b, In b s2 -> isgap b = false) ->
  gotoh_best sub opn ext s1 s2 = 0 \/
  exists r1 r2 st1 st2 en1 en2, valid_alignment s1 s2 r1 r2 st1 st2 en1 en2 /\
                                 score_cols sub opn ext r1 r2 0 = gotoh_best sub opn ext s1 s2.
Proof.
  intros sub opn ext s1 s2 H1 H2 H3 H4. exact (gotoh_attained sub opn ext H1 H2 s1 s2 H3 H4).
Qed.
Print Assumptions C09_gotoh_is_attained.

(* The code model of the aligner (matrix fill + trace-back of align/aligner.go), for EVERY scoring scheme and EVERY pair
   of sequences: what it returns is a valid local alignment (rows of one length, no column of two gaps, each
   row without its gaps is the substring of its sequence between the reported start and end) and
   matches + mismatches + gaps is the number of columns.  Unbounded (Proofs/TracebackProofs.v: shape of the trace
   matrix, invariant of the trace-back loop).  An empty sequence is an error (no result). *)
Theorem C09_aligner_returns_valid_alignment :
  forall sc s1 s2 r,
  align_pair false sc s1 s2 = Some r ->
  valid_alignment s1 s2 (r_row1 r) (r_row2 r) (r_start1 r) (r_start2 r) (r_end1 r) (r_end2 r) /\
  r_matches r + r_mismatches r + r_gaps r = Z.of_nat (length (r_row1 r)) /\
  r_length r = Z.of_nat (length (r_row1 r)).
Proof. exact align_pair_valid. Qed.
Print Assumptions C09_aligner_returns_valid_alignment.

(* The score reported by the CODE MODEL is the optimum, for EVERY scheme with open <= extend < 0 (and open above the
   sentinel -10^9 of the specification) and EVERY pair of sequences: it equals the value of the three-matrix Gotoh program
   of the specification (Proofs/OptimalProofs.v: cell by cell, the value of a cell of the code - first row and column with
   their gap accumulators, inner cells with the per-column accumulators and the running bx, clamped at 0 - is max(0, best of
   the three Gotoh states), each accumulator lies between the Gotoh gap state and max(that state, open), and the recorded
   maximum over the raw scores is the maximum over the match states) ... *)
Theorem C09_aligner_score_is_gotoh :
  forall sc s1 s2 r,
  sc_open sc <= sc_extend sc -> sc_extend sc < 0 -> NEG <= sc_open sc ->
  align_pair false sc s1 s2 = Some r ->
  r_score r = gotoh_best (sub_of sc (pick_matrix s1 s2)) (sc_open sc) (sc_extend sc) s1 s2.
Proof. exact align_pair_score_optimal. Qed.
Print Assumptions C09_aligner_score_is_gotoh.

(* ... hence no valid local alignment of the two sequences scores more than the code model reports (with
   C09_gotoh_is_optimal), and the reported score is 0 or the score of some valid local alignment (C09_gotoh_is_attained;
   the characters of the scoring alphabets are never the gap character) *)
Theorem C09_aligner_score_is_optimal :
  forall sc s1 s2 r r1 r2 st1 st2 en1 en2,
  sc_open sc <= sc_extend sc -> sc_extend sc < 0 -> NEG <= sc_open sc ->
  align_pair false sc s1 s2 = Some r ->
  valid_alignment s1 s2 r1 r2 st1 st2 en1 en2 ->
  score_cols (sub_of sc (pick_matrix s1 s2)) (sc_open sc) (sc_extend sc) r1 r2 0 <= r_score r.
Proof.
  intros sc s1 s2 r r1 r2 st1 st2 en1 en2 H1 H2 H3 H4 H5.
  rewrite (align_pair_score_optimal sc s1 s2 r H1 H2 H3 H4).
  exact (gotoh_dominates _ _ _ H1 H2 s1 s2 r1 r2 st1 st2 en1 en2 H5).
Qed.
Print Assumptions C09_aligner_score_is_optimal.

(* ... and it is attained: 0, or the score of some valid local alignment of the two sequences.  Together: the score the
   code model reports is exactly the maximum over all valid local alignments (or 0 when none is positive) *)
Theorem C09_aligner_score_is_attained :
  forall sc s1 s2 r,
  sc_open sc <= sc_extend sc -> sc_extend sc < 0 -> NEG <= sc_open sc ->
  align_pair false sc s1 s2 = Some r ->
  r_score r = 0 \/
  exists r1 r2 st1 st2 en1 en2, valid_alignment s1 s2 r1 r2 st1 st2 en1 en2 /\
    score_cols (sub_of sc (pick_matrix s1 s2)) (sc_open sc) (sc_extend sc) r1 r2 0 = r_score r.
Proof. exact align_pair_score_attained. Qed.
Print Assumptions C09_aligner_score_is_attained.

(* non-vacuity of the three theorems above: the default scheme of goalign sw (open -10, extend -1/2, doubled) meets their
   hypotheses, the aligner succeeds on a pair with two indels and reports a positive score *)
Example C09_optimal_nonvacuous :
  let sc := mkscheme true 0 0 (-20) (-1) in
  sc_open sc <= sc_extend sc /\ sc_extend sc < 0 /\ NEG <= sc_open sc /\
  option_map r_score (align_pair false sc [x41; x43; x47; x54; x54; x41; x43; x47; x54; x41; x43] [x41; x43; x47; x54; x41; x43; x47; x47; x54; x41; x43]) = Some 60.
Proof. cbn [sc_open sc_extend]. unfold NEG. split; [lia|]. split; [lia|]. split; [lia|]. vm_compute. reflexivity. Qed.

(* one half of the remaining clause: the rows RETURNED by the trace-back never score more than the reported score (they are
   a valid local alignment, the reported score is the optimum) *)
Theorem C09_aligner_rows_score_partial :
  forall sc s1 s2 r,
  sc_open sc <= sc_extend sc -> sc_extend sc < 0 -> NEG <= sc_open sc ->
  align_pair false sc s1 s2 = Some r ->
  score_cols (sub_of sc (pick_matrix s1 s2)) (sc_open sc) (sc_extend sc) (r_row1 r) (r_row2 r) 0 <= r_score r.
Proof.
  intros sc s1 s2 r H1 H2 H3 H4.
  destruct (align_pair_valid sc s1 s2 r H4) as [Hv _].
  rewrite (align_pair_score_optimal sc s1 s2 r H1 H2 H3 H4).
  exact (gotoh_dominates _ _ _ H1 H2 s1 s2 _ _ _ _ _ _ Hv).
Qed.
Print Assumptions C09_aligner_rows_score_partial.

(* What remains a statement: the rows RETURNED by the trace-back score exactly the reported score (they are valid:
   C09_aligner_returns_valid_alignment, and never score more: C09_aligner_rows_score_partial); the other inequality is
   proved on the finite domains above and judged per case by Corr/C09.v. *)
Definition C09_aligner_rows_score_statement : Prop :=
  forall sc s1 s2 r,
  sc_open sc <= sc_extend sc -> sc_extend sc < 0 -> align_pair false sc s1 s2 = Some r -> 0 < r_score r ->
  score_cols (sub_of sc (pick_matrix s1 s2)) (sc_open sc) (sc_extend sc) (r_row1 r) (r_row2 r) 0 = r_score r.

(* the pair on which the thorough tier caught the border of the matrix forgetting a gap (repaired by 5506dd8): FW against
   WFFCYHHWH, BLOSUM62, open -3, extend -1/2: the optimum 12.5 = F----W / FCYHHW, and the code model reaches it *)
Example C09_first_row_gap :
  let sc := mkscheme true 0 0 (-6) (-1) in
  let s1 := [x46; x57] in
  let s2 := [x57; x46; x46; x43; x59; x48; x48; x57; x48] in
  option_map r_score (align_pair false sc s1 s2) = Some 25 /\
  option_map r_row1 (align_pair false sc s1 s2) = Some [x46; x2d; x2d; x2d; x2d; x57].
Proof. split; vm_compute; reflexivity. Qed.

Example C09_nonvacuous :
  let sc := mkscheme false 2 (-2) (-20) (-1) in
  align_pair false sc [x41] [x41] =
    Some (mkres 2 [x41] [x41] 0 0 0 0 1 0 0 1) /\
  gotoh_best (fun a b => if beqb a b then 2 else -2) (-4) (-2) [x41; x43; x47; x54] [x41; x43; x54] = 4.
Proof. split; vm_compute; reflexivity. Qed.
