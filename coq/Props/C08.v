(* C08 — distances depend only on column content, not on order, strand or threads.
   Only property theorems; proofs in Proofs/DnaRelProofs.v and Proofs/DistPoolProofs.v. *)
From Coq Require Import List Bool ZArith QArith Permutation.
Import ListNotations.
From GA.Model Require Import DnaCount DistPool.
From GA.Proofs Require Import DnaRelProofs DistPoolProofs.
Local Open Scope Q_scope.

(* the pairwise counter of the code is a sum over the alignment columns ... *)
Theorem C08_counter_is_a_column_sum :
  forall i s1 s2 sel ws rm,
  fst (count_diffs_from i s1 s2 sel ws rm) == sum_d rm (zip_cols i s1 s2 sel ws) /\
  snd (count_diffs_from i s1 s2 sel ws rm) == sum_t rm (zip_cols i s1 s2 sel ws).
Proof. exact count_diffs_is_sum. Qed.
Print Assumptions C08_counter_is_a_column_sum.

(* ... hence unchanged when the columns are permuted *)
Theorem C08_column_permutation :
  forall rm l l', Permutation l l' -> sum_d rm l == sum_d rm l' /\ sum_t rm l == sum_t rm l'.
Proof. exact columns_permutation_invariant. Qed.
Print Assumptions C08_column_permutation.

(* replicating every column k times scales differences and totals by k *)
Theorem C08_replication :
  forall rm l k,
  sum_d rm (replicate k l) == inject_Z (Z.of_nat k) * sum_d rm l /\
  sum_t rm (replicate k l) == inject_Z (Z.of_nat k) * sum_t rm l.
Proof. exact replication_scales. Qed.
Print Assumptions C08_replication.

(* giving every column the integer weight k is the same as replicating it k times *)
Theorem C08_integer_weights :
  forall rm l k,
  sum_d rm (map (scale_w (inject_Z (Z.of_nat k))) l) == sum_d rm (replicate k l) /\
  sum_t rm (map (scale_w (inject_Z (Z.of_nat k))) l) == sum_t rm (replicate k l).
Proof. exact weight_is_replication. Qed.
Print Assumptions C08_integer_weights.

Theorem C08_unit_weights : forall n i, weight_at (Some (repeat 1 n)) i == weight_at None i.
Proof. exact unit_weights. Qed.
Print Assumptions C08_unit_weights.

(* thread count and scheduling: any order in which the produced pairs are
   processed (any interleaving of any number of workers is such an order)
   yields the same matrix, cell by cell; and the matrix is symmetric *)
Theorem C08_schedule_independent :
  forall V (dist : nat * nat -> V) order order' m,
  Permutation order order' ->
  (forall a b, In a order -> In b order -> overlaps a b -> a = b) ->
  forall i j, process V dist order m i j = process V dist order' m i j.
Proof. exact schedule_independent. Qed.
Print Assumptions C08_schedule_independent.

Theorem C08_matrix_symmetric :
  forall V (dist : nat * nat -> V) order m i j,
  (forall a b, In a order -> In b order -> overlaps a b -> a = b) ->
  (forall i j, m i j = m j i) -> process V dist order m i j = process V dist order m j i.
Proof. exact process_symmetric. Qed.
Print Assumptions C08_matrix_symmetric.

(* Not expressible in this model: data-race freedom under the Go memory model and
   the termination of the pool when an evaluation fails (the latter is exercised
   by the correspondence with failing models under a watchdog). *)
Example C08_nonvacuous :
  sum_d false [(1%Z, 2%Z, true, 1); (4%Z, 4%Z, true, 1); (8%Z, 0%Z, true, 1)] == 1 /\
  sum_t false [(1%Z, 2%Z, true, 1); (4%Z, 4%Z, true, 1); (8%Z, 0%Z, true, 1)] == 2.
Proof. split; vm_compute; reflexivity. Qed.
