(* C17 — protein distances are likelihood maximisers forming a sane matrix.
   Only property theorems; proofs are in Proofs/ProtDistProofs.v. *)
From Coq Require Import List Bool NArith ZArith QArith Permutation Reals.
From Coq.Strings Require Import Byte.
Import ListNotations.
From GA.Base Require Import Bytes Align.
From GA.Model Require Import ProtDist.
From GA.Proofs Require Import ProtDistProofs EigenProofs.

(* the pair frequency matrix does not depend on the order of the columns (with their weights) *)
Theorem C17_F_column_order : forall cols cols' i j, Permutation cols cols' -> (F cols i j == F cols' i j)%Q.
Proof. exact F_column_permutation. Qed.
Print Assumptions C17_F_column_order.

(* exchanging the two sequences of a pair transposes it *)
Theorem C17_F_transpose : forall l s1 s2 sel ws i j,
  (F (pair_cols l s2 s1 sel ws) j i == F (pair_cols l s1 s2 sel ws) i j)%Q.
Proof. intros. rewrite pair_cols_swap. apply F_transpose. Qed.
Print Assumptions C17_F_transpose.

(* its 20 x 20 cells are the observed residue-pair frequencies: they add up to 1 *)
Theorem C17_F_is_a_distribution : forall l s1 s2 sel ws,
  ~ (total (pair_cols l s1 s2 sel ws) == 0)%Q ->
  (qsum 20 (fun i => qsum 20 (fun j => F (pair_cols l s1 s2 sel ws) i j)) == 1)%Q.
Proof. intros l s1 s2 sel ws H. apply F_sums_to_one; [apply pair_cols_in_range | exact H]. Qed.
Print Assumptions C17_F_is_a_distribution.

(* identical rows are never "different" (their distance is 0), and the test is symmetric *)
Theorem C17_identical_rows_at_zero : forall s, seqs_differ s s = false.
Proof. exact seqs_differ_refl. Qed.
Print Assumptions C17_identical_rows_at_zero.

Theorem C17_differ_symmetric : forall s1 s2, seqs_differ s1 s2 = seqs_differ s2 s1.
Proof. exact seqs_differ_sym. Qed.
Print Assumptions C17_differ_symmetric.

(* for a reversible model the pair likelihood of (b,a) equals that of (a,b) at every distance, so
   a maximiser for one order is a maximiser for the other: the matrix is symmetric and reordering
   the sequences permutes it *)
Theorem C17_likelihood_symmetric : forall n Fm pi (Pd : R -> nat -> nat -> R) d (dom : R -> Prop),
  (forall x i j, (i < n)%nat -> (j < n)%nat -> (pi i * Pd x i j = pi j * Pd x j i)%R) ->
  (forall x, dom x -> (lnL n Fm pi (Pd x) <= lnL n Fm pi (Pd d))%R) ->
  (forall x, dom x -> (lnL n (fun i j => Fm j i) pi (Pd x) <= lnL n (fun i j => Fm j i) pi (Pd d))%R).
Proof. exact maximiser_symmetric. Qed.
Print Assumptions C17_likelihood_symmetric.

(* non-vacuity: a concrete pair *)
Example C17_example :
  let cols := pair_cols 0 [x41; x52; x2d; x4e] [x41; x4e; x4e; x4e] [true; true; true; true] None in
  (F cols 0 0 == 1 # 3)%Q /\ (F cols 1 2 == 1 # 3)%Q /\ (total cols == 3)%Q.
Proof. vm_compute. repeat split. Qed.

(* Stated, not proved: Brent's iteration (lk.go dist_F_Brent) returns a maximiser of lnL over
   [1e-8, 100]; judged per pair by Corr/C17.v against probe distances around the reported value and
   on a grid. *)
