(* C18 — substitution models yield valid, reversible Markov transition matrices.
   Only property theorems; proofs are in Proofs/MarkovProofs.v (closed forms of
   JC and K2P as coded), Proofs/EigenProofs.v (the assembly P = R exp(Dt) L of
   models/model.go for any eigen system) and Proofs/RateProofs.v (textbook rate
   matrices). Real-number theorems depend on the axioms of Coq's reals. *)
From Coq Require Import Reals List Bool ZArith QArith Arith.
From Coquelicot Require Import Coquelicot.
Import ListNotations.
From GA.Model Require Import Markov RateMatrix.
From GA.Proofs Require Import MarkovProofs EigenProofs RateProofs.

Definition four (i : nat) : Prop := (i < 4)%nat.

Section Reals.
Local Open Scope R_scope.

(* ---- JC69 as coded (JCModel.Pij) -------------------------------------------------------- *)
Theorem C18_jc_stochastic : forall i j l, MarkovProofs.four i -> 0 <= l ->
  0 <= jc_pij i j l <= 1 /\ jc_pij i 0 l + jc_pij i 1 l + jc_pij i 2 l + jc_pij i 3 l = 1.
Proof. intros i j l Hi Hl. split; [exact (jc_entries i j l Hl) | exact (jc_row_sum i l Hi)]. Qed.
Print Assumptions C18_jc_stochastic.

Theorem C18_jc_identity_at_zero : forall i j, jc_pij i j 0 = if Nat.eqb i j then 1 else 0.
Proof. exact jc_P0. Qed.
Print Assumptions C18_jc_identity_at_zero.

Theorem C18_jc_semigroup : forall i j s t, MarkovProofs.four i -> MarkovProofs.four j ->
  jc_pij i j (s + t) = jc_pij i 0 s * jc_pij 0 j t + jc_pij i 1 s * jc_pij 1 j t +
                       jc_pij i 2 s * jc_pij 2 j t + jc_pij i 3 s * jc_pij 3 j t.
Proof. exact jc_semigroup. Qed.
Print Assumptions C18_jc_semigroup.

(* detailed balance with uniform frequencies is symmetry *)
Theorem C18_jc_detailed_balance : forall i j l, (1/4) * jc_pij i j l = (1/4) * jc_pij j i l.
Proof. intros i j l. rewrite (jc_symmetric i j l). reflexivity. Qed.
Print Assumptions C18_jc_detailed_balance.

Theorem C18_jc_converges : forall i j eps, 0 < eps ->
  exists T, forall l, T < l -> 0 <= l -> Rabs (jc_pij i j l - 1/4) < eps.
Proof. exact jc_converges. Qed.
Print Assumptions C18_jc_converges.

(* the derivative at 0 is the textbook rate matrix scaled to one substitution per unit time *)
Theorem C18_jc_generator : forall i j, MarkovProofs.four i -> MarkovProofs.four j ->
  is_derive (fun l => jc_pij i j l) 0 (if Nat.eqb i j then -1 else 1/3).
Proof. exact jc_generator. Qed.
Print Assumptions C18_jc_generator.

(* analytical formula = eigen-decomposition based value *)
Theorem C18_jc_analytical_eigen_agree : forall i j l, MarkovProofs.four i -> MarkovProofs.four j ->
  eig_pij jc_val jc_left jc_right l i j = jc_pij i j l.
Proof. exact jc_eigen_agree. Qed.
Print Assumptions C18_jc_analytical_eigen_agree.

(* ---- K80 as coded (K2PModel.Pij, K2PModel.Eigens) ---------------------------------------- *)
Theorem C18_k2p_stochastic : forall kappa i j l, 0 <= kappa -> 0 <= l -> MarkovProofs.four i -> MarkovProofs.four j ->
  0 <= k2p_pij kappa i j l <= 1 /\
  k2p_pij kappa i 0 l + k2p_pij kappa i 1 l + k2p_pij kappa i 2 l + k2p_pij kappa i 3 l = 1.
Proof. intros kappa i j l Hk Hl Hi Hj. split; [exact (k2p_entries kappa i j l Hk Hl Hi Hj) | exact (k2p_row_sum kappa i l Hi)]. Qed.
Print Assumptions C18_k2p_stochastic.

Theorem C18_k2p_identity_at_zero : forall kappa i j, 0 <= kappa -> MarkovProofs.four i -> MarkovProofs.four j ->
  k2p_pij kappa i j 0 = if Nat.eqb i j then 1 else 0.
Proof. exact k2p_P0. Qed.
Print Assumptions C18_k2p_identity_at_zero.

Theorem C18_k2p_semigroup : forall kappa i j s t, 0 <= kappa -> MarkovProofs.four i -> MarkovProofs.four j ->
  k2p_pij kappa i j (s + t) =
    k2p_pij kappa i 0 s * k2p_pij kappa 0 j t + k2p_pij kappa i 1 s * k2p_pij kappa 1 j t +
    k2p_pij kappa i 2 s * k2p_pij kappa 2 j t + k2p_pij kappa i 3 s * k2p_pij kappa 3 j t.
Proof. exact k2p_semigroup. Qed.
Print Assumptions C18_k2p_semigroup.

Theorem C18_k2p_detailed_balance : forall kappa i j l, MarkovProofs.four i -> MarkovProofs.four j ->
  (1/4) * k2p_pij kappa i j l = (1/4) * k2p_pij kappa j i l.
Proof. intros kappa i j l Hi Hj. rewrite (k2p_symmetric kappa i j l Hi Hj). reflexivity. Qed.
Print Assumptions C18_k2p_detailed_balance.

Theorem C18_k2p_analytical_eigen_agree : forall kappa i j l, 0 <= kappa -> MarkovProofs.four i -> MarkovProofs.four j ->
  eig_pij (k2p_val kappa) k2p_left k2p_right l i j = k2p_pij kappa i j l.
Proof. exact k2p_eigen_agree. Qed.
Print Assumptions C18_k2p_analytical_eigen_agree.

(* ---- SetLength for any eigen system (F81, F84, TN93, GTR, protein) ------------------------ *)
(* If L R = I and R L = I then P(0) = I and P(s+t) = P(s) P(t), for every number of states. *)
Theorem C18_eigen_identity_at_zero : forall n val Lm Rm,
  (forall i j, (i < n)%nat -> (j < n)%nat -> sum n (fun k => Rm i k * Lm k j) = delta i j) ->
  forall i j, (i < n)%nat -> (j < n)%nat -> P n val Lm Rm 0 i j = delta i j.
Proof. exact eigen_P0. Qed.
Print Assumptions C18_eigen_identity_at_zero.

Theorem C18_eigen_semigroup : forall n val Lm Rm,
  (forall k k', (k < n)%nat -> (k' < n)%nat -> sum n (fun m => Lm k m * Rm m k') = delta k k') ->
  forall s t i j, (i < n)%nat -> (j < n)%nat ->
  P n val Lm Rm (s + t) i j = sum n (fun m => P n val Lm Rm s i m * P n val Lm Rm t m j).
Proof. exact eigen_semigroup. Qed.
Print Assumptions C18_eigen_semigroup.

Theorem C18_eigen_row_sum : forall n val Lm Rm,
  (forall i j, (i < n)%nat -> (j < n)%nat -> sum n (fun k => Rm i k * Lm k j) = delta i j) ->
  (forall k, (k < n)%nat -> val k <> 0 -> sum n (fun j => Lm k j) = 0) ->
  forall l i, (i < n)%nat -> sum n (fun j => P n val Lm Rm l i j) = 1.
Proof. exact eigen_row_sum. Qed.
Print Assumptions C18_eigen_row_sum.

Theorem C18_eigen_detailed_balance : forall n val Lm Rm pi c,
  (forall k j, (k < n)%nat -> (j < n)%nat -> Lm k j = c k * pi j * Rm j k) ->
  forall l i j, (i < n)%nat -> (j < n)%nat -> pi i * P n val Lm Rm l i j = pi j * P n val Lm Rm l j i.
Proof. exact eigen_detailed_balance. Qed.
Print Assumptions C18_eigen_detailed_balance.
(* convergence: when no eigen value is positive, P(t) tends to the part of R L carried by the zero eigen
   values; with a single zero eigen value, right eigen vector 1 and left eigen vector pi, every row tends to pi *)
Theorem C18_eigen_converges : forall n val Lm Rm i j,
  (forall k, (k < n)%nat -> val k <= 0) ->
  is_lim (fun t => P n val Lm Rm t i j) p_infty
         (sum n (fun k => if Req_EM_T (val k) 0 then Rm i k * Lm k j else 0)).
Proof. exact eigen_converges. Qed.
Print Assumptions C18_eigen_converges.

Theorem C18_eigen_converges_to_stationary : forall n val Lm Rm pi k0 i j,
  (k0 < n)%nat -> val k0 = 0 -> (forall k, (k < n)%nat -> k <> k0 -> val k < 0) ->
  Rm i k0 = 1 -> Lm k0 j = pi j ->
  is_lim (fun t => P n val Lm Rm t i j) p_infty (pi j).
Proof. exact eigen_converges_to_stationary. Qed.
Print Assumptions C18_eigen_converges_to_stationary.
End Reals.

(* ---- the textbook rate matrices (general time reversible family) --------------------------- *)
Local Open Scope Q_scope.
Theorem C18_rate_matrix_laws : forall e pi, ~ norm e pi == 0 ->
  (forall i, In i st -> rate e pi i 0 + rate e pi i 1 + rate e pi i 2 + rate e pi i 3 == 0) /\
  (forall i j, In i st -> In j st -> qnth pi i * rate e pi i j == qnth pi j * rate e pi j i) /\
  - (qnth pi 0 * rate e pi 0 0 + qnth pi 1 * rate e pi 1 1 + qnth pi 2 * rate e pi 2 2 + qnth pi 3 * rate e pi 3 3) == 1.
Proof.
  intros e pi Hn. split; [|split].
  - intros i Hi. exact (rate_row_sum e pi i Hi Hn).
  - intros i j Hi Hj. exact (rate_reversible e pi i j Hi Hj Hn).
  - exact (rate_normalised e pi Hn).
Qed.
Print Assumptions C18_rate_matrix_laws.

(* non-vacuity: a concrete GTR instance has a non-zero norm *)
Example C18_gtr_instance_nonzero_norm :
  ~ norm (ex_gtr 1 2 (1#2) 3 (3#2) 1) [1#8; 3#8; 1#4; 1#4] == 0.
Proof. vm_compute. discriminate. Qed.

(* the unproved remainder of the property, stated in full: for the eigen systems the
   implementation computes numerically (gonum Eigen.Factorize) the hypotheses above hold and
   P(t) = exp(Q t); this is checked per instance by Corr/C18.v and Cases/C18_cert_*.v. *)
