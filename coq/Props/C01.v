(* C01 — containers stay rectangular, uniquely named and index-consistent.
   Only property theorems; proofs are in Proofs/ContainerProofs.v. *)
From Coq Require Import List Bool NArith ZArith Permutation.
From Coq.Strings Require Import Byte.
Import ListNotations.
From GA.Base Require Import Bytes Case Align.
From GA.Gen Require Import Alpha.
From GA.Model Require Import Container.
From GA.Proofs Require Import ContainerProofs ConcatProofs ConcatRefine ContainerAll TrimDistinct.

(* The invariant: every index entry designates an object of the list carrying
   that name, every name absent from the index is absent from the list, object
   ids are pairwise distinct, and every row of an alignment has the cached
   length.  It holds in every state reachable from an empty container by any
   finite history of the covered operations (AddSequence under the three
   policies, IgnoreIdentical, Append, AppendSeqIdentifier, Rename, RenameRegexp
   with a literal pattern, CleanNames, TrimNames with any caller map,
   TrimNamesAuto, Sort, ShuffleSequences with any draws, SetSequenceChar, Clone,
   Clear); FilterLength, Sample and Concat: see C01_invariant_all_successful_histories below. *)
Theorem C01_invariant_all_histories :
  forall h kind alpha, forallb covered h = true -> Inv (run h (empty_state kind alpha)).
Proof. intros h kind alpha Hc. apply run_inv; [exact Hc | apply Inv_empty]. Qed.
Print Assumptions C01_invariant_all_histories.

Theorem C01_step_preserves_invariant :
  forall st op, covered op = true -> Inv st -> Inv (fst (step st op)).
Proof. exact step_inv. Qed.
Print Assumptions C01_step_preserves_invariant.

(* every row of a reachable alignment has exactly the reported length *)
Theorem C01_rectangular :
  forall h kind alpha, forallb covered h = true ->
  let st := run h (empty_state kind alpha) in
  c_kind st = true -> forall r, In r (abs st) -> Z.of_nat (length (snd r)) = c_len st.
Proof. exact reachable_rectangular. Qed.
Print Assumptions C01_rectangular.

(* lookup by name (through the index) returns the first row carrying the name
   in the plain list, whenever names are pairwise distinct *)
Theorem C01_access_paths_agree :
  forall h kind alpha n, forallb covered h = true ->
  let st := run h (empty_state kind alpha) in
  NoDup (map oname (c_objs st)) -> get_by_name st n = lassoc n (abs st).
Proof. exact reachable_access_paths. Qed.
Print Assumptions C01_access_paths_agree.

(* whatever the names, lookup by name and lookup of the index by name find a
   name together or not at all *)
Theorem C01_access_paths_same_domain :
  forall st n, Inv st -> (get_by_name st n = None <-> id_by_name st n = (-1)%Z).
Proof. exact access_paths_same_domain. Qed.
Print Assumptions C01_access_paths_same_domain.

(* a sequence whose length differs from the alignment's is rejected and the
   alignment is left unchanged *)
Theorem C01_bad_length_rejected :
  forall st n s, c_kind st = true -> c_objs st <> [] -> Inv st ->
  Z.of_nat (length s) <> c_len st ->
  (c_policy st = IGNORE_NONE \/ idx_lookup n (c_index st) = None) ->
  step st (OpAdd n s) = (st, false).
Proof. exact bad_length_rejected. Qed.
Print Assumptions C01_bad_length_rejected.

(* a successful insertion appends exactly one row holding the given residues
   (under the given name or its _%04d variant) and changes nothing else *)
Theorem C01_add_appends :
  forall as_align st n s st', Inv st ->
  (as_align = true -> c_kind st = true) -> (as_align = false -> c_kind st = false) ->
  add_seq as_align st n s = Added st' ->
  Inv st' /\ exists nm, abs st' = abs st ++ [(nm, s)] /\ c_kind st' = c_kind st /\ c_policy st' = c_policy st.
Proof. exact add_seq_inv. Qed.
Print Assumptions C01_add_appends.

(* the index after a name edit is exactly "first row of each name" *)
Theorem C01_reindex_first_wins :
  forall objs n, idx_lookup n (reindex objs) = option_map oid (first_obj n objs).
Proof. exact reindex_spec. Qed.
Print Assumptions C01_reindex_first_wins.

Theorem C01_rename_keeps_rows :
  forall st f, Inv st -> Inv (rename_with st f) /\ map oseq (c_objs (rename_with st f)) = map oseq (c_objs st).
Proof. exact rename_with_inv. Qed.
Print Assumptions C01_rename_keeps_rows.

Theorem C01_sort_permutes : forall st, Permutation (abs (fst (step st OpSort))) (abs st).
Proof. exact sort_is_permutation. Qed.
Print Assumptions C01_sort_permutes.

(* FilterLength and Sample (rows re-added through the sequence bag's method, without the alignment's
   length check) keep the invariant as well: every modelled operation other than Concat does, whatever
   its arguments ... *)
Theorem C01_invariant_every_operation :
  forall st op, covered_all op = true -> Inv st -> Inv (fst (step st op)).
Proof. exact step_inv_all. Qed.
Print Assumptions C01_invariant_every_operation.

Theorem C01_every_operation_is_covered_or_concat :
  forall op, covered_all op = true \/ exists a c, op = OpConcat a c.
Proof. exact every_op_classified. Qed.
Print Assumptions C01_every_operation_is_covered_or_concat.

(* ... hence the invariant holds after EVERY finite history of modelled operations in which no
   concatenation failed (the property speaks of successful operations; a Concat that returns an error
   may leave rows of different lengths behind) *)
Theorem C01_invariant_all_successful_histories :
  forall h kind alpha,
  (forall pre op post, h = pre ++ op :: post -> (exists a c, op = OpConcat a c) ->
     snd (step (run pre (empty_state kind alpha)) op) = true) ->
  Inv (run h (empty_state kind alpha)).
Proof.
  intros h kind alpha H. apply run_inv_all; [apply all_allowed_all_iff; exact H | apply Inv_empty].
Qed.
Print Assumptions C01_invariant_all_successful_histories.

Example C01_nonvacuous :
  let h := [OpAdd [x61] [x41; x43]; OpAdd [x61] [x47; x47]; OpRename [([x61], [x62])]; OpSort] in
  forallb covered h = true /\
  abs (run h (empty_state true NUCLEOTIDS)) =
    [([x61; x5f; x30; x30; x30; x31], [x47; x47]); ([x62], [x41; x43])] /\
  get_by_name (run h (empty_state true NUCLEOTIDS)) [x62] = Some [x41; x43] /\
  get_by_name (run h (empty_state true NUCLEOTIDS)) [x61] = None.
Proof. repeat split; vm_compute; reflexivity. Qed.

(* TrimNames is a renaming that KEEPS names unique: on distinctly named rows, with a caller map that hands out no
   short name twice (an empty map, or the map filled by earlier TrimNames calls), a successful call leaves the
   same number of rows and pairwise distinct short names - the first free two-digit identifier is taken against
   every short name handed out so far, those of the map included *)
Theorem C01_trim_names_keeps_names_distinct :
  forall st m size st',
  step st (OpTrim m size) = (st', true) ->
  NoDup (map oname (c_objs st)) -> NoDup (map snd m) ->
  length (c_objs st') = length (c_objs st) /\ NoDup (map oname (c_objs st')).
Proof. exact trim_step_distinct. Qed.
Print Assumptions C01_trim_names_keeps_names_distinct.

(* non-vacuity: "abcdefgh" and "abcd01" trimmed to 6 characters - the second row's current name is the first
   row's new short name - end as abcd01, abcd02, both found through the index *)
Example C01_trim_nonvacuous :
  let h := [OpAdd [x61; x62; x63; x64; x65; x66; x67; x68] [x41]; OpAdd [x61; x62; x63; x64; x30; x31] [x43]; OpTrim [] 6] in
  map fst (abs (run h (empty_state true NUCLEOTIDS))) = [[x61; x62; x63; x64; x30; x31]; [x61; x62; x63; x64; x30; x32]] /\
  get_by_name (run h (empty_state true NUCLEOTIDS)) [x61; x62; x63; x64; x30; x31] = Some [x41] /\
  get_by_name (run h (empty_state true NUCLEOTIDS)) [x61; x62; x63; x64; x30; x32] = Some [x43].
Proof. repeat split; vm_compute; reflexivity. Qed.

(* shuffling only re-orders, whatever the draws *)
Theorem C01_shuffle_is_permutation :
  forall draws n l, Permutation (shuffle_objs draws n l) l.
Proof. exact shuffle_objs_perm. Qed.
Print Assumptions C01_shuffle_is_permutation.

(* a successful concatenation (Concat goes through the name index and the alignment's AddSequence) leaves
   an index-consistent alignment whose rows all have the reported length *)
Theorem C01_concat_keeps_invariant :
  forall st calpha c, Inv st -> snd (step st (OpConcat calpha c)) = true -> Inv (fst (step st (OpConcat calpha c))).
Proof. exact concat_inv. Qed.
Print Assumptions C01_concat_keeps_invariant.

(* every history made of covered operations and successful concatenations keeps the invariant *)
Theorem C01_invariant_histories_with_concat :
  forall h kind alpha, all_allowed h (empty_state kind alpha) = true -> Inv (run h (empty_state kind alpha)).
Proof. intros h kind alpha Ha. apply run_inv_with_concat; [exact Ha | apply Inv_empty]. Qed.
Print Assumptions C01_invariant_histories_with_concat.

(* on uniquely named rows the container's Concat (appends through the name index, new rows through
   AddSequence) is the row-level concatenation of C04 (Model/Sites.v): rows paired by name, absent rows
   padded with gaps, same success flag *)
Theorem C01_concat_is_rowwise_concat :
  forall st calpha c,
  Inv st -> NoDup (map oname (c_objs st)) -> c_len st = alen (abs st) ->
  abs (fst (step st (OpConcat calpha c))) = fst (Sites.concat (c_alpha st) calpha (abs st) c) /\
  snd (step st (OpConcat calpha c)) = snd (Sites.concat (c_alpha st) calpha (abs st) c).
Proof. exact concat_refines. Qed.
Print Assumptions C01_concat_is_rowwise_concat.
