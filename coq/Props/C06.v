(* C06 — strand, case and un-align transforms are exact and reversible.
   This file holds only the property theorems; each is closed by [exact] of a
   lemma from Proofs/StrandProofs.v and followed by [Print Assumptions]. *)
From Coq Require Import List Bool NArith ZArith.
From Coq.Strings Require Import Byte.
Import ListNotations.
From GA.Base Require Import Bytes Case.
From GA.Gen Require Import Compl Alpha.
From GA.Spec Require Import IupacSets.
From GA.Model Require Import Strand.
From GA.Proofs Require Import StrandProofs.

(* The complement table of the code (regenerated from /repo) is, on all 256
   bytes, the semantic IUPAC complement: base sets are Watson-Crick
   complemented, case kept, '-', '.', '*' fixed, every other byte rejected. *)
Theorem C06_complement_table_semantic :
  forall b, complement_b b = spec_complement b.
Proof. exact complement_table_semantic. Qed.
Print Assumptions C06_complement_table_semantic.

(* Reverse-complementing a DNA alignment reverses each row and complements
   each residue; names and row order are kept. *)
Theorem C06_reverse_complement_spec :
  forall alphabet rs, alphabet = NUCLEOTIDS -> rows_dna rs = true ->
  reverse_complement alphabet rs = (map (fun r => (fst r, rev (map spec_c (snd r)))) rs, true).
Proof. exact reverse_complement_spec. Qed.
Print Assumptions C06_reverse_complement_spec.

(* length, mirrored positions, gaps and case are preserved *)
Theorem C06_reverse_complement_shape :
  forall s, all_dna s = true ->
  length (spec_rc s) = length s /\
  (forall i d, i < length s ->
     nth i (spec_rc s) d = spec_c (nth (length s - 1 - i) s d)) /\
  (forall b, is_dna_byte b = true ->
     beqb (spec_c b) GAP = beqb b GAP /\
     is_lower_letter (spec_c b) = is_lower_letter b /\
     is_upper_letter (spec_c b) = is_upper_letter b /\
     spec_complement b = Some (spec_c b)).
Proof. exact spec_rc_shape. Qed.
Print Assumptions C06_reverse_complement_shape.

(* applying it twice restores the original exactly *)
Theorem C06_reverse_complement_involutive :
  forall alphabet rs, alphabet = NUCLEOTIDS -> rows_dna rs = true ->
  reverse_complement alphabet (fst (reverse_complement alphabet rs)) = (rs, true).
Proof. exact reverse_complement_involutive. Qed.
Print Assumptions C06_reverse_complement_involutive.

Theorem C06_wrong_alphabet_rejected :
  forall alphabet rs, alphabet <> NUCLEOTIDS -> reverse_complement alphabet rs = (rs, false).
Proof. exact reverse_complement_wrong_alphabet. Qed.
Print Assumptions C06_wrong_alphabet_rejected.

(* named subset: exactly the requested rows are reverse-complemented *)
Theorem C06_subset_spec :
  forall alphabet names rs,
  alphabet = NUCLEOTIDS -> rows_dna rs = true -> names_unique rs -> NoDup names ->
  reverse_complement_sequences alphabet names rs =
    (map (fun r => if mem_name (fst r) names then (fst r, spec_rc (snd r)) else r) rs, true).
Proof. exact reverse_complement_sequences_spec. Qed.
Print Assumptions C06_subset_spec.

(* any request list (repeats, unknown names): no error, names/order/row count
   kept, rows that were not requested are untouched *)
Theorem C06_subset_frame :
  forall alphabet names rs,
  alphabet = NUCLEOTIDS -> rows_dna rs = true -> names_unique rs ->
  snd (reverse_complement_sequences alphabet names rs) = true /\
  map fst (fst (reverse_complement_sequences alphabet names rs)) = map fst rs /\
  (forall n s, In (n, s) rs -> mem_name n names = false ->
               In (n, s) (fst (reverse_complement_sequences alphabet names rs))) /\
  length (fst (reverse_complement_sequences alphabet names rs)) = length rs.
Proof. exact reverse_complement_sequences_frame. Qed.
Print Assumptions C06_subset_frame.

(* upper/lower-casing change nothing but letter case and are idempotent *)
Theorem C06_case :
  (forall b, is_ascii b = true ->
     to_upper b = ascii_upper b /\ to_lower b = ascii_lower b /\
     to_upper (to_upper b) = to_upper b /\ to_lower (to_lower b) = to_lower b /\
     (is_lower_letter b = false -> to_upper b = b) /\
     (is_upper_letter b = false -> to_lower b = b) /\
     to_lower (to_upper b) = to_lower b /\ to_upper (to_lower b) = to_upper b) /\
  (forall rs, forallb (fun r => all_ascii (snd r)) rs = true ->
     to_upper_rows (to_upper_rows rs) = to_upper_rows rs /\
     to_lower_rows (to_lower_rows rs) = to_lower_rows rs) /\
  (forall rs, map fst (to_upper_rows rs) = map fst rs /\ map fst (to_lower_rows rs) = map fst rs /\
              map (fun r => length (snd r)) (to_upper_rows rs) = map (fun r => length (snd r)) rs /\
              map (fun r => length (snd r)) (to_lower_rows rs) = map (fun r => length (snd r)) rs).
Proof. exact case_transforms_spec. Qed.
Print Assumptions C06_case.

(* un-aligning removes exactly the gap characters *)
Theorem C06_unalign :
  (forall rs, unalign_rows rs = map (fun r => (fst r, filter (fun b => negb (beqb b GAP)) (snd r))) rs) /\
  (forall s, forallb (fun b => negb (beqb b GAP)) (ungap s) = true) /\
  (forall s, ungap (ungap s) = ungap s) /\
  (forall s, forallb (fun b => negb (beqb b GAP)) s = true -> ungap s = s).
Proof. exact unalign_spec. Qed.
Print Assumptions C06_unalign.

(* the ungapped content of every sequence is preserved by all of these *)
Theorem C06_ungapped_content_preserved :
  (forall s, ungap (map to_upper s) = map to_upper (ungap s)) /\
  (forall s, ungap (map to_lower s) = map to_lower (ungap s)) /\
  (forall s, all_dna s = true -> ungap (spec_rc s) = spec_rc (ungap s)) /\
  (forall s, ungap (ungap s) = ungap s).
Proof. exact ungapped_content_preserved. Qed.
Print Assumptions C06_ungapped_content_preserved.

(* non-vacuity: a mixed-case IUPAC alignment with gaps meets the hypotheses *)
Example C06_nonvacuous :
  let rs := [([x61], [x41; x63; x2d; x4e; x72; x2e; x2a]); ([x62], [x79; x4b; x2d; x2d; x54; x47; x61])] in
  rows_dna rs = true /\ names_unique rs /\
  fst (reverse_complement NUCLEOTIDS rs) <> rs.
Proof.
  cbv zeta. split; [vm_compute; reflexivity|]. split.
  - unfold names_unique. simpl. repeat constructor; simpl; intuition congruence.
  - vm_compute. congruence.
Qed.
