(* C16 — phasing gives one correctly framed result per sequence for any thread
   count.  Only property theorems; proofs are in Proofs/OrfProofs.v. *)
From Coq Require Import List Bool NArith ZArith Permutation.
From Coq.Strings Require Import Byte.
Import ListNotations.
From GA.Model Require Import Orf Translate Strand SW Phaser.
From GA.Proofs Require Import OrfProofs PhaserProofs.

(* the ORF reported by LongestORF is an open reading frame: ATG at its start, the first in-frame stop
   codon at its end *)
Theorem C16_longest_is_an_orf : forall s st l, longest_orf s = Some (st, l) -> orf_at (skipn st s) = Some l.
Proof. exact longest_is_orf. Qed.
Print Assumptions C16_longest_is_an_orf.

(* no open reading frame of the sequence, in any frame and at any position, is longer *)
Theorem C16_no_longer_orf : forall s k l, orf_at (skipn k s) = Some l ->
  exists st bl, longest_orf s = Some (st, bl) /\ (l <= bl)%nat.
Proof. exact longest_maximal. Qed.
Print Assumptions C16_no_longer_orf.

(* the search by non-overlapping regular-expression matches (the code before the fix) does not have
   this property *)
Theorem C16_regex_search_refuted :
  exists s k l bl st, orf_at (skipn k s) = Some l /\ regex_longest s = Some (st, bl) /\ (bl < l)%nat.
Proof. exact regex_longest_refuted. Qed.
Print Assumptions C16_regex_search_refuted.

(* amino-acid to nucleotide coordinates: the codons from position phase + 3k translate to the
   translation of frame [phase] without its first k residues, so the trimmed nucleotides are in frame
   with the reported amino acids *)
Theorem C16_frame_coordinates : forall code phase k s,
  translate_from code (skipn (phase + 3 * k) s) = skipn k (translate_from code (skipn phase s)).
Proof. exact phased_codons_translate. Qed.
Print Assumptions C16_frame_coordinates.

(* the code model of the amino-acid mode (alignAgainstRefsAA: frames and strands tried in order, anchored
   Smith-Waterman, strict improvement, optional cut of the end) reports, whatever alignment wins, the
   position of the kept candidate, the nucleotides of that strand from that position, the same codons,
   and amino acids that are exactly the translation of those codons *)
Theorem C16_phaser_model_in_frame :
  forall (gc : Z) (code : code_table) (rev_too cutend : bool) (orfsaa : list (list byte)) (s : list byte) (r : pres) (b : best),
  genetic_code gc = Some code ->
  fold_try (fun (op : list byte * Z) c => try_aa gc cutend s (fst (revcomp_seq s)) (fst op) (snd op) c)
           (list_prod orfsaa (if rev_too then [0; 1; 2; 3; 4; 5] else [0; 1; 2])%Z) None = Some (Some b) ->
  phase_aa gc rev_too cutend orfsaa s = ORes r ->
  (0 <= b_startaa b <= b_endaa b)%Z ->
  (b_seq b = s \/ b_seq b = fst (revcomp_seq s)) /\
  p_pos r = b_start b /\ p_nt r = sub (b_seq b) (b_start b) (b_end b) /\ p_codon r = p_nt r /\
  translate_from code (p_codon r) = p_aa r.
Proof. exact phase_aa_in_frame. Qed.
Print Assumptions C16_phaser_model_in_frame.

(* a sequence holding the reference ORF verbatim, once, is trimmed at that ORF's start: a FINITE statement,
   by exhaustive evaluation of the code model in the kernel (three reference ORFs, every left and right
   flank of length 0..2 over {A,C,G,T}, amino-acid and nucleotide modes, one or both strands) *)
Theorem C16_verbatim_copy_trimmed_at_orf_start_small :
  forall orf translate rev_too l r, In orf small_orfs -> In l flanks -> In r flanks ->
  let s := l ++ orf ++ r in
  occurrences orf s = 1%nat -> (rev_too = true -> occurrences orf (fst (revcomp_seq s)) = 0%nat) ->
  exists p, phase_all translate rev_too false 0%Z (Some [orf]) [s] = Some [ORes p] /\ p_pos p = Z.of_nat (length l).
Proof. exact verbatim_copy_trimmed_at_orf_start_small. Qed.
Print Assumptions C16_verbatim_copy_trimmed_at_orf_start_small.

(* whatever the order in which the workers take the sequences, the collection of results is the same *)
Theorem C16_results_independent_of_schedule : forall (A B : Type) (f : A -> B) (seqs order : list A),
  Permutation seqs order -> Permutation (map f seqs) (map f order).
Proof. intros A B. exact (@pool_results_permutation A B). Qed.
Print Assumptions C16_results_independent_of_schedule.

(* Stated, not proved: the best-frame search trims a sequence holding the reference ORF verbatim at that
   ORF's start (the search itself is modelled and compared exactly with the code on every case); channel closing and data-race
   freedom of the worker pool. These are judged per case by Corr/C16.v. *)
