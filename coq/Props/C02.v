(* C02 — every alignment format round-trips losslessly through writer and parser.
   Theorems for the modelled FASTA and Clustal writers/parsers and for the Phylip / Nexus writers against reference
   readers; the other formats are judged per generated alignment by Corr/C02.v. *)
From Coq Require Import List Arith Bool ZArith.
From Coq.Strings Require Import Byte.
Import ListNotations.
From GA.Model Require Import Fasta.
From GA.Proofs Require Import FastaProofs.
From GA.Model Require Phylip Nexus Clustal ClustalParse.
From GA.Proofs Require PhylipProofs NexusProofs ClustalRoundtrip.

(* for every wrap width and every representable alignment, parsing what the
   writer wrote gives the alignment back: same names, same order, same residues *)
Theorem C02_fasta_roundtrip :
  forall w a, 0 < w -> a <> [] -> representable a = true -> parse (write w a) = ROk a.
Proof. exact fasta_roundtrip. Qed.
Print Assumptions C02_fasta_roundtrip.

(* what "representable in FASTA" means (boolean, hence decidable): *)
Theorem C02_fasta_representable_meaning :
  forall a, representable a = forallb (fun r => good_name (fst r) && good_seq (snd r)) a.
Proof. reflexivity. Qed.
Print Assumptions C02_fasta_representable_meaning.

(* Phylip, relaxed names, for the three layouts (interleaved blocks of any width with groups of any
   size - the constants PHYLIP_LINE and PHYLIP_BLOCK can change -, one line, no groups): reading back what the writer wrote - names up to the first blank, residues with blanks
   removed, blocks appended row by row - gives the alignment, for every alignment of non-empty names
   without blanks and rows of equal positive length without blanks *)
Theorem C02_phylip_roundtrip :
  forall wl wb ly a L, 0 < wl -> Phylip.strict ly = false -> a <> [] -> 0 < L -> Forall (PhylipProofs.good_row L) a ->
  Phylip.read (length a) (Phylip.write wl wb ly a) = a.
Proof. exact PhylipProofs.phylip_roundtrip. Qed.
Print Assumptions C02_phylip_roundtrip.

(* Nexus: reading back the matrix block of what the writer wrote (one row per line, the name up to the
   first blank) gives the rows, for every alignment of non-empty names and rows without blanks *)
Theorem C02_nexus_roundtrip :
  forall protein a, Forall NexusProofs.good_nrow a -> Nexus.read (Nexus.write protein a) = a.
Proof. exact NexusProofs.nexus_roundtrip. Qed.
Print Assumptions C02_nexus_roundtrip.

(* Clustal, through the CODE MODELS of both sides (Model/Clustal.v: WriteAlignment with its blocks of 50 columns,
   padded names, cumulative counts and conservation lines; Model/ClustalParse.v: the lexer and the block parser, tied to
   io/clustal on every run by Corr/C03.v): parsing what the writer wrote gives the rows back, for every alphabet and
   every alignment of rows of one positive length (below 2^63) whose names and residues are plain bytes - no blank,
   tab, line end or NUL, residues not digits - and any number of blocks *)
Theorem C02_clustal_roundtrip :
  forall alphabet a L,
  a <> [] -> 0 < L -> (BinInt.Z.lt (BinInt.Z.of_nat L) 9223372036854775808%Z) ->
  (forall r, In r a -> ClustalRoundtrip.word (fst r) /\ length (snd r) = L /\
                       forallb ClustalRoundtrip.resb (snd r) = true) ->
  ClustalParse.parse (Clustal.write alphabet a) = ClustalParse.ROk a.
Proof. exact ClustalRoundtrip.clustal_roundtrip. Qed.
Print Assumptions C02_clustal_roundtrip.

(* non-vacuity: three blocks *)
Example C02_clustal_nonvacuous :
  let s := repeat x41 60 ++ repeat x43 50 ++ [x47; x2d] in
  let a := [([x73; x31], s); ([x43; x4c; x55; x53; x54; x41; x4c], s); ([x31; x32], repeat x2d 112)] in
  ClustalParse.parse (Clustal.write 1%Z a) = ClustalParse.ROk a.
Proof. vm_compute. reflexivity. Qed.

(* Not proved here: the round trip through the CODE's Phylip, Nexus, Stockholm and PaML parsers (they are not
   modelled: the Phylip and Nexus theorems above use reference readers, tied to the code's parsers on every written
   file by Corr/C02.v), compressed files, streams and format detection.  Those are judged on every generated
   alignment by the spec oracle of Corr/C02.v (bounded validation, not a theorem). *)

Example C02_nonvacuous :
  let a := [([x73; x31], [x41; x43; x2d; x67; x3f; x2a]); ([x78], [x54; x54; x54; x54; x54; x54])] in
  representable a = true /\ parse (write 4 a) = ROk a /\ write 4 a <> write 80 a.
Proof. repeat split; try (vm_compute; reflexivity). vm_compute. discriminate. Qed.
