(* C03 — parsers terminate on every input with an error or a well-formed result.
   Theorems for the modelled FASTA and Clustal lexers/parsers (Model/Fasta.v, Model/ClustalParse.v); the other
   parsers are judged on every generated input by the spec oracle only. *)
From Coq Require Import List Arith Bool.
From Coq.Strings Require Import Byte.
Import ListNotations.
From GA.Model Require Import Fasta.
From GA.Model Require ClustalParse.
From GA.Proofs Require Import FastaProofs.
From GA.Proofs Require ClustalParseProofs.

(* the token loop cannot run forever: every Scan that does not report EOF
   consumes at least one byte, so any fuel above the input length yields the
   same token stream (the fuel is a true progress measure) *)
Theorem C03_fasta_lexer_terminates :
  forall inp f, length inp < f -> lex f inp = lex_all inp.
Proof. exact fasta_lex_terminates. Qed.
Print Assumptions C03_fasta_lexer_terminates.

Theorem C03_fasta_scan_progress :
  forall l t r, scan l = (t, r) -> t <> TEof -> length r < length l.
Proof. exact scan_shrinks. Qed.
Print Assumptions C03_fasta_scan_progress.

(* for EVERY byte string the modelled parser returns either an error or at
   least one row, and no row with an empty sequence (the parser is a total
   function: there is no third outcome) *)
Theorem C03_fasta_error_or_wellformed :
  forall inp, parse inp = RErr \/
              exists rows, parse inp = ROk rows /\ rows <> [] /\ forall r, In r rows -> snd r <> [].
Proof.
  intros inp. destruct (parse inp) as [rows|] eqn:E; [right|left; reflexivity].
  exists rows. split; [reflexivity|]. apply (fasta_parse_wellformed inp rows E).
Qed.
Print Assumptions C03_fasta_error_or_wellformed.

(* ---- Clustal (Model/ClustalParse.v: lexer with NUL / CR handling, one-token push-back, the block loop) ---- *)
(* every Scan that does not report EOF consumes at least one byte; any fuel above the input length gives the same
   token stream *)
Theorem C03_clustal_scan_progress :
  forall l t r, ClustalParse.scan l = (t, r) -> t <> ClustalParse.TEof -> length r < length l.
Proof. exact ClustalParseProofs.scan_shrinks. Qed.
Print Assumptions C03_clustal_scan_progress.

Theorem C03_clustal_lexer_terminates :
  forall inp f, length inp < f -> ClustalParse.lex f inp = ClustalParse.lex_all inp.
Proof. exact ClustalParseProofs.clustal_lex_terminates. Qed.
Print Assumptions C03_clustal_lexer_terminates.

(* every turn of the parser's loop consumes a token: any fuel above the number of tokens gives the same outcome *)
Theorem C03_clustal_parser_terminates :
  forall ts f, length ts < f ->
  ClustalParse.ploop f ts [] 0 0 0 = ClustalParse.ploop (S (length ts)) ts [] 0 0 0.
Proof. exact ClustalParseProofs.clustal_parser_fuel. Qed.
Print Assumptions C03_clustal_parser_terminates.

(* for EVERY byte string the modelled Clustal parser returns an error or at least one row, every row with a non-empty
   name and a non-empty sequence *)
Theorem C03_clustal_error_or_wellformed :
  forall inp, ClustalParse.parse inp = ClustalParse.RErr \/
              exists rows, ClustalParse.parse inp = ClustalParse.ROk rows /\ rows <> [] /\
                           forall r, In r rows -> fst r <> [] /\ snd r <> [].
Proof.
  intros inp. destruct (ClustalParse.parse inp) as [rows|] eqn:E; [right|left; reflexivity].
  exists rows. split; [reflexivity|]. apply (ClustalParseProofs.clustal_parse_wellformed inp rows E).
Qed.
Print Assumptions C03_clustal_error_or_wellformed.

Example C03_clustal_nonvacuous :
  ClustalParse.parse [x43; x4c; x55; x53; x54; x41; x4c; x0a; x0a; x61; x20; x41; x43; x20; x32; x0a; x20; x2a; x0a] =
    ClustalParse.ROk [([x61], [x41; x43])] /\
  ClustalParse.parse [x43; x4c; x55; x53; x54; x41; x4c; x0a; x0a; x61; x20; x41; x43; x0a] = ClustalParse.RErr.
Proof. split; vm_compute; reflexivity. Qed.

(* Not modelled in this revision: the Phylip, Nexus, Stockholm and
   partition parsers.  Their outcomes (error / well-formed result / end of
   stream, never panic, hang or process exit) are judged on every generated
   input by Corr/C03.v spec_check, each call running in a watchdog-guarded
   child process. *)
Example C03_nonvacuous :
  parse [x3e; x61; x0a] = RErr /\ parse [x3e; x20; x0a] = RErr /\
  parse [x3e; x61; x0a; x41; x43; x0a] = ROk [([x61], [x41; x43])].
Proof. repeat split; vm_compute; reflexivity. Qed.
