(* C19 — queries never modify their input; copies share nothing with the original.
   Only property theorems; proofs are in Proofs/AliasProofs.v. *)
From Coq Require Import List Bool NArith ZArith.
From Coq.Strings Require Import Byte.
Import ListNotations.
From GA.Base Require Import Bytes Align.
From GA.Model Require Import Alias.
From GA.Proofs Require Import AliasProofs.

(* frame: overwriting every residue of objects [ys] leaves every object [xs]
   that lives in other buffers exactly as it was *)
Theorem C19_frame :
  forall h xs ys b, (forall x y, In x xs -> In y ys -> s_buf y <> s_buf x) ->
  view (write_all_objs h ys b) xs = view h xs.
Proof. exact frame. Qed.
Print Assumptions C19_frame.

(* allocation gives buffers that did not exist before and keeps the old ones *)
Theorem C19_allocation_is_fresh :
  forall l h h' os, fresh_all h l = (h', os) ->
  length h <= length h' /\
  (forall k, k < length h -> nth k h' [] = nth k h []) /\
  (forall o, In o os -> length h <= s_buf o < length h') /\
  view h' os = l.
Proof. exact fresh_all_spec. Qed.
Print Assumptions C19_allocation_is_fresh.

(* Clone, SubAlign, SelectSites, Transpose, BuildBootstrap/Unalign/Consensus
   (fresh rows): the source is unchanged by the call, mutating the copy never
   changes the original, and vice versa - for every heap, every source and
   every replacement byte *)
Theorem C19_copies_own_their_data :
  forall h src op h1 res b, copying op = true -> (forall s, In s src -> valid h s) ->
  apply_op h src op = (h1, res) ->
  view h1 src = view h src /\
  view (write_all_objs h1 res b) src = view h src /\
  view (write_all_objs h1 src b) res = view h1 res.
Proof. exact copies_own_their_data. Qed.
Print Assumptions C19_copies_own_their_data.

Theorem C19_queries_are_pure : forall h src, apply_op h src AQuery = (h, []).
Proof. exact queries_are_pure. Qed.
Print Assumptions C19_queries_are_pure.

(* the experiment run by the correspondence, for every alignment *)
Theorem C19_experiment :
  forall rs op, copying op = true ->
  let e := run_experiment rs op in
  e_src_after_call e = rs /\ e_src_after_result_mutated e = rs /\ e_result_after_src_mutated e = e_result e.
Proof. exact experiment_copy. Qed.
Print Assumptions C19_experiment.

Example C19_nonvacuous :
  let rs := [([x61], [x41; x43; x47; x54]); ([x62], [x54; x47; x43; x41])] in
  e_src_after_result_mutated (run_experiment rs (ASubAlign 1 2)) = rs /\
  (* a view (RandSubAlign consecutive) does share: the model shows it *)
  e_src_after_result_mutated (run_experiment rs (AViewWindow 1 2)) =
    [([x61], [x41; x23; x23; x54]); ([x62], [x54; x23; x23; x41])].
Proof. split; vm_compute; reflexivity. Qed.
