(* C15 — masking rewrites exactly the selected residues and nothing else.
   Only property theorems; proofs are in Proofs/MaskProofs.v. *)
From Coq Require Import List Bool NArith ZArith.
From Coq.Strings Require Import Byte.
Import ListNotations.
From GA.Base Require Import Bytes Align.
From GA.Gen Require Import Alpha.
From GA.Model Require Import Mask.
From GA.Proofs Require Import MaskProofs.

(* every residue of every row after Mask: replaced iff inside the window and
   not protected; everything else untouched *)
Theorem C15_mask_pointwise :
  forall start len nogap noref rep refc s i d, i < length s ->
  nth i (mask_row start len nogap noref rep refc s) d =
    if in_window start len i && negb (nogap && beqb (nth i s x2d) GAP) && negb (noref && beqb (nth i s x2d) (refc i))
    then rep i else nth i s x2d.
Proof. exact mask_row_nth. Qed.
Print Assumptions C15_mask_pointwise.

Theorem C15_window :
  forall start len i, in_window start len i = true <-> (start <= Z.of_nat i < start + len)%Z.
Proof. exact in_window_iff. Qed.
Print Assumptions C15_window.

Theorem C15_outside_window_unchanged :
  forall start len nogap noref rep refc s i d,
  i < length s -> ~ (start <= Z.of_nat i < start + len)%Z ->
  nth i (mask_row start len nogap noref rep refc s) d = nth i s x2d.
Proof. exact mask_row_outside. Qed.
Print Assumptions C15_outside_window_unchanged.

Theorem C15_protected_unchanged :
  (forall start len noref rep refc s i d, i < length s -> nth i s x2d = GAP ->
     nth i (mask_row start len true noref rep refc s) d = GAP) /\
  (forall start len nogap rep refc s i d, i < length s -> nth i s x2d = refc i ->
     nth i (mask_row start len nogap true rep refc s) d = nth i s x2d).
Proof. split; [exact mask_row_gap_protected | exact mask_row_ref_protected]. Qed.
Print Assumptions C15_protected_unchanged.

(* names, order, row lengths unchanged; start must be inside [0, L] *)
Theorem C15_frame :
  forall alphabet rs refseq start len mr nogap noref out,
  mask alphabet rs refseq start len mr nogap noref = Some out ->
  map fst out = map fst rs /\
  map (fun r => length (snd r)) out = map (fun r => length (snd r)) rs /\
  (0 <= start <= alen rs)%Z.
Proof. exact mask_frame. Qed.
Print Assumptions C15_frame.

Theorem C15_errors :
  forall alphabet rs refseq start len mr nogap noref,
  mask alphabet rs refseq start len mr nogap noref = None <->
  ((start < 0)%Z \/ (start > alen rs)%Z \/ rep_mode alphabet mr = None \/
   (refseq <> [] /\ noref = true /\ get_row refseq rs = None)).
Proof. exact mask_error_iff. Qed.
Print Assumptions C15_errors.

(* a window extending past the end is truncated rather than failing *)
Theorem C15_overhang :
  forall start len len' nogap noref rep refc s,
  (start + len >= Z.of_nat (length s))%Z -> (start + len' >= Z.of_nat (length s))%Z ->
  mask_row start len nogap noref rep refc s = mask_row start len' nogap noref rep refc s.
Proof. exact mask_row_overhang. Qed.
Print Assumptions C15_overhang.

(* MAJ: the replacement is a most frequent (ASCII) byte of the column *)
Theorem C15_majority_replacement :
  forall rep0 col,
  (forall c, In c ascii130 -> countb c col <= countb (maj_byte rep0 col) col \/
                              (maj_byte rep0 col = rep0 /\ countb c col = 0)) /\
  (maj_byte rep0 col = rep0 \/ (In (maj_byte rep0 col) ascii130 /\ 0 < countb (maj_byte rep0 col) col)).
Proof. exact maj_byte_spec. Qed.
Print Assumptions C15_majority_replacement.

(* MaskOccurences / MaskUnique *)
Theorem C15_occurrences_pointwise :
  forall alphabet rs refseq maxocc mr out,
  mask_occurences alphabet rs refseq maxocc mr = Some out ->
  exists mode refrow,
    rep_mode alphabet mr = Some mode /\
    (match refseq with [] => Some [] | _ => get_row refseq rs end) = Some refrow /\
    let reps := occ_reps mode refseq refrow rs (seq 0 (width rs)) x2e in
    map fst out = map fst rs /\
    forall k r, nth_error rs k = Some r ->
      exists r', nth_error out k = Some r' /\ fst r' = fst r /\ length (snd r') = length (snd r) /\
      forall i d, i < length (snd r) ->
        nth i (snd r') d = if occ_masked refseq refrow rs maxocc reps i r then nth i reps x2e else nth i (snd r) x2d.
Proof. exact mask_occurences_spec. Qed.
Print Assumptions C15_occurrences_pointwise.

Theorem C15_rare_residue :
  forall refseq refrow rs maxocc reps i r,
  occ_masked refseq refrow rs maxocc reps i r = true <->
  (counted refseq refrow i r = true /\
   (0 < Z.of_nat (countb (nth i (snd r) x2d) (counted_col refseq refrow rs i)) <= maxocc)%Z /\
   nth i (snd r) x2d <> nth i reps x2e /\ nth i (snd r) x2d <> GAP).
Proof. exact occ_masked_iff. Qed.
Print Assumptions C15_rare_residue.

Example C15_nonvacuous :
  let rs := [([x61], [x41; x43; x2d; x47]); ([x62], [x41; x54; x54; x47]); ([x63], [x43; x54; x54; x2d])] in
  mask NUCLEOTIDS rs [x61] 1 10 [] true true =
    Some [([x61], [x41; x43; x2d; x47]); ([x62], [x41; x4e; x4e; x47]); ([x63], [x43; x4e; x4e; x2d])] /\
  mask_unique NUCLEOTIDS rs [] [] =
    Some [([x61], [x41; x4e; x2d; x47]); ([x62], [x41; x54; x54; x47]); ([x63], [x4e; x54; x54; x2d])].
Proof. split; vm_compute; reflexivity. Qed.
