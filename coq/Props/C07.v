(* C07 — nucleotide distances equal the published estimators and form sane matrices.
   Only property theorems; proofs are in Proofs/DnaProofs.v.  Real-number
   theorems depend on the axioms of Coq's standard library of reals (listed by
   Print Assumptions). *)
From Coq Require Import Reals List Bool ZArith QArith.
Import ListNotations.
From GA.Model Require Import DnaCount DnaDist.
From GA.Proofs Require Import DnaProofs GammaProofs.
Local Open Scope R_scope.

(* the K80 formula as arranged in the code is the published one *)
Theorem C07_k2p_is_published_formula :
  forall P Q, 0 < 1 - 2 * P - Q -> 0 < 1 - 2 * Q ->
  k2p P Q = - (1/2) * ln ((1 - 2 * P - Q) * sqrt (1 - 2 * Q)).
Proof. exact k2p_textbook. Qed.
Print Assumptions C07_k2p_is_published_formula.

(* JC69 is F81 with uniform base frequencies (b1 = 3/4) *)
Theorem C07_jc_is_uniform_f81 : forall p, jc p = f81 (3/4) p.
Proof. exact jc_is_f81_uniform. Qed.
Print Assumptions C07_jc_is_uniform_f81.

(* two rows with no counted difference are at distance 0 *)
Theorem C07_identical_zero :
  jc 0 = 0 /\ k2p 0 0 = 0 /\ (forall b1, b1 <> 0 -> f81 b1 0 = 0) /\
  (forall a b c, a <> 0 -> c <> 0 -> f84 a b c 0 0 = 0) /\ (forall a, a <> 0 -> jc_gamma a 0 = 0).
Proof. repeat split; [exact jc_zero | exact k2p_zero | exact f81_zero | exact f84_zero | exact jc_gamma_zero]. Qed.
Print Assumptions C07_identical_zero.

(* every finite corrected distance is at least the observed proportion of differing sites *)
Theorem C07_jc_at_least_p : forall p, 0 <= p < 3/4 -> p <= jc p.
Proof. exact jc_ge_p. Qed.
Print Assumptions C07_jc_at_least_p.

Theorem C07_f81_at_least_p : forall b1 p, 0 < b1 -> 0 <= p < b1 -> p <= f81 b1 p.
Proof. exact f81_ge_p. Qed.
Print Assumptions C07_f81_at_least_p.

Theorem C07_k2p_at_least_p :
  forall P Q, 0 <= P -> 0 <= Q -> 0 < 1 - 2 * P - Q -> 0 < 1 - 2 * Q -> P + Q <= k2p P Q.
Proof. exact k2p_ge_p. Qed.
Print Assumptions C07_k2p_at_least_p.

(* the pairwise counter is symmetric, and counts nothing between identical rows *)
Theorem C07_counts_symmetric :
  forall s1 s2 sel ws rm, count_diffs s1 s2 sel ws rm = count_diffs s2 s1 sel ws rm.
Proof. exact count_diffs_sym. Qed.
Print Assumptions C07_counts_symmetric.

Theorem C07_counts_identical :
  forall s sel ws rm, (fst (count_diffs s s sel ws rm) == 0)%Q.
Proof. intros. apply count_diffs_from_refl. Qed.
Print Assumptions C07_counts_identical.

(* The same inequality for the gamma-corrected variants and for F84 / TN93 (over the reals, for every
   admissible argument): a corrected distance is never below the observed proportion of differences.
   a (x^(-1/a) - 1) >= - ln x >= 1 - x does all the work. *)
Theorem C07_gamma_at_least_plain :
  (forall a p, 0 < a -> p < 3/4 -> jc p <= jc_gamma a p) /\
  (forall b1 a p, 0 < b1 -> 0 < a -> p < b1 -> f81 b1 p <= f81_gamma b1 a p) /\
  (forall a P Q, 0 < a -> 0 < 1 - 2 * P - Q -> 0 < 1 - 2 * Q -> k2p P Q <= k2p_gamma a P Q).
Proof. split; [exact jc_gamma_ge_jc | split; [exact f81_gamma_ge_f81 | exact k2p_gamma_ge_k2p]]. Qed.
Print Assumptions C07_gamma_at_least_plain.

Theorem C07_gamma_at_least_p :
  (forall a p, 0 < a -> 0 <= p < 3/4 -> p <= jc_gamma a p) /\
  (forall b1 a p, 0 < b1 -> 0 < a -> 0 <= p < b1 -> p <= f81_gamma b1 a p) /\
  (forall a P Q, 0 < a -> 0 <= P -> 0 <= Q -> 0 < 1 - 2 * P - Q -> 0 < 1 - 2 * Q -> P + Q <= k2p_gamma a P Q).
Proof. split; [exact jc_gamma_ge_p | split; [exact f81_gamma_ge_p | exact k2p_gamma_ge_p]]. Qed.
Print Assumptions C07_gamma_at_least_p.

(* F84 (a, b, c computed from the base frequencies; a - b - c <= 0 holds for every positive frequency
   vector summing to 1) and its gamma variant *)
Theorem C07_f84_at_least_p :
  forall a b c P Q,
  0 < a -> 0 < c -> a - b - c <= 0 ->
  0 < 1 - P / (2 * a) - (a - b) * Q / (2 * a * c) -> 0 < 1 - Q / (2 * c) ->
  P + Q <= f84 a b c P Q /\ (forall al, 0 < al -> P + Q <= f84_gamma al a b c P Q).
Proof.
  intros a b c P Q Ha Hc Habc H1 H2. split; [apply f84_ge_p; assumption|].
  intros al Hal. apply f84_gamma_ge_p; assumption.
Qed.
Print Assumptions C07_f84_at_least_p.

Theorem C07_f84_coefficient :
  forall pa pc pg pt, 0 < pa -> 0 < pc -> 0 < pg -> 0 < pt -> pa + pc + pg + pt = 1 ->
  f84_a pa pc pg pt - f84_b pa pc pg pt - f84_c pa pc pg pt <= 0.
Proof. exact f84_coeff_nonpos. Qed.
Print Assumptions C07_f84_coefficient.

(* TN93 and its gamma variant: Q transversions, p1 / p2 the two kinds of transitions *)
Theorem C07_tn93_at_least_p :
  forall pa pc pg pt Q p1 p2,
  0 < pa -> 0 < pc -> 0 < pg -> 0 < pt -> pa + pc + pg + pt = 1 ->
  0 < 1 - Q / (2 * (pc + pt) * (pa + pg)) ->
  0 < 1 - Q / (2 * (pa + pg)) - (pa + pg) * p1 / (2 * (pa * pg)) ->
  0 < 1 - Q / (2 * (pc + pt)) - (pc + pt) * p2 / (2 * (pc * pt)) ->
  Q + p1 + p2 <= tn93 pa pc pg pt Q p1 p2 /\
  (forall al, 0 < al -> Q + p1 + p2 <= tn93_gamma al pa pc pg pt Q p1 p2).
Proof.
  intros pa pc pg pt Q p1 p2 Ha Hc Hg Ht Hs H1 H2 H3. split; [apply tn93_ge_p; assumption|].
  intros al Hal. apply tn93_gamma_ge_p; assumption.
Qed.
Print Assumptions C07_tn93_at_least_p.

Example C07_nonvacuous :
  count_diffs [1; 2; 4; 8; 0]%Z [1; 2; 8; 5; 1]%Z [true; true; true; true; true] None false = (2 # 1, 4 # 1)%Q.
Proof. vm_compute. reflexivity. Qed.

(* the "internal gaps only" counter treats both rows alike (running accumulators of the two
   trailing gap runs included): the raw and p-distance matrices of that mode are symmetric *)
Theorem C07_internal_gap_counter_symmetric : forall s1 s2 ws rm,
  (fst (count_diffs_internal s1 s2 ws rm) == fst (count_diffs_internal s2 s1 ws rm))%Q /\
  (snd (count_diffs_internal s1 s2 ws rm) == snd (count_diffs_internal s2 s1 ws rm))%Q.
Proof. exact count_diffs_internal_sym. Qed.
Print Assumptions C07_internal_gap_counter_symmetric.

(* the running accumulators of that counter (leading flags, the two trailing-run accumulators, the final
   subtraction of the larger one) against its definition by columns: a FINITE statement, by exhaustive
   evaluation in the kernel - every pair of rows of equal length 1..4 over the codes A, C, R, N and gap,
   with and without removal of ambiguous matches, and every pair of rows of length 5 over A, R, gap with
   dyadic weights *)
Theorem C07_internal_gap_counter_is_its_column_definition_small :
  (forall n s1 s2 rm, In n [1; 2; 3; 4]%nat -> In s1 (zwords n codes5) -> In s2 (zwords n codes5) ->
     (fst (count_diffs_internal s1 s2 None rm) == fst (count_diffs_internal_spec s1 s2 None rm))%Q /\
     (snd (count_diffs_internal s1 s2 None rm) == snd (count_diffs_internal_spec s1 s2 None rm))%Q) /\
  (forall s1 s2 rm, In s1 (zwords 5 codes3) -> In s2 (zwords 5 codes3) ->
     (fst (count_diffs_internal s1 s2 weights5 rm) == fst (count_diffs_internal_spec s1 s2 weights5 rm))%Q /\
     (snd (count_diffs_internal s1 s2 weights5 rm) == snd (count_diffs_internal_spec s1 s2 weights5 rm))%Q).
Proof. exact internal_counter_is_column_spec_small. Qed.
Print Assumptions C07_internal_gap_counter_is_its_column_definition_small.
