(* C14 — column statistics and consensus match definitions and are deterministic.
   Only property theorems; proofs are in Proofs/StatsProofs.v. *)
From Coq Require Import List Bool NArith ZArith.
From Coq.Strings Require Import Byte.
Import ListNotations.
From GA.Base Require Import Bytes Case Align.
From GA.Gen Require Import Alpha Iupac.
From Coq Require Import Reals Permutation.
From GA.Model Require Import Stats Entropy.
From GA.Proofs Require Import StatsProofs EntropyProofs.

(* case-folded counts: exactly the upper-cased characters that occur, each with its count *)
Theorem C14_counts :
  forall l k n, In (k, n) (upper_counts l) <-> (In k ascii130 /\ n = countb k (map to_upper l) /\ 0 < n).
Proof. exact upper_counts_spec. Qed.
Print Assumptions C14_counts.

Theorem C14_counts_one_entry_per_character : forall l, NoDup (map fst (upper_counts l)).
Proof. exact upper_counts_keys_nodup. Qed.
Print Assumptions C14_counts_one_entry_per_character.

(* majority / consensus character of a site.  The model is a function of the
   column (keys visited in increasing order), hence every call returns the
   same answer; it returns a most frequent non-excluded character with its
   count and the total of non-excluded characters, or the fallback *)
Theorem C14_majority :
  forall alphabet ig ins col,
  let '(out, occ, tot) := max_char_site alphabet ig ins col in
  tot = sum_kept alphabet ig ins (upper_counts col) /\
  ((forall kv, In kv (upper_counts col) -> mc_excluded alphabet ig ins (fst kv) = true) /\
     out = match col with b :: _ => to_upper b | [] => x00 end /\ occ = length col
   \/
   (In (out, occ) (upper_counts col) /\ mc_excluded alphabet ig ins out = false /\
    forall kv, In kv (upper_counts col) -> mc_excluded alphabet ig ins (fst kv) = false -> snd kv <= occ)).
Proof. exact max_char_site_spec. Qed.
Print Assumptions C14_majority.

(* a site index outside the alignment is an error *)
Theorem C14_site_range :
  forall rs site,
  (char_stats_site rs site = None <-> ~ (0 <= site < alen rs)%Z) /\
  (forall rg, entropy_counts rs site rg = None <-> ~ (0 <= site < alen rs)%Z).
Proof. intros rs site. split; [apply char_stats_site_error | intros rg; apply entropy_error]. Qed.
Print Assumptions C14_site_range.

(* IUPAC compatibility is symmetric and means: identical codes or intersecting base sets *)
Theorem C14_compatible :
  (forall a b, equal_or_compatible a b = equal_or_compatible b a) /\
  (forall a b, (0 <= a <= 15)%Z -> (0 <= b <= 15)%Z ->
     equal_or_compatible a b = Some true <-> (a = b \/ Z.land a b <> 0%Z)).
Proof. split; [exact equal_or_compatible_sym | exact equal_or_compatible_sem]. Qed.
Print Assumptions C14_compatible.

(* ---- lists of mutations relative to a reference (ListMutationsComparedToReferenceSequence, nucleotide-wise
   loop; [cols] holds, per column, the sequence's character, the reference's character and whether the
   two are equal or IUPAC-compatible) *)

(* the residues facing the gaps of the reference are exactly the residues reported as insertions, in
   order, whatever their grouping: nothing lost, nothing reported twice *)
Theorem C14_insertions_conserve_residues :
  forall all cols refi,
  flat_map m_alt (filter is_insertion (list_mut_loop all cols [] refi)) =
  map (fun c => fst (fst c)) (filter (fun c => beqb (snd (fst c)) GAP && negb (beqb (fst (fst c)) GAP)) cols).
Proof. intros all cols refi. exact (insertions_conserve_residues all cols [] refi). Qed.
Print Assumptions C14_insertions_conserve_residues.

(* the other entries are exactly the reference residues whose facing character is neither the wildcard nor
   equal / compatible, each at its coordinate on the ungapped reference *)
Theorem C14_substitutions_are_the_incompatible_residues :
  forall all cols refi,
  filter (fun m => negb (is_insertion m)) (list_mut_loop all cols [] refi) = subst_spec all cols refi.
Proof. intros all cols refi. exact (substitutions_are_the_incompatible_residues all cols [] refi). Qed.
Print Assumptions C14_substitutions_are_the_incompatible_residues.

Theorem C14_mutation_positions_non_decreasing :
  forall all cols refi, pos_sorted refi (list_mut_loop all cols [] refi) = true.
Proof. intros all cols refi. exact (positions_non_decreasing all cols [] refi). Qed.
Print Assumptions C14_mutation_positions_non_decreasing.

(* count and list agree (protein / unknown alphabets): the count is the number of listed substitutions by a
   residue plus the number of inserted residues other than the wildcard *)
Theorem C14_count_is_list_protein :
  forall alphabet ref s,
  Z.eqb alphabet NUCLEOTIDS = false -> length ref = length s ->
  exists l, list_mutations_vs_ref alphabet ref s = Some l /\
    num_mutations_vs_ref alphabet ref s =
      Some (length (filter (fun m => negb (is_insertion m) && negb (bytes_eqb (m_alt m) [GAP])) l) +
            length (filter (fun b => negb (beqb b ALL_AMINO)) (flat_map m_alt (filter is_insertion l)))).
Proof. exact count_is_list_aa. Qed.
Print Assumptions C14_count_is_list_protein.

(* ---- entropy of a site (over the reals, from the positive counts of the kinds of characters) ------- *)
(* the value does not depend on the order in which the kinds are visited: an implementation that sums in
   map-iteration order returns order-dependent roundings of ONE real number and must fix the order to be
   deterministic (the repaired Entropy does) *)
Theorem C14_entropy_order_independent :
  forall l l', Permutation l l' -> entropy_of l = entropy_of l'.
Proof. exact entropy_order_independent. Qed.
Print Assumptions C14_entropy_order_independent.

Theorem C14_entropy_nonneg :
  forall l, Forall (fun c => (0 < c)%Z) l -> (0 <= entropy_of l)%R.
Proof. exact entropy_nonneg. Qed.
Print Assumptions C14_entropy_nonneg.

Theorem C14_entropy_single_kind : forall c, (0 < c)%Z -> entropy_of [c] = 0%R.
Proof. exact entropy_single. Qed.
Print Assumptions C14_entropy_single_kind.

(* Entropy values and sampled PSSM entries are certified per case against entropy_of / Model/Pssm.v by the
   interval tactic (Corr/C14Cert.v); the remaining statistics are
   tied to the code by the correspondence and judged against their naive definitions by Corr/C14.v
   spec_check. *)

Example C14_nonvacuous :
  max_char_site NUCLEOTIDS true false [x41; x61; x2d; x2d; x2d; x43] = (x41, 2, 3) /\
  max_char_site NUCLEOTIDS false false [x43; x41; x61; x63] = (x41, 2, 4) /\
  num_mutations_vs_ref NUCLEOTIDS [x41; x43; x2d; x52] [x41; x54; x47; x41] = Some 2 /\
  list_mutations_vs_ref NUCLEOTIDS [x41; x2d; x2d; x43; x2d; x47] [x41; x54; x54; x2d; x41; x41] =
    Some [(x2d, 1%Z, [x54; x54]); (x43, 1%Z, [x2d]); (x2d, 2%Z, [x41]); (x47, 2%Z, [x41])].
Proof. repeat split; vm_compute; reflexivity. Qed.
