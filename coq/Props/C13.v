(* C13 — de-duplication and site compression lose nothing but redundancy.
   Only property theorems; proofs are in Proofs/DedupProofs.v. *)
From Coq Require Import List Bool NArith ZArith Sorted Permutation.
From Coq.Strings Require Import Byte.
Import ListNotations.
From GA.Base Require Import Bytes Align Sort.
From GA.Gen Require Import Alpha.
From GA.Model Require Import Dedup.
From GA.Proofs Require Import DedupProofs.

(* Deduplicate keeps, in original order, exactly the first occurrence of every
   distinct comparison key; the groups have one head per kept row (its name)
   and together are a permutation of the input names *)
Theorem C13_dedup :
  forall alphabet nag rs,
  let '(kept, groups) := deduplicate alphabet nag rs in
  kept = firsts alphabet nag [] rs /\
  NoDup (map (fun r => compare_key alphabet nag (snd r)) kept) /\
  length groups = length kept /\
  map (hd []) groups = map fst kept /\
  Permutation (concat groups) (map fst rs).
Proof. exact deduplicate_spec. Qed.
Print Assumptions C13_dedup.

(* "first occurrence": every kept row is an input row whose key was not seen
   before, and every input row's key is represented among the kept rows *)
Theorem C13_first_occurrences :
  forall alphabet nag rs,
  (forall r, In r (firsts alphabet nag [] rs) -> In r rs) /\
  (forall r, In r rs -> exists r', In r' (firsts alphabet nag [] rs) /\
                                   compare_key alphabet nag (snd r') = compare_key alphabet nag (snd r)).
Proof.
  intros alphabet nag rs. split.
  - intros r H. apply (firsts_In alphabet nag [] rs r H).
  - intros r H. destruct (firsts_covers alphabet nag [] rs r H) as [M|M]; [discriminate M | exact M].
Qed.
Print Assumptions C13_first_occurrences.

Theorem C13_dedup_idempotent :
  forall alphabet nag rs,
  fst (deduplicate alphabet nag (fst (deduplicate alphabet nag rs))) = fst (deduplicate alphabet nag rs).
Proof. exact deduplicate_idempotent. Qed.
Print Assumptions C13_dedup_idempotent.

(* Compress: pairwise distinct patterns (exactly the distinct input columns,
   in bytewise order), integer weights = exact multiplicities, summing to L *)
Theorem C13_compress :
  forall rs,
  let '(weights, out) := compress rs in
  let cols := columns rs in
  let pats := patterns cols in
  NoDup pats /\ (forall p, In p pats <-> In p cols) /\ Sorted lex_le pats /\
  weights = map (count_occ bytes_dec cols) pats /\
  fold_right Nat.add 0 weights = length cols /\
  map fst out = map fst rs /\
  (forall r, In r out -> length (snd r) = length pats).
Proof. exact compress_spec. Qed.
Print Assumptions C13_compress.

(* any column-additive statistic (a sum over columns of any integer-valued f)
   is preserved by the weighted patterns *)
Theorem C13_additive :
  forall (f : list byte -> Z) cols, sumf f cols = wsum f cols (patterns cols).
Proof. exact compress_additive. Qed.
Print Assumptions C13_additive.

Example C13_nonvacuous :
  let rs := [([x61], [x41; x43; x41; x2d]); ([x62], [x41; x47; x41; x2d]); ([x63], [x41; x43; x41; x2d])] in
  deduplicate NUCLEOTIDS false rs =
    ([([x61], [x41; x43; x41; x2d]); ([x62], [x41; x47; x41; x2d])], [[[x61]; [x63]]; [[x62]]]) /\
  fst (compress rs) = [1; 2; 1].
Proof. split; vm_compute; reflexivity. Qed.

(* [columns] (computed by peeling the rows) is the list of the alignment's columns *)
Theorem C13_columns_are_the_columns :
  forall rs, columns rs = map (column rs) (seq 0 (width rs)).
Proof. exact columns_spec. Qed.
Print Assumptions C13_columns_are_the_columns.
