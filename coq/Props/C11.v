(* C11 — the command line is reproducible: same input, flags and seed, same bytes.
   Only property theorems; proofs are in Proofs/CliProofs.v. In the model a
   command is a function of its input, its flags and the raw tape of the single
   seeded source, so "same seed, same bytes" holds by construction; the theorems
   below are the relations BETWEEN commands that the property states. *)
From Coq Require Import List Bool NArith ZArith QArith.
From Coq.Strings Require Import Byte.
Import ListNotations.
From GA.Base Require Import Bytes Align Tape.
From GA.Model Require Import Random Fasta Cli.
From GA.Proofs Require Import FastaProofs CliProofs.

(* the distance matrices of seeded bootstrap alignments are the bootstrap distance matrices produced
   directly with the same seed, for every distance function, replicate count, fraction and tape *)
Theorem C11_distboot_is_seqboot_then_distance :
  forall (M : Type) (dist : rows -> M) n frac rs t,
  distboot dist n frac rs t =
  match seqboot n frac false rs t with
  | Some (bs, t') => Some (map dist bs, t')
  | None => None
  end.
Proof. intros M. exact (@distboot_is_seqboot_then_distance M). Qed.
Print Assumptions C11_distboot_is_seqboot_then_distance.

(* the first n replicates of a seed do not depend on how many more are requested *)
Theorem C11_replicates_are_a_prefix : forall n m frac shuffle rs t,
  seqboot (n + m) frac shuffle rs t =
  match seqboot n frac shuffle rs t with
  | Some (bs, t') => match seqboot m frac shuffle rs t' with
                     | Some (bs', t'') => Some (bs ++ bs', t'')
                     | None => None
                     end
  | None => None
  end.
Proof. exact seqboot_prefix. Qed.
Print Assumptions C11_replicates_are_a_prefix.

(* reformatting a FASTA file written by goalign returns the same bytes, also through another line width *)
Theorem C11_reformat_fasta_fixpoint : forall w a, (0 < w)%nat -> a <> [] -> representable a = true ->
  reformat_fasta w (write w a) = Some (write w a).
Proof. exact reformat_fasta_fixpoint. Qed.
Print Assumptions C11_reformat_fasta_fixpoint.

Theorem C11_reformat_fasta_chain : forall w w' a, (0 < w)%nat -> (0 < w')%nat -> a <> [] -> representable a = true ->
  match reformat_fasta w' (write w a) with
  | Some f => reformat_fasta w f
  | None => None
  end = Some (write w a).
Proof. exact reformat_fasta_chain. Qed.
Print Assumptions C11_reformat_fasta_chain.

(* Stated, not proved: independence from --threads (the distance pool's schedule independence is
   C08's theorem; every other command draws in the main goroutine), reformat chains through Phylip,
   Nexus and Clustal, determinism of map-ordered outputs. These are judged on the freshly built
   binary by Corr/C11.v. *)
