(* C10 — randomised operations keep invariants, reach all outcomes, replay from seed.
   Every randomised operation is modelled as a function of a raw tape of Int63
   values (Base/Tape.v): "for all seeds" is "for all tapes", support claims are
   "there is a tape", replay is functional dependence on the tape.
   Only property theorems; proofs are in Proofs/RandomProofs.v. *)
From Coq Require Import List Bool NArith ZArith QArith Permutation.
From Coq.Strings Require Import Byte.
Import ListNotations.
From GA.Base Require Import Bytes Align Tape.
From GA.Gen Require Import Alpha.
From GA.Model Require Import Random.
From GA.Proofs Require Import RandomProofs RandomOpsProofs.
Local Open Scope Z_scope.

(* Intn(n) over any tape of non-negative raw values lies in [0, n) *)
Theorem C10_intn_range :
  forall n t v r, 0 < n -> tape_ok t -> intn n t = Some (v, r) -> 0 <= v < n.
Proof. exact intn_range. Qed.
Print Assumptions C10_intn_range.

(* ... and every value of [0, n) has a raw value producing it: all outcomes are reachable *)
Theorem C10_intn_support :
  forall n k t, 0 <= k < n -> n <= 2 ^ 31 - 1 -> intn n (k * 2 ^ 32 :: t) = Some (k, t).
Proof. exact intn_support. Qed.
Print Assumptions C10_intn_support.

(* every bootstrap column is an original column taken for all rows at once;
   the output has floor(frac*L) columns *)
Theorem C10_bootstrap :
  forall frac rs t idx out r, 0 < alen rs -> tape_ok t ->
  build_bootstrap frac rs t = Some ((idx, out), r) ->
  Z.of_nat (length idx) = Z.max 0 (scale (norm_frac frac) (alen rs)) /\
  Forall (fun v => 0 <= v < alen rs) idx /\
  out = map (fun row => (fst row, map (fun j => nth (Z.to_nat j) (snd row) x00) idx)) rs.
Proof. exact bootstrap_spec. Qed.
Print Assumptions C10_bootstrap.

(* each site can be bootstrapped *)
Theorem C10_bootstrap_support :
  forall rs k m, 0 <= k < alen rs -> alen rs <= 2 ^ 31 - 1 ->
  exists t idx, draw_n (S m) (alen rs) t = Some (k :: idx, []).
Proof. exact bootstrap_support. Qed.
Print Assumptions C10_bootstrap_support.

(* site sampling, contiguous mode: a window of the requested length that starts
   inside [0, L - len] ... *)
Theorem C10_window :
  forall len rs t out r, tape_ok t -> rand_sub_align len true rs t = Some (Some out, r) ->
  0 < len <= alen rs /\
  exists start, 0 <= start <= alen rs - len /\
    out = map (fun row => (fst row, firstn (Z.to_nat len) (skipn (Z.to_nat start) (snd row)))) rs.
Proof. exact window_spec. Qed.
Print Assumptions C10_window.

(* ... and every window offset, including the last one L - len, is chosen by some tape *)
Theorem C10_window_support :
  forall len rs o, 0 < len <= alen rs -> alen rs <= 2 ^ 31 - 2 -> 0 <= o <= alen rs - len ->
  rand_sub_align len true rs [o * 2 ^ 32] =
    Some (Some (map (fun row => (fst row, firstn (Z.to_nat len) (skipn (Z.to_nat o) (snd row)))) rs), []).
Proof. exact window_support. Qed.
Print Assumptions C10_window_support.

(* re-running with the same seed (tape) reproduces the result exactly *)
Theorem C10_replay :
  forall A (op : tape -> option (A * tape)) t1 t2, t1 = t2 -> op t1 = op t2.
Proof. exact @replay_deterministic. Qed.
Print Assumptions C10_replay.

(* ShuffleSequences only re-orders the rows, whatever the tape *)
Theorem C10_shuffle_is_row_permutation :
  forall rs t out r, tape_ok t -> shuffle_sequences rs t = Some (out, r) -> Permutation.Permutation out rs.
Proof. exact shuffle_is_row_permutation. Qed.
Print Assumptions C10_shuffle_is_row_permutation.

(* ---- the editing operations, for EVERY tape (Proofs/RandomOpsProofs.v) ------------------------------- *)
(* names, number of rows and row lengths never change *)
Theorem C10_edits_keep_shape :
  (forall rate roguerate roguefirst rs t out rogues r,
     shuffle_sites rate roguerate roguefirst rs t = Some ((out, rogues), r) -> shape out = shape rs) /\
  (forall rate pos rs t out r, swap rate pos rs t = Some (out, r) -> shape out = shape rs) /\
  (forall prop lenprop sw rs t out r, recombine prop lenprop sw rs t = Some (out, r) -> shape out = shape rs) /\
  (forall lenprop prop rs t out r, add_gaps lenprop prop rs t = Some (out, r) -> shape out = shape rs) /\
  (forall alphabet rate rs t out r, mutate alphabet rate rs t = Some (out, r) -> shape out = shape rs).
Proof.
  exact (conj shuffle_sites_keeps_shape (conj swap_keeps_shape (conj recombine_keeps_shape
          (conj add_gaps_keeps_shape mutate_keeps_shape)))).
Qed.
Print Assumptions C10_edits_keep_shape.

(* site shuffling (with rogues) permutes characters within columns only: every column of the result is a
   permutation of the same column of the input *)
Theorem C10_shuffle_sites_permutes_within_columns :
  forall L rate roguerate roguefirst rs t out rogues r,
  tape_ok t -> rect L rs -> 0 < alen rs ->
  shuffle_sites rate roguerate roguefirst rs t = Some ((out, rogues), r) ->
  shape out = shape rs /\ forall j, Permutation.Permutation (col out j) (col rs j).
Proof. exact shuffle_sites_keeps_columns. Qed.
Print Assumptions C10_shuffle_sites_permutes_within_columns.

(* swaps preserve every column's character multiset *)
Theorem C10_swap_preserves_column_multisets :
  forall L rate pos rs t out r,
  tape_ok t -> rect L rs -> swap rate pos rs t = Some (out, r) ->
  shape out = shape rs /\ forall j, Permutation.Permutation (col out j) (col rs j).
Proof. exact swap_keeps_columns. Qed.
Print Assumptions C10_swap_preserves_column_multisets.

(* recombination only copies residues between rows at the same column *)
Theorem C10_recombine_copies_within_columns :
  forall L prop lenprop sw rs t out r,
  tape_ok t -> rect L rs -> recombine prop lenprop sw rs t = Some (out, r) ->
  shape out = shape rs /\ forall j x, In x (col out j) -> In x (col rs j).
Proof. exact recombine_copies_within_columns. Qed.
Print Assumptions C10_recombine_copies_within_columns.

(* added gaps only turn cells into gaps *)
Theorem C10_add_gaps_only_adds_gaps :
  forall lenprop prop rs t out r, add_gaps lenprop prop rs t = Some (out, r) ->
  forall i j, cell out i j = cell rs i j \/ cell out i j = GAP.
Proof. exact add_gaps_only_adds_gaps. Qed.
Print Assumptions C10_add_gaps_only_adds_gaps.

(* substitutions never touch a gap, '.' or '*' *)
Theorem C10_mutate_keeps_gaps :
  forall alphabet rate rs t out r, mutate alphabet rate rs t = Some (out, r) ->
  forall i j, special_cell (cell rs i j) = true -> cell out i j = cell rs i j.
Proof. exact mutate_keeps_special. Qed.
Print Assumptions C10_mutate_keeps_gaps.

(* Go's rand.Perm (inside-out Fisher-Yates, as modelled) returns a permutation of 0 .. n-1 for every tape *)
Theorem C10_perm_is_a_permutation :
  forall n t p r, tape_ok t -> zperm n t = Some (p, r) -> Permutation.Permutation p (zs (Z.to_nat n)).
Proof. exact zperm_is_permutation. Qed.
Print Assumptions C10_perm_is_a_permutation.

(* sequence sampling draws distinct original rows *)
Theorem C10_sample_draws_distinct_rows :
  forall nb rs t out r, tape_ok t -> sample_rows nb rs t = Some (Some out, r) ->
  exists idx, NoDup idx /\ (forall k, In k idx -> 0 <= k < nrows rs) /\ length idx = Z.to_nat nb /\
              out = map (fun k => nth (Z.to_nat k) rs ([], [])) idx.
Proof. exact sample_rows_distinct. Qed.
Print Assumptions C10_sample_draws_distinct_rows.

(* site sampling, scattered mode, draws distinct columns *)
Theorem C10_site_sampling_draws_distinct_columns :
  forall len rs t out r, tape_ok t -> rand_sub_align len false rs t = Some (Some out, r) ->
  exists idx, NoDup idx /\ (forall k, In k idx -> 0 <= k < alen rs) /\ length idx = Z.to_nat len /\ out = pick_cols rs idx.
Proof. exact rand_sub_align_distinct. Qed.
Print Assumptions C10_site_sampling_draws_distinct_columns.

(* rogue simulation keeps names and row lengths, and the rogue and intact names it reports together are the
   names of the rows, each once (for a proportion of rogues within [0, 1]) *)
Theorem C10_rogue_names_partition_rows :
  forall prop proplen rs t rogue intact out r,
  tape_ok t ->
  0 <= scale (if Qeq_bool proplen 0 then 0%Q else prop) (nrows rs) <= nrows rs ->
  simulate_rogue prop proplen rs t = Some ((rogue, intact, out), r) ->
  Permutation.Permutation (rogue ++ intact) (map fst rs) /\ shape out = shape rs.
Proof.
  intros prop proplen rs t rogue intact out r Ht Hnb H. split;
    [exact (rogue_names_partition_rows prop proplen rs t rogue intact out r Ht Hnb H)
    | exact (simulate_rogue_keeps_shape prop proplen rs t rogue intact out r H)].
Qed.
Print Assumptions C10_rogue_names_partition_rows.

(* substitutions only replace residues (never a gap, '.' or '*') by letters of the alphabet *)
Theorem C10_mutate_substitutes_letters_for_residues :
  forall alphabet rate rs t out r, tape_ok t -> mutate alphabet rate rs t = Some (out, r) ->
  forall i j, cell out i j = cell rs i j \/
              (special_cell (cell rs i j) = false /\ In (cell out i j) (mut_letters alphabet)).
Proof. exact mutate_substitutes_letters_for_residues. Qed.
Print Assumptions C10_mutate_substitutes_letters_for_residues.

(* rogue simulation permutes residues within rows only: every row keeps its residues *)
Theorem C10_rogue_permutes_within_rows :
  forall L prop proplen rs t rogue intact out r,
  tape_ok t -> rect L rs -> rs <> [] ->
  simulate_rogue prop proplen rs t = Some ((rogue, intact, out), r) ->
  shape out = shape rs /\
  forall k, Permutation.Permutation (snd (nth k out ([], []))) (snd (nth k rs ([], []))).
Proof. exact rogue_permutes_within_rows. Qed.
Print Assumptions C10_rogue_permutes_within_rows.

(* Judged per case only (Corr/C10.v spec_check): that the rows left intact by rogue simulation are the ones
   reported intact; distributional statements are support only. *)
Example C10_nonvacuous :
  let rs := [([x61], [x41; x43; x47]); ([x62], [x54; x54; x41])] in
  build_bootstrap 1 rs [2 * 2 ^ 32; 0; 1 * 2 ^ 32] =
    Some (([2; 0; 1], [([x61], [x47; x41; x43]); ([x62], [x41; x54; x54])]), []).
Proof. vm_compute. reflexivity. Qed.
