(* C10 — randomised operations keep invariants, reach all outcomes, replay from seed.
   Every randomised operation is modelled as a function of a raw tape of Int63
   values (Base/Tape.v): "for all seeds" is "for all tapes", support claims are
   "there is a tape", replay is functional dependence on the tape.
   Only property theorems; proofs are in Proofs/RandomProofs.v. *)
From Coq Require Import List Bool NArith ZArith QArith Permutation.
From Coq.Strings Require Import Byte.
Import ListNotations.
From GA.Base Require Import Bytes Align Tape.
From GA.Gen Require Import Alpha.
From GA.Model Require Import Random.
From GA.Proofs Require Import RandomProofs.
Local Open Scope Z_scope.

(* Intn(n) over any tape of non-negative raw values lies in [0, n) *)
Theorem C10_intn_range :
  forall n t v r, 0 < n -> tape_ok t -> intn n t = Some (v, r) -> 0 <= v < n.
Proof. exact intn_range. Qed.
Print Assumptions C10_intn_range.

(* ... and every value of [0, n) has a raw value producing it: all outcomes are reachable *)
Theorem C10_intn_support :
  forall n k t, 0 <= k < n -> n <= 2 ^ 31 - 1 -> intn n (k * 2 ^ 32 :: t) = Some (k, t).
Proof. exact intn_support. Qed.
Print Assumptions C10_intn_support.

(* every bootstrap column is an original column taken for all rows at once;
   the output has floor(frac*L) columns *)
Theorem C10_bootstrap :
  forall frac rs t idx out r, 0 < alen rs -> tape_ok t ->
  build_bootstrap frac rs t = Some ((idx, out), r) ->
  Z.of_nat (length idx) = Z.max 0 (scale (norm_frac frac) (alen rs)) /\
  Forall (fun v => 0 <= v < alen rs) idx /\
  out = map (fun row => (fst row, map (fun j => nth (Z.to_nat j) (snd row) x00) idx)) rs.
Proof. exact bootstrap_spec. Qed.
Print Assumptions C10_bootstrap.

(* each site can be bootstrapped *)
Theorem C10_bootstrap_support :
  forall rs k m, 0 <= k < alen rs -> alen rs <= 2 ^ 31 - 1 ->
  exists t idx, draw_n (S m) (alen rs) t = Some (k :: idx, []).
Proof. exact bootstrap_support. Qed.
Print Assumptions C10_bootstrap_support.

(* site sampling, contiguous mode: a window of the requested length that starts
   inside [0, L - len] ... *)
Theorem C10_window :
  forall len rs t out r, tape_ok t -> rand_sub_align len true rs t = Some (Some out, r) ->
  0 < len <= alen rs /\
  exists start, 0 <= start <= alen rs - len /\
    out = map (fun row => (fst row, firstn (Z.to_nat len) (skipn (Z.to_nat start) (snd row)))) rs.
Proof. exact window_spec. Qed.
Print Assumptions C10_window.

(* ... and every window offset, including the last one L - len, is chosen by some tape *)
Theorem C10_window_support :
  forall len rs o, 0 < len <= alen rs -> alen rs <= 2 ^ 31 - 2 -> 0 <= o <= alen rs - len ->
  rand_sub_align len true rs [o * 2 ^ 32] =
    Some (Some (map (fun row => (fst row, firstn (Z.to_nat len) (skipn (Z.to_nat o) (snd row)))) rs), []).
Proof. exact window_support. Qed.
Print Assumptions C10_window_support.

(* re-running with the same seed (tape) reproduces the result exactly *)
Theorem C10_replay :
  forall A (op : tape -> option (A * tape)) t1 t2, t1 = t2 -> op t1 = op t2.
Proof. exact @replay_deterministic. Qed.
Print Assumptions C10_replay.

(* ShuffleSequences only re-orders the rows, whatever the tape *)
Theorem C10_shuffle_is_row_permutation :
  forall rs t out r, tape_ok t -> shuffle_sequences rs t = Some (out, r) -> Permutation.Permutation out rs.
Proof. exact shuffle_is_row_permutation. Qed.
Print Assumptions C10_shuffle_is_row_permutation.

(* The remaining invariants (column multisets of the site shuffles, rogue partition, gap-only and
   substitution-only edits) are not proved for the model in this revision: the model reproduces the
   code exactly on every generated (seed, operation) pair and Corr/C10.v spec_check judges each
   observed result against the promised invariant (bounded validation). *)
Example C10_nonvacuous :
  let rs := [([x61], [x41; x43; x47]); ([x62], [x54; x54; x41])] in
  build_bootstrap 1 rs [2 * 2 ^ 32; 0; 1 * 2 ^ 32] =
    Some (([2; 0; 1], [([x61], [x47; x41; x43]); ([x62], [x41; x54; x54])]), []).
Proof. vm_compute. reflexivity. Qed.
