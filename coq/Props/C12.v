(* C12 — cleaning removes exactly the sites and sequences that meet the cutoff.
   Only property theorems; proofs are in Proofs/CleanProofs.v. *)
From Coq Require Import List Bool NArith ZArith QArith Sorted Permutation.
From Coq.Strings Require Import Byte.
Import ListNotations.
From GA.Base Require Import Bytes Case Align.
From GA.Gen Require Import Alpha.
From GA.Model Require Import Clean.
From GA.Proofs Require Import CleanProofs.
Local Open Scope nat_scope.

(* the decision: fraction >= cutoff, or count > 0 when the cutoff is 0 *)
Theorem C12_cutoff_rule :
  forall c nb total,
  qualifies c nb total = true <->
  ((0 < c)%Q /\ (c * inject_Z (Z.of_nat total) <= inject_Z (Z.of_nat nb))%Q) \/
  ((c <= 0)%Q /\ (c == 0)%Q /\ 0 < nb).
Proof. exact qualifies_iff. Qed.
Print Assumptions C12_cutoff_rule.

Theorem C12_cutoff_normalised :
  forall c, (0 <= norm_cutoff c <= 1)%Q /\ ((0 <= c <= 1)%Q -> norm_cutoff c = c).
Proof. intros c. split; [apply norm_cutoff_range | apply norm_cutoff_id]. Qed.
Print Assumptions C12_cutoff_normalised.

(* shape of every site-cleaning result, for any per-site decision vector *)
Theorem C12_result_shape :
  forall r0 rs ends quals,
  let '(first, last, kept, rm, out) := clean_with (r0 :: rs) ends quals in
  first = take_while quals /\ last = take_while (rev quals) /\
  kept = filter (fun i => negb (removed_at ends quals i)) (seq 0 (length quals)) /\
  rm = filter (removed_at ends quals) (seq 0 (length quals)) /\
  out = map (fun r => (fst r, map (fun i => nth i (snd r) x2d) kept)) (r0 :: rs).
Proof. exact clean_with_spec. Qed.
Print Assumptions C12_result_shape.

(* a site is removed iff it qualifies (plain mode) *)
Theorem C12_site_iff :
  forall quals i,
  In i (filter (removed_at false quals) (seq 0 (length quals))) <->
  (i < length quals /\ nth i quals false = true).
Proof. exact removed_nonends. Qed.
Print Assumptions C12_site_iff.

(* 'ends' mode: exactly the maximal qualifying prefix and suffix *)
Theorem C12_ends :
  forall quals,
  (forall i, In i (filter (removed_at true quals) (seq 0 (length quals))) <->
     (i < length quals /\ (i < take_while quals \/ length quals - take_while (rev quals) <= i))) /\
  (forall i, i < take_while quals -> nth i quals false = true) /\
  (take_while quals < length quals -> nth (take_while quals) quals false = false) /\
  (forall i, length quals - take_while (rev quals) <= i -> i < length quals -> nth i quals false = true) /\
  (take_while (rev quals) < length quals ->
     nth (length quals - 1 - take_while (rev quals)) quals false = false).
Proof.
  intros quals. split; [apply removed_ends|]. split; [apply take_while_true|].
  split; [apply take_while_maximal|]. split; [apply suffix_run_true | apply suffix_run_maximal].
Qed.
Print Assumptions C12_ends.

(* kept and removed indices partition the original columns, both ascending *)
Theorem C12_partition :
  forall ends quals,
  let kept := filter (fun i => negb (removed_at ends quals i)) (seq 0 (length quals)) in
  let rm := filter (removed_at ends quals) (seq 0 (length quals)) in
  Permutation (kept ++ rm) (seq 0 (length quals)) /\
  StronglySorted lt kept /\ StronglySorted lt rm /\
  (forall i, In i kept -> ~ In i rm).
Proof. exact kept_rm_partition. Qed.
Print Assumptions C12_partition.

(* per-sequence variant *)
Theorem C12_seq_iff :
  forall alphabet rs c cutoff ic ig ins,
  let '(n, keep) := remove_character_seqs alphabet rs c cutoff ic ig ins in
  keep = filter (fun r => negb (seq_qualifies alphabet c (norm_cutoff cutoff) ic ig ins (snd r))) rs /\
  n + length keep = length rs /\
  (forall r, In r keep <-> In r rs /\ seq_qualifies alphabet c (norm_cutoff cutoff) ic ig ins (snd r) = false).
Proof. exact remove_character_seqs_spec. Qed.
Print Assumptions C12_seq_iff.

Example C12_nonvacuous :
  let rs := [([x61], [x2d; x41; x2d; x4e; x2d]); ([x62], [x2d; x43; x43; x4e; x2d])] in
  remove_gap_sites NUCLEOTIDS rs (1 # 2) false =
    (1, 1, [1; 3], [0; 2; 4], [([x61], [x41; x4e]); ([x62], [x43; x4e])]) /\
  remove_gap_sites NUCLEOTIDS rs (1 # 2) true =
    (1, 1, [1; 2; 3], [0; 4], [([x61], [x41; x2d; x4e]); ([x62], [x43; x43; x4e])]).
Proof. split; vm_compute; reflexivity. Qed.
