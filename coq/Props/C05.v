(* C05 — translation follows the genetic code for every codon, frame and
   ambiguity.  Only property theorems; proofs are in Proofs/TranslateProofs.v. *)
From Coq Require Import List Bool NArith ZArith.
From Coq.Strings Require Import Byte.
Import ListNotations.
From GA.Base Require Import Bytes Case.
From GA.Gen Require Import GenCodes Iupac Alpha.
From GA.Spec Require Import IupacSets NCBI.
From GA.Model Require Import Translate.
From GA.Proofs Require Import TranslateProofs ByRefProofs.

(* the three code tables regenerated from /repo are NCBI tables 1, 2, 5 on all
   64 codons, map "---" to '-', and contain nothing else *)
Theorem C05_tables_are_ncbi :
  table_matches 0 standardcode = true /\
  table_matches 1 vertebratemitocode = true /\
  table_matches 2 invertebratemitocode = true /\
  GENETIC_CODE_STANDARD = 0%Z /\ GENETIC_CODE_VETEBRATE_MITO = 1%Z /\ GENETIC_CODE_INVETEBRATE_MITO = 2%Z.
Proof. exact tables_are_ncbi. Qed.
Print Assumptions C05_tables_are_ncbi.

Theorem C05_table_entry :
  forall gc tbl i j k, table_matches gc tbl = true -> i < 4 -> j < 4 -> k < 4 ->
  lassoc [base_of_idx i; base_of_idx j; base_of_idx k] tbl = Some (ncbi_aa gc i j k).
Proof. exact table_entry. Qed.
Print Assumptions C05_table_entry.

(* the IUPAC expansion table of the code is the base-set semantics *)
Theorem C05_iupac_expansion :
  forallb iupac_entry_ok iupac_code = true /\ length iupac_code = 16.
Proof. exact iupac_table_semantic. Qed.
Print Assumptions C05_iupac_expansion.

(* every codon over all 256^3 byte triples, every supported code: the code's
   decision is the spec's (shared amino acid of all expansions / X / gap) *)
Theorem C05_codon :
  forall gc code, genetic_code gc = Some code ->
  forall b1 b2 b3, translate_codon code b1 b2 b3 = spec_codon gc b1 b2 b3.
Proof. exact codon_theorem. Qed.
Print Assumptions C05_codon.

Theorem C05_supported_codes :
  forall gc, (exists code, genetic_code gc = Some code) <-> (gc = 0 \/ gc = 1 \/ gc = 2)%Z.
Proof. exact genetic_code_domain. Qed.
Print Assumptions C05_supported_codes.

(* a sequence over the residue alphabet, any frame: floor((L-frame)/3)
   residues, an error exactly when that is zero, each residue the spec's *)
Theorem C05_sequence_translate :
  forall gc code phase s, genetic_code gc = Some code -> forallb is_residue s = true ->
  (seq_translate gc phase s = None <-> (length s - phase) / 3 = 0) /\
  (forall p, seq_translate gc phase s = Some p ->
     p = spec_translate gc (skipn phase s) /\ length p = (length s - phase) / 3).
Proof.
  intros gc code phase s Hc Hr. apply (seq_translate_spec gc code phase s Hc).
  apply residue_seq_alphabet. exact Hr.
Qed.
Print Assumptions C05_sequence_translate.

Theorem C05_wrong_alphabet_is_error :
  forall gc phase s,
  (Z.eqb (detect_alphabet_seq s) NUCLEOTIDS || Z.eqb (detect_alphabet_seq s) BOTH) = false ->
  seq_translate gc phase s = None.
Proof. exact seq_translate_wrong_alphabet. Qed.
Print Assumptions C05_wrong_alphabet_is_error.

(* three-frame translation of a set: one row per (sequence, frame), in order,
   named <name>_<frame>; single frame keeps the names *)
Theorem C05_frames_and_names :
  forall code suffix phases rs out,
  translate_rows code suffix phases rs = (out, true) ->
  out = flat_map (fun r => map (fun p => ((if suffix then suffix_name (fst r) p else fst r),
                                           translate_from code (skipn p (snd r)))) phases) rs.
Proof. exact translate_rows_ok_spec. Qed.
Print Assumptions C05_frames_and_names.

(* threading nucleotides onto a (gapped) protein row of their own translation:
   3x as long, ungapped content = the nucleotides minus at most two trailing
   bases, and it translates back to the protein row *)
Theorem C05_codon_align_row :
  forall gc code, genetic_code gc = Some code ->
  forall p nt,
  ungap p = translate_from code nt ->
  forallb (fun b => negb (beqb b x2d)) nt = true ->
  exists r, codon_align_row p nt = Some r /\
            length r = 3 * length p /\
            ungap r = firstn (3 * (length nt / 3)) nt /\
            length nt - length (ungap r) <= 2 /\
            translate_from code r = p.
Proof.
  intros gc code Hc. apply codon_align_row_spec. apply (code_has_gap_codon gc). exact Hc.
Qed.
Print Assumptions C05_codon_align_row.

(* Reference-guided translation of rows without gaps is the plain translation of every row, for EVERY
   alignment, code and phase (unbounded, by induction over the codons; rows of an alignment have one
   length, C01) *)
Definition no_gap_rows (rs : list (list byte * list byte)) : Prop :=
  forall r, In r rs -> forallb (fun b => negb (beqb b x2d)) (snd r) = true.

Theorem C05_byref_nogap :
  forall gc code phase refname rs out,
  genetic_code gc = Some code -> no_gap_rows rs ->
  (forall r r', In r rs -> In r' rs -> length (snd r) = length (snd r')) ->
  translate_by_reference NUCLEOTIDS gc phase refname rs = Some out ->
  out = map (fun r => (fst r, translate_from code (skipn phase (snd r)))) rs.
Proof. exact byref_nogap_bool. Qed.
Print Assumptions C05_byref_nogap.

(* With gaps anywhere (reference or other rows), for every alphabet, code and phase: all rows of the
   reference-guided translation have one length (each reference codon contributes the same number of
   positions to every row) *)
Theorem C05_byref_rows_same_length :
  forall alphabet gc phase refname rs out,
  translate_by_reference alphabet gc phase refname rs = Some out ->
  forall r r', In r out -> In r' out -> length (snd r) = length (snd r').
Proof. exact byref_rows_same_length. Qed.
Print Assumptions C05_byref_rows_same_length.

(* Frame 0 with gaps anywhere (reference or other rows), for EVERY alignment, reference and code: all rows of the
   result have one length, and the translated reference with its gaps removed is a prefix of the translation of the
   reference with its gaps removed (unbounded: invariant of the codon loop, Proofs/ByRefProofs.v) *)
Theorem C05_byref_frame0 :
  forall gc code refname rs out refrow refout,
  genetic_code gc = Some code ->
  translate_by_reference NUCLEOTIDS gc 0 refname rs = Some out ->
  lassoc refname rs = Some refrow -> lassoc refname out = Some refout ->
  (forall r r', In r out -> In r' out -> length (snd r) = length (snd r')) /\
  is_prefix (ungap refout) (translate_from code (ungap refrow)).
Proof.
  intros gc code refname rs out refrow refout Hg H Hin Hout. split.
  - exact (byref_rows_same_length NUCLEOTIDS gc 0 refname rs out H).
  - exact (byref_frame0_prefix gc code refname rs out refrow refout Hg H Hin Hout).
Qed.
Print Assumptions C05_byref_frame0.

(* non-vacuity of the frame-0 theorem: a gapped reference whose codon spans a gap *)
Example C05_frame0_nonvacuous :
  exists out refout,
    (translate_by_reference NUCLEOTIDS 0 0 [x72]
      [([x72], [x41; x2d; x54; x47; x2d; x2d; x2d; x43; x43; x2d; x43; x41]);
       ([x73], [x41; x41; x54; x47; x43; x43; x43; x2d; x2d; x2d; x2d; x2d])] = Some out) /\
    (lassoc [x72] out = Some refout) /\ (ungap refout = [x4d; x50]).
Proof. eexists. eexists. split; [vm_compute; reflexivity|]. split; vm_compute; reflexivity. Qed.

(* non-vacuity *)
Example C05_nonvacuous :
  seq_translate 0 1 [x61; x41; x54; x47; x52; x41; x59; x2d; x2d; x2d; x54] =
    Some [x4d; x58; x2d] /\
  codon_align_row [x4d; x2d; x4b] [x41; x54; x47; x41; x41; x41; x43] =
    Some [x41; x54; x47; x2d; x2d; x2d; x41; x41; x41].
Proof. split; vm_compute; reflexivity. Qed.
