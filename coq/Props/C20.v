(* C20 — random site weights and rate categories are correctly normalised.
   Only property theorems; proofs are in Proofs/WeightsProofs.v. Real-number
   theorems depend on the axioms of Coq's standard library of reals. *)
From Coq Require Import Reals List Lra.
Import ListNotations.
From GA.Model Require Import Weights.
From GA.Proofs Require Import WeightsProofs.
Local Open Scope R_scope.

(* Dirichlet / BuildWeightsGamma: whatever positive variates were drawn, the normalised vector has one
   strictly positive weight per site and sums to the requested total (the alignment length) *)
Theorem C20_normalised_weights : forall factor g, 0 < factor -> g <> [] -> (forall x, In x g -> 0 < x) ->
  length (normalise factor g) = length g /\
  (forall w, In w (normalise factor g) -> 0 < w) /\
  rsum (normalise factor g) = factor.
Proof.
  intros factor g Hf Hne Hg. split; [apply normalise_length|]. split; [exact (normalise_pos factor g Hf Hg)|].
  apply normalise_sum. pose proof (rsum_pos g Hg Hne). lra.
Qed.
Print Assumptions C20_normalised_weights.

(* the three samplers of stats/gamma.go return strictly positive variates *)
Theorem C20_gamma_variates_positive :
  (forall alpha u1, 1 < alpha -> 0 < cheng_x alpha u1) /\
  (forall u, 0 < u < 1 -> 0 < expo_x u) /\
  (forall alpha u, 0 < alpha < 1 -> 0 < u < 1 -> 0 < small_x alpha u).
Proof. split; [exact cheng_positive | split; [exact expo_positive | exact small_positive]]. Qed.
Print Assumptions C20_gamma_variates_positive.

(* Dirichlet1: for any sorted cut points between 0 and 1 *)
Theorem C20_dirichlet1 : forall factor l, 0 <= factor -> sorted (0 :: l ++ [1]) ->
  length (dirichlet1 factor (0 :: l ++ [1])) = S (length l) /\
  (forall w, In w (dirichlet1 factor (0 :: l ++ [1])) -> 0 <= w) /\
  rsum (dirichlet1 factor (0 :: l ++ [1])) = factor.
Proof.
  intros factor l Hf Hs. split; [apply dirichlet1_length|]. split; [exact (dirichlet1_nonneg factor _ Hf Hs)|].
  apply dirichlet1_sum.
Qed.
Print Assumptions C20_dirichlet1.

(* DiscreteGamma: for every category count and every vector of incomplete-gamma ratios the rates
   average to 1; they are non-negative when the ratios are sorted within [0,1] *)
Theorem C20_discrete_gamma : forall ncat freq, (0 < ncat)%nat ->
  length (discrete_gamma ncat freq) = S (length freq) /\
  rsum (discrete_gamma ncat freq) / INR ncat = 1 /\
  (sorted (0 :: freq ++ [1]) -> forall r, In r (discrete_gamma ncat freq) -> 0 <= r).
Proof.
  intros ncat freq Hn. split; [apply discrete_gamma_length|]. split; [exact (discrete_gamma_mean ncat freq Hn)|].
  exact (discrete_gamma_nonneg ncat freq).
Qed.
Print Assumptions C20_discrete_gamma.

(* IncompleteGamma, series branch: the partial sums are non-negative, non-decreasing in x and in the
   number of terms, and the loop "while term > accurate" terminates in that branch *)
Theorem C20_series_monotone : forall x y p n, 0 <= x <= y -> 0 < p -> series_sum x p n <= series_sum y p n.
Proof. exact series_sum_mono. Qed.
Print Assumptions C20_series_monotone.

Theorem C20_series_loop_terminates : forall x p acc, 0 <= x -> 0 < p -> (x <= 1 \/ x < p) -> 0 < acc ->
  exists n, series_term x p n <= acc.
Proof. exact series_loop_terminates. Qed.
Print Assumptions C20_series_loop_terminates.

(* non-vacuity *)
Example C20_normalise_example : rsum (normalise 3 [1; 2; 5]) = 3.
Proof. apply normalise_sum. cbn. lra. Qed.

(* Stated, not proved: the continued-fraction branch of IncompleteGamma converges to the same ratio,
   the ratio is monotone in x over both branches, and the rates of DiscreteGamma are non-decreasing
   (conditional means of a gamma density); these are judged per instance by Corr/C20.v and certified
   against the series definition with the exact Gamma(p) at integer and half-integer shapes. *)
