(* SPEC for pairwise local alignment (C09): what a local alignment of two
   sequences is, its score under an affine-gap scheme, and an independent
   three-matrix Gotoh dynamic program giving the optimal local score.
   Scores are integers (x2, see Model/SW.v). *)
From Coq Require Import List Bool NArith ZArith Lia.
From Coq.Strings Require Import Byte.
Import ListNotations.
From GA.Base Require Import Bytes.

Local Open Scope Z_scope.

Definition GAPB : byte := x2d.
Definition isgap (b : byte) : bool := beqb b GAPB.

(* score of two gapped rows: residue pairs by [sub]; a run of n gaps in one row
   costs open + (n-1)*extend.  [prev]: 0 = residue pair / start, 1 = gap in row 1, 2 = gap in row 2 *)
Fixpoint score_cols (sub : byte -> byte -> Z) (opn ext : Z) (r1 r2 : list byte) (prev : Z) : Z :=
  match r1, r2 with
  | a :: t1, b :: t2 =>
      if isgap a then (if Z.eqb prev 1 then ext else opn) + score_cols sub opn ext t1 t2 1
      else if isgap b then (if Z.eqb prev 2 then ext else opn) + score_cols sub opn ext t1 t2 2
      else sub a b + score_cols sub opn ext t1 t2 0
  | _, _ => 0
  end.

Definition ungap (s : list byte) : list byte := filter (fun b => negb (isgap b)) s.
Definition sub_string (s : list byte) (a b : Z) : list byte :=   (* s[a..b] inclusive *)
  firstn (Z.to_nat (b - a + 1)) (skipn (Z.to_nat a) s).

(* a valid local alignment of s1 and s2 *)
Record valid_alignment (s1 s2 r1 r2 : list byte) (st1 st2 en1 en2 : Z) : Prop := {
  va_len : length r1 = length r2;
  va_nogapcol : forall k, (k < length r1)%nat -> ~ (nth k r1 GAPB = GAPB /\ nth k r2 GAPB = GAPB);
  va_sub1 : 0 <= st1 /\ en1 < Z.of_nat (length s1) /\ ungap r1 = sub_string s1 st1 en1;
  va_sub2 : 0 <= st2 /\ en2 < Z.of_nat (length s2) /\ ungap r2 = sub_string s2 st2 en2
}.

(* boolean checker *)
Definition check_valid (s1 s2 r1 r2 : list byte) (st1 st2 en1 en2 : Z) : bool :=
  Nat.eqb (length r1) (length r2) &&
  forallb (fun ab => negb (isgap (fst ab) && isgap (snd ab))) (combine r1 r2) &&
  (0 <=? st1) && (en1 <? Z.of_nat (length s1)) && bytes_eqb (ungap r1) (sub_string s1 st1 en1) &&
  (0 <=? st2) && (en2 <? Z.of_nat (length s2)) && bytes_eqb (ungap r2) (sub_string s2 st2 en2).

(* ---- Gotoh: optimal local score ----------------------------------------------------------- *)
Definition NEG : Z := -1000000000.
Definition max3 (a b c : Z) : Z := Z.max a (Z.max b c).
Definition cellbest (c : Z * Z * Z) : Z := let '(m, x, y) := c in max3 m x y.

(* one row; [prev]: previous row of cells (None for the first row); [a]: residue of s1 *)
Fixpoint gotoh_row (sub : byte -> byte -> Z) (opn ext : Z) (a : byte) (s2 : list byte)
         (prev : list (Z * Z * Z)) (diag : Z * Z * Z) (left : Z * Z * Z) (first_row : bool)
  : list (Z * Z * Z) :=
  match s2 with
  | [] => []
  | b :: t2 =>
      let up := match prev with c :: _ => c | [] => (NEG, NEG, NEG) end in
      let m := sub a b + Z.max 0 (cellbest diag) in
      let x := if first_row then NEG else Z.max (cellbest up + opn) (let '(_, ux, _) := up in ux + ext) in
      let y := Z.max (cellbest left + opn) (let '(_, _, ly) := left in ly + ext) in
      let c := (m, x, y) in
      c :: gotoh_row sub opn ext a t2 (tl prev) up c first_row
  end.

Fixpoint gotoh_rows (sub : byte -> byte -> Z) (opn ext : Z) (s1 s2 : list byte)
         (prev : list (Z * Z * Z)) (first_row : bool) (best : Z) : Z :=
  match s1 with
  | [] => best
  | a :: t1 =>
      let row := gotoh_row sub opn ext a s2 prev (NEG, NEG, NEG) (NEG, NEG, NEG) first_row in
      let best' := fold_left (fun acc c => let '(m, _, _) := c in Z.max acc m) row best in
      gotoh_rows sub opn ext t1 s2 row false best'
  end.

(* optimal score over all local alignments (0 when none is positive) *)
Definition gotoh_best (sub : byte -> byte -> Z) (opn ext : Z) (s1 s2 : list byte) : Z :=
  gotoh_rows sub opn ext s1 s2 [] true 0.
