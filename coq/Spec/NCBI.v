(* SPEC: NCBI translation tables 1, 2 and 5 (64 letters, codon order TCAG),
   IUPAC expansion of a codon, and the per-codon decision of property C05.
   Independent of the tables in the code. *)
From Coq Require Import List Bool NArith ZArith Lia.
From Coq.Strings Require Import Byte.
Import ListNotations.
From GA.Base Require Import Bytes Case.
From GA.Spec Require Import IupacSets.

Local Open Scope bs_scope.

(* https://www.ncbi.nlm.nih.gov/Taxonomy/Utils/wprintgc.cgi : AAs strings *)
Definition ncbi1 : list byte := unbs "FFLLSSSSYY**CC*WLLLLPPPPHHQQRRRRIIIMTTTTNNKKSSRRVVVVAAAADDEEGGGG".
Definition ncbi2 : list byte := unbs "FFLLSSSSYY**CCWWLLLLPPPPHHQQRRRRIIMMTTTTNNKKSS**VVVVAAAADDEEGGGG".
Definition ncbi5 : list byte := unbs "FFLLSSSSYY**CCWWLLLLPPPPHHQQRRRRIIMMTTTTNNKKSSSSVVVVAAAADDEEGGGG".

(* goalign's code numbers: 0 standard, 1 vertebrate mitochondrial, 2 invertebrate mitochondrial *)
Definition ncbi_table (code : Z) : list byte :=
  if Z.eqb code 0 then ncbi1 else if Z.eqb code 1 then ncbi2 else ncbi5.

(* base index in NCBI order: T=0 C=1 A=2 G=3 *)
Definition ncbi_aa (code : Z) (i j k : nat) : byte := nth (16 * i + 4 * j + k) (ncbi_table code) x58.

(* class of a residue as a nucleotide: None = not an IUPAC nucleotide code,
   Some 0 = gap, Some m = base set (mask A=1 C=2 G=4 T=8); case folded, U read as T *)
Definition nt_class (b : byte) : option Z :=
  if beqb b x2d then Some 0%Z else iupac_mask_upper (ascii_upper b).

Definition bases_of_mask (m : Z) : list nat :=
  (if Z.testbit m 3 then [0] else []) ++ (if Z.testbit m 1 then [1] else []) ++
  (if Z.testbit m 0 then [2] else []) ++ (if Z.testbit m 2 then [3] else []).

Definition shared (l : list byte) : byte :=
  match l with
  | [] => x58
  | a :: t => if forallb (beqb a) t then a else x58
  end.

Definition spec_codon_cls (code : Z) (c1 c2 c3 : option Z) : byte :=
  match c1, c2, c3 with
  | Some m1, Some m2, Some m3 =>
      if Z.eqb m1 0 && Z.eqb m2 0 && Z.eqb m3 0 then x2d
      else if Z.eqb m1 0 || Z.eqb m2 0 || Z.eqb m3 0 then x58
      else shared (flat_map (fun i => flat_map (fun j => map (fun k => ncbi_aa code i j k) (bases_of_mask m3))
                                                (bases_of_mask m2)) (bases_of_mask m1))
  | _, _, _ => x58
  end.

(* the amino acid of a codon: full-gap codon -> gap; IUPAC codon -> the amino
   acid shared by all expansions, X if they differ; anything else -> X *)
Definition spec_codon (code : Z) (b1 b2 b3 : byte) : byte :=
  spec_codon_cls code (nt_class b1) (nt_class b2) (nt_class b3).

Fixpoint spec_translate (code : Z) (s : list byte) : list byte :=
  match s with
  | a :: ((b :: c :: t) as _) => spec_codon code a b c :: spec_translate code t
  | _ => []
  end.

(* residue alphabet of the property's quantifier *)
Definition is_residue (b : byte) : bool :=
  match nt_class b with
  | Some _ => true
  | None => (* the "unknown characters" of the quantifier: X x ? . * *)
      beqb b x58 || beqb b x78 || beqb b x3f || beqb b x2e || beqb b x2a
  end.
