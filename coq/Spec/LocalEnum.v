(* SPEC (validation of the Gotoh oracle): the optimal local score by exhaustive
   enumeration of every pair of substrings and every global alignment of them. *)
From Coq Require Import List Bool ZArith Lia.
From Coq.Strings Require Import Byte.
Import ListNotations.
From GA.Base Require Import Bytes.
From GA.Spec Require Import Local.
Local Open Scope Z_scope.

(* all global alignments of two strings, as pairs of gapped rows *)
Fixpoint aligns (fuel : nat) (s1 s2 : list byte) : list (list byte * list byte) :=
  match fuel with
  | O => []
  | S f =>
      match s1, s2 with
      | [], [] => [([], [])]
      | a :: t1, [] => map (fun p => (a :: fst p, GAPB :: snd p)) (aligns f t1 [])
      | [], b :: t2 => map (fun p => (GAPB :: fst p, b :: snd p)) (aligns f [] t2)
      | a :: t1, b :: t2 =>
          map (fun p => (a :: fst p, b :: snd p)) (aligns f t1 t2) ++
          map (fun p => (a :: fst p, GAPB :: snd p)) (aligns f t1 s2) ++
          map (fun p => (GAPB :: fst p, b :: snd p)) (aligns f s1 t2)
      end
  end.

Fixpoint prefixes {A} (l : list A) : list (list A) :=
  match l with [] => [[]] | x :: t => [] :: map (cons x) (prefixes t) end.
Fixpoint suffixes {A} (l : list A) : list (list A) :=
  match l with [] => [[]] | _ :: t => l :: suffixes t end.
Definition substrings {A} (l : list A) : list (list A) := flat_map prefixes (suffixes l).

Definition best_enum (sub : byte -> byte -> Z) (opn ext : Z) (s1 s2 : list byte) : Z :=
  fold_left Z.max
    (flat_map (fun u1 => flat_map (fun u2 =>
        match u1, u2 with
        | [], _ | _, [] => []
        | _, _ => map (fun p => score_cols sub opn ext (fst p) (snd p) 0) (aligns (length u1 + length u2 + 1) u1 u2)
        end) (substrings s2)) (substrings s1)) 0.

Fixpoint words (n : nat) (alpha : list byte) : list (list byte) :=
  match n with O => [[]] | S k => flat_map (fun w => map (fun c => c :: w) alpha) (words k alpha) end.
Definition upto (n : nat) (alpha : list byte) : list (list byte) := flat_map (fun k => words k alpha) (seq 1 n).

Definition mm (m x : Z) (a b : byte) : Z := if beqb a b then m else x.
Definition agree (sub : byte -> byte -> Z) (opn ext : Z) (ws : list (list byte)) : bool :=
  forallb (fun s1 => forallb (fun s2 => Z.eqb (gotoh_best sub opn ext s1 s2) (best_enum sub opn ext s1 s2)) ws) ws.
