(* SPEC: the EMBOSS EDNAFULL (NUC.4.4) nucleotide substitution matrix, typed in independently of the
   tables of the code; letters in the order of the published file. *)
From Coq Require Import List ZArith.
From Coq.Strings Require Import Byte.
Import ListNotations.
From GA.Base Require Import Bytes.
Local Open Scope Z_scope.

(* A T G C S W R Y K M B V H D N *)
Definition ednafull_letters : list byte :=
  [x41; x54; x47; x43; x53; x57; x52; x59; x4b; x4d; x42; x56; x48; x44; x4e].

Definition ednafull_rows : list (list Z) := [
  [ 5; -4; -4; -4; -4;  1;  1; -4; -4;  1; -4; -1; -1; -1; -2];
  [-4;  5; -4; -4; -4;  1; -4;  1;  1; -4; -1; -4; -1; -1; -2];
  [-4; -4;  5; -4;  1; -4;  1; -4;  1; -4; -1; -1; -4; -1; -2];
  [-4; -4; -4;  5;  1; -4; -4;  1; -4;  1; -1; -1; -1; -4; -2];
  [-4; -4;  1;  1; -1; -4; -2; -2; -2; -2; -1; -1; -3; -3; -1];
  [ 1;  1; -4; -4; -4; -1; -2; -2; -2; -2; -3; -3; -1; -1; -1];
  [ 1; -4;  1; -4; -2; -2; -1; -4; -2; -2; -3; -1; -3; -1; -1];
  [-4;  1; -4;  1; -2; -2; -4; -1; -2; -2; -1; -3; -1; -3; -1];
  [-4;  1;  1; -4; -2; -2; -2; -2; -1; -4; -1; -3; -3; -1; -1];
  [ 1; -4; -4;  1; -2; -2; -2; -2; -4; -1; -3; -1; -1; -3; -1];
  [-4; -1; -1; -1; -1; -3; -3; -1; -1; -3; -1; -2; -2; -2; -1];
  [-1; -4; -1; -1; -1; -3; -1; -3; -3; -1; -2; -1; -2; -2; -1];
  [-1; -1; -4; -1; -3; -1; -3; -1; -3; -1; -2; -2; -1; -2; -1];
  [-1; -1; -1; -4; -3; -1; -1; -3; -1; -3; -2; -2; -2; -1; -1];
  [-2; -2; -2; -2; -1; -1; -1; -1; -1; -1; -1; -1; -1; -1; -1]
].

Fixpoint index_of (b : byte) (l : list byte) (k : nat) : option nat :=
  match l with
  | [] => None
  | x :: t => if Byte.eqb x b then Some k else index_of b t (S k)
  end.

(* score of two upper-case IUPAC letters *)
Definition ednafull (a b : byte) : option Z :=
  match index_of a ednafull_letters 0, index_of b ednafull_letters 0 with
  | Some i, Some j => Some (nth j (nth i ednafull_rows []) 0)
  | _, _ => None
  end.
