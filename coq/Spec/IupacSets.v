(* SPEC: IUPAC nucleotide codes as sets of bases, independent of the tables in
   the code.  A base set is a 4-bit mask A=1, C=2, G=4, T=8. *)
From Coq Require Import List Bool NArith ZArith Lia.
From Coq.Strings Require Import Byte.
Import ListNotations.
From GA.Base Require Import Bytes Case.

Local Open Scope Z_scope.

(* upper-case letter -> base set (U is read as T) *)
Definition iupac_mask_upper (b : byte) : option Z :=
  match b with
  | x41 => Some 1  (* A *)
  | x43 => Some 2  (* C *)
  | x47 => Some 4  (* G *)
  | x54 => Some 8  (* T *)
  | x55 => Some 8  (* U *)
  | x52 => Some 5  (* R = A|G *)
  | x59 => Some 10 (* Y = C|T *)
  | x53 => Some 6  (* S = C|G *)
  | x57 => Some 9  (* W = A|T *)
  | x4b => Some 12 (* K = G|T *)
  | x4d => Some 3  (* M = A|C *)
  | x42 => Some 14 (* B = C|G|T *)
  | x44 => Some 13 (* D = A|G|T *)
  | x48 => Some 11 (* H = A|C|T *)
  | x56 => Some 7  (* V = A|C|G *)
  | x4e => Some 15 (* N *)
  | _ => None
  end.

(* canonical upper-case letter of a non-empty base set (T, never U) *)
Definition letter_of_mask (m : Z) : byte :=
  match m with
  | 1 => x41 | 2 => x43 | 4 => x47 | 8 => x54
  | 5 => x52 | 10 => x59 | 6 => x53 | 9 => x57 | 12 => x4b | 3 => x4d
  | 14 => x42 | 13 => x44 | 11 => x48 | 7 => x56 | 15 => x4e
  | _ => x00
  end.

(* Watson-Crick complement of a base set: A<->T, C<->G *)
Definition compl_mask (m : Z) : Z :=
  (if Z.testbit m 0 then 8 else 0) + (if Z.testbit m 1 then 4 else 0) +
  (if Z.testbit m 2 then 2 else 0) + (if Z.testbit m 3 then 1 else 0).

(* complement of a residue: letters keep their case, '-', '.', '*' are fixed,
   anything else has no complement *)
Definition spec_complement (b : byte) : option byte :=
  if beqb b GAPb || beqb b POINTb || beqb b STARb then Some b
  else match iupac_mask_upper (ascii_upper b) with
       | None => None
       | Some m =>
           let u := letter_of_mask (compl_mask m) in
           Some (if is_lower_letter b then ascii_lower u else u)
       end.

(* the DNA alphabet of the property: IUPAC codes in both cases (no U) and - . * *)
Definition is_dna_byte (b : byte) : bool :=
  match spec_complement b with
  | Some _ => negb (beqb (ascii_upper b) x55)
  | None => false
  end.

(* ---- derived notions used by the C06 statements ----------------------------- *)
Definition all_dna (s : list byte) : bool := forallb is_dna_byte s.
Definition all_ascii (s : list byte) : bool := forallb is_ascii s.
(* total complement on DNA, by the spec *)
Definition spec_c (b : byte) : byte := match spec_complement b with Some c => c | None => b end.
Definition spec_rc (s : list byte) : list byte := rev (map spec_c s).
Definition rows_dna (rs : list (list byte * list byte)) : bool := forallb (fun r => all_dna (snd r)) rs.
Definition names_unique (rs : list (list byte * list byte)) : Prop := NoDup (map fst rs).
Fixpoint mem_name (n : list byte) (l : list (list byte)) : bool :=
  match l with [] => false | x :: t => bytes_eqb x n || mem_name n t end.
