(* Correspondence and violation oracles for C05. *)
From Coq Require Import List Bool NArith ZArith Arith.
From Coq.Strings Require Import Byte.
Import ListNotations.
From GA.Base Require Import Bytes Case CorrBase.
From GA.Gen Require Import GenCodes Iupac Alpha.
From GA.Spec Require Import IupacSets NCBI.
From GA.Model Require Import Translate.

Inductive op :=
| OpCodonRow (gc : Z) (b1 b2 : byte) (b3s : bs)      (* translateCodon(b1,b2,b3) for every b3 (hook) *)
| OpSeq (gc phase : Z) (s : bs)                        (* Sequence.Translate *)
| OpBag (alphabet gc phase : Z) (rows : list (bs * bs))    (* SeqBag.Translate *)
| OpAlign (alphabet gc phase : Z) (rows : list (bs * bs))  (* Alignment.Translate *)
| OpCodonAlign (gc palpha ntalpha : Z) (prot nts : list (bs * bs))  (* Alignment.CodonAlign; gc only names the code the harness used *)
| OpByRef (alphabet gc phase : Z) (refname : bs) (rows : list (bs * bs)).

Record case := mk {
  c_op : op;
  c_err : bool;
  c_out : list (bs * bs);    (* resulting rows (container content after the call / returned object) *)
  c_alpha : Z;               (* resulting alphabet, -1 when not observed *)
  c_len : Z                  (* resulting Length(), -2 when not observed *)
}.

Definition unrows (l : list (bs * bs)) : list (list byte * list byte) :=
  map (fun r => (unbs (fst r), unbs (snd r))) l.
Definition row_eqb (a b : list byte * list byte) : bool :=
  bytes_eqb (fst a) (fst b) && bytes_eqb (snd a) (snd b).
Definition rows_eqb := list_eqb row_eqb.

Definition align_len (rs : list (list byte * list byte)) : Z :=
  match rs with [] => (-1)%Z | r :: _ => Z.of_nat (length (snd r)) end.

Definition model_ok (c : case) : bool :=
  let out := unrows (c_out c) in
  match c_op c with
  | OpCodonRow gc b1 b2 b3s =>
      match genetic_code gc with
      | None => c_err c
      | Some code => negb (c_err c) &&
                     rows_eqb out [([], map (translate_codon code b1 b2) (unbs b3s))]
      end
  | OpSeq gc phase s =>
      match seq_translate gc (Z.to_nat phase) (unbs s) with
      | None => c_err c
      | Some p => negb (c_err c) && rows_eqb out [([], p)]
      end
  | OpBag alphabet gc phase rows =>
      let '(rs, al, ok) := bag_translate alphabet gc phase (unrows rows) in
      Bool.eqb ok (negb (c_err c)) && rows_eqb out rs && (negb ok || Z.eqb al (c_alpha c))
  | OpAlign alphabet gc phase rows =>
      let '(rs, al, ok) := bag_translate alphabet gc phase (unrows rows) in
      Bool.eqb ok (negb (c_err c)) && rows_eqb out rs && (negb ok || Z.eqb al (c_alpha c))
      && Z.eqb (c_len c) (align_len rs)
  | OpCodonAlign gc palpha ntalpha prot nts =>
      match codon_align palpha ntalpha (unrows prot) (unrows nts) with
      | None => c_err c
      | Some rs => negb (c_err c) && rows_eqb out rs
      end
  | OpByRef alphabet gc phase refname rows =>
      match translate_by_reference alphabet gc (Z.to_nat phase) (unbs refname) (unrows rows) with
      | None => c_err c && rows_eqb out (unrows rows)
      | Some rs => negb (c_err c) && rows_eqb out rs
      end
  end.

(* ---- SPEC oracle --------------------------------------------------------------- *)
Fixpoint mem_name (n : list byte) (l : list (list byte)) : bool :=
  match l with [] => false | x :: t => bytes_eqb x n || mem_name n t end.
Fixpoint nodup_names (l : list (list byte)) : bool :=
  match l with [] => true | x :: t => negb (mem_name x t) && nodup_names t end.

Definition valid_gc (gc : Z) : bool := Z.leb 0 gc && Z.leb gc 2.
Definition residues (s : list byte) : bool := forallb is_residue s.
Definition ungap (s : list byte) : list byte := filter (fun b => negb (beqb b x2d)) s.
Definition nogap (s : list byte) : bool := forallb (fun b => negb (beqb b x2d)) s.

Definition spec_frames (gc phase : Z) (rs : list (list byte * list byte)) : list (list byte * list byte) :=
  if Z.eqb phase (-1) then
    flat_map (fun r => map (fun p => (fst r ++ [x5f; byte_of_Z (48 + Z.of_nat p)],
                                      spec_translate gc (skipn p (snd r)))) [0; 1; 2]) rs
  else map (fun r => (fst r, spec_translate gc (skipn (Z.to_nat phase) (snd r)))) rs.

Definition max_phase (phase : Z) : nat := if Z.eqb phase (-1) then 2 else Z.to_nat phase.

Fixpoint prefixb (a b : list byte) : bool :=
  match a, b with
  | [], _ => true
  | x :: a', y :: b' => beqb x y && prefixb a' b'
  | _, _ => false
  end.

Definition rectangular (rs : list (list byte * list byte)) : bool :=
  match rs with
  | [] => true
  | r :: t => forallb (fun r' => Nat.eqb (length (snd r')) (length (snd r))) t
  end.

Definition spec_check (c : case) : option bool :=
  let out := unrows (c_out c) in
  match c_op c with
  | OpCodonRow gc b1 b2 b3s =>
      if valid_gc gc then Some (negb (c_err c) && rows_eqb out [([], map (spec_codon gc b1 b2) (unbs b3s))])
      else None
  | OpSeq gc phase s =>
      let s := unbs s in
      if valid_gc gc && residues s && Z.leb 0 phase && Z.leb phase 2 then
        let n := (length s - Z.to_nat phase) / 3 in
        Some (if Nat.eqb n 0 then c_err c
              else negb (c_err c) && rows_eqb out [([], spec_translate gc (skipn (Z.to_nat phase) s))])
      else None
  | OpBag alphabet gc phase rows | OpAlign alphabet gc phase rows =>
      let rs := unrows rows in
      if valid_gc gc && Z.eqb alphabet NUCLEOTIDS && forallb (fun r => residues (snd r)) rs
         && nodup_names (map fst rs) && Z.leb (-1) phase && Z.leb phase 2 then
        Some (if forallb (fun r => Nat.leb (3 + max_phase phase) (length (snd r))) rs then
          negb (c_err c) && rows_eqb out (spec_frames gc phase rs) &&
          (match c_op c with OpAlign _ _ _ _ => Z.eqb (c_len c) (align_len (spec_frames gc phase rs)) | _ => true end)
        else c_err c)
      else None
  | OpCodonAlign gc palpha ntalpha prot nts =>
      let prot := unrows prot in
      let nts := unrows nts in
      if valid_gc gc && Z.eqb palpha AMINOACIDS && Z.eqb ntalpha NUCLEOTIDS && nodup_names (map fst nts)
         && nodup_names (map fst prot) && rectangular prot &&
         forallb (fun r => match lassoc (fst r) nts with
                           | Some nt => nogap nt && bytes_eqb (ungap (snd r)) (spec_translate gc nt)
                           | None => false end) prot
      then
        Some (negb (c_err c) && list_eqb bytes_eqb (map fst out) (map fst prot) &&
        forallb (fun pr =>
                   let '(r, o) := pr in
                   match lassoc (fst r) nts with
                   | Some nt =>
                       Nat.eqb (length (snd o)) (3 * length (snd r)) &&
                       bytes_eqb (ungap (snd o)) (firstn (3 * (length nt / 3)) nt) &&
                       Nat.leb (length nt - length (ungap (snd o))) 2 &&
                       bytes_eqb (spec_translate gc (snd o)) (snd r)
                   | None => false
                   end) (combine prot out) &&
        Nat.eqb (length out) (length prot))
      else None
  | OpByRef alphabet gc phase refname rows =>
      let rs := unrows rows in
      if valid_gc gc && Z.eqb alphabet NUCLEOTIDS && forallb (fun r => residues (snd r)) rs
         && nodup_names (map fst rs) && rectangular rs && mem_name (unbs refname) (map fst rs)
         && negb (Nat.eqb (length (unbs refname)) 0) && Z.leb 0 phase && Z.leb phase 2 then
        Some (negb (c_err c) &&
        (* (a) no gap anywhere: coincides with plain translation in every frame *)
        (if forallb (fun r => nogap (snd r)) rs &&
            forallb (fun r => Nat.leb (3 + Z.to_nat phase) (length (snd r))) rs
         then rows_eqb out (spec_frames gc phase rs) else true) &&
        (* (b) frame 0: rectangular, reference row ungapped is a prefix of the
           translation of the ungapped reference *)
        (if Z.eqb phase 0 then
           rectangular out && list_eqb bytes_eqb (map fst out) (map fst rs) &&
           match lassoc (unbs refname) rs, lassoc (unbs refname) out with
           | Some rr, Some ro => prefixb (ungap ro) (spec_translate gc (ungap rr))
           | _, _ => false
           end
         else true))
      else None
  end.

Definition spec_ok (c : case) : bool := ok_of (spec_check c).
Definition failing := failing_gen model_ok spec_ok.
Definition count_judged := count_judged_gen spec_check.
