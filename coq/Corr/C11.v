(* Correspondence and violation oracles for C11 (command line reproducibility).
   Outputs of the freshly built goalign binary are compared byte for byte in the
   kernel; the files of "build seqboot" are additionally predicted by the model
   (Model/Cli.v) from the raw tape of the seed and the FASTA writer model. *)
From Coq Require Import List Bool NArith ZArith QArith Arith.
From Coq.Strings Require Import Byte.
Import ListNotations.
From GA.Base Require Import Bytes Case Align CorrBase Tape.
From GA.Model Require Import Random Fasta Cli.
From GA.Model Require Phylip Nexus Clustal.
From GA.Gen Require Import Alpha.
From GA.Gen Require Import IOConst.
From GA.Corr Require Import C07.

(* kinds: 0 the same command twice (same seed, different --threads): same bytes, same exit status;
          1 build seqboot: the files are the model's replicates (and 0);
          2 reformat chain back to the starting format: same bytes as the starting file;
          3 build distboot against build seqboot + compute distance on each replicate;
          4 reformat phylip (k_n = 0 default, 1 --one-line, 2 --no-block, 3 --output-strict) and
          5 reformat fasta, 6 reformat nexus, 7 reformat clustal: stdout is the writer model's output (and 0) *)
Record case := mk {
  k_kind : Z; k_what : bs;
  k_in : brows; k_tape : list Z; k_n : Z; k_frac : Q; k_shuffle : bool;
  k_out1 : list bs; k_out2 : list bs;
  k_rc1 : Z; k_rc2 : Z
}.

Definition outs_eqb (a b : list bs) : bool := list_eqb bytes_eqb (map unbs a) (map unbs b).

Definition model_ok (c : case) : bool :=
  if Z.eqb (k_kind c) 1 then
    match seqboot (Z.to_nat (k_n c)) (k_frac c) (k_shuffle c) (unrows (k_in c)) (k_tape c) with
    | Some (reps, _) => list_eqb bytes_eqb (map unbs (k_out1 c)) (map (write 60) reps)
    | None => false
    end
  else if Z.eqb (k_kind c) 4 then
    let ly := Phylip.Build_layout (Z.eqb (k_n c) 3) (Z.eqb (k_n c) 1) (Z.eqb (k_n c) 2) in
    list_eqb bytes_eqb (map unbs (k_out1 c)) [Phylip.write PHYLIP_LINE PHYLIP_BLOCK ly (unrows (k_in c))]
  else if Z.eqb (k_kind c) 5 then
    list_eqb bytes_eqb (map unbs (k_out1 c)) [write FASTA_LINE (unrows (k_in c))]
  else if Z.eqb (k_kind c) 6 then
    list_eqb bytes_eqb (map unbs (k_out1 c)) [Nexus.write false (unrows (k_in c))]
  else if Z.eqb (k_kind c) 7 then
    list_eqb bytes_eqb (map unbs (k_out1 c)) [Clustal.write NUCLEOTIDS (unrows (k_in c))]
  else true.

Definition spec_check (c : case) : option bool :=
  Some (Z.eqb (k_rc1 c) (k_rc2 c) && outs_eqb (k_out1 c) (k_out2 c) &&
        (* a failing command is not a reproducibility witness for kinds 2 and 3 *)
        (Z.eqb (k_kind c) 0 || (4 <=? k_kind c)%Z || Z.eqb (k_rc1 c) 0)).

Definition spec_ok (c : case) : bool := ok_of (spec_check c).
Definition failing := failing_gen model_ok spec_ok.
Definition count_judged := count_judged_gen spec_check.
