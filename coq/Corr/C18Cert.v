(* interval certificates: the value returned by Pij(i,j) at branch length l is the modelled closed form *)
From Coq Require Import Reals List.
From Interval Require Import Tactic.
Import ListNotations.
From GA.Model Require Import Markov.
Local Open Scope R_scope.

Definition cert_jc (i j : nat) (l v tol : R) : Prop := Rabs (jc_pij i j l - v) <= tol.
Definition cert_k2p (kappa : R) (i j : nat) (l v tol : R) : Prop := Rabs (k2p_pij kappa i j l - v) <= tol.
(* eigen-decomposition based value against the same closed form: what SetLength computes for these models *)
Definition cert_k2p_eig (kappa : R) (i j : nat) (l v tol : R) : Prop :=
  Rabs (eig_pij (k2p_val kappa) k2p_left k2p_right l i j - v) <= tol.

(* SetLength on the eigen system the implementation returned (binary64 values as exact reals);
   the floor at DBL_MIN is far below the tolerance *)
Definition cert_eig (val : list R) (left right : mat) (i j : nat) (l v tol : R) : Prop :=
  Rabs (eig_pij val left right l i j - v) <= tol.

Ltac cert_markov :=
  unfold cert_jc, cert_k2p, cert_k2p_eig, cert_eig, jc_pij, k2p_pij, k2p_pts, k2p_ptr, eig_pij, k2p_val, k2p_left, k2p_right, at_;
  cbv [Nat.eqb is_ts fold_right nth];
  interval with (i_prec 70).
