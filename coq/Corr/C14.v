(* Correspondence and violation oracles for C14. *)
From Coq Require Import List Bool NArith ZArith Arith QArith.
From Coq.Strings Require Import Byte.
Import ListNotations.
From GA.Base Require Import Bytes Case Align CorrBase.
From GA.Gen Require Import Alpha Iupac.
From GA.Spec Require Import IupacSets.
From GA.Model Require Import Stats Pssm.
Local Close Scope Q_scope.

Definition brows := list (bs * bs).
Definition unrows (l : brows) : rows := map (fun r => (unbs (fst r), unbs (snd r))) l.

Inductive op :=
| OpCharStats | OpUnique | OpCharStatsSeq (idx : Z) | OpCharStatsSite (site : Z)
| OpMaxChar (ig ins : bool)            (* bytes = out, l1 = occur, l2 = total, flag = 20 repeated calls agree *)
| OpConsensus (ig ins : bool)
| OpEntropy (site : Z) (rg : bool)     (* flag = result is NaN *)
| OpVariable | OpInformative | OpAvgAlleles   (* avg alleles: num * 2^den is the float, flag = NaN *)
| OpCountDiff | OpGapsUnique | OpMutUnique
| OpGapsProfile | OpMutProfile      (* with a count profile built from c_rows; l1 uniques, l2 new, c_kv (x00, both) *)
| OpMutVsRef (refidx seqidx : Z)
| OpMutList (refidx seqidx : Z)      (* c_diffs: one list per mutation, (Ref, Alt byte, Pos) for each Alt byte *)
| OpPssm (lg : bool) (pc : Q) (norm : Z)   (* c_num = number of NaN entries, c_l1 = [20 repeated calls agree] *)
| OpCompat (a b : Z)
| OpCli (what : bs).    (* a command-line result compared with the library by the harness: c_flag = they agree *)

Record case := mk {
  c_alpha : Z; c_in : brows; c_op : op; c_err : bool;
  c_bytes : bs; c_kv : list (byte * Z); c_l1 : list Z; c_l2 : list Z; c_rows : brows;
  c_num : Z; c_den : Z; c_flag : bool;
  c_pairs : list (byte * byte); c_diffs : list (list (byte * byte * Z))
}.

Definition kv_eqb (a b : byte * Z) : bool := beqb (fst a) (fst b) && Z.eqb (snd a) (snd b).
Definition kvl_eqb := list_eqb kv_eqb.
Definition kvz (l : list (byte * nat)) : list (byte * Z) := map (fun kv => (fst kv, Z.of_nat (snd kv))) l.
Definition zl (l : list nat) : list Z := map Z.of_nat l.
Definition pairs_eqb := list_eqb pair_eqb.

(* per-sequence difference counts are Go maps: compared as sets of (pair, count) *)
Definition pc_eqb (a b : byte * byte * Z) : bool := pair_eqb (fst a) (fst b) && Z.eqb (snd a) (snd b).
Definition same_set (a b : list (byte * byte * Z)) : bool :=
  Nat.eqb (length a) (length b) && forallb (fun x => existsb (pc_eqb x) b) a.

(* |fl * b - a| * 2^53 <= |a| : fl is a/b correctly rounded to binary64 (fl = num * 2^den) *)
Definition float_is_ratio (num den : Z) (a b : Z) : bool :=
  let '(fn, fd) := if (0 <=? den)%Z then ((num * 2 ^ den)%Z, 1%Z) else (num, (2 ^ (- den))%Z) in
  (Z.abs (fn * b - a * fd) * 2 ^ 53 <=? Z.abs a * fd)%Z.

Definition pssm_error (rs : rows) (al norm : Z) : bool :=
  negb ((0 <=? norm)%Z && (norm <=? 4)%Z) ||
  (Z.eqb norm PSSM_NORM_DATA && existsb (fun ch => Z.eqb (data_count rs ch) 0) (pssm_alphabet al)).

Definition mut_enc (m : mutation) : list (byte * byte * Z) :=
  let '(rf, pos, alt) := m in map (fun a => (rf, a, pos)) alt.

Definition model_ok (c : case) : bool :=
  let rs := unrows (c_in c) in
  let al := c_alpha c in
  match c_op c with
  | OpCharStats => negb (c_err c) && kvl_eqb (c_kv c) (kvz (char_stats rs))
  | OpUnique => negb (c_err c) && bytes_eqb (unbs (c_bytes c)) (unique_characters rs)
  | OpCharStatsSeq idx =>
      match char_stats_seq rs idx with None => c_err c | Some l => negb (c_err c) && kvl_eqb (c_kv c) (kvz l) end
  | OpCharStatsSite site =>
      match char_stats_site rs site with None => c_err c | Some l => negb (c_err c) && kvl_eqb (c_kv c) (kvz l) end
  | OpMaxChar ig ins =>
      let '(out, occ, tot) := max_char_stats al ig ins rs in
      negb (c_err c) && bytes_eqb (unbs (c_bytes c)) out && Zlist_eqb (c_l1 c) (zl occ) && Zlist_eqb (c_l2 c) (zl tot)
  | OpConsensus ig ins => negb (c_err c) && rows_eqb (unrows (c_rows c)) (consensus al ig ins rs)
  | OpEntropy site rg =>
      match entropy_counts rs site rg with
      | None => c_err c
      | Some l => negb (c_err c) && Bool.eqb (c_flag c) (match l with [] => true | _ => false end) &&
                  Zlist_eqb (c_l1 c) [1%Z]      (* a function of the column: repeated calls agree *)
      end
  | OpVariable => negb (c_err c) && Z.eqb (c_num c) (Z.of_nat (nb_variable_sites rs))
  | OpInformative => negb (c_err c) && Zlist_eqb (c_l1 c) (zl (informative_sites al rs))
  | OpAvgAlleles =>
      let '(a, b) := avg_alleles rs in
      negb (c_err c) &&
      (if Nat.eqb b 0 then c_flag c else negb (c_flag c) && float_is_ratio (c_num c) (c_den c) (Z.of_nat a) (Z.of_nat b))
  | OpCountDiff =>
      let '(all, per) := count_differences rs in
      negb (c_err c) && pairs_eqb (c_pairs c) all &&
      Nat.eqb (length (c_diffs c)) (length per) &&
      forallb (fun ab => same_set (fst ab) (map (fun x => (fst x, Z.of_nat (snd x))) (snd ab))) (combine (c_diffs c) per)
  | OpGapsUnique => negb (c_err c) && Zlist_eqb (c_l1 c) (zl (num_gaps_unique rs))
  | OpMutUnique => negb (c_err c) && Zlist_eqb (c_l1 c) (zl (num_mutations_unique al rs))
  | OpGapsProfile =>
      let '(u, nw, bo) := num_gaps_profile rs (unrows (c_rows c)) in
      negb (c_err c) && Zlist_eqb (c_l1 c) (zl u) && Zlist_eqb (c_l2 c) (zl nw) && Zlist_eqb (map snd (c_kv c)) (zl bo)
  | OpMutProfile =>
      let '(u, nw, bo) := num_mutations_profile al rs (unrows (c_rows c)) in
      negb (c_err c) && Zlist_eqb (c_l1 c) (zl u) && Zlist_eqb (c_l2 c) (zl nw) && Zlist_eqb (map snd (c_kv c)) (zl bo)
  | OpMutVsRef ri si =>
      match nth_error rs (Z.to_nat ri), nth_error rs (Z.to_nat si) with
      | Some r, Some s =>
          match num_mutations_vs_ref al (snd r) (snd s) with
          | None => c_err c
          | Some n => negb (c_err c) && Z.eqb (c_num c) (Z.of_nat n)
          end
      | _, _ => true
      end
  | OpMutList ri si =>
      match nth_error rs (Z.to_nat ri), nth_error rs (Z.to_nat si) with
      | Some r, Some s =>
          match list_mutations_vs_ref al (snd r) (snd s) with
          | None => c_err c
          | Some l => negb (c_err c) && list_eqb (list_eqb pc_eqb) (c_diffs c) (map mut_enc l)
          end
      | _, _ => true
      end
  | OpPssm lg pc norm =>
      (* the values are certified separately (Corr/C14Cert.v); here: the error condition *)
      Bool.eqb (c_err c) (pssm_error rs al norm)
  | OpCli _ => true
  | OpCompat a b =>
      match equal_or_compatible a b with
      | None => c_err c
      | Some e => negb (c_err c) && Bool.eqb (c_flag c) e
      end
  end.

(* ---- SPEC oracle: naive definitions ------------------------------------------------------------ *)
Definition cnt {A} (f : A -> bool) (l : list A) : nat := length (filter f l).
Definition up := ascii_upper.
Definition wild (alphabet : Z) : byte := if Z.eqb alphabet 0 then x58 else x4e.
Definition cols_of (rs : rows) : list (list byte) := map (column rs) (seq 0 (width rs)).
Definition all_res (rs : rows) : list byte := flat_map snd rs.

Definition naive_counts (l : list byte) : list (byte * Z) :=
  filter (fun kv => (0 <? snd kv)%Z)
         (map (fun k => (k, Z.of_nat (cnt (fun b => beqb (up b) k) l))) all_bytes).

Definition sp_excl (al : Z) (ig ins : bool) (k : byte) : bool := (ig && beqb k x2d) || (ins && beqb k (wild al)).
Definition plain (b : byte) : bool := negb (beqb b x2d || beqb b x2e || beqb b x2a).
Definition distinct_of (l : list byte) : list byte := nodup Byte.byte_eq_dec l.

Definition pair_dec (a b : byte * byte) : {a = b} + {a <> b}.
Proof. decide equality; apply Byte.byte_eq_dec. Defined.

Definition spec_check (c : case) : option bool :=
  let rs := unrows (c_in c) in
  let al := c_alpha c in
  let L := width rs in
  if negb (rectangularb rs && nodup_names (names rs) && forallb is_ascii (all_res rs)) then None else
  match c_op c with
  | OpCharStats => Some (negb (c_err c) && kvl_eqb (c_kv c) (naive_counts (all_res rs)))
  | OpUnique => Some (negb (c_err c) && bytes_eqb (unbs (c_bytes c)) (map fst (naive_counts (all_res rs))))
  | OpCharStatsSeq idx =>
      Some (match (if (idx <? 0)%Z then None else nth_error rs (Z.to_nat idx)) with
            | None => c_err c
            | Some r => negb (c_err c) && kvl_eqb (c_kv c) (naive_counts (snd r))
            end)
  | OpCharStatsSite site =>
      Some (if (0 <=? site)%Z && (site <? alen rs)%Z
            then negb (c_err c) && kvl_eqb (c_kv c) (naive_counts (column rs (Z.to_nat site)))
            else c_err c)
  | OpMaxChar ig ins =>
      match rs with
      | [] => None
      | _ =>
      Some (negb (c_err c) && c_flag c &&
            Nat.eqb (length (unbs (c_bytes c))) L && Nat.eqb (length (c_l1 c)) L && Nat.eqb (length (c_l2 c)) L &&
            forallb (fun x =>
               let '(col, (o, (oc, ttl))) := x in
               let kept := filter (fun b => negb (sp_excl al ig ins b)) (map up col) in
               match kept with
               | [] => (* every row excluded: falls back to the only kind present *)
                   match distinct_of (map up col) with
                   | [k] => beqb o k
                   | _ => true
                   end
               | _ => negb (sp_excl al ig ins o) && Z.eqb oc (Z.of_nat (cnt (beqb o) kept)) && (0 <? oc)%Z &&
                      forallb (fun k => (Z.of_nat (cnt (beqb k) kept) <=? oc)%Z) kept &&
                      Z.eqb ttl (Z.of_nat (length kept))
               end) (combine (cols_of rs) (combine (unbs (c_bytes c)) (combine (c_l1 c) (c_l2 c)))))
      end
  | OpConsensus ig ins => None   (* judged through OpMaxChar *)
  | OpEntropy site rg =>
      Some (if (0 <=? site)%Z && (site <? alen rs)%Z then
              negb (c_err c) &&
              Bool.eqb (c_flag c)
                (Nat.eqb (cnt (fun s => negb (beqb s x2a) && negb (beqb s x2e) && negb (rg && beqb s x2d))
                              (column rs (Z.to_nat site))) 0) &&
              (* calling again returns the same bits (40 repeated calls) *)
              Zlist_eqb (c_l1 c) [1%Z]
            else c_err c)
  | OpVariable =>
      Some (negb (c_err c) &&
            Z.eqb (c_num c) (Z.of_nat (cnt (fun col => Nat.ltb 1 (length (distinct_of (filter plain col)))) (cols_of rs))))
  | OpInformative =>
      (* lower-case wildcard residues: the documented definition does not say (see DESIGN.md) *)
      if existsb (fun b => beqb b (ascii_lower (wild al))) (all_res rs) || negb (Z.eqb al 0 || Z.eqb al 1) then None else
      Some (negb (c_err c) &&
            Zlist_eqb (c_l1 c)
              (zl (filter (fun i =>
                     let kept := map up (filter (fun b => negb (beqb b x2d || beqb b x2e || beqb b (wild al))) (column rs i)) in
                     Nat.leb 2 (length (filter (fun k => Nat.leb 2 (cnt (beqb k) kept)) (distinct_of kept))))
                   (seq 0 L))))
  | OpAvgAlleles =>
      let per := map (fun col => length (distinct_of (filter plain col))) (cols_of rs) in
      let a := fold_right Nat.add 0 per in
      let b := cnt (fun n => Nat.ltb 0 n) per in
      Some (negb (c_err c) &&
            if Nat.eqb b 0 then c_flag c
            else negb (c_flag c) && float_is_ratio (c_num c) (c_den c) (Z.of_nat a) (Z.of_nat b))
  | OpCountDiff =>
      match rs with
      | r0 :: t =>
          Some (negb (c_err c) && Nat.eqb (length (c_diffs c)) (length t) &&
                forallb (fun rd =>
                   let '(r, d) := rd in
                   let prs := filter (fun p => negb (beqb (fst p) (snd p))) (combine (snd r0) (snd r)) in
                   (* every listed difference with its exact count, nothing missing *)
                   forallb (fun x => Z.eqb (snd x) (Z.of_nat (cnt (pair_eqb (fst x)) prs)) && (0 <? snd x)%Z) d &&
                   forallb (fun p => existsb (fun x => pair_eqb (fst x) p) d) prs &&
                   Nat.eqb (length d) (length (nodup pair_dec prs)) &&
                   forallb (fun p => existsb (pair_eqb p) (c_pairs c)) prs) (combine t (c_diffs c)) &&
                forallb (fun p => existsb (fun r => existsb (pair_eqb p)
                           (filter (fun q => negb (beqb (fst q) (snd q))) (combine (snd r0) (snd r)))) t) (c_pairs c) &&
                Nat.eqb (length (c_pairs c)) (length (nodup pair_dec (c_pairs c))))
      | [] => Some (negb (c_err c) && Nat.eqb (length (c_pairs c)) 0 && Nat.eqb (length (c_diffs c)) 0)
      end
  | OpGapsUnique =>
      Some (negb (c_err c) &&
            Zlist_eqb (c_l1 c)
              (map (fun j => Z.of_nat (cnt (fun col => beqb (nth j col x00) x2d && Nat.eqb (cnt (beqb x2d) col) 1) (cols_of rs)))
                   (seq 0 (length rs))))
  | OpGapsProfile =>
      let prof := unrows (c_rows c) in
      if negb (rectangularb prof && Nat.eqb (width prof) (width rs)) then None else
      let pcols := cols_of prof in
      let cols := combine (cols_of rs) pcols in
      let absent (cp : list byte * list byte) := Nat.eqb (cnt (beqb x2d) (snd cp)) 0 in
      Some (negb (c_err c) &&
            Zlist_eqb (c_l1 c) (map (fun j => Z.of_nat (cnt (fun cp => beqb (nth j (fst cp) x00) x2d && Nat.eqb (cnt (beqb x2d) (fst cp)) 1) cols)) (seq 0 (length rs))) &&
            Zlist_eqb (c_l2 c) (map (fun j => Z.of_nat (cnt (fun cp => beqb (nth j (fst cp) x00) x2d && absent cp) cols)) (seq 0 (length rs))) &&
            Zlist_eqb (map snd (c_kv c))
                      (map (fun j => Z.of_nat (cnt (fun cp => beqb (nth j (fst cp) x00) x2d && Nat.eqb (cnt (beqb x2d) (fst cp)) 1 && absent cp) cols)) (seq 0 (length rs))))
  | OpMutProfile =>
      let prof := unrows (c_rows c) in
      if negb (Z.eqb al 0 || Z.eqb al 1) then None else
      if negb (rectangularb prof && Nat.eqb (width prof) (width rs)) then None else
      let cols := combine (cols_of rs) (cols_of prof) in
      let counted b := negb (beqb b x2d) && negb (beqb b (wild al)) in
      Some (negb (c_err c) &&
            Zlist_eqb (c_l1 c) (map (fun j => Z.of_nat (cnt (fun cp => let b := nth j (fst cp) x00 in
                                       Nat.eqb (cnt (beqb b) (fst cp)) 1 && counted b) cols)) (seq 0 (length rs))) &&
            Zlist_eqb (c_l2 c) (map (fun j => Z.of_nat (cnt (fun cp => let b := nth j (fst cp) x00 in
                                       counted b && Nat.eqb (cnt (beqb b) (snd cp)) 0) cols)) (seq 0 (length rs))) &&
            Zlist_eqb (map snd (c_kv c))
                      (map (fun j => Z.of_nat (cnt (fun cp => let b := nth j (fst cp) x00 in
                                       Nat.eqb (cnt (beqb b) (fst cp)) 1 && counted b && Nat.eqb (cnt (beqb b) (snd cp)) 0) cols)) (seq 0 (length rs))))
  | OpMutUnique =>
      if negb (Z.eqb al 0 || Z.eqb al 1) then None else
      Some (negb (c_err c) &&
            Zlist_eqb (c_l1 c)
              (map (fun j => Z.of_nat (cnt (fun col => let b := nth j col x00 in
                                                       Nat.eqb (cnt (beqb b) col) 1 && negb (beqb b x2d) && negb (beqb b (wild al)))
                                          (cols_of rs)))
                   (seq 0 (length rs))))
  | OpMutVsRef ri si =>
      match nth_error rs (Z.to_nat ri), nth_error rs (Z.to_nat si) with
      | Some r, Some s =>
          (* judged on IUPAC nucleotide rows (letters and gaps), upper-case N *)
          let okb b := beqb b x2d || (match iupac_mask_upper (up b) with Some _ => negb (beqb b x6e) && negb (beqb (up b) x55) | None => false end) in
          if Z.eqb al 1 && forallb okb (snd r) && forallb okb (snd s) then
            let mask b := match iupac_mask_upper (up b) with Some m => m | None => 0%Z end in
            Some (negb (c_err c) &&
                  Z.eqb (c_num c)
                    (Z.of_nat (cnt (fun x => let '(b, rb) := x in
                                             negb (beqb b x2d) && negb (beqb b x4e) &&
                                             negb (Z.eqb (mask b) (mask rb)) && Z.eqb (Z.land (mask b) (mask rb)) 0)
                                   (combine (snd s) (snd r)))))
          else None
      | _, _ => None
      end
  | OpMutList ri si =>
      match nth_error rs (Z.to_nat ri), nth_error rs (Z.to_nat si) with
      | Some r, Some s =>
          let R := snd r in let Q := snd s in
          let okb b := beqb b x2d || (match iupac_mask_upper (up b) with Some _ => negb (beqb b x6e) && negb (beqb (up b) x55) | None => false end) in
          let nt := Z.eqb al 1 && forallb okb R && forallb okb Q in
          let aa := Z.eqb al 0 in
          if nt || aa then
            let mask b := match iupac_mask_upper (up b) with Some m => m | None => 0%Z end in
            (* substitution or deletion at a reference residue *)
            let mutated b rb :=
              if nt then negb (beqb b x4e) && negb (Z.eqb (mask b) (mask rb)) && Z.eqb (Z.land (mask b) (mask rb)) 0
              else negb (beqb b x58) && negb (beqb b rb) in
            let refpos i := cnt (fun b => negb (beqb b x2d)) (firstn i R) in
            let idxs := seq 0 (length R) in
            let at_ p i := Nat.eqb (refpos i) p in
            let expected :=
              flat_map (fun p =>
                 let ins := flat_map (fun i => if beqb (nth i R x00) x2d && negb (beqb (nth i Q x00) x2d) && at_ p i then [nth i Q x00] else []) idxs in
                 (match ins with [] => [] | _ => [map (fun a => (x2d, a, Z.of_nat p)) ins] end) ++
                 flat_map (fun i => if negb (beqb (nth i R x00) x2d) && at_ p i && mutated (nth i Q x00) (nth i R x00)
                                    then [[(nth i R x00, nth i Q x00, Z.of_nat p)]] else []) idxs)
                (seq 0 (S (refpos (length R)))) in
            Some (negb (c_err c) && list_eqb (list_eqb pc_eqb) (c_diffs c) expected)
          else None
      | _, _ => None
      end
  | OpPssm lg pc norm =>
      (* an unknown normalisation, or normalising by the frequency of a character that the data do not
         hold, is an error; otherwise every entry is a number (possibly -infinity for the logarithm of 0) and
         calling again returns the same bits *)
      if pssm_error rs al norm then Some (c_err c)
      else if Nat.eqb (length rs) 0 then None
      else Some (negb (c_err c) && Zlist_eqb (c_l1 c) [1%Z] && Z.eqb (c_num c) 0)
  | OpCli _ => Some (c_flag c)
  | OpCompat a b =>
      if (0 <=? a)%Z && (a <=? 15)%Z && (0 <=? b)%Z && (b <=? 15)%Z
      then Some (negb (c_err c) && Bool.eqb (c_flag c) (Z.eqb a b || negb (Z.eqb (Z.land a b) 0)))
      else None
  end.

Definition spec_ok (c : case) : bool := ok_of (spec_check c).
Definition failing := failing_gen model_ok spec_ok.
Definition count_judged := count_judged_gen spec_check.
