(* Kernel-checked numeric certificates for Entropy (C14): the counts are computed from the case by the
   counting model (vm_compute), the entropy - sum (c/t) ln (c/t) is instantiated on them over the reals,
   and the `interval` tactic proves that the value returned by the Go code is within the tolerance. *)
From Coq Require Import List Bool NArith ZArith QArith Reals.
From Interval Require Import Tactic.
From Coq.Strings Require Import Byte.
Import ListNotations.
From GA.Base Require Import Bytes Align.
From GA.Model Require Import Stats Entropy Pssm.
From GA.Corr Require Import C14.

Definition cert_counts (c : case) : list Z :=
  match c_op c with
  | OpEntropy site rg =>
      match entropy_counts (unrows (c_in c)) site rg with
      | Some l => map Z.of_nat l
      | None => []
      end
  | _ => []
  end.

Local Open Scope R_scope.
Definition cert (c : case) (v tol : R) : Prop :=
  cert_counts c <> [] /\ Rabs (entropy_of (cert_counts c) - v) <= tol.

Ltac cert_tac :=
  match goal with
  | |- cert ?c ?v ?tol =>
      let l := eval vm_compute in (cert_counts c) in
      split; [change (l <> []); discriminate|];
      change (Rabs (entropy_of l - v) <= tol);
      cbv [entropy_of total_of fold_right map];
      interval with (i_prec 70)
  end.

(* ---- PSSM entries ----------------------------------------------------------------------------- *)
(* (mode, ratio, positive site frequencies, alphabet size) of the entry (character, site) *)
Definition pssm_inputs (c : case) (ch : byte) (site : nat) : option (Z * Q * list Q * Z) :=
  let rs := unrows (c_in c) in
  match c_op c with
  | OpPssm lg pc norm =>
      match pssm_ratio rs (c_alpha c) norm pc ch site with
      | Some x =>
          let k := Z.of_nat (length (pssm_alphabet (c_alpha c))) in
          if Z.eqb norm PSSM_NORM_LOGO then Some (2%Z, x, site_freqs rs (c_alpha c) pc site, k)
          else Some ((if lg then 1%Z else 0%Z), x, [], k)
      | None => None
      end
  | _ => None
  end.

Definition cert_pssm (c : case) (ch : byte) (site : nat) (v tol : R) : Prop :=
  match pssm_inputs c ch site with
  | Some (mode, x, fs, k) => Rabs (pssm_real mode x fs k - v) <= tol
  | None => False
  end.

Ltac cert_pssm_tac :=
  match goal with
  | |- cert_pssm ?c ?ch ?site ?v ?tol =>
      let i := eval vm_compute in (pssm_inputs c ch site) in
      match i with
      | Some (?mode, ?x, ?fs, ?k) =>
          change (Rabs (pssm_real mode x fs k - v) <= tol);
          cbv [pssm_real bits_entropy log2 fold_right Z.eqb Pos.eqb Q2R Qnum Qden];
          interval with (i_prec 70)
      end
  end.
