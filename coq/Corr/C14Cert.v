(* Kernel-checked numeric certificates for Entropy (C14): the counts are computed from the case by the
   counting model (vm_compute), the entropy - sum (c/t) ln (c/t) is instantiated on them over the reals,
   and the `interval` tactic proves that the value returned by the Go code is within the tolerance. *)
From Coq Require Import List Bool NArith ZArith QArith Reals.
From Interval Require Import Tactic.
Import ListNotations.
From GA.Base Require Import Bytes Align.
From GA.Model Require Import Stats Entropy.
From GA.Corr Require Import C14.

Definition cert_counts (c : case) : list Z :=
  match c_op c with
  | OpEntropy site rg =>
      match entropy_counts (unrows (c_in c)) site rg with
      | Some l => map Z.of_nat l
      | None => []
      end
  | _ => []
  end.

Local Open Scope R_scope.
Definition cert (c : case) (v tol : R) : Prop :=
  cert_counts c <> [] /\ Rabs (entropy_of (cert_counts c) - v) <= tol.

Ltac cert_tac :=
  match goal with
  | |- cert ?c ?v ?tol =>
      let l := eval vm_compute in (cert_counts c) in
      split; [change (l <> []); discriminate|];
      change (Rabs (entropy_of l - v) <= tol);
      cbv [entropy_of total_of fold_right map];
      interval with (i_prec 70)
  end.
