(* Violation oracle for C20: the weight vectors, Dirichlet samples, discrete gamma
   rates and incomplete gamma ratios returned by the implementation (binary64
   values read as 2^-80 fixed point) are judged against the clauses of the
   property.  The real-number model (Model/Weights.v) is tied to the samplers
   and to the series definition by the interval certificates Cases/C20_cert_*.v;
   the harness additionally replays each sampler on the recorded uniform draws. *)
From Coq Require Import List Bool NArith ZArith QArith Arith.
Import ListNotations.
From GA.Base Require Import Bytes CorrBase.
From GA.Corr Require Import C07 C18.
Local Open Scope Z_scope.

Record case := mk {
  k_kind : Z;         (* 0 BuildWeightsGamma, 1 BuildWeightsDirichlet, 2 Dirichlet, 3 Dirichlet1,
                         4 DiscreteGamma, 5 IncompleteGamma on an ascending grid, 6 stats.Gamma *)
  k_n : Z;            (* alignment length / nvalues / ncat *)
  k_factor : Q;
  k_alphas : list Q;
  k_err : bool;       (* an error was returned *)
  k_replay : bool;    (* the harness's replay of the sampler on the recorded draws gave the same bits *)
  k_out : list fl;
  k_xs : list Q
}.

Definition vals (c : case) : list Z := map fx (k_out c).
Definition zsum (l : list Z) : Z := fold_right Z.add 0 l.
Definition all_finite (c : case) : bool := forallb (fun f => Z.eqb (fl_class f) 0) (k_out c).
(* |a - b| <= 1e-9 * max(|b|, 1) *)
Definition near_rel (a b : Z) : bool := Z.abs (a - b) * 1000000000 <=? Z.max (Z.abs b) ONE.
Fixpoint nondecreasing (tol : Z) (l : list Z) : bool :=
  match l with
  | a :: ((b :: _) as t) => (a <=? b + tol) && nondecreasing tol t
  | _ => true
  end.
Definition positive_fl (f : fl) : bool := let '(_, n, _) := f in 0 <? n.   (* exact: the float itself is > 0 *)

Definition model_ok (c : case) : bool := k_replay c.

Definition spec_check (c : case) : option bool :=
  let k := k_kind c in
  let n := k_n c in
  let out := vals c in
  if (k =? 0) || (k =? 1) then
    if n <? 3 then None
    else Some (negb (k_err c) && (Z.of_nat (length out) =? n) && all_finite c &&
               forallb positive_fl (k_out c) && near_rel (zsum out) (n * ONE))
  else if k =? 2 then
    if Z.of_nat (length (k_alphas c)) <=? 2 then None
    else if existsb (fun a => Qle_bool a 0) (k_alphas c) then Some (k_err c)
    else Some (negb (k_err c) && Nat.eqb (length out) (length (k_alphas c)) && all_finite c &&
               forallb (fun x => 0 <=? x) out && near_rel (zsum out) (fxq (k_factor c)))
  else if k =? 3 then
    if n <=? 2 then None
    else Some (negb (k_err c) && (Z.of_nat (length out) =? n) && all_finite c &&
               forallb (fun x => 0 <=? x) out && near_rel (zsum out) (fxq (k_factor c)))
  else if k =? 4 then
    if n <? 2 then None
    else Some ((Z.of_nat (length out) =? n) && all_finite c &&
               (* differences of incomplete gamma ratios of the order of 1e-16 carry rounding noise: absolute
                  tolerance 1e-12 on sign and order *)
               forallb (fun x => - (ONE / 1000000000000) <=? x) out && nondecreasing (ONE / 1000000000000) out &&
               (Z.abs (zsum out - n * ONE) * 1000000 <=? n * ONE))
  else if k =? 5 then
    Some (Nat.eqb (length out) (length (k_xs c)) && all_finite c &&
          forallb (fun x => (0 <=? x) && (x <=? ONE + ONE / 10000000)) out &&
          nondecreasing (ONE / 10000000) out)
  else if k =? 6 then   (* one raw stats.Gamma draw: finite and non-negative (strict positivity is
                           only claimed for the weight vectors) *)
    Some (all_finite c && forallb (fun x => 0 <=? x) out && Nat.eqb (length out) 1)
  else None.

Definition spec_ok (c : case) : bool := ok_of (spec_check c).
Definition failing := failing_gen model_ok spec_ok.
Definition count_judged := count_judged_gen spec_check.
