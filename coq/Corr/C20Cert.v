(* interval certificates tying Model/Weights.v to stats/gamma.go and models/gamma.go *)
From Coq Require Import Reals List.
From Interval Require Import Tactic.
Import ListNotations.
From GA.Model Require Import Weights.
Local Open Scope R_scope.

(* accepted round of Cheng's sampler on draws u1, u2 and the value returned *)
Definition cert_cheng (alpha beta u1 u2 v tol : R) : Prop :=
  cheng_accept alpha u1 u2 /\ Rabs (cheng_x alpha u1 * beta - v) <= tol.
(* a rejected round *)
Definition cert_cheng_reject (alpha u1 u2 : R) : Prop :=
  let ainv := sqrt (2 * alpha - 1) in
  let v := cheng_v alpha u1 in
  let x := cheng_x alpha u1 in
  let z := u1 * u1 * u2 in
  let r := (alpha - ln 4) + (alpha + ainv) * v - x in
  r + 4 * exp (- (1/2)) / sqrt 2 - (9/2) * z < 0 /\ r < ln z.
Definition cert_expo (beta u v tol : R) : Prop := 0 < u < 1 /\ Rabs (expo_x u * beta - v) <= tol.
(* alpha < 1, p = b u <= 1: x = p^(1/alpha), accepted when u1 <= exp(-x) *)
Definition cert_small_lo (alpha beta u u1 v tol : R) : Prop :=
  let p := small_b alpha * u in
  p <= 1 /\ u1 <= exp (- exp (ln p / alpha)) /\ Rabs (exp (ln p / alpha) * beta - v) <= tol.
(* p > 1: x = -ln((b-p)/alpha), accepted when u1 <= x^(alpha-1) *)
Definition cert_small_hi (alpha beta u u1 v tol : R) : Prop :=
  let p := small_b alpha * u in
  let x := - ln ((small_b alpha - p) / alpha) in
  1 < p /\ u1 <= exp ((alpha - 1) * ln x) /\ Rabs (x * beta - v) <= tol.

(* IncompleteGamma(x, p, ln Gamma(p)) against the series definition
   x^p e^-x / Gamma(p+1) * sum_n x^n / ((p+1)...(p+n)): [partial] is the partial sum written out by
   the harness in Horner form, [tail] the written-out bound term_N * q / (1 - q) on the remainder *)
Definition cert_incgamma (x p gamma_p partial tail v tol : R) : Prop :=
  0 <= tail /\
  Rabs (exp (p * ln x - x) / gamma_p / p * partial - v) + exp (p * ln x - x) / gamma_p / p * tail <= tol.

Ltac cert_weights :=
  unfold cert_cheng, cert_cheng_reject, cert_expo, cert_small_lo, cert_small_hi, cert_incgamma,
         cheng_accept, cheng_x, cheng_v, expo_x, small_b;
  cbv zeta;
  repeat match goal with |- _ /\ _ => split end;
  try (left; interval with (i_prec 80));
  try (right; interval with (i_prec 80));
  interval with (i_prec 80).
