(* Correspondence and violation oracles for C03. *)
From Coq Require Import List Bool NArith ZArith Arith.
From Coq.Strings Require Import Byte.
Import ListNotations.
From GA.Base Require Import Bytes Case Align CorrBase.
From GA.Gen Require Import Alpha.
From GA.Model Require Fasta.
From GA.Model Require ClustalParse.
From GA.Model Require Import Container Translate.

Definition brows := list (bs * bs).
Definition unrows (l : brows) : rows := map (fun r => (unbs (fst r), unbs (snd r))) l.

Record case := mk {
  k_format : bs; k_policy : Z; k_alpha : Z; k_plen : Z; k_input : bs;
  k_class : bs;                       (* Ok, Err, EOS, Panic, Diverge, Exit *)
  k_rows : brows; k_len : Z; k_outalpha : Z;
  k_multi : list (list bs); k_parts : list Z; k_npart : Z
}.

Local Open Scope bs_scope.
Definition is_fmt (c : case) (s : bs) : bool := bytes_eqb (unbs (k_format c)) (unbs s).
Definition is_class (c : case) (s : bs) : bool := bytes_eqb (unbs (k_class c)) (unbs s).

(* ---- FASTA: the modelled parser + container ----------------------------------------------- *)
Definition set_alphabet (requested : Z) (rs : rows) : option Z :=
  let a := detect_alphabet_rows rs in
  if Z.eqb requested BOTH then Some (auto_alphabet rs)
  else if Z.eqb a UNKNOWN then None
  else if Z.eqb requested NUCLEOTIDS then (if Z.eqb a NUCLEOTIDS || Z.eqb a BOTH then Some NUCLEOTIDS else None)
  else if Z.eqb requested AMINOACIDS then (if Z.eqb a AMINOACIDS || Z.eqb a BOTH then Some AMINOACIDS else None)
  else None.

(* None = error; Some (rows, length, alphabet) *)
Definition fasta_model (aligned : bool) (policy requested : Z) (inp : list byte) : option (rows * Z * Z) :=
  match Fasta.parse inp with
  | Fasta.RErr => None
  | Fasta.ROk parsed =>
      let pol := if Z.eqb policy IGNORE_NAME || Z.eqb policy IGNORE_SEQUENCE then policy else IGNORE_NONE in
      let st0 := mkst aligned pol UNKNOWN (-1) 0 [] [] in
      let '(st, ok) := add_all aligned st0 parsed in
      if negb ok then None
      else match abs st with
           | [] => None
           | rs => match set_alphabet requested rs with
                   | None => None
                   | Some a => Some (rs, c_len st, a)
                   end
           end
  end.

(* Clustal: the modelled lexer + parser, then the same container insertion and alphabet choice *)
Definition clustal_model (policy requested : Z) (inp : list byte) : option (rows * Z * Z) :=
  match ClustalParse.parse inp with
  | ClustalParse.RErr => None
  | ClustalParse.ROk parsed =>
      let pol := if Z.eqb policy IGNORE_NAME || Z.eqb policy IGNORE_SEQUENCE then policy else IGNORE_NONE in
      let st0 := mkst true pol UNKNOWN (-1) 0 [] [] in
      let '(st, ok) := add_all true st0 parsed in
      if negb ok then None
      else match abs st with
           | [] => None
           | rs => match set_alphabet requested rs with
                   | None => None
                   | Some a => Some (rs, c_len st, a)
                   end
           end
  end.

Definition model_ok (c : case) : bool :=
  let inp := unbs (k_input c) in
  if negb (forallb is_ascii inp) then true else
  if is_fmt c "fasta" || is_fmt c "fasta-unalign" then
    let aligned := is_fmt c "fasta" in
    (* the parser normalises the requested alphabet: anything else than the three values is BOTH *)
    match fasta_model aligned (k_policy c) (k_alpha c) inp with
    | None => is_class c "Err"
    | Some (rs, ln, a) =>
        is_class c "Ok" && rows_eqb (unrows (k_rows c)) rs && Z.eqb (k_outalpha c) a &&
        (negb aligned || Z.eqb (k_len c) ln)
    end
  else if is_fmt c "clustal" then
    match clustal_model (k_policy c) (k_alpha c) inp with
    | None => is_class c "Err"
    | Some (rs, ln, a) =>
        is_class c "Ok" && rows_eqb (unrows (k_rows c)) rs && Z.eqb (k_outalpha c) a && Z.eqb (k_len c) ln
    end
  else true.

(* ---- SPEC: error or well-formed result ----------------------------------------------------------- *)
Definition is_digit (b : byte) : bool := N.leb 48 (Byte.to_N b) && N.leb (Byte.to_N b) 57.
Definition is_blank (b : byte) : bool := beqb b x20 || beqb b x09 || beqb b x0a || beqb b x0d.

Fixpoint drop_while (p : byte -> bool) (l : list byte) : list byte :=
  match l with b :: t => if p b then drop_while p t else l | [] => [] end.
Fixpoint take_while (p : byte -> bool) (l : list byte) : list byte :=
  match l with b :: t => if p b then b :: take_while p t else [] | [] => [] end.
Definition num_of (l : list byte) : Z := fold_left (fun acc b => acc * 10 + (Z.of_N (Byte.to_N b) - 48))%Z l 0%Z.

(* the two counts of a Phylip header *)
(* (the lexers read a NUL as "end of file" inside a run of blanks and do not put it back: it is skipped) *)
Definition is_blank0 (b : byte) : bool := is_blank b || beqb b x00.
Definition phylip_header (inp : list byte) : Z * Z :=
  let l1 := drop_while is_blank0 inp in
  let n1 := take_while is_digit l1 in
  let l2 := drop_while is_blank0 (drop_while is_digit l1) in
  (num_of n1, num_of (take_while is_digit l2)).

Definition wellformed_alignment (rs : rows) (len : Z) : bool :=
  Nat.ltb 0 (length rs) && rectangularb rs && nodup_names (names rs) && Z.eqb len (alen rs) && (0 <? len)%Z.

Definition spec_check (c : case) : option bool :=
  let rs := unrows (k_rows c) in
  let phy := is_fmt c "phylip" || is_fmt c "phylip-strict" || is_fmt c "phylip-multi" in
  Some (
    if is_class c "Err" then true
    else if is_class c "EOS" then phy
    else if is_class c "Ok" then
      if is_fmt c "partition" then
        Z.eqb (Z.of_nat (length (k_parts c))) (k_plen c) && Z.eqb (k_len c) (k_plen c) &&
        forallb (fun p => (-1 <=? p)%Z && (p <? k_npart c)%Z) (k_parts c)
      else if is_fmt c "fasta-unalign" then
        Nat.ltb 0 (length rs) && nodup_names (names rs) && forallb (fun r => Nat.ltb 0 (length (snd r))) rs
      else if is_fmt c "phylip-multi" then
        forallb (fun m => match map unbs m with
                          | lenb :: rest =>
                              let n := Nat.div (length rest) 2 in
                              Nat.ltb 0 n &&
                              forallb (fun s => Z.eqb (Z.of_nat (length s)) (num_of lenb)) (skipn n rest) &&
                              nodup_names (firstn n rest)
                          | [] => false end) (k_multi c) && Nat.ltb 0 (length (k_multi c))
      else
        wellformed_alignment rs (k_len c) &&
        (* the counts declared in a Phylip header are the counts of the result *)
        (if (is_fmt c "phylip" || is_fmt c "phylip-strict") && Z.eqb (k_policy c) 0 then
           let '(n, l) := phylip_header (unbs (k_input c)) in
           Z.eqb (Z.of_nat (length rs)) n && Z.eqb (k_len c) l
         else true) &&
        (* ... and so are the counts of a Nexus DIMENSIONS command (when declared once, k_parts = [NTAX; NCHAR],
           -1 for an absent one) *)
        (if is_fmt c "nexus" then
           match k_parts c with
           | [n; l] => (Z.eqb n (-1) || Z.eqb (Z.of_nat (length rs)) n) && (Z.eqb l (-1) || Z.eqb (k_len c) l)
           | _ => true
           end
         else true)
    else false   (* Panic, Diverge (watchdog), Exit *)
  ).

Definition spec_ok (c : case) : bool := ok_of (spec_check c).
Definition failing := failing_gen model_ok spec_ok.
Definition count_judged := count_judged_gen spec_check.
