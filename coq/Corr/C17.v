(* Correspondence and violation oracles for C17 (protein ML distances).
   The pair frequency matrices F and the empirical frequencies are computed by
   the exact rational model (Model/ProtDist.v); the log-likelihood terms
   ln(pi_i P_ij(d)) at the reported distance and at the probe distances come from
   the harness's own assembly from the exported eigen-decomposition of
   models/protein; the likelihood comparison is evaluated here at 2^-80 fixed point. *)
From Coq Require Import List Bool NArith ZArith QArith Arith.
From Coq.Strings Require Import Byte.
Import ListNotations.
From GA.Base Require Import Bytes Case Align CorrBase.
From GA.Gen Require Import Alpha.
From GA.Corr Require Import C07 C18.
From GA.Model Require Import ProtDist.
Local Open Scope Z_scope.

Definition fmat := list (list fl).
(* one pair j<k: probe distances (the first is the reported one) and, for each residue pair
   observed between the two rows, the log terms at every probe *)
Definition pairinfo := (nat * nat * list fl * list (nat * nat * list fl))%type.

Record case := mk {
  k_brows : brows; k_model : Z; k_modelfreqs : bool; k_gamma : bool; k_alpha : Q; k_rmgaps : bool;
  k_ws : option (list Q);
  k_err : bool;
  k_dist : fmat;
  k_pi : list fl;
  k_rowperm : list nat; k_dist_rowperm : fmat;
  k_colperm : list nat; k_dist_colperm : fmat;
  k_pairs : list pairinfo;
  k_prow0 : list fl; k_pcol0 : list fl    (* P(1/2)[0][j] and P(1/2)[j][0] of the substitution model in use *)
}.

Definition k_rows (c : case) : rows := unrows (k_brows c).
Definition at2 (m : list (list Z)) (i j : nat) : Z := nth j (nth i m []) 0.
Definition close (a b : Z) : bool := Z.abs (a - b) * 100000 <=? ONE + Z.max (Z.abs a) (Z.abs b).  (* 1e-5 abs + rel *)

Definition row_seq (rs : rows) (i : nat) : list byte := snd (nth i rs ([], [])).

Definition in_alphabet (b : byte) : bool :=
  (match index_of b stdaminoacid with Some _ => true | None => false end) || beqb b GAP || beqb b ALL_AMINO || beqb b OTHER.

(* the model's empirical frequencies agree with the ones the implementation used *)
Definition model_ok (c : case) : bool :=
  if k_modelfreqs c || k_err c then true
  else
    let sel := selected_sites (k_rows c) (k_rmgaps c) in
    let pim := aa_frequency (k_rows c) sel (k_ws c) in
    Nat.eqb (length (k_pi c)) 20 &&
    forallb (fun p => Z.abs (fx (fst p) - fxq (Qred (snd p))) <=? ONE / 1000000000000) (combine (k_pi c) pim).

Definition lookup_cell (cells : list (nat * nat * list fl)) (i j : nat) : option (list fl) :=
  match find (fun c => Nat.eqb (fst (fst c)) i && Nat.eqb (snd (fst c)) j) cells with
  | Some c => Some (snd c) | None => None end.

(* lnL at every probe: sum over the cells of F * log term; None if a needed log term is missing *)
Definition lnL_probes (cols : list pcol) (cells : list (nat * nat * list fl)) (nprobes : nat) : option (list Z) :=
  let idx := seq 0 20 in
  let tot := total cols in
  fold_right (fun ij acc =>
      match acc with None => None | Some sums =>
        let '(i, j) := ij in
        let w := cell cols i j in
        if Qeq_bool w 0 then Some sums
        else match lookup_cell cells i j with
             | None => None
             | Some lts =>
                 if Nat.eqb (length lts) nprobes && forallb (fun f => Z.eqb (fl_class f) 0) lts
                 then let fz := fxq (Qred (w / tot)) in
                      Some (map (fun p => fst p + dv (fz * fx (snd p))) (combine sums lts))
                 else None
             end
      end)
    (Some (repeat 0 nprobes)) (list_prod idx idx).

Definition clauses (c : case) : list bool :=
  let rs := k_rows c in
  let n := length rs in
  let idx := seq 0 n in
  let d := map (map fx) (k_dist c) in
  let sel := selected_sites rs (k_rmgaps c) in
  let fin := forallb (forallb (fun f => Z.eqb (fl_class f) 0)) in
  [ (* shape, finiteness *)
    fin (k_dist c) && Nat.eqb (length d) n && forallb (fun r => Nat.eqb (length r) n) d;
    (* symmetric, zero diagonal, range *)
    forallb (fun i => forallb (fun j => Z.eqb (at2 d i j) (at2 d j i)) idx && Z.eqb (at2 d i i) 0) idx;
    forallb (forallb (fun x => (0 <=? x) && (x <=? 20 * ONE))) d;
    (* pairs with no unambiguous difference are at 0 *)
    forallb (fun i => forallb (fun j => seqs_differ (row_seq rs i) (row_seq rs j) || Z.eqb (at2 d i j) 0) idx) idx;
    (* likelihood maximiser *)
    forallb (fun p : pairinfo =>
        let '(j, k, probes, cells) := p in
        let dstar := at2 d j k in
        if negb (seqs_differ (row_seq rs j) (row_seq rs k)) || (20 * ONE <=? dstar) || (dstar <? 0) then true
        else
          let cols := pair_cols 0 (row_seq rs j) (row_seq rs k) sel (k_ws c) in
          match probes with
          | [] => false
          | p0 :: _ =>
              Z.eqb (fx p0) dstar &&
              match lnL_probes cols cells (length probes) with
              | Some (l0 :: others) => forallb (fun l => l <=? l0 + ONE / 10000000) others
              | _ => false
              end
          end) (k_pairs c)
    && forallb (fun j => forallb (fun k => negb (Nat.ltb j k) ||
          existsb (fun p : pairinfo => Nat.eqb (fst (fst (fst p))) j && Nat.eqb (snd (fst (fst p))) k) (k_pairs c)) idx) idx;
    (* reordering the sequences permutes the matrix *)
    (let dp := map (map fx) (k_dist_rowperm c) in
     fin (k_dist_rowperm c) &&
     forallb (fun a => forallb (fun b => close (at2 dp a b) (at2 d (nth a (k_rowperm c) 0%nat) (nth b (k_rowperm c) 0%nat))) idx) idx);
    (* reordering the columns leaves it unchanged *)
    (let dc := map (map fx) (k_dist_colperm c) in
     fin (k_dist_colperm c) &&
     forallb (fun a => forallb (fun b => close (at2 dc a b) (at2 d a b)) idx) idx);
    (* the model in use is reversible with respect to the frequencies in use: pi_0 P_0j = pi_j P_j0 *)
    (let pi := map fx (k_pi c) in
     Nat.eqb (length (k_prow0 c)) 20 && Nat.eqb (length (k_pcol0 c)) 20 &&
     forallb (fun j => Z.abs (dv (nth 0 pi 0 * fx (nth j (k_prow0 c) (0, 0, 0))) - dv (nth j pi 0 * fx (nth j (k_pcol0 c) (0, 0, 0))))
                       <=? ONE / 1000000000) (seq 0 20)) ].

Definition spec_check (c : case) : option bool :=
  if k_err c || Nat.ltb (length (k_rows c)) 2 || negb (forallb (fun r => forallb in_alphabet (snd r)) (k_rows c)) then None
  else Some (forallb (fun b => b) (clauses c)).

Definition spec_ok (c : case) : bool := ok_of (spec_check c).
Definition failing := failing_gen model_ok spec_ok.
Definition count_judged := count_judged_gen spec_check.
