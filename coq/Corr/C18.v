(* Correspondence and violation oracles for C18: the transition matrices
   returned by the implementation (binary64 values) are read as fixed-point
   integers at scale 2^-80 (truncation error below 2^-80) and judged against
   the clauses of the property in integer arithmetic; the closed forms of JC and
   K2P are tied by interval certificates (Cases/C18_cert_*.v). *)
From Coq Require Import List Bool NArith ZArith QArith Arith.
From Coq.Strings Require Import Byte.
Import ListNotations.
From GA.Base Require Import Bytes CorrBase.
From GA.Corr Require Import C07.
From GA.Model Require Import RateMatrix.
Local Open Scope Z_scope.

Definition fmat := list (list fl).

Record case := mk {
  k_kind : Z;                     (* 0 JC, 1 K2P, 2 F81, 3 F84, 4 TN93, 5 GTR, 6 protein *)
  k_model : bs; k_params : list Q;
  k_pi : list Q;
  k_s : Q; k_t : Q;
  k_p0 : fmat; k_ps : fmat; k_pt : fmat; k_pst : fmat; k_pinf : fmat;   (* P(0), P(s), P(t), P(s+t), P(100) *)
  k_ph : fmat;                                  (* P(2^-20) *)
  k_val : list fl; k_left : fmat; k_right : fmat   (* Model.Eigens() *)
}.

Definition SC : Z := 80.
Definition ONE : Z := 2 ^ SC.
(* value * 2^SC, truncated *)
Definition fx (f : fl) : Z :=
  let '(_, n, e) := f in Z.shiftl n (e + SC).
Definition dv (x : Z) : Z := Z.shiftr x SC.    (* x / ONE *)
Definition fxq (x : Q) : Z := (Qnum x * ONE) / Z.pos (Qden x).

Definition fxm (m : fmat) : list (list Z) := map (map fx) m.
Definition v (m : list (list Z)) (i j : nat) : Z := nth j (nth i m []) 0.
Definition finite (m : fmat) : bool := forallb (forallb (fun f => Z.eqb (fl_class f) 0)) m.
Definition TOL : Z := ONE / 100000000.        (* 1e-8 *)
Definition near (a b : Z) : bool := Z.abs (a - b) <=? TOL.

(* the textbook rate matrix of the nucleotide models *)
Definition textbook (c : case) : option (nat -> nat -> Q) :=
  let p := k_params c in let pi := k_pi c in
  let k := k_kind c in
  if Z.eqb k 0 then Some (rate ex_jc uniform)
  else if Z.eqb k 1 then Some (rate (ex_k2p (qnth p 0)) uniform)
  else if Z.eqb k 2 then Some (rate ex_jc pi)
  else if Z.eqb k 3 then Some (rate (ex_f84 (qnth p 0) pi) pi)
  else if Z.eqb k 4 then Some (rate (ex_tn93 (qnth p 0) (qnth p 1)) pi)
  else if Z.eqb k 5 then Some (rate (ex_gtr (qnth p 0) (qnth p 1) (qnth p 2) (qnth p 3) (qnth p 4) (qnth p 5)) pi)
  else None.

Definition l1 (row : list Z) (pi : list Z) : Z :=
  fold_right Z.add 0 (map (fun ab => Z.abs (fst ab - snd ab)) (combine row pi)).
Definition HINV : Z := 2 ^ 20.

Definition model_ok (c : case) : bool := true.   (* closed forms: see Cases/C18_cert_*.v *)

(* the clauses of the property, in order: shape/finite, stochastic, identity at 0,
   semigroup, detailed balance, convergence, rate matrix rows, normalisation,
   rate reversibility, textbook rates, eigen system hypotheses, generator *)
Definition clauses (c : case) : list bool :=
  let n := length (k_ps c) in
  let idx := seq 0 n in
  let raw := [k_p0 c; k_ps c; k_pt c; k_pst c; k_pinf c] in
  let p0 := fxm (k_p0 c) in let ps := fxm (k_ps c) in let pt := fxm (k_pt c) in
  let pst := fxm (k_pst c) in let pinf := fxm (k_pinf c) in
  let all := [p0; ps; pt; pst; pinf] in
  let pi := map fxq (k_pi c) in
  let ph := fxm (k_ph c) in
  let vals := map fx (k_val c) in let lf := fxm (k_left c) in let rg := fxm (k_right c) in
  let qmat := map (fun i => map (fun j =>
                  fold_right (fun k acc => dv (dv (v rg i k * nth k vals 0) * v lf k j) + acc) 0 idx) idx) idx in
  let qm := v qmat in
  [ forallb finite raw && forallb (fun m => Nat.eqb (length m) n && forallb (fun r => Nat.eqb (length r) n) m) raw
    && Nat.eqb (length pi) n && negb (Nat.eqb n 0);
    forallb (fun m => forallb (fun i =>
        forallb (fun j => (- TOL <=? v m i j) && (v m i j <=? ONE + TOL)) idx &&
        near (fold_right (fun j acc => v m i j + acc) 0 idx) ONE) idx) all;
    forallb (fun i => forallb (fun j => near (v p0 i j) (if Nat.eqb i j then ONE else 0)) idx) idx;
    forallb (fun i => forallb (fun j =>
        near (v pst i j) (dv (fold_right (fun k acc => v ps i k * v pt k j + acc) 0 idx))) idx) idx;
    forallb (fun m => forallb (fun i => forallb (fun j =>
        near (dv (nth i pi 0 * v m i j)) (dv (nth j pi 0 * v m j i))) idx) idx) [ps; pt; pst];
    (* convergence: the L1 distance of every row to pi does not increase along s <= s+t <= 100
       and is small at 100 *)
    forallb (fun i =>
        (l1 (nth i pst []) pi <=? l1 (nth i ps []) pi + TOL) &&
        (l1 (nth i pinf []) pi <=? l1 (nth i pst []) pi + TOL) &&
        (Z.eqb (k_kind c) 6 || (l1 (nth i pinf []) pi <=? ONE / 1000000))) idx
    (* spectral form of convergence: a single zero eigenvalue, all others negative *)
    && Nat.eqb (length (filter (fun x => Z.abs x <=? TOL) vals)) 1
    && forallb (fun x => x <=? TOL) vals;
    (* the rate matrix Q = R diag(val) L of the eigen system: rows sum to 0, off-diagonal >= 0 *)
    forallb (fun i =>
        near (fold_right (fun j acc => qm i j + acc) 0 idx) 0 &&
        forallb (fun j => Nat.eqb i j || (- TOL <=? qm i j)) idx) idx;
    (* one expected substitution per unit time *)
    near (- fold_right (fun i acc => dv (nth i pi 0 * qm i i) + acc) 0 idx) ONE
    || (* frequencies published with the protein matrices sum to 1 only up to 1e-6 *)
       (Z.eqb (k_kind c) 6 && (Z.abs (- fold_right (fun i acc => dv (nth i pi 0 * qm i i) + acc) 0 idx - ONE) <=? ONE / 100000));
    (* reversibility of the rates *)
    forallb (fun i => forallb (fun j => near (dv (nth i pi 0 * qm i j)) (dv (nth j pi 0 * qm j i))) idx) idx;
    (* textbook matrix *)
    match textbook c with
    | None => true
    | Some tq => forallb (fun i => forallb (fun j => near (qm i j) (fxq (Qred (tq i j)))) idx) idx
    end;
    (* hypotheses of Proofs/EigenProofs.v on the returned eigen system: L R = I, R L = I, and the
       left eigenvectors of the non-zero eigenvalues sum to zero *)
    forallb (fun i => forallb (fun j =>
        near (dv (fold_right (fun k acc => v lf i k * v rg k j + acc) 0 idx)) (if Nat.eqb i j then ONE else 0) &&
        near (dv (fold_right (fun k acc => v rg i k * v lf k j + acc) 0 idx)) (if Nat.eqb i j then ONE else 0)) idx) idx &&
    forallb (fun k => (Z.abs (nth k vals 0) <=? TOL) || near (fold_right (fun j acc => v lf k j + acc) 0 idx) 0) idx;
    (* P is generated by Q: (P(h) - I)/h = Q + O(h) *)
    forallb (fun i => forallb (fun j =>
        Z.abs ((v ph i j - (if Nat.eqb i j then ONE else 0)) * HINV - qm i j) <=? ONE / 1000) idx) idx ].

Definition spec_check (c : case) : option bool := Some (forallb (fun b => b) (clauses c)).

Definition spec_ok (c : case) : bool := ok_of (spec_check c).
Definition failing := failing_gen model_ok spec_ok.
Definition count_judged := count_judged_gen spec_check.
