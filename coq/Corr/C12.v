(* Correspondence and violation oracles for C12. *)
From Coq Require Import List Bool NArith ZArith QArith Arith.
From Coq.Strings Require Import Byte.
Import ListNotations.
From GA.Base Require Import Bytes Case Align CorrBase.
From GA.Gen Require Import Alpha.
From GA.Model Require Import Clean.
Local Open Scope nat_scope.

Definition brows := list (bs * bs).
Definition unrows (l : brows) : rows := map (fun r => (unbs (fst r), unbs (snd r))) l.

Inductive op :=
| OpCharSites (chars : bs) (cutoff : Q) (ends ic ig ins rev : bool)
| OpGapSites (cutoff : Q) (ends : bool)
| OpMajSites (cutoff : Q) (ends ig ins : bool)
| OpCharSeqs (c : byte) (cutoff : Q) (ic ig ins : bool)
| OpGapSeqs (cutoff : Q) (ins : bool).

Record case := mk {
  c_alpha : Z; c_in : brows; c_op : op;
  c_first : Z; c_last : Z; c_kept : list Z; c_rm : list Z;   (* site variants; c_first = #removed for seq variants *)
  c_out : brows; c_len : Z
}.

Definition zl (l : list nat) : list Z := map Z.of_nat l.

Definition sites_ok (c : case) (res : nat * nat * list nat * list nat * rows) : bool :=
  let '(first, last, kept, rm, out) := res in
  Z.eqb (c_first c) (Z.of_nat first) && Z.eqb (c_last c) (Z.of_nat last) &&
  Zlist_eqb (c_kept c) (zl kept) && Zlist_eqb (c_rm c) (zl rm) &&
  rows_eqb (unrows (c_out c)) out && Z.eqb (c_len c) (alen out).

Definition seqs_ok (c : case) (res : nat * rows) : bool :=
  let '(n, out) := res in
  Z.eqb (c_first c) (Z.of_nat n) && rows_eqb (unrows (c_out c)) out && Z.eqb (c_len c) (alen out).

Definition model_ok (c : case) : bool :=
  let rs := unrows (c_in c) in
  match c_op c with
  | OpCharSites chars cutoff ends ic ig ins rev =>
      sites_ok c (remove_character_sites (c_alpha c) rs
                    {| o_chars := unbs chars; o_ignore_case := ic; o_ignore_gaps := ig; o_ignore_ns := ins;
                       o_reverse := rev |} cutoff ends)
  | OpGapSites cutoff ends => sites_ok c (remove_gap_sites (c_alpha c) rs cutoff ends)
  | OpMajSites cutoff ends ig ins => sites_ok c (remove_majority_sites (c_alpha c) rs cutoff ends ig ins)
  | OpCharSeqs ch cutoff ic ig ins => seqs_ok c (remove_character_seqs (c_alpha c) rs ch cutoff ic ig ins)
  | OpGapSeqs cutoff ins => seqs_ok c (remove_gap_seqs (c_alpha c) rs cutoff ins)
  end.

(* ---- SPEC oracle ------------------------------------------------------------------------ *)
Definition wild (alphabet : Z) : byte := if Z.eqb alphabet 0 then x58 else x4e.   (* X for proteins, N otherwise *)

Definition sp_excluded (alphabet : Z) (ig ins : bool) (b : byte) : bool :=
  (ig && beqb b x2d) || (ins && beqb (ascii_upper b) (wild alphabet)).

Definition sp_selected (chars : list byte) (ic rev : bool) (b : byte) : bool :=
  let s := existsb (fun v => if ic then beqb (ascii_lower v) (ascii_lower b) else beqb v b) chars in
  if rev then negb s else s.

(* fraction >= cutoff, count > 0 at cutoff 0 *)
Definition sp_rule (cutoff : Q) (nb tot : nat) : bool :=
  if Qeq_bool cutoff 0 then Nat.ltb 0 nb
  else Qle_bool (cutoff * inject_Z (Z.of_nat tot)) (inject_Z (Z.of_nat nb)).

Definition cnt (f : byte -> bool) (l : list byte) : nat := length (filter f l).

Fixpoint prefix_run (l : list bool) : nat := match l with true :: t => S (prefix_run t) | _ => 0 end.

Definition sp_clean (rs : rows) (ends : bool) (quals : list bool) : Z * Z * list Z * list Z * rows :=
  let L := length quals in
  let p := prefix_run quals in
  let s := prefix_run (rev quals) in
  let isrm i := nth i quals false && (negb ends || Nat.ltb i p || Nat.leb (L - s) i) in
  let kept := filter (fun i => negb (isrm i)) (seq 0 L) in
  (Z.of_nat p, Z.of_nat s, zl kept, zl (filter isrm (seq 0 L)),
   map (fun r => (fst r, map (fun i => nth i (snd r) x00) kept)) rs).

Definition sp_sites_ok (c : case) (res : Z * Z * list Z * list Z * rows) : bool :=
  let '(first, last, kept, rm, out) := res in
  Z.eqb (c_first c) first && Z.eqb (c_last c) last && Zlist_eqb (c_kept c) kept && Zlist_eqb (c_rm c) rm &&
  rows_eqb (unrows (c_out c)) out && Z.eqb (c_len c) (alen out).

Definition cutoff_in_range (q : Q) : bool := Qle_bool 0 q && Qle_bool q 1.

Definition all_bytes_of (rs : rows) : list byte := flat_map snd rs.

Definition maxl (l : list nat) : nat := fold_right Nat.max 0 l.

Definition spec_check (c : case) : option bool :=
  let rs := unrows (c_in c) in
  let al := c_alpha c in
  let W := width rs in
  let cols := map (column rs) (seq 0 W) in
  if negb (rectangularb rs && nodup_names (names rs) && Nat.ltb 0 (length rs)
           && forallb is_ascii (all_bytes_of rs)) then None else
  match c_op c with
  | OpCharSites chars cutoff ends ic ig ins rev =>
      let chars := unbs chars in
      if cutoff_in_range cutoff &&
         (* unspecified combinations: a residue both matching and excluded; a column with every row excluded *)
         negb (existsb (fun b => sp_selected chars ic rev b && sp_excluded al ig ins b) (all_bytes_of rs)) &&
         forallb (fun col => Nat.ltb 0 (cnt (fun b => negb (sp_excluded al ig ins b)) col)) cols
      then
        Some (sp_sites_ok c (sp_clean rs ends
          (map (fun col => sp_rule cutoff (cnt (sp_selected chars ic rev) col)
                                   (cnt (fun b => negb (sp_excluded al ig ins b)) col)) cols)))
      else None
  | OpGapSites cutoff ends =>
      if cutoff_in_range cutoff then
        Some (sp_sites_ok c (sp_clean rs ends
          (map (fun col => sp_rule cutoff (cnt (fun b => beqb b x2d) col) (length col)) cols)))
      else None
  | OpMajSites cutoff ends ig ins =>
      if cutoff_in_range cutoff &&
         forallb (fun col => Nat.ltb 0 (cnt (fun b => negb (sp_excluded al ig ins b)) col)) cols
      then
        Some (sp_sites_ok c (sp_clean rs ends
          (map (fun col =>
                  let u := map ascii_upper (filter (fun b => negb (sp_excluded al ig ins b)) col) in
                  sp_rule cutoff (maxl (map (fun k => cnt (beqb k) u) u)) (length u)) cols)))
      else None
  | OpCharSeqs ch cutoff ic ig ins =>
      if cutoff_in_range cutoff &&
         negb (existsb (fun b => sp_selected [ch] ic false b && sp_excluded al ig ins b) (all_bytes_of rs)) &&
         forallb (fun r => Nat.ltb 0 (cnt (fun b => negb (sp_excluded al ig ins b)) (snd r))) rs
      then
        let keep := filter (fun r => negb (sp_rule cutoff (cnt (sp_selected [ch] ic false) (snd r))
                                             (cnt (fun b => negb (sp_excluded al ig ins b)) (snd r)))) rs in
        Some (Z.eqb (c_first c) (Z.of_nat (length rs - length keep)) && rows_eqb (unrows (c_out c)) keep &&
        Z.eqb (c_len c) (alen keep))
      else None
  | OpGapSeqs cutoff ins =>
      if cutoff_in_range cutoff &&
         forallb (fun r => Nat.ltb 0 (cnt (fun b => negb (sp_excluded al false ins b)) (snd r))) rs
      then
        let keep := filter (fun r => negb (sp_rule cutoff (cnt (fun b => beqb b x2d) (snd r))
                                             (cnt (fun b => negb (sp_excluded al false ins b)) (snd r)))) rs in
        Some (Z.eqb (c_first c) (Z.of_nat (length rs - length keep)) && rows_eqb (unrows (c_out c)) keep &&
        Z.eqb (c_len c) (alen keep))
      else None
  end.

Definition spec_ok (c : case) : bool := ok_of (spec_check c).
Definition failing := failing_gen model_ok spec_ok.
Definition count_judged := count_judged_gen spec_check.
