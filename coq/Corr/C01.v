(* Correspondence and violation oracles for C01. *)
From Coq Require Import List Bool NArith ZArith Arith.
From Coq.Strings Require Import Byte.
Import ListNotations.
From GA.Base Require Import Bytes Case Align CorrBase.
From GA.Gen Require Import Alpha.
From GA.Model Require Import Container Sites.

Definition brows := list (bs * bs).
Definition unrows (l : brows) : rows := map (fun r => (unbs (fst r), unbs (snd r))) l.

(* operations as written by the harness (byte strings carry the bs notation) *)
Inductive bop :=
| BAdd (name seq : bs) | BPolicy (p : Z) | BAppend (rs : brows) | BIdent (id : bs) (atright : bool)
| BRename (m : list (bs * bs)) | BRenameLit (old new : bs) | BCleanNames | BTrimAuto (curid : Z)
| BTrim (m : list (bs * bs)) (size : Z)
| BSort | BShuffle (draws : list Z) | BFilterLength (mn mx : Z) | BClear | BClone
| BSetChar (i j : Z) (c : byte) | BSample (nb : Z) (perm : list Z)
| BConcat (calpha : Z) (c : brows).

Definition to_cop (b : bop) : cop :=
  match b with
  | BAdd n s => OpAdd (unbs n) (unbs s)
  | BPolicy p => OpPolicy p
  | BAppend rs => OpAppend (unrows rs)
  | BIdent id r => OpIdent (unbs id) r
  | BRename m => OpRename (map (fun kv => (unbs (fst kv), unbs (snd kv))) m)
  | BRenameLit o n => OpRenameLit (unbs o) (unbs n)
  | BCleanNames => OpCleanNames
  | BTrimAuto c => OpTrimAuto (Z.to_N c)
  | BTrim m size => OpTrim (map (fun kv => (unbs (fst kv), unbs (snd kv))) m) size
  | BSort => OpSort
  | BShuffle d => OpShuffle (map Z.to_nat d)
  | BFilterLength a b => OpFilterLength a b
  | BClear => OpClear
  | BClone => OpClone
  | BSetChar i j c => OpSetChar i j c
  | BSample nb p => OpSample nb (map Z.to_nat p)
  | BConcat calpha c => OpConcat calpha (unrows c)
  end.

(* what the harness observed after an operation *)
Record obs := mkobs {
  o_err : bool; o_nb : Z; o_len : Z; o_rows : brows;
  o_look : list (option bs * Z)      (* per universe name: GetSequence, GetSequenceIdByName *)
}.

Record case := mk {
  c_kindb : bool; c_alphaz : Z; c_init : brows; c_universe : list bs; c_steps : list (bop * obs)
}.

Definition optb_eqb (a : option bs) (b : option (list byte)) : bool :=
  match a, b with
  | Some x, Some y => bytes_eqb (unbs x) y
  | None, None => true
  | _, _ => false
  end.

Definition obs_matches (check_len : bool) (universe : list bs) (o : obs) (st : cstate) (ok : bool) : bool :=
  Bool.eqb (o_err o) (negb ok) &&
  Z.eqb (o_nb o) (Z.of_nat (length (c_objs st))) &&
  (negb check_len || negb (c_kind st) || Z.eqb (o_len o) (c_len st)) &&
  rows_eqb (unrows (o_rows o)) (abs st) &&
  Nat.eqb (length (o_look o)) (length universe) &&
  forallb (fun an : (option bs * Z) * bs =>
             let '(a, n) := an in
             optb_eqb (fst a) (get_by_name st (unbs n)) && Z.eqb (snd a) (id_by_name st (unbs n)))
          (combine (o_look o) universe).

(* SPEC variant: by-name access must return a row that carries the name - the first one when the names
   are pairwise distinct; when the caller made two rows share a name, any of them (GetSequence goes
   through the name index, GetSequenceIdByName scans the rows: which carrier each designates is not specified) - and nothing when no row carries it *)
Definition obs_matches_spec (check_len : bool) (universe : list bs) (o : obs) (st : cstate) (ok : bool) : bool :=
  let rows := abs st in
  Bool.eqb (o_err o) (negb ok) &&
  Z.eqb (o_nb o) (Z.of_nat (length (c_objs st))) &&
  (negb check_len || negb (c_kind st) || Z.eqb (o_len o) (c_len st)) &&
  rows_eqb (unrows (o_rows o)) rows &&
  Nat.eqb (length (o_look o)) (length universe) &&
  forallb (fun an : (option bs * Z) * bs =>
             let '(a, n) := an in
             let carriers := filter (fun ir => bytes_eqb (fst (snd ir)) (unbs n)) (combine (seq 0 (length rows)) rows) in
             match carriers, fst a with
             | [], None => Z.eqb (snd a) (-1)
             | [], Some _ => false
             | _ :: _, None => false
             | _ :: _, Some s =>
                 (* each accessor designates a carrier (the same one when there is only one) *)
                 existsb (fun ir => Z.eqb (snd a) (Z.of_nat (fst ir))) carriers &&
                 existsb (fun ir => bytes_eqb (snd (snd ir)) (unbs s)) carriers
             end)
          (combine (o_look o) universe).

Definition init_state (c : case) : cstate :=
  fst (add_all (c_kindb c) (empty_state (c_kindb c) (c_alphaz c)) (unrows (c_init c))).

Fixpoint run_model (universe : list bs) (st : cstate) (steps : list (bop * obs)) : bool :=
  match steps with
  | [] => true
  | (b, o) :: t =>
      let '(st', ok) := step st (to_cop b) in
      obs_matches true universe o st' ok && run_model universe st' t
  end.

Definition model_ok (c : case) : bool := run_model (c_universe c) (init_state c) (c_steps c).

(* ---- SPEC: the plain list-of-(name, sequence) reference ---------------------------------
   The reference keeps no index: before every operation the index is recomputed
   from the list (first row of each name), so by-name access is "first row
   carrying the name" and nothing else can influence the result. *)
Definition canon (st : cstate) : cstate :=
  let st1 := set_objs st (c_objs st) (reindex (c_objs st)) in
  (* an alignment without rows has no length: it accepts a first row of any length *)
  if c_kind st1 then match c_objs st1 with [] => set_len st1 (-1) | _ => st1 end else st1.

Definition is_rename (b : bop) : bool :=
  match b with BIdent _ _ | BRename _ | BRenameLit _ _ | BCleanNames | BTrimAuto _ | BTrim _ _ => true | _ => false end.

Fixpoint run_spec (universe : list bs) (st : cstate) (renamed : bool) (steps : list (bop * obs)) : bool :=
  match steps with
  | [] => true
  | (b, o) :: t =>
      let '(st1, ok) := step (canon st) (to_cop b) in
      let st' := canon st1 in
      let rows' := abs st' in
      let renamed' := renamed || is_rename b in
      (* a failed concatenation: the property speaks of successful operations only; the error must be
         reported, and the remainder of the history (none is generated) is not judged *)
      if (match b with BConcat _ _ => negb ok | _ => false end) then o_err o else
      (* a successful concatenation of uniquely named rows is the row-level definition (Model/Sites.v) *)
      (match b with
       | BConcat calpha cr =>
           negb (nodup_names (names (abs st)) && nodup_names (names (unrows cr)) && rectangularb (unrows cr)) ||
           (let '(rs, okc) := Sites.concat (c_alpha st) calpha (abs st) (unrows cr) in okc && rows_eqb rs rows')
       | _ => true
       end) &&
      (* the observed content is the reference's (length is judged when there is a row) *)
      obs_matches_spec (match rows' with [] => false | _ => true end) universe o st' ok &&
      (* every row of an alignment has the reported length *)
      (negb (c_kind st') || forallb (fun r => Z.eqb (Z.of_nat (length (snd r))) (o_len o)) (unrows (o_rows o))) &&
      (* names pairwise distinct unless the caller renamed rows *)
      (renamed' || nodup_names (names (unrows (o_rows o)))) &&
      run_spec universe st' renamed' t
  end.

Definition spec_check (c : case) : option bool :=
  let st0 := init_state c in
  Some (run_spec (c_universe c) st0 false (c_steps c)).

Definition spec_ok (c : case) : bool := ok_of (spec_check c).
Definition failing := failing_gen model_ok spec_ok.
Definition count_judged := count_judged_gen spec_check.
