(* Kernel-checked numeric certificates for the closed-form estimators (C07):
   for a sampled pair, the rational inputs are computed from the case by the
   counting model (vm_compute), the real-valued formula of Model/DnaDist.v is
   instantiated on them, and the `interval` tactic proves that the value
   returned by the Go code is within the tolerance. *)
From Coq Require Import List Bool NArith ZArith QArith Reals.
From Interval Require Import Tactic.
Import ListNotations.
From GA.Base Require Import Bytes Align.
From GA.Model Require Import DnaCount DnaDist.
From GA.Corr Require Import C07.

Definition cert_inputs (c : case) (i j : nat) : list Q :=
  let rs := unrows (k_in c) in
  match codes_of rs with
  | None => []
  | Some codes =>
      let sel := selected_sites rs (k_rmgaps c) in
      let pi := proba_nt codes sel (k_weights c) in
      let pq := pair_counts c sel (nth i codes []) (nth j codes []) in
      let pa := nth 0 pi 0%Q in let pc := nth 1 pi 0%Q in let pg := nth 2 pi 0%Q in let pt := nth 3 pi 0%Q in
      map Qred
      (if Z.eqb (k_model c) 2 then [pq_p pq]
       else if Z.eqb (k_model c) 3 then [pq_P pq; pq_Q pq]
       else if Z.eqb (k_model c) 4 then [(1 - (pa * pa + pc * pc + pg * pg + pt * pt))%Q; pq_p pq]
       else if Z.eqb (k_model c) 5 then
         [(pa * pg / (pa + pg) + pc * pt / (pc + pt))%Q; (pa * pg + pc * pt)%Q; ((pa + pg) * (pc + pt))%Q; pq_P pq; pq_Q pq]
       else [pa; pc; pg; pt; pq_Q pq; pq_p1 pq; pq_p2 pq])
  end.

Local Open Scope R_scope.
Definition x (l : list Q) (k : nat) : R := Q2R (nth k l 0%Q).

Definition model_value (m : Z) (gamma : bool) (al : R) (l : list Q) : R :=
  if Z.eqb m 2 then (if gamma then jc_gamma al (x l 0) else jc (x l 0))
  else if Z.eqb m 3 then (if gamma then k2p_gamma al (x l 0) (x l 1) else k2p (x l 0) (x l 1))
  else if Z.eqb m 4 then (if gamma then f81_gamma (x l 0) al (x l 1) else f81 (x l 0) (x l 1))
  else if Z.eqb m 5 then (if gamma then f84_gamma al (x l 0) (x l 1) (x l 2) (x l 3) (x l 4)
                          else f84 (x l 0) (x l 1) (x l 2) (x l 3) (x l 4))
  else (if gamma then tn93_gamma al (x l 0) (x l 1) (x l 2) (x l 3) (x l 4) (x l 5) (x l 6)
        else tn93 (x l 0) (x l 1) (x l 2) (x l 3) (x l 4) (x l 5) (x l 6)).

Definition cert (c : case) (i j : nat) (v tol : R) : Prop :=
  Rabs (model_value (k_model c) (k_gamma c) (Q2R (k_alpha c)) (cert_inputs c i j) - v) <= tol.

Ltac cert_tac :=
  match goal with
  | |- cert ?c ?i ?j ?v ?tol =>
      let l := eval vm_compute in (cert_inputs c i j) in
      let m := eval vm_compute in (k_model c) in
      let g := eval vm_compute in (k_gamma c) in
      let a := eval vm_compute in (k_alpha c) in
      change (Rabs (model_value m g (Q2R a) l - v) <= tol);
      cbv [model_value x nth Q2R Qnum Qden Z.eqb Pos.eqb
           jc jc_gamma k2p k2p_gamma f81 f81_gamma f84 f84_gamma tn93 tn93_gamma];
      interval with (i_prec 70)
  end.
