(* Correspondence and violation oracles for C02. *)
From Coq Require Import List Bool NArith ZArith Arith.
From Coq.Strings Require Import Byte.
Import ListNotations.
From GA.Base Require Import Bytes Case Align CorrBase.
From GA.Gen Require Import Alpha IOConst.
From GA.Model Require Fasta Phylip Nexus Clustal ClustalParse.
From GA.Model Require Import Translate.

Definition brows := list (bs * bs).
Definition unrows (l : brows) : rows := map (fun r => (unbs (fst r), unbs (snd r))) l.

Record case := mk {
  k_cfg : bs; k_inalpha : Z; k_in : brows; k_written : bs; k_class : bs;
  k_out : brows; k_len : Z; k_outalpha : Z; k_detected : Z
}.

Local Open Scope bs_scope.
Definition is_cfg (c : case) (s : bs) : bool := bytes_eqb (unbs (k_cfg c)) (unbs s).
Definition is_class (c : case) (s : bs) : bool := bytes_eqb (unbs (k_class c)) (unbs s).

(* FASTA is modelled: the writer's bytes and the parser's result *)
Definition model_ok (c : case) : bool :=
  let rs := unrows (k_in c) in
  if is_cfg c "fasta" || is_cfg c "fasta.gz" then
    bytes_eqb (unbs (k_written c)) (Fasta.write FASTA_LINE rs) &&
    match Fasta.parse (unbs (k_written c)) with
    | Fasta.ROk rows => is_class c "Ok" && rows_eqb (unrows (k_out c)) rows
    | Fasta.RErr => is_class c "Err"
    end
  else if is_cfg c "phylip" || is_cfg c "phylip-oneline" || is_cfg c "phylip-noblock" || is_cfg c "phylip-strict" then
    (* the Phylip writer is modelled for its four layouts; the reference reading of the written bytes must
       be what the code's parser returned (relaxed names only: strict names are cut to 10 characters) *)
    let ly := Phylip.Build_layout (is_cfg c "phylip-strict") (is_cfg c "phylip-oneline") (is_cfg c "phylip-noblock") in
    bytes_eqb (unbs (k_written c)) (Phylip.write PHYLIP_LINE PHYLIP_BLOCK ly rs) &&
    (is_cfg c "phylip-strict" || negb (is_class c "Ok") ||
     rows_eqb (unrows (k_out c)) (Phylip.read (length rs) (unbs (k_written c))))
  else if is_cfg c "nexus" then
    (* the Nexus writer is modelled; the reference reading of its matrix block must be what the code's
       parser returned *)
    bytes_eqb (unbs (k_written c)) (Nexus.write (Z.eqb (k_inalpha c) AMINOACIDS) rs) &&
    (negb (is_class c "Ok") || rows_eqb (unrows (k_out c)) (Nexus.read (unbs (k_written c))))
  else if is_cfg c "clustal" then
    (* the Clustal writer (rows, running residue counts, conservation line) is modelled, and so is the parser:
       what the code model of the parser reads in the written bytes must be what the code's parser returned *)
    bytes_eqb (unbs (k_written c)) (Clustal.write (k_inalpha c) rs) &&
    (negb (forallb is_ascii (unbs (k_written c))) ||
     match ClustalParse.parse (unbs (k_written c)) with
     | ClustalParse.ROk rows => negb (is_class c "Ok") || rows_eqb (unrows (k_out c)) rows
     | ClustalParse.RErr => negb (is_class c "Ok")
     end)
  else true.

(* ---- SPEC: representable alignments round-trip ---------------------------------------------- *)
Definition lower (l : list byte) : list byte := map ascii_lower l.
Definition kw (l : list bs) (n : list byte) : bool := existsb (fun k => bytes_eqb (lower n) (lower (unbs k))) l.
Definition is_digit (b : byte) : bool := N.leb 48 (Byte.to_N b) && N.leb (Byte.to_N b) 57.
Definition all_digits (n : list byte) : bool := forallb is_digit n.
Definition has (b : byte) (n : list byte) : bool := existsb (beqb b) n.

Definition nexus_kw : list bs :=
  ["#nexus"; "begin"; "data"; "characters"; "taxa"; "taxlabels"; "trees"; "tree"; "dimensions"; "ntax"; "nchar";
   "format"; "datatype"; "missing"; "matchchar"; "gap"; "matrix"; "end"].

(* printable, non blank, no format delimiter, not a keyword / number of the format's lexer *)
Definition name_ok (cfg : list byte) (n : list byte) : bool :=
  Nat.ltb 0 (length n) &&
  forallb (fun b => N.ltb 32 (Byte.to_N b) && N.ltb (Byte.to_N b) 127) n &&
  negb (has x5b n || has x5d n || has x3b n || has x3d n) &&
  negb (beqb (hd x00 n) x3e).

Definition residue_ok (b : byte) : bool :=
  is_letter b || beqb b x2d || beqb b x2a || beqb b x3f.

Definition representable (c : case) : bool :=
  let rs := unrows (k_in c) in
  Nat.ltb 0 (length rs) && rectangularb rs && Nat.ltb 0 (width rs) && nodup_names (names rs) &&
  forallb (fun r => name_ok (unbs (k_cfg c)) (fst r) && forallb residue_ok (snd r)) rs &&
  (negb (is_cfg c "phylip-strict") || forallb (fun r => Nat.leb (length (fst r)) 10) rs) &&
  true.

Definition spec_check (c : case) : option bool :=
  let rs := unrows (k_in c) in
  if negb (representable c) then None else
  Some (is_class c "Ok" &&
        rows_eqb (unrows (k_out c)) rs &&
        Z.eqb (k_len c) (alen rs) &&
        Z.eqb (k_outalpha c) (auto_alphabet rs) &&
        (* format auto-detection selected the format that was written *)
        (negb (is_cfg c "auto") || (0 <=? k_detected c)%Z)).

Definition spec_ok (c : case) : bool := ok_of (spec_check c).
Definition failing := failing_gen model_ok spec_ok.
Definition count_judged := count_judged_gen spec_check.
