(* Correspondence and violation oracles for C13. *)
From Coq Require Import List Bool NArith ZArith Arith.
From Coq.Strings Require Import Byte.
Import ListNotations.
From GA.Base Require Import Bytes Case Align Sort CorrBase.
From GA.Gen Require Import Alpha.
From GA.Model Require Import Dedup.

Definition brows := list (bs * bs).
Definition unrows (l : brows) : rows := map (fun r => (unbs (fst r), unbs (snd r))) l.

Inductive op := OpDedup (nag : bool) | OpDedupTwice (nag : bool) | OpCompress.

Record case := mk {
  c_alpha : Z; c_in : brows; c_op : op;
  c_err : bool; c_out : brows; c_groups : list (list bs); c_weights : list Z; c_len : Z
}.

Definition groups_eqb (a b : list (list (list byte))) : bool := list_eqb (list_eqb bytes_eqb) a b.

Definition model_ok (c : case) : bool :=
  let rs := unrows (c_in c) in
  let out := unrows (c_out c) in
  match c_op c with
  | OpDedup nag =>
      let '(kept, groups) := deduplicate (c_alpha c) nag rs in
      negb (c_err c) && rows_eqb out kept && groups_eqb (map (map unbs) (c_groups c)) groups
  | OpDedupTwice nag =>
      let '(kept, _) := deduplicate (c_alpha c) nag rs in
      let '(kept2, groups2) := deduplicate (c_alpha c) nag kept in
      negb (c_err c) && rows_eqb out kept2 && groups_eqb (map (map unbs) (c_groups c)) groups2
  | OpCompress =>
      let '(w, o) := compress rs in
      negb (c_err c) && rows_eqb out o && Zlist_eqb (c_weights c) (map Z.of_nat w) &&
      Z.eqb (c_len c) (match rs with [] => (-1)%Z | _ => Z.of_nat (length w) end)   (* an alignment without rows has no length *)
  end.

(* ---- SPEC oracle ---------------------------------------------------------------------- *)
Definition sp_key (alphabet : Z) (nag : bool) (s : list byte) : list byte :=
  if nag then map (fun b => if beqb b (if Z.eqb alphabet 0 then x58 else x4e) then x2d else b) s else s.

Fixpoint sp_firsts (alphabet : Z) (nag : bool) (seen : list (list byte)) (rs : rows) : rows :=
  match rs with
  | [] => []
  | r :: t =>
      let k := sp_key alphabet nag (snd r) in
      if existsb (bytes_eqb k) seen then sp_firsts alphabet nag seen t
      else r :: sp_firsts alphabet nag (k :: seen) t
  end.

Definition count_bytes (x : list byte) (l : list (list byte)) : nat := length (filter (bytes_eqb x) l).

(* same multiset of names *)
Definition same_names (a b : list (list byte)) : bool :=
  Nat.eqb (length a) (length b) && forallb (fun x => Nat.eqb (count_bytes x a) (count_bytes x b)) a.

Definition spec_check (c : case) : option bool :=
  let rs := unrows (c_in c) in
  let out := unrows (c_out c) in
  let al := c_alpha c in
  if negb (nodup_names (names rs)) then None else
  match c_op c with
  | OpDedup nag =>
      if nag && negb (Z.eqb al 0 || Z.eqb al 1) then None else
      let groups := map (map unbs) (c_groups c) in
      Some (negb (c_err c) &&
            rows_eqb out (sp_firsts al nag [] rs) &&
            Nat.eqb (length groups) (length out) &&
            list_eqb bytes_eqb (map (hd []) groups) (names out) &&
            same_names (concat groups) (names rs) &&
            (* every member of a group is an input row identical (by key) to the group's head *)
            forallb (fun og =>
                       let '(o, g) := og in
                       forallb (fun n => match get_seq n rs with
                                         | Some s => bytes_eqb (sp_key al nag s) (sp_key al nag (snd o))
                                         | None => false end) g) (combine out groups))
  | OpDedupTwice nag =>
      if nag && negb (Z.eqb al 0 || Z.eqb al 1) then None else
      Some (negb (c_err c) && rows_eqb out (sp_firsts al nag [] rs) &&
            groups_eqb (map (map unbs) (c_groups c)) (map (fun r => [fst r]) out))
  | OpCompress =>
      if rectangularb rs && Nat.ltb 0 (length rs) && forallb (fun r => forallb is_ascii (snd r)) rs then
        (* = map (column rs) (seq 0 (width rs)), computed in linear time (DedupProofs.columns_spec) *)
        let cin := columns rs in
        let cout := columns out in
        let w := c_weights c in
        Some (negb (c_err c) &&
              list_eqb bytes_eqb (names out) (names rs) && rectangularb out &&
              Nat.eqb (length w) (length cout) &&
              (* pairwise distinct patterns *)
              forallb (fun p => Nat.eqb (count_bytes p cout) 1) cout &&
              (* each with its exact multiplicity, nothing lost *)
              forallb (fun pw => Z.eqb (snd pw) (Z.of_nat (count_bytes (fst pw) cin)) && (0 <? snd pw)%Z) (combine cout w) &&
              forallb (fun p => Nat.eqb (count_bytes p cout) 1) cin &&
              Z.eqb (fold_right Z.add 0%Z w) (Z.of_nat (length cin)) &&
              Z.eqb (c_len c) (Z.of_nat (length cout)))
      else None
  end.

Definition spec_ok (c : case) : bool := ok_of (spec_check c).
Definition failing := failing_gen model_ok spec_ok.
Definition count_judged := count_judged_gen spec_check.
