(* Correspondence and violation oracles for C10. *)
From Coq Require Import List Bool NArith ZArith QArith Arith.
From Coq.Strings Require Import Byte.
Import ListNotations.
From GA.Base Require Import Bytes Case Align Tape CorrBase.
From GA.Gen Require Import Alpha.
From GA.Model Require Import Random.

Definition brows := list (bs * bs).
Definition unrows (l : brows) : rows := map (fun r => (unbs (fst r), unbs (snd r))) l.

Inductive op :=
| OpShuffleSeqs
| OpBootstrap (frac : Q)
| OpRandSub (len : Z) (consecutive : bool)
| OpSample (nb : Z)
| OpShuffleSites (rate roguerate : Q) (roguefirst : bool)
| OpSwap (rate : Q) (pos : option Q)
| OpRecombine (prop lenprop : Q) (sw : bool)
| OpAddGaps (lenprop prop : Q)
| OpMutate (rate : Q)
| OpRogue (prop proplen : Q)
| OpRarefy (nb : Z) (counts : list (bs * Z))   (* not modelled: judged by the spec oracle only *)
(* reachability over many seeds: the outcomes observed for 96 seeds are listed in c_names1;
   what = 0 RandSubAlign(len, consecutive) on rows with pairwise distinct columns, 1 ShuffleSequences on three rows,
   2 Sample(1) *)
| OpSupport (what len : Z).

Record case := mk {
  c_alpha : Z; c_in : brows; c_tape : list Z; c_op : op;
  c_err : bool; c_out : brows; c_names1 : list bs; c_names2 : list bs;
  c_replay : bool          (* a second run with the same seed gave the same result *)
}.

Definition names_eqb (a : list bs) (b : list (list byte)) : bool := list_eqb bytes_eqb (map unbs a) b.

Definition model_ok (c : case) : bool :=
  let rs := unrows (c_in c) in
  let out := unrows (c_out c) in
  let t := c_tape c in
  match c_op c with
  | OpShuffleSeqs => match shuffle_sequences rs t with Some (o, _) => negb (c_err c) && rows_eqb out o | None => false end
  | OpBootstrap frac => match build_bootstrap frac rs t with Some ((_, o), _) => negb (c_err c) && rows_eqb out o | None => false end
  | OpRandSub len consec =>
      match rand_sub_align len consec rs t with
      | Some (Some o, _) => negb (c_err c) && rows_eqb out o
      | Some (None, _) => c_err c
      | None => false
      end
  | OpSample nb =>
      match sample_rows nb rs t with
      | Some (Some o, _) => negb (c_err c) && rows_eqb out o
      | Some (None, _) => c_err c
      | None => false
      end
  | OpShuffleSites rate rr rf =>
      match shuffle_sites rate rr rf rs t with
      | Some ((o, rg), _) => negb (c_err c) && rows_eqb out o && names_eqb (c_names1 c) rg
      | None => false
      end
  | OpSwap rate pos => match swap rate pos rs t with Some (o, _) => negb (c_err c) && rows_eqb out o | None => false end
  | OpRecombine p lp sw => match recombine p lp sw rs t with Some (o, _) => negb (c_err c) && rows_eqb out o | None => false end
  | OpAddGaps lp p => match add_gaps lp p rs t with Some (o, _) => negb (c_err c) && rows_eqb out o | None => false end
  | OpMutate rate => match mutate (c_alpha c) rate rs t with Some (o, _) => negb (c_err c) && rows_eqb out o | None => false end
  | OpRogue p pl =>
      match simulate_rogue p pl rs t with
      | Some ((rg, it, o), _) => negb (c_err c) && rows_eqb out o && names_eqb (c_names1 c) rg && names_eqb (c_names2 c) it
      | None => false
      end
  | OpRarefy _ _ => true
  | OpSupport _ _ => true
  end.

(* ---- SPEC oracle: the invariant each operation promises, judged on input/output only ---------------- *)
Definition cntb (b : byte) (l : list byte) : nat := length (filter (beqb b) l).
Definition same_bytes (a b : list byte) : bool :=
  Nat.eqb (length a) (length b) && forallb (fun x => Nat.eqb (cntb x a) (cntb x b)) a.
Definition cnt_row (r : list byte * list byte) (l : rows) : nat := length (filter (row_eqb r) l).
Definition same_rows (a b : rows) : bool :=
  Nat.eqb (length a) (length b) && forallb (fun x => Nat.eqb (cnt_row x a) (cnt_row x b)) a.
Definition cnt_col (c : list byte) (l : list (list byte)) : nat := length (filter (bytes_eqb c) l).
Definition cols_of (rs : rows) : list (list byte) := map (column rs) (seq 0 (width rs)).
Definition same_names (a b : rows) : bool := list_eqb bytes_eqb (names a) (names b).
Definition same_shape (a b : rows) : bool :=
  same_names a b && list_eqb Nat.eqb (map (fun r => length (snd r)) a) (map (fun r => length (snd r)) b).

Fixpoint NoDup_bytes (l : list byte) : bool :=
  match l with [] => true | x :: t => negb (existsb (beqb x) t) && NoDup_bytes t end.

Definition floorq (q : Q) (n : Z) : Z := (Qnum q * n / Z.pos (Qden q))%Z.
Definition in01 (q : Q) : bool := Qle_bool 0 q && Qle_bool q 1.

Definition spec_check (c : case) : option bool :=
  let rs := unrows (c_in c) in
  let out := unrows (c_out c) in
  let L := width rs in
  if negb (rectangularb rs && nodup_names (names rs) && Nat.ltb 0 (length rs)) then None else
  match c_op c with
  | OpShuffleSeqs => Some (negb (c_err c) && c_replay c && same_rows out rs)
  | OpShuffleSites rate rr _ | OpSwap rate (Some rr) =>
      if in01 rate then
        Some (negb (c_err c) && c_replay c && same_shape out rs &&
              forallb (fun ab => same_bytes (fst ab) (snd ab)) (combine (cols_of out) (cols_of rs)))
      else None
  | OpSwap rate None =>
      if in01 rate then
        Some (negb (c_err c) && c_replay c && same_shape out rs &&
              forallb (fun ab => same_bytes (fst ab) (snd ab)) (combine (cols_of out) (cols_of rs)))
      else None
  | OpRogue p pl =>
      if in01 p && in01 pl then
        let rg := map unbs (c_names1 c) in
        let it := map unbs (c_names2 c) in
        Some (negb (c_err c) && c_replay c && same_shape out rs &&
              (* rogue and intact names partition the rows *)
              nodup_names (rg ++ it) && Nat.eqb (length (rg ++ it)) (length rs) &&
              forallb (fun n => mem_name n (names rs)) (rg ++ it) &&
              (* intact rows untouched, rogue rows permuted within themselves *)
              forallb (fun ro => let '(r, o) := ro in
                                 if mem_name (fst r) it then bytes_eqb (snd r) (snd o) else same_bytes (snd r) (snd o))
                      (combine rs out))
      else None
  | OpBootstrap frac =>
      if Nat.ltb 0 L then
        let f := if Qle_bool frac 0 || negb (Qle_bool frac 1) then 1%Q else frac in
        Some (negb (c_err c) && c_replay c && same_names out rs && rectangularb out &&
              Z.eqb (Z.of_nat (width out)) (floorq f (Z.of_nat L)) &&
              (* every output column is an input column, taken for all rows at once *)
              forallb (fun col => Nat.ltb 0 (cnt_col col (cols_of rs))) (cols_of out))
      else None
  | OpRarefy nb counts =>
      (* the rows drawn are distinct original rows, at most nb of them; nb at or above the sum of the counts is an
         error; the same seed draws the same rows *)
      let total := fold_right Z.add 0%Z (map snd counts) in
      Some (if (total <=? nb)%Z then c_err c
            else negb (c_err c) && c_replay c && (Z.of_nat (length out) <=? Z.max 0 nb)%Z && nodup_names (names out) &&
                 forallb (fun o => Nat.eqb (cnt_row o rs) 1) out)
  | OpSample nb =>
      Some (if (nb <? 1)%Z || (Z.of_nat (length rs) <? nb)%Z then c_err c
            else negb (c_err c) && c_replay c && Z.eqb (Z.of_nat (length out)) nb && nodup_names (names out) &&
                 forallb (fun o => Nat.eqb (cnt_row o rs) 1) out)
  | OpRandSub len consec =>
      Some (if (len <=? 0)%Z || (Z.of_nat L <? len)%Z then c_err c
            else negb (c_err c) && c_replay c && same_names out rs && rectangularb out &&
                 Z.eqb (Z.of_nat (width out)) len &&
                 if consec then
                   existsb (fun st => rows_eqb out (map (fun r => (fst r, firstn (Z.to_nat len) (skipn st (snd r)))) rs))
                           (seq 0 (L - Z.to_nat len + 1))
                 else
                   (* distinct original columns *)
                   forallb (fun col => Nat.leb (cnt_col col (cols_of out)) (cnt_col col (cols_of rs))) (cols_of out))
  | OpMutate rate =>
      if Z.eqb (c_alpha c) 0 || Z.eqb (c_alpha c) 1 then
        let letters := if Z.eqb (c_alpha c) 0 then stdaminoacid else stdnucleotides in
        Some (negb (c_err c) && c_replay c && same_shape out rs &&
              forallb (fun ro => let '(r, o) := ro in
                         forallb (fun ab => let '(a, b) := ab in
                                    beqb a b ||
                                    (negb (beqb a x2d) && negb (beqb a x2e) && negb (beqb a x2a) && existsb (beqb b) letters))
                                 (combine (snd r) (snd o))) (combine rs out))
      else None
  | OpAddGaps lp p =>
      Some (negb (c_err c) && c_replay c && same_shape out rs &&
            forallb (fun ro => let '(r, o) := ro in
                       forallb (fun ab => beqb (fst ab) (snd ab) || beqb (snd ab) x2d) (combine (snd r) (snd o)))
                    (combine rs out))
  | OpSupport what len =>
      let obs := map unbs (c_names1 c) in
      let seen x := existsb (bytes_eqb x) obs in
      let bar := x7c in
      if Z.eqb what 0 then
        match rs with
        | r0 :: _ =>
            if NoDup_bytes (snd r0) && (0 <? len)%Z && (len <=? Z.of_nat L)%Z then
              Some (forallb (fun k => seen (firstn (Z.to_nat len) (skipn k (snd r0)))) (seq 0 (L - Z.to_nat len + 1)))
            else None
        | [] => None
        end
      else if Z.eqb what 1 then
        match names rs with
        | [a; b; d] =>
            let j x y z := x ++ bar :: y ++ bar :: z in
            Some (forallb seen [j a b d; j a d b; j b a d; j b d a; j d a b; j d b a])
        | _ => None
        end
      else if Z.eqb what 2 then Some (forallb seen (names rs))
      else None
  | OpRecombine p lp _ =>
      if Qle_bool 0 p && Qle_bool p (1 # 2) && in01 lp then
        Some (negb (c_err c) && c_replay c && same_shape out rs &&
              (* residues are only copied between rows at the same column *)
              forallb (fun cc => forallb (fun b => Nat.ltb 0 (cntb b (snd cc))) (fst cc)) (combine (cols_of out) (cols_of rs)))
      else None
  end.

Definition spec_ok (c : case) : bool := ok_of (spec_check c).
Definition failing := failing_gen model_ok spec_ok.
Definition count_judged := count_judged_gen spec_check.
