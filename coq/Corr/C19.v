(* Correspondence and violation oracles for C19. *)
From Coq Require Import List Bool NArith ZArith Arith.
From Coq.Strings Require Import Byte.
Import ListNotations.
From GA.Base Require Import Bytes Case Align CorrBase.
From GA.Model Require Import Alias.

Definition brows := list (bs * bs).
Definition unrows (l : brows) : rows := map (fun r => (unbs (fst r), unbs (snd r))) l.

Inductive op :=
| OClone | OSubAlign (s l : Z) | OSelectSites (sites : list Z) | OTranspose
| OFresh (what : bs)                 (* BuildBootstrap / Unalign / Consensus / Sequence.Clone: result rows observed *)
| OViewWindow (start len : Z) | OViewRows (idx : list Z)
| OQuery (what : bs).

Record case := mk {
  c_in : brows; c_op : op;
  c_src_after_call : brows; c_result : brows; c_src_after_result_mutated : brows; c_result_after_src_mutated : brows;
  (* the input's alphabet: before the call, after it, after the result was mutated *)
  c_alphabets : list Z
}.

Definition all_same (l : list Z) : bool :=
  match l with [] => true | a :: t => forallb (Z.eqb a) t end.

Definition to_aop (c : case) : aop :=
  match c_op c with
  | OClone => AClone
  | OSubAlign s l => ASubAlign (Z.to_nat s) (Z.to_nat l)
  | OSelectSites sites => ASelectSites (map Z.to_nat sites)
  | OTranspose => ATranspose
  | OFresh _ => AFreshRows (unrows (c_result c))
  | OViewWindow s l => AViewWindow (Z.to_nat s) (Z.to_nat l)
  | OViewRows idx => AViewRows (map Z.to_nat idx)
  | OQuery _ => AQuery
  end.

Definition model_ok (c : case) : bool :=
  let e := run_experiment (unrows (c_in c)) (to_aop c) in
  rows_eqb (unrows (c_src_after_call c)) (e_src_after_call e) &&
  rows_eqb (unrows (c_result c)) (e_result e) &&
  rows_eqb (unrows (c_src_after_result_mutated c)) (e_src_after_result_mutated e) &&
  rows_eqb (unrows (c_result_after_src_mutated c)) (e_result_after_src_mutated e) &&
  (* the heap model has no alphabet field to write to: a query leaves it as it was *)
  all_same (c_alphabets c).

(* the property itself, on the observed snapshots: listed queries and copy
   producers; the deliberately sharing operations are not in the statement *)
Definition spec_check (c : case) : option bool :=
  match c_op c with
  | OViewWindow _ _ | OViewRows _ => None
  | _ =>
      Some (rows_eqb (unrows (c_src_after_call c)) (unrows (c_in c)) &&
            rows_eqb (unrows (c_src_after_result_mutated c)) (unrows (c_in c)) &&
            rows_eqb (unrows (c_result_after_src_mutated c)) (unrows (c_result c)) &&
            all_same (c_alphabets c))
  end.

Definition spec_ok (c : case) : bool := ok_of (spec_check c).
Definition failing := failing_gen model_ok spec_ok.
Definition count_judged := count_judged_gen spec_check.
