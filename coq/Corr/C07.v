(* Correspondence and violation oracles for C07 (exact part: counters, classes,
   matrix assembly; the transcendental formulas are tied by the interval
   certificates of Cases/C07_cert_*.v). *)
From Coq Require Import List Bool NArith ZArith QArith Qabs Arith.
From Coq.Strings Require Import Byte.
Import ListNotations.
From GA.Base Require Import Bytes Case Align CorrBase.
From GA.Gen Require Import Alpha Iupac.
From GA.Model Require Import DnaCount.
Local Open Scope Q_scope.

Definition brows := list (bs * bs).
Definition unrows (l : brows) : rows := map (fun r => (unbs (fst r), unbs (snd r))) l.

(* a float64: class 0 = finite (num * 2^exp), 1 = NaN, 2 = +Inf, 3 = -Inf *)
Definition fl := (Z * Z * Z)%type.
Definition fl_class (f : fl) : Z := fst (fst f).
Definition fl_q (f : fl) : Q :=
  let '(_, n, e) := f in if (0 <=? e)%Z then inject_Z (n * 2 ^ e) else n # Z.to_pos (2 ^ (- e)).

(* models: 0 raw, 1 pdist, 2 jc, 3 k2p, 4 f81, 5 f84, 6 tn93 *)
Record case := mk {
  k_in : brows; k_model : Z; k_gamma : bool; k_alpha : Q; k_rmgaps : bool; k_gapmode : Z; k_rmamb : bool;
  k_weights : option (list Q);
  k_err : bool; k_matrix : list (list fl)
}.

(* ---- the model's rational inputs for a pair ---------------------------------------------------- *)
Record pairq := mkpq { pq_total : Q; pq_p : Q; pq_P : Q; pq_Q : Q; pq_p1 : Q; pq_p2 : Q }.

Definition pair_counts (c : case) (sel : list bool) (s1 s2 : list Z) : pairq :=
  let '(d, t) := count_diffs s1 s2 sel (k_weights c) false in
  let '(ts, tv, ag, ct, tot) := count_mutations s1 s2 sel (k_weights c) in
  mkpq t (d / t) (ts / tot) (tv / tot) (ag / tot) (ct / tot).

Definition qpos (q : Q) : bool := if Qlt_le_dec 0 q then true else false.
(* binary64 rounding is outside the model: arguments within 1e-9 of the boundary are not judged *)
Definition margin : Q := 1 # 1000000000.
Definition qclear (q : Q) : bool := qpos (q - margin).          (* clearly positive *)
Definition qnear (q : Q) : bool := qpos (q + margin) && negb (qclear q).   (* borderline *)

(* is the estimator defined on this pair?  every logarithm / power argument and
   every denominator strictly positive *)
(* every logarithm / power argument and every denominator of the estimator *)
Definition estimator_args (c : case) (pi : list Q) (pq : pairq) : list Q :=
  let pa := nth 0 pi 0 in let pc := nth 1 pi 0 in let pg := nth 2 pi 0 in let pt := nth 3 pi 0 in
  let m := k_model c in
  if Z.eqb m 2 then [1 - 4 * pq_p pq / 3]
  else if Z.eqb m 3 then [1 - 2 * pq_P pq - pq_Q pq; 1 - 2 * pq_Q pq]
  else if Z.eqb m 4 then
    let b1 := 1 - (pa * pa + pc * pc + pg * pg + pt * pt) in
    if qpos b1 then [b1; 1 - pq_p pq / b1] else [b1]
  else if Z.eqb m 5 then
    if qpos (pa + pg) && qpos (pc + pt) then
      let a := pa * pg / (pa + pg) + pc * pt / (pc + pt) in
      let b := pa * pg + pc * pt in
      let cc := (pa + pg) * (pc + pt) in
      if qpos a && qpos cc then [a; cc; 1 - pq_P pq / (2 * a) - (a - b) * pq_Q pq / (2 * a * cc); 1 - pq_Q pq / (2 * cc)] else [a; cc]
    else [pa + pg; pc + pt]
  else if Z.eqb m 6 then
    let piy := pc + pt in let pir := pa + pg in let papg := pa * pg in let pcpt := pc * pt in
    if qpos piy && qpos pir && qpos papg && qpos pcpt then
      [piy; pir; papg; pcpt; 1 - pq_Q pq / (2 * piy * pir); 1 - pq_Q pq / (2 * pir) - pir * pq_p1 pq / (2 * papg);
       1 - pq_Q pq / (2 * piy) - piy * pq_p2 pq / (2 * pcpt)]
    else [piy; pir; papg; pcpt]
  else [].

(* is the estimator defined on this pair?  every argument strictly positive *)
Definition estimator_defined (c : case) (pi : list Q) (pq : pairq) : bool :=
  qpos (pq_total pq) && forallb qpos (estimator_args c pi pq).
(* clearly defined / borderline (some argument within the rounding margin of 0) *)
Definition estimator_clear (c : case) (pi : list Q) (pq : pairq) : bool :=
  qpos (pq_total pq) && forallb qclear (estimator_args c pi pq).
Definition estimator_borderline (c : case) (pi : list Q) (pq : pairq) : bool :=
  qpos (pq_total pq) && existsb qnear (estimator_args c pi pq).

(* observed proportion of differing sites the corrected distance must dominate *)
Definition observed_p (c : case) (pq : pairq) : Q :=
  if Z.eqb (k_model c) 3 || Z.eqb (k_model c) 5 || Z.eqb (k_model c) 6 then pq_P pq + pq_Q pq else pq_p pq.

Definition fl_is_ratio (f : fl) (q : Q) : bool :=
  (* |f - q| * 2^50 <= |q| : f is q correctly rounded (a few ulps allowed for the weighted sums) *)
  Z.eqb (fl_class f) 0 && Qle_bool (Qabs (fl_q f - q) * inject_Z (2 ^ 50)) (Qabs q).

Definition cell (m : list (list fl)) (i j : nat) : fl := nth j (nth i m []) (1, 0, 0)%Z.

Definition finite_cells (m : list (list fl)) (n : nat) : list Q :=
  flat_map (fun i => flat_map (fun j => let f := cell m i j in
                                        if Z.eqb (fl_class f) 0 then [fl_q f] else []) (seq 0 n)) (seq 0 n).
Definition qmax (l : list Q) : Q := fold_right (fun x acc => if Qle_bool acc x then x else acc) 0 l.

Definition raw_or_p (c : case) (sel : list bool) (s1 s2 : list Z) : Q * Q :=
  let rm := if Z.eqb (k_model c) 1 then k_rmamb c else false in
  (* GAP_COUNT_NONE = 0, GAP_COUNT_INTERNAL = 1, GAP_COUNT_ALL = 2 *)
  if Z.eqb (k_gapmode c) 2 then count_diffs_gaps s1 s2 sel (k_weights c) rm
  else if Z.eqb (k_gapmode c) 1 then count_diffs_internal s1 s2 (k_weights c) rm
  else count_diffs s1 s2 sel (k_weights c) rm.

(* SPEC of "internal gaps only": the columns where either row is still in its leading run of
   non-nucleotides, or already in its trailing one, are left out; on the others every gap against a
   nucleotide counts (independent of the code's running accumulators) *)
Definition spec_internal (c : case) (s1 s2 : list Z) : Q * Q :=
  count_diffs_internal_spec s1 s2 (k_weights c) (if Z.eqb (k_model c) 1 then k_rmamb c else false).

(* a raw (model 0) or p-distance (model 1) entry against exact counts (d, t) *)
Definition exact_entry_ok (c : case) (f : fl) (dt : Q * Q) : bool :=
  let '(d, t) := dt in
  if Z.eqb (k_model c) 0 then
    if Qeq_bool d 0 then Z.eqb (fl_class f) 0 && Qeq_bool (fl_q f) 0 else fl_is_ratio f d
  else
    if Qeq_bool t 0 then negb (Z.eqb (fl_class f) 0)
    else if Qeq_bool d 0 then Z.eqb (fl_class f) 0 && Qeq_bool (fl_q f) 0
    else fl_is_ratio f (d / t).

(* model vs implementation, exact part *)
Definition model_ok (c : case) : bool :=
  let rs := unrows (k_in c) in
  match codes_of rs with
  | None => k_err c
  | Some codes =>
      negb (k_err c) &&
      let n := length rs in
      let sel := selected_sites rs (k_rmgaps c) in
      let m := k_matrix c in
      Nat.eqb (length m) n &&
      forallb (fun i => forallb (fun j =>
        if Nat.ltb i j then
          let s1 := nth i codes [] in let s2 := nth j codes [] in
          if Z.eqb (k_model c) 0 then
            (* raw distance: the weighted number of differences *)
            let '(d, _) := raw_or_p c sel s1 s2 in
            if Qeq_bool d 0 then Z.eqb (fl_class (cell m i j)) 0 && Qeq_bool (fl_q (cell m i j)) 0
            else fl_is_ratio (cell m i j) d
          else if Z.eqb (k_model c) 1 then
            let '(d, t) := raw_or_p c sel s1 s2 in
            if Qeq_bool t 0 then negb (Z.eqb (fl_class (cell m i j)) 0)     (* 0/0 or x/0 *)
            else if Qeq_bool d 0 then Z.eqb (fl_class (cell m i j)) 0 && Qeq_bool (fl_q (cell m i j)) 0
            else fl_is_ratio (cell m i j) (d / t)
          else true
        else true) (seq 0 n)) (seq 0 n)
  end.

(* JC69 exactly at saturation (p = 3/4, hence 1 - 4p/3 = 0 also in binary64: 3/4 is a float and the
   division by the total is exact): not a borderline case, the estimator is undefined *)
Definition exact_saturation (c : case) (pi : list Q) (pq : pairq) : bool :=
  Z.eqb (k_model c) 2 && existsb (fun q => Qeq_bool q 0) (estimator_args c pi pq).

(* ---- SPEC: sane matrix ------------------------------------------------------------------------------- *)
Definition spec_check (c : case) : option bool :=
  let rs := unrows (k_in c) in
  match codes_of rs with
  | None => None
  | Some codes =>
      if k_err c then None else
      if negb (rectangularb rs && Nat.leb 2 (length rs)) then None else
      let n := length rs in
      let sel := selected_sites rs (k_rmgaps c) in
      let m := k_matrix c in
      let pi := proba_nt codes sel (k_weights c) in
      let mx := qmax (finite_cells m n) in
      Some (
        Nat.eqb (length m) n &&
        forallb (fun i => forallb (fun j =>
          let f := cell m i j in let g := cell m j i in
          (* symmetric, zero diagonal *)
          Z.eqb (fl_class f) (fl_class g) && (negb (Z.eqb (fl_class f) 0) || Qeq_bool (fl_q f) (fl_q g)) &&
          (if Nat.eqb i j then Z.eqb (fl_class f) 0 && Qeq_bool (fl_q f) 0 else true) &&
          (if Nat.ltb i j then
             let s1 := nth i codes [] in let s2 := nth j codes [] in
             let pq := pair_counts c sel s1 s2 in
             if Z.leb (k_model c) 1 then
               (* raw / p-distance: settled exactly by the correspondence; the internal-gap mode is also
                  judged against its column-wise definition *)
               (if Z.eqb (k_gapmode c) 1 then exact_entry_ok c f (spec_internal c s1 s2) else true)
             else if qpos (pq_total pq) && Qeq_bool (pq_p pq) 0 && Qeq_bool (pq_P pq) 0 && Qeq_bool (pq_Q pq) 0 then
               (* no counted difference: distance 0, whatever the base frequencies (an absent base makes the
                  constants of F81 / F84 / TN93 vanish: 0/0 must not surface as NaN) *)
               Z.eqb (fl_class f) 0 && Qle_bool (Qabs (fl_q f)) (1 # 1000000000)
             else if estimator_borderline c pi pq && negb (exact_saturation c pi pq) then true
             else if estimator_clear c pi pq then
               (* finite, never below the observed proportion, 0 when nothing differs *)
               Z.eqb (fl_class f) 0 &&
               (Qle_bool (observed_p c pq - (1 # 1000000000)) (fl_q f) ||
                (* a finite distance above the cap NT_DIST_OVER is replaced, like an undefined one, by the
                   matrix-wide substitute 2*max (0 when the matrix holds no positive finite distance) *)
                (negb (Qeq_bool (observed_p c pq) 0) && Qle_bool mx (fl_q f))) &&
               (negb (Qeq_bool (observed_p c pq) 0) || Qle_bool (Qabs (fl_q f)) (1 # 1000000000))
             else
               (* undefined: NaN, or the matrix-wide substitute 2*max, i.e. a value that no other entry exceeds
                  (it is 0 only when the matrix holds no positive finite distance at all) *)
               negb (Z.eqb (fl_class f) 0) || Qle_bool mx (fl_q f)
           else true)) (seq 0 n)) (seq 0 n))
  end.

(* status of a pair for relational checks (C08): 0 = estimator clearly defined, 1 = borderline,
   2 = undefined, 3 = no opinion (characters without a code) *)
Definition pair_status (c : case) (i j : nat) : Z :=
  let rs := unrows (k_in c) in
  match codes_of rs with
  | None => 3%Z
  | Some codes =>
      let sel := selected_sites rs (k_rmgaps c) in
      let pi := proba_nt codes sel (k_weights c) in
      let s1 := nth i codes [] in let s2 := nth j codes [] in
      let pq := pair_counts c sel s1 s2 in
      if Z.leb (k_model c) 1 then
        let '(d, t) := raw_or_p c sel s1 s2 in
        if Z.eqb (k_model c) 1 && Qeq_bool t 0 then 2%Z else 0%Z
      else if estimator_borderline c pi pq then 1%Z
      else if estimator_clear c pi pq then 0%Z else 2%Z
  end.

Definition spec_ok (c : case) : bool := ok_of (spec_check c).
Definition failing := failing_gen model_ok spec_ok.
Definition count_judged := count_judged_gen spec_check.
