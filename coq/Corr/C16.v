(* Violation oracle for C16 (phasing) and correspondence for the ORF search.
   The phaser's alignment search is not re-executed in the model: each result
   is judged against the clauses of the property with the model's translation,
   reverse complement and ORF functions; LongestORF is compared exactly with
   the code model (Model/Orf.v). *)
From Coq Require Import List Bool NArith ZArith Arith.
From Coq.Strings Require Import Byte.
Import ListNotations.
From GA.Base Require Import Bytes Case Align CorrBase.
From GA.Model Require Import Strand Translate Orf Phaser.
From GA.Corr Require Import C07.
Local Open Scope Z_scope.

Record res := mkres { r_name : bs; r_removed : bool; r_pos : Z; r_nt : bs; r_codon : bs; r_aa : bs }.

Record case := mk {
  k_kind : Z;                      (* 0 Phase, 1 SeqBag.LongestORF, 2 command line (k_err = the relation fails) *)
  k_seqs : brows;
  k_orfs : option brows;           (* nucleotide reference ORFs, None = longest ORF of the input *)
  k_translate : bool; k_reverse : bool; k_cutend : bool; k_code : Z;
  k_err : bool;                    (* Phase returned an error or a result carried one *)
  k_closed : bool;                 (* the result stream was closed (watchdog) *)
  k_res : list res; k_res2 : list res;   (* with 1 worker / with several workers *)
  k_after : brows;                 (* the inputs after the calls *)
  k_orf : option bs                (* kind 1: the ORF returned (None = error) *)
}.

Fixpoint is_prefix (p s : list byte) : bool :=
  match p, s with
  | [], _ => true
  | a :: p', b :: s' => beqb a b && is_prefix p' s'
  | _ :: _, [] => false
  end.

Fixpoint count_occ_sub (fuel : nat) (p s : list byte) : nat :=
  match fuel with
  | O => O
  | S f => (if is_prefix p s then 1 else 0) + match s with [] => O | _ :: t => count_occ_sub f p t end
  end%nat.
Definition occurrences (p s : list byte) : nat := count_occ_sub (S (length s)) p s.

Fixpoint find_sub (fuel : nat) (p s : list byte) (i : Z) : option Z :=
  match fuel with
  | O => None
  | S f => if is_prefix p s then Some i else match s with [] => None | _ :: t => find_sub f p t (i + 1) end
  end.

Definition res_eqb (a b : res) : bool :=
  bytes_eqb (unbs (r_name a)) (unbs (r_name b)) && Bool.eqb (r_removed a) (r_removed b) && Z.eqb (r_pos a) (r_pos b) &&
  bytes_eqb (unbs (r_nt a)) (unbs (r_nt b)) && bytes_eqb (unbs (r_codon a)) (unbs (r_codon b)) && bytes_eqb (unbs (r_aa a)) (unbs (r_aa b)).

Definition plain_nt_seq (s : list byte) : bool := forallb (fun b => beqb b x41 || beqb b x43 || beqb b x47 || beqb b x54) s.

Definition seq_strands (reverse : bool) (s : list byte) : list (list byte) := strands reverse s.

(* LongestORF reproduces the code model exactly *)
Definition model_ok (c : case) : bool :=
  if Z.eqb (k_kind c) 2 then true else   (* a command-line relation checked by the harness *)
  if Z.eqb (k_kind c) 1 then
    match bag_longest_orf (k_reverse c) (map snd (unrows (k_seqs c))), k_orf c with
    | Some o, Some o' => bytes_eqb o (unbs o')
    | None, None => true
    | _, _ => false
    end
  else
    (* Phase: the code model of the best frame / strand search predicts every result exactly *)
    let seqs := unrows (k_seqs c) in
    match phase_all (k_translate c) (k_reverse c) (k_cutend c) (k_code c)
                    (option_map (fun o => map snd (unrows o)) (k_orfs c)) (map snd seqs) with
    | None => k_err c
    | Some outs =>
        if existsb (fun o => match o with OErr => true | _ => false end) outs then k_err c
        else
          negb (k_err c) &&
          forallb (fun ro : (list byte * list byte) * outcome =>
                     match snd ro with
                     | OErr => false
                     | ORes m =>
                         match filter (fun r => bytes_eqb (unbs (r_name r)) (fst (fst ro))) (k_res c) with
                         | [r] => Bool.eqb (r_removed r) (p_removed m) && Z.eqb (r_pos r) (p_pos m) &&
                                  bytes_eqb (unbs (r_nt r)) (p_nt m) && bytes_eqb (unbs (r_codon r)) (p_codon m) &&
                                  bytes_eqb (unbs (r_aa r)) (p_aa m)
                         | _ => false
                         end
                     end) (combine seqs outs)
    end.

Definition judge_result (c : case) (code : code_table) (s : list byte) (r : res) : bool :=
  let nt := unbs (r_nt r) in let codon := unbs (r_codon r) in let aa := unbs (r_aa r) in
  let pos := Z.to_nat (r_pos r) in
  (0 <=? r_pos r) &&
  (* trimmed nucleotides: the input (or its reverse complement) from the reported position *)
  existsb (fun strand => if k_cutend c then is_prefix nt (skipn pos strand) else bytes_eqb nt (skipn pos strand))
          (seq_strands (k_reverse c) s) &&
  (* (a discarded sequence - no acceptable alignment - carries no frame) *)
  (r_removed r ||
  (* codons in frame with it ... *)
  (if k_translate c then bytes_eqb codon nt
   else existsb (fun ph => bytes_eqb codon (skipn ph nt)) [0; 1; 2]%nat) &&
  (* ... translating to the reported amino acids *)
  bytes_eqb (translate_from code codon) aa).

Definition spec_check (c : case) : option bool :=
  let seqs := unrows (k_seqs c) in
  let unchanged := rows_eqb (unrows (k_after c)) seqs in
  if negb (forallb (fun r => plain_nt_seq (snd r)) seqs) then None else
  if Z.eqb (k_kind c) 2 then Some (negb (k_err c)) else   (* goalign phasent: --nt-output translates to --aa-output *)
  if Z.eqb (k_kind c) 1 then
    (* the ORF returned is an ORF of some input strand and none is longer *)
    let ss := flat_map (seq_strands (k_reverse c)) (map snd seqs) in
    let longest := fold_right (fun s acc => match longest_orf s with Some (_, l) => Nat.max l acc | None => acc end) 0%nat ss in
    Some (unchanged &&
          match k_orf c with
          | None => Nat.eqb longest 0
          | Some o => let o := unbs o in
                      (match orf_at o with Some l => Nat.eqb l (length o) | None => false end) &&
                      existsb (fun s => Nat.ltb 0 (occurrences o s)) ss &&
                      Nat.eqb (length o) longest
          end)
  else
    match genetic_code (k_code c) with
    | None => None
    | Some code =>
        if k_err c then Some (k_closed c && unchanged)
        else
          Some (k_closed c && unchanged &&
                (* exactly one result per input sequence *)
                Nat.eqb (length (k_res c)) (length seqs) &&
                forallb (fun row =>
                    match filter (fun r => bytes_eqb (unbs (r_name r)) (fst row)) (k_res c) with
                    | [r] =>
                        judge_result c code (snd row) r &&
                        (* a sequence holding the single reference ORF verbatim, once, is trimmed at its start *)
                        match k_orfs c with
                        | Some [o] =>
                            let o := unbs (snd o) in
                            let rc := fst (revcomp_seq (snd row)) in
                            if Nat.eqb (occurrences o (snd row)) 1 && (negb (k_reverse c) || Nat.eqb (occurrences o rc) 0)
                            then match find_sub (S (length (snd row))) o (snd row) 0 with
                                 | Some i => Z.eqb (r_pos r) i
                                 | None => false
                                 end
                            else true
                        | _ => true
                        end &&
                        (* a copy of the single reference ORF lacking its first k bases, at the very start of the
                           sequence: position 0 and codons in the reference's frame *)
                        match k_orfs c with
                        | Some [o] =>
                            let o := unbs (snd o) in
                            (* (only the forward strand is searched: with both strands the reverse complement of a
                               short, nearly palindromic copy can align better) *)
                            if k_translate c || k_reverse c then true else
                            (* (the first base kept must not be an A: it could otherwise be aligned with the A of ATG at the same score) *)
                            match find (fun k => is_prefix (skipn k o) (snd row) && negb (beqb (nth k o x41) x41)) [1; 2; 4; 5]%nat with
                            | Some k =>
                                let rc := fst (revcomp_seq (snd row)) in
                                if Nat.eqb (occurrences (skipn k o) (snd row)) 1 && (negb (k_reverse c) || Nat.eqb (occurrences (skipn k o) rc) 0)
                                   && Nat.ltb 12 (length (skipn k o))
                                then Z.eqb (r_pos r) 0 &&
                                     bytes_eqb (unbs (r_codon r)) (skipn ((3 - k mod 3) mod 3) (unbs (r_nt r)))
                                else true
                            | None => true
                            end
                        | _ => true
                        end
                    | _ => false
                    end) seqs &&
                (* the set of results does not depend on the number of workers *)
                Nat.eqb (length (k_res2 c)) (length (k_res c)) &&
                forallb (fun r => existsb (res_eqb r) (k_res2 c)) (k_res c))
    end.

Definition spec_ok (c : case) : bool := ok_of (spec_check c).
Definition failing := failing_gen model_ok spec_ok.
Definition count_judged := count_judged_gen spec_check.
