(* Correspondence and violation oracles for C09. *)
From Coq Require Import List Bool NArith ZArith Arith.
From Coq.Strings Require Import Byte.
Import ListNotations.
From GA.Base Require Import Bytes Case Align CorrBase.
From GA.Gen Require Import Subst Alpha.
From GA.Spec Require Import Local EDNAFULL.
From GA.Model Require Import SW.
Local Open Scope Z_scope.

(* all scores are passed multiplied by c_scale: 2 for the dyadic schemes (float arithmetic is then exact and the code
   model predicts every observable), 20 for schemes with one decimal such as -1.1 / -0.3 (the code's floats are rounded:
   ties may be broken differently than in exact arithmetic, so only the specification judges those cases) *)
Record case := mk {
  c_scale : Z; c_atg : bool; c_usemat : bool; c_match : Z; c_mismatch : Z; c_open : Z; c_extend : Z;
  c_s1 : bs; c_s2 : bs;
  c_err : bool; c_score : Z; c_r1 : bs; c_r2 : bs;
  c_st1 : Z; c_st2 : Z; c_en1 : Z; c_en2 : Z;
  c_nm : Z; c_nmm : Z; c_ng : Z; c_len : Z;
  c_in1 : bs; c_in2 : bs        (* the input sequences read again after the call *)
}.

Definition scheme_of (c : case) : scheme := mkscheme (c_usemat c) (c_match c) (c_mismatch c) (c_open c) (c_extend c).

Definition model_ok (c : case) : bool :=
  if negb (Z.eqb (c_scale c) 2) then true else
  match align_pair (c_atg c) (scheme_of c) (unbs (c_s1 c)) (unbs (c_s2 c)) with
  | None => c_err c
  | Some r =>
      negb (c_err c) && Z.eqb (c_score c) (r_score r) &&
      bytes_eqb (unbs (c_r1 c)) (r_row1 r) && bytes_eqb (unbs (c_r2 c)) (r_row2 r) &&
      Z.eqb (c_st1 c) (r_start1 r) && Z.eqb (c_st2 c) (r_start2 r) &&
      Z.eqb (c_en1 c) (r_end1 r) && Z.eqb (c_en2 c) (r_end2 r) &&
      Z.eqb (c_nm c) (r_matches r) && Z.eqb (c_nmm c) (r_mismatches r) && Z.eqb (c_ng c) (r_gaps r) &&
      Z.eqb (c_len c) (r_length r)
  end.

(* ---- SPEC oracle ----------------------------------------------------------------------------- *)
Definition spec_sub (c : case) : byte -> byte -> Z :=
  let which := pick_matrix (unbs (c_s1 c)) (unbs (c_s2 c)) in
  fun a b =>
    if c_usemat c then
      (* nucleotides: the published EDNAFULL table (Spec/EDNAFULL.v), independent of the tables of the code;
         letters outside it (U, X) and proteins: the regenerated tables *)
      match (if Z.eqb which 1 then ednafull (to_upper a) (to_upper b) else None) with
      | Some y => c_scale c * y
      | None =>
          match char_pos which a, char_pos which b with
          | Some i, Some j => (c_scale c / 2) * sub_entry which i j
          | _, _ => NEG
          end
      end
    else if beqb a b then c_match c else c_mismatch c.

Definition spec_check (c : case) : option bool :=
  let s1 := unbs (c_s1 c) in
  let s2 := unbs (c_s2 c) in
  (* the quantifier: local alignment (not the ATG variant), gapopen <= gapextend < 0, match > 0 > mismatch,
     characters of the scoring alphabet *)
  if c_atg c then
    (* the ATG variant belongs to C16; here only "inputs left unmodified" *)
    Some (bytes_eqb (unbs (c_in1 c)) s1 && bytes_eqb (unbs (c_in2 c)) s2)
  else if negb ((c_open c <=? c_extend c) && (c_extend c <? 0) && (c_usemat c || ((0 <? c_match c) && (c_mismatch c <? 0)))) then None
  else if c_err c then None
  else
    let sub := spec_sub c in
    let best := gotoh_best sub (c_open c) (c_extend c) s1 s2 in
    let r1 := unbs (c_r1 c) in
    let r2 := unbs (c_r2 c) in
    Some (bytes_eqb (unbs (c_in1 c)) s1 && bytes_eqb (unbs (c_in2 c)) s2 &&
          if 0 <? best then
            (* valid *)
            check_valid s1 s2 r1 r2 (c_st1 c) (c_st2 c) (c_en1 c) (c_en2 c) &&
            (* counts add up to the length and are the real counts *)
            Z.eqb (c_nm c + c_nmm c + c_ng c) (c_len c) && Z.eqb (c_len c) (Z.of_nat (length r1)) &&
            Z.eqb (c_ng c) (Z.of_nat (length (filter (fun ab => isgap (fst ab) || isgap (snd ab)) (combine r1 r2)))) &&
            Z.eqb (c_nm c) (Z.of_nat (length (filter (fun ab => negb (isgap (fst ab)) && beqb (fst ab) (snd ab)) (combine r1 r2)))) &&
            (* the reported score is the score of the returned alignment ... *)
            Z.eqb (c_score c) (score_cols sub (c_open c) (c_extend c) r1 r2 0) &&
            (* ... and no local alignment scores higher (independent Gotoh program) *)
            Z.eqb (c_score c) best
          else true)
  .

Definition spec_ok (c : case) : bool := ok_of (spec_check c).
Definition failing := failing_gen model_ok spec_ok.
Definition count_judged := count_judged_gen spec_check.
