(* Correspondence and violation oracles for C08: relations between two runs of
   the implementation on transformed alignments / thread counts. *)
From Coq Require Import List Bool NArith ZArith QArith Qabs Arith.
From Coq.Strings Require Import Byte.
Import ListNotations.
From GA.Base Require Import Bytes Case Align CorrBase.
From GA.Corr Require Import C07.
Local Open Scope Q_scope.

(* relation kinds: 0 bit-identical (threads, unit weights), 1 equal up to rounding (column permutation,
   replication of normalised distances, integer weights, reverse complement), 2 B = k * A (raw distance under
   replication), 3 rows permuted: B[i][j] = A[perm i][perm j], 4 failing model: the call returned with an error, 5 sequence ranges [r1min; r1max; r2min; r2max] in k_perm:
   B holds A's entries on the requested pairs and 0 elsewhere *)
Record case := mk {
  k_what : bs; k_kind : Z; k_factor : Z; k_perm : list Z;
  k_a : list (list fl); k_b : list (list fl);
  k_returned : bool; k_errored : bool;
  k_case_b : C07.case          (* the transformed run, re-checked by the exact C07 model *)
}.

Definition close (x y : fl) (factor : Q) : bool :=
  Z.eqb (fl_class x) (fl_class y) &&
  (negb (Z.eqb (fl_class x) 0) ||
   Qle_bool (Qabs (fl_q y - factor * fl_q x) * inject_Z 1000000000) (1 + Qabs (fl_q y))).

Definition same (x y : fl) : bool := Z.eqb (fl_class x) (fl_class y) && (negb (Z.eqb (fl_class x) 0) || Qeq_bool (fl_q x) (fl_q y)).

Definition model_ok (c : case) : bool := Z.eqb (k_kind c) 4 || C07.model_ok (k_case_b c).

(* DistMatrix with ranges: pair (i,j), i <> j, is computed when i is in range 1 and j in range 2 (maxima clipped to
   the last row); the result is stored symmetrically *)
Definition in_ranges (c : case) (n : nat) (i j : nat) : bool :=
  let r k := nth k (k_perm c) 0%Z in
  let clip x := Z.min x (Z.of_nat n - 1) in
  let zi := Z.of_nat i in let zj := Z.of_nat j in
  negb (Nat.eqb i j) &&
  (((r 0%nat <=? zi) && (zi <=? clip (r 1%nat)) && (r 2%nat <=? zj) && (zj <=? clip (r 3%nat)))%Z ||
   ((r 0%nat <=? zj) && (zj <=? clip (r 1%nat)) && (r 2%nat <=? zi) && (zi <=? clip (r 3%nat)))%Z).
Definition is_zero (x : fl) : bool := Z.eqb (fl_class x) 0 && Qeq_bool (fl_q x) 0.

Definition spec_check (c : case) : option bool :=
  let a := k_a c in
  let b := k_b c in
  let n := length a in
  if Z.eqb (k_kind c) 4 then Some (k_returned c && k_errored c) else
  if Z.eqb (k_kind c) 5 then
    let mxb := qmax (finite_cells b n) in
    Some (k_returned c && negb (k_errored c) && Nat.eqb (length b) n &&
      forallb (fun i => forallb (fun j =>
        let y := cell b i j in
        if negb (in_ranges c n i j) then is_zero y
        else
          let st := pair_status (k_case_b c) (Nat.min i j) (Nat.max i j) in
          same y (cell b j i) &&
          (if Z.eqb st 0 then
             same (cell a i j) y ||
             (* a finite distance above the cap NT_DIST_OVER is replaced, like an undefined one, by twice the
                largest entry of ITS matrix: recognisable as the largest finite entry on both sides *)
             (Z.eqb (fl_class (cell a i j)) 0 && Qle_bool (qmax (finite_cells a n)) (fl_q (cell a i j)) &&
              Z.eqb (fl_class y) 0 && Qle_bool mxb (fl_q y))
           else if Z.eqb st 2 then negb (Z.eqb (fl_class y) 0) || Qle_bool mxb (fl_q y)
           else if Z.eqb st 1 then   (* borderline: either the same finite value, or treated as undefined *)
             same (cell a i j) y || negb (Z.eqb (fl_class y) 0) || Qle_bool mxb (fl_q y)
           else true)) (seq 0 n)) (seq 0 n)) else
  Some (k_returned c && negb (k_errored c) && Nat.eqb (length b) n &&
    forallb (fun i => forallb (fun j =>
      let x := cell a i j in
      if Z.eqb (k_kind c) 0 then same x (cell b i j)
      else if Z.eqb (k_kind c) 1 then close x (cell b i j) 1
      else if Z.eqb (k_kind c) 2 then close x (cell b i j) (inject_Z (k_factor c))
      else (* rows permuted: row i of B is row perm[i] of A *)
        close (cell a (Z.to_nat (nth i (k_perm c) 0%Z)) (Z.to_nat (nth j (k_perm c) 0%Z))) (cell b i j) 1)
      (seq 0 n)) (seq 0 n)).

Definition spec_ok (c : case) : bool := ok_of (spec_check c).
Definition failing := failing_gen model_ok spec_ok.
Definition count_judged := count_judged_gen spec_check.
