(* Correspondence and violation oracles for C08: relations between two runs of
   the implementation on transformed alignments / thread counts. *)
From Coq Require Import List Bool NArith ZArith QArith Qabs Arith.
From Coq.Strings Require Import Byte.
Import ListNotations.
From GA.Base Require Import Bytes Case Align CorrBase.
From GA.Corr Require Import C07.
Local Open Scope Q_scope.

(* relation kinds: 0 bit-identical (threads, unit weights), 1 equal up to rounding (column permutation,
   replication of normalised distances, integer weights, reverse complement), 2 B = k * A (raw distance under
   replication), 3 rows permuted: B[i][j] = A[perm i][perm j], 4 failing model: the call returned with an error *)
Record case := mk {
  k_what : bs; k_kind : Z; k_factor : Z; k_perm : list Z;
  k_a : list (list fl); k_b : list (list fl);
  k_returned : bool; k_errored : bool;
  k_case_b : C07.case          (* the transformed run, re-checked by the exact C07 model *)
}.

Definition close (x y : fl) (factor : Q) : bool :=
  Z.eqb (fl_class x) (fl_class y) &&
  (negb (Z.eqb (fl_class x) 0) ||
   Qle_bool (Qabs (fl_q y - factor * fl_q x) * inject_Z 1000000000) (1 + Qabs (fl_q y))).

Definition same (x y : fl) : bool := Z.eqb (fl_class x) (fl_class y) && (negb (Z.eqb (fl_class x) 0) || Qeq_bool (fl_q x) (fl_q y)).

Definition model_ok (c : case) : bool := Z.eqb (k_kind c) 4 || C07.model_ok (k_case_b c).

Definition spec_check (c : case) : option bool :=
  let a := k_a c in
  let b := k_b c in
  let n := length a in
  if Z.eqb (k_kind c) 4 then Some (k_returned c && k_errored c) else
  Some (k_returned c && negb (k_errored c) && Nat.eqb (length b) n &&
    forallb (fun i => forallb (fun j =>
      let x := cell a i j in
      if Z.eqb (k_kind c) 0 then same x (cell b i j)
      else if Z.eqb (k_kind c) 1 then close x (cell b i j) 1
      else if Z.eqb (k_kind c) 2 then close x (cell b i j) (inject_Z (k_factor c))
      else (* rows permuted: row i of B is row perm[i] of A *)
        close (cell a (Z.to_nat (nth i (k_perm c) 0%Z)) (Z.to_nat (nth j (k_perm c) 0%Z))) (cell b i j) 1)
      (seq 0 n)) (seq 0 n)).

Definition spec_ok (c : case) : bool := ok_of (spec_check c).
Definition failing := failing_gen model_ok spec_ok.
Definition count_judged := count_judged_gen spec_check.
