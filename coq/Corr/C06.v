(* Correspondence and violation oracles for C06. *)
From Coq Require Import List Bool NArith ZArith.
From Coq.Strings Require Import Byte.
Import ListNotations.
From GA.Base Require Import Bytes Case CorrBase.
From GA.Gen Require Import Compl Alpha.
From GA.Spec Require Import IupacSets.
From GA.Model Require Import Strand.

Inductive op :=
| OpRC                       (* ReverseComplement *)
| OpRCTwice                  (* ReverseComplement; ReverseComplement *)
| OpRCNames (names : list bs) (* ReverseComplementSequences(names...) *)
| OpUpper | OpLower | OpUnalign
| OpCompl                    (* align.Complement on the first row's bytes *)
.

Record case := mk {
  c_alphabet : Z;
  c_in : list (bs * bs);
  c_op : op;
  c_err : bool;                (* implementation returned an error *)
  c_out : list (bs * bs)       (* container content after the call (or of the returned bag) *)
}.

Definition unrows (l : list (bs * bs)) : list (list byte * list byte) :=
  map (fun r => (unbs (fst r), unbs (snd r))) l.

Definition row_eqb (a b : list byte * list byte) : bool :=
  bytes_eqb (fst a) (fst b) && bytes_eqb (snd a) (snd b).
Definition rows_eqb := list_eqb row_eqb.

Definition run_model (c : case) : list (list byte * list byte) * bool :=
  let rs := unrows (c_in c) in
  match c_op c with
  | OpRC => reverse_complement (c_alphabet c) rs
  | OpRCTwice =>
      let '(r1, ok1) := reverse_complement (c_alphabet c) rs in
      if ok1 then reverse_complement (c_alphabet c) r1 else (r1, false)
  | OpRCNames names => reverse_complement_sequences (c_alphabet c) (map unbs names) rs
  | OpUpper => (to_upper_rows rs, true)
  | OpLower => (to_lower_rows rs, true)
  | OpUnalign => (unalign_rows rs, true)
  | OpCompl =>
      match rs with
      | (n, s) :: t => let '(s', ok) := complement s in ((n, s') :: t, ok)
      | [] => ([], true)
      end
  end.

Definition model_ok (c : case) : bool :=
  let '(rs, ok) := run_model c in
  Bool.eqb ok (negb (c_err c)) && rows_eqb rs (unrows (c_out c)).

(* SPEC oracle, evaluated on what the implementation returned.  Inputs outside
   the property's quantifier (non-DNA residues, non-ASCII, duplicate names)
   are not judged. *)
Fixpoint count_name (n : list byte) (l : list (list byte)) : nat :=
  match l with [] => 0 | x :: t => (if bytes_eqb x n then 1 else 0) + count_name n t end.

Fixpoint nodup_names (l : list (list byte)) : bool :=
  match l with [] => true | x :: t => negb (mem_name x t) && nodup_names t end.

Definition spec_check (c : case) : option bool :=
  let rs := unrows (c_in c) in
  let out := unrows (c_out c) in
  let dna := rows_dna rs && Z.eqb (c_alphabet c) NUCLEOTIDS && nodup_names (map fst rs) in
  match c_op c with
  | OpRC =>
      if dna then Some (negb (c_err c) && rows_eqb out (map (fun r => (fst r, rev (map spec_c (snd r)))) rs))
      else None
  | OpRCTwice => if dna then Some (negb (c_err c) && rows_eqb out rs) else None
  | OpRCNames names =>
      if dna then
        Some (negb (c_err c) &&
        rows_eqb out (map (fun r => if Nat.odd (count_name (fst r) (map unbs names))
                                    then (fst r, rev (map spec_c (snd r))) else r) rs))
      else None
  | OpUpper =>
      if forallb (fun r => all_ascii (snd r)) rs
      then Some (rows_eqb out (map (fun r => (fst r, map ascii_upper (snd r))) rs)) else None
  | OpLower =>
      if forallb (fun r => all_ascii (snd r)) rs
      then Some (rows_eqb out (map (fun r => (fst r, map ascii_lower (snd r))) rs)) else None
  | OpUnalign =>
      if nodup_names (map fst rs)
      then Some (rows_eqb out (map (fun r => (fst r, filter (fun b => negb (beqb b x2d)) (snd r))) rs)) else None
  | OpCompl =>
      match rs, out with
      | (n, s) :: _, (n', s') :: _ =>
          if all_dna s then Some (negb (c_err c) && bytes_eqb s' (map spec_c s)) else None
      | _, _ => None
      end
  end.

Definition spec_ok (c : case) : bool := ok_of (spec_check c).
Definition failing := failing_gen model_ok spec_ok.
Definition count_judged := count_judged_gen spec_check.
