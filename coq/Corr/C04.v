(* Correspondence and violation oracles for C04. *)
From Coq Require Import List Bool NArith ZArith Arith.
From Coq.Strings Require Import Byte.
Import ListNotations.
From GA.Base Require Import Bytes Align Dec CorrBase.
From GA.Gen Require Import Alpha.
From GA.Model Require Import Sites.
Local Open Scope Z_scope.

Definition brows := list (bs * bs).
Definition unrows (l : brows) : rows := map (fun r => (unbs (fst r), unbs (snd r))) l.

Inductive op :=
| OpSub (start len : Z)
| OpSelect (sites : list Z)
| OpInvCoord (start len : Z)          (* ints = starts ++ lens *)
| OpInvPos (sites : list Z)
| OpTrim (n : Z) (from_start : bool)
| OpRefCoord (name : bs) (s l : Z)    (* ints = [alistart; alilen] *)
| OpRefSites (name : bs) (sites : list Z)
| OpSubseqRef (name : bs) (s l : Z)   (* the command line: goalign subseq --ref-seq; err = non-zero exit status *)
| OpSubseqRev (s l : Z)               (* the command line: goalign subseq --reverse (all but the window) *)
| OpConcat (calpha : Z) (c : brows)
| OpPrefixSuffix (k : Z)              (* SubAlign(0,k), SubAlign(k,L-k), Concat *)
| OpSplit (ranges : list (bs * (Z * Z * Z)))   (* AddRange(name, start, end, modulo) calls, then Split *)
| OpTranspose
| OpTransposeTwice
| OpDiff
| OpDiffReplace.

Record case := mk {
  c_alpha : Z; c_in : brows; c_op : op;
  c_err : bool; c_out : brows; c_ints : list Z; c_outs : list brows
}.

Definition optrows_ok (err : bool) (out : rows) (m : option rows) : bool :=
  match m with None => err | Some rs => negb err && rows_eqb out rs end.

Definition apply_ranges (ps : pset) (l : list (bs * (Z * Z * Z))) : pset * bool :=
  add_ranges ps (map (fun x => (unbs (fst x), snd x)) l).

Definition model_ok (c : case) : bool :=
  let rs := unrows (c_in c) in
  let out := unrows (c_out c) in
  match c_op c with
  | OpSub s l => optrows_ok (c_err c) out (sub_align rs s l)
  | OpSelect sites => optrows_ok (c_err c) out (select_sites rs sites)
  | OpInvCoord s l =>
      match inverse_coordinates rs s l with
      | None => c_err c
      | Some (st, ln) => negb (c_err c) && Zlist_eqb (c_ints c) (st ++ ln)
      end
  | OpInvPos sites =>
      match inverse_positions rs sites with
      | None => c_err c
      | Some inv => negb (c_err c) && Zlist_eqb (c_ints c) inv
      end
  | OpTrim n fs => optrows_ok (c_err c) out (trim_sequences rs n fs)
  | OpRefCoord name s l =>
      match ref_coordinates rs (unbs name) s l with
      | None => c_err c
      | Some (st, ln, e) => Bool.eqb e (c_err c) && Zlist_eqb (c_ints c) [st; ln]
      end
  | OpRefSites name sites =>
      match ref_sites rs (unbs name) sites with
      | None => c_err c
      | Some l => negb (c_err c) && Zlist_eqb (c_ints c) l
      end
  | OpSubseqRef name s l =>
      match ref_coordinates rs (unbs name) s l with
      | Some (st, ln, false) => optrows_ok (c_err c) out (sub_align rs st ln)
      | _ => c_err c
      end
  | OpSubseqRev s l =>
      (* InverseCoordinates, SubAlign of each block, Concat; nothing left is an error *)
      match inverse_coordinates rs s l with
      | Some (sts, lns) =>
          match map (fun sl => sub_align rs (fst sl) (snd sl)) (combine sts lns) with
          | [] => c_err c
          | [Some p] => negb (c_err c) && rows_eqb out p
          | [Some p; Some q] =>
              let '(res, ok) := concat (c_alpha c) (c_alpha c) p q in
              Bool.eqb ok (negb (c_err c)) && rows_eqb out res
          | _ => false
          end
      | None => c_err c
      end
  | OpConcat calpha cr =>
      let '(res, ok) := concat (c_alpha c) calpha rs (unrows cr) in
      Bool.eqb ok (negb (c_err c)) && rows_eqb out res
  | OpPrefixSuffix k =>
      match sub_align rs 0 k, sub_align rs k (alen rs - k) with
      | Some p, Some q =>
          let '(res, ok) := concat (c_alpha c) (c_alpha c) p q in
          Bool.eqb ok (negb (c_err c)) && rows_eqb out res
      | _, _ => c_err c
      end
  | OpSplit ranges =>
      let '(ps, ok) := apply_ranges (new_pset (alen rs)) ranges in
      if ok then
        match split rs ps with
        | None => c_err c
        | Some als => negb (c_err c) && list_eqb rows_eqb (map unrows (c_outs c)) als
        end
      else c_err c
  | OpTranspose => negb (c_err c) && rows_eqb out (transpose rs)
  | OpTransposeTwice => negb (c_err c) && rows_eqb out (transpose (transpose rs))
  | OpDiff => negb (c_err c) && rows_eqb out (diff_with_first rs)
  | OpDiffReplace => negb (c_err c) && rows_eqb out (replace_match_chars (diff_with_first rs))
  end.

(* ---- SPEC oracle: the property evaluated naively on the observed results ------------ *)
Definition wnd (s l : Z) (r : list byte) : list byte := firstn (Z.to_nat l) (skipn (Z.to_nat s) r).
Definition isg (b : byte) : bool := beqb b x2d.

Fixpoint enum_from {A} (k : Z) (l : list A) : list (Z * A) :=
  match l with [] => [] | x :: t => (k, x) :: enum_from (k + 1) t end.

(* alignment positions of the residues (non-gaps) of a row, in order *)
Definition residue_positions (r : list byte) : list Z :=
  map fst (filter (fun p => negb (isg (snd p))) (enum_from 0 r)).

Definition in_domain (c : case) : bool :=
  let rs := unrows (c_in c) in rectangularb rs && nodup_names (names rs).

Definition pad_get (n : list byte) (rs : rows) (w : Z) : list byte :=
  match get_seq n rs with Some s => s | None => repeat x2d (Z.to_nat w) end.

(* which partition a site belongs to, by the documented meaning of the ranges:
   partitions are numbered by first appearance of their name *)
Fixpoint first_names (l : list (bs * (Z * Z * Z))) (acc : list (list byte)) : list (list byte) :=
  match l with
  | [] => acc
  | (n, _) :: t => if mem_name (unbs n) acc then first_names t acc else first_names t (acc ++ [unbs n])
  end.

Definition covers (r : Z * Z * Z) (i : Z) : bool :=
  let '(s, e, m) := r in (s <=? i) && (i <=? e) && (Z.eqb ((i - s) mod m) 0).

Definition ranges_valid (L : Z) (l : list (bs * (Z * Z * Z))) : bool :=
  forallb (fun x => let '(s, e, m) := snd x in (0 <=? s) && (e <? L) && (0 <? m)) l &&
  forallb (fun i => Nat.leb (length (filter (fun x => covers (snd x) i) l)) 1) (zrange L).

Definition part_name_of (l : list (bs * (Z * Z * Z))) (i : Z) : option (list byte) :=
  match filter (fun x => covers (snd x) i) l with
  | x :: _ => Some (unbs (fst x))
  | [] => None
  end.

Definition optname_eqb (a : option (list byte)) (b : list byte) : bool :=
  match a with Some x => bytes_eqb x b | None => false end.

Definition spec_body (c : case) : bool :=
  let rs := unrows (c_in c) in
  let out := unrows (c_out c) in
  let L := alen rs in
  if negb (in_domain c) then true else
  match c_op c with
  | OpSub s l =>
      if (0 <=? s) && (0 <=? l) && (s + l <=? L)
      then negb (c_err c) && rows_eqb out (map (fun r => (fst r, wnd s l (snd r))) rs)
      else c_err c
  | OpSelect sites =>
      if forallb (fun s => (0 <=? s) && (s <? L)) sites
      then negb (c_err c) &&
           rows_eqb out (map (fun r => (fst r, map (fun s => nth (Z.to_nat s) (snd r) x00) sites)) rs)
      else c_err c
  | OpInvCoord s l =>
      if (0 <=? s) && (0 <=? l) && (s + l <=? L) then
        negb (c_err c) &&
        (* the reported windows, together with the request, tile [0, L) *)
        (let n := Z.to_nat (Z.of_nat (length (c_ints c)) / 2) in
         let sts := firstn n (c_ints c) in
         let lns := skipn n (c_ints c) in
         let ws := combine sts lns in
         forallb (fun w => (0 <? snd w)) ws &&
         match ws with
         | [] => Z.eqb s 0 && Z.eqb (s + l) L
         | [(a, b)] => (Z.eqb a 0 && Z.eqb b s && Z.eqb (s + l) L && (0 <? s)) ||
                       (Z.eqb s 0 && Z.eqb a (s + l) && Z.eqb (a + b) L)
         | [(a, b); (a', b')] => Z.eqb a 0 && Z.eqb b s && Z.eqb a' (s + l) && Z.eqb (a' + b') L
         | _ => false
         end)
      else c_err c
  | OpInvPos sites =>
      if forallb (fun s => (0 <=? s) && (s <? L)) sites
      then negb (c_err c) && Zlist_eqb (c_ints c) (filter (fun i => negb (Zmem i sites)) (zrange L))
      else c_err c
  | OpTrim n fs =>
      if (0 <=? n) && (n <? L)
      then negb (c_err c) &&
           rows_eqb out (map (fun r => (fst r, if fs then wnd n (L - n) (snd r) else wnd 0 (L - n) (snd r))) rs)
      else c_err c
  | OpRefCoord name s l =>
      match get_seq (unbs name) rs with
      | None => c_err c
      | Some ref =>
          let u := ungapb ref in
          if (0 <=? s) && (0 <? l) && (s + l <=? Z.of_nat (length u)) then
            negb (c_err c) &&
            match c_ints c with
            | [st; ln] =>
                (0 <=? st) && (0 <? ln) && (st + ln <=? L) &&
                bytes_eqb (ungapb (wnd st ln ref)) (wnd s l u) &&
                negb (isg (nth (Z.to_nat st) ref x2d)) && negb (isg (nth (Z.to_nat (st + ln - 1)) ref x2d))
            | _ => false
            end
          else c_err c
      end
  | OpSubseqRef name s l =>
      (* a window of the ungapped reference is the smallest alignment window holding it; anything else is an error *)
      match get_seq (unbs name) rs with
      | None => c_err c
      | Some ref =>
          let pos := residue_positions ref in
          if (0 <=? s) && (0 <? l) && (s + l <=? Z.of_nat (length pos)) then
            let st := nth (Z.to_nat s) pos 0 in
            let en := nth (Z.to_nat (s + l - 1)) pos 0 in
            negb (c_err c) && rows_eqb out (map (fun r => (fst r, wnd st (en - st + 1) (snd r))) rs)
          else c_err c
      end
  | OpSubseqRev s l =>
      (* every column outside the window, in order; an invalid window or an empty complement is an error *)
      let L := alen rs in
      if (0 <=? s) && (0 <=? l) && (s + l <=? L) && negb ((s =? 0) && (l =? L)) then
        negb (c_err c) &&
        rows_eqb out (map (fun r => (fst r, firstn (Z.to_nat s) (snd r) ++ skipn (Z.to_nat (s + l)) (snd r))) rs)
      else c_err c
  | OpRefSites name sites =>
      match get_seq (unbs name) rs with
      | None => c_err c
      | Some ref =>
          let pos := residue_positions ref in
          if forallb (fun s => (0 <=? s) && (s <? Z.of_nat (length pos))) sites
          then negb (c_err c) &&
               Zlist_eqb (c_ints c) (map snd (filter (fun kp => Zmem (fst kp) sites) (enum_from 0 pos)))
          else c_err c
      end
  | OpConcat calpha cr =>
      let cr := unrows cr in
      if rectangularb cr && nodup_names (names cr) then
        if Z.eqb (c_alpha c) calpha then
          let la := Z.max 0 L in
          let lc := Z.max 0 (alen cr) in
          let nms := names rs ++ filter (fun n => negb (mem_name n (names rs))) (names cr) in
          negb (c_err c) && rows_eqb out (map (fun n => (n, pad_get n rs la ++ pad_get n cr lc)) nms)
        else c_err c && rows_eqb out rs
      else true
  | OpPrefixSuffix k =>
      if (0 <=? k) && (k <=? L) then negb (c_err c) && rows_eqb out rs else c_err c
  | OpSplit ranges =>
      if ranges_valid L ranges then
        let pn := first_names ranges [] in
        if Nat.leb (length pn) 1 then c_err c
        else
          negb (c_err c) && Nat.eqb (length (c_outs c)) (length pn) &&
          forallb (fun kb =>
                     let '(pname, blk) := kb in
                     let pos := filter (fun i => optname_eqb (part_name_of ranges i) pname) (zrange L) in
                     match pos with
                     | [] => rows_eqb (unrows blk) []
                     | _ => rows_eqb (unrows blk)
                              (map (fun r => (fst r, map (fun s => nth (Z.to_nat s) (snd r) x00) pos)) rs)
                     end) (combine pn (c_outs c))
      else true
  | OpTranspose =>
      negb (c_err c) && Nat.eqb (length out) (Z.to_nat L) &&
      forallb (fun ir => let '(i, r) := ir in
                         bytes_eqb (fst r) (dec_of_Z i) &&
                         bytes_eqb (snd r) (map (fun x => nth (Z.to_nat i) (snd x) x00) rs))
              (enum_from 0 out)
  | OpTransposeTwice =>
      if 0 <? L then negb (c_err c) && list_eqb bytes_eqb (map snd out) (map snd rs) else true
  | OpDiff =>
      negb (c_err c) &&
      match rs, out with
      | r0 :: t, o0 :: ot =>
          row_eqb r0 o0 && Nat.eqb (length t) (length ot) &&
          forallb (fun ro => let '(r, o) := ro in
                     bytes_eqb (fst r) (fst o) && Nat.eqb (length (snd r)) (length (snd o)) &&
                     forallb (fun i => beqb (nth i (snd o) x00)
                                         (if beqb (nth i (snd r0) x00) (nth i (snd r) x00) then x2e
                                          else nth i (snd r) x00))
                             (seq 0 (length (snd r)))) (combine t ot)
      | [], [] => true
      | _, _ => false
      end
  | OpDiffReplace =>
      if forallb (fun r => forallb (fun b => negb (beqb b x2e)) (snd r)) rs
      then negb (c_err c) && rows_eqb out rs else true
  end.

(* the cases that are inside the property's quantifier (judged by spec_body) *)
Definition spec_dom (c : case) : bool :=
  let rs := unrows (c_in c) in
  in_domain c &&
  match c_op c with
  | OpConcat _ cr => rectangularb (unrows cr) && nodup_names (names (unrows cr))
  | OpSplit ranges => ranges_valid (alen rs) ranges
  | OpTransposeTwice => 0 <? alen rs
  | OpDiffReplace => forallb (fun r => forallb (fun b => negb (beqb b x2e)) (snd r)) rs
  | _ => true
  end.
Definition spec_check (c : case) : option bool := if spec_dom c then Some (spec_body c) else None.
Definition spec_ok (c : case) : bool := ok_of (spec_check c).
Definition failing := failing_gen model_ok spec_ok.
Definition count_judged := count_judged_gen spec_check.
