(* Correspondence and violation oracles for C15. *)
From Coq Require Import List Bool NArith ZArith Arith.
From Coq.Strings Require Import Byte.
Import ListNotations.
From GA.Base Require Import Bytes Case Align CorrBase.
From GA.Gen Require Import Alpha.
From GA.Model Require Import Mask.

Definition brows := list (bs * bs).
Definition unrows (l : brows) : rows := map (fun r => (unbs (fst r), unbs (snd r))) l.

Inductive op :=
| OpMask (refseq : bs) (start len : Z) (mr : bs) (nogap noref : bool)
| OpMaskOcc (refseq : bs) (maxocc : Z) (mr : bs)
| OpMaskUnique (refseq : bs) (mr : bs)
| OpCli (what : bs).     (* a command-line relation checked by the harness: c_err = it does not hold *)

Record case := mk { c_alpha : Z; c_in : brows; c_op : op; c_err : bool; c_out : brows; c_len : Z }.

Definition res_ok (c : case) (m : option rows) : bool :=
  let rs := unrows (c_in c) in
  match m with
  | None => c_err c && rows_eqb (unrows (c_out c)) rs
  | Some o => negb (c_err c) && rows_eqb (unrows (c_out c)) o
  end && Z.eqb (c_len c) (alen rs).

Definition model_ok (c : case) : bool :=
  let rs := unrows (c_in c) in
  match c_op c with
  | OpMask refseq start len mr nogap noref => res_ok c (mask (c_alpha c) rs (unbs refseq) start len (unbs mr) nogap noref)
  | OpMaskOcc refseq maxocc mr => res_ok c (mask_occurences (c_alpha c) rs (unbs refseq) maxocc (unbs mr))
  | OpMaskUnique refseq mr => res_ok c (mask_unique (c_alpha c) rs (unbs refseq) (unbs mr))
  | OpCli _ => true
  end.

(* ---- SPEC oracle ------------------------------------------------------------------------------- *)
Local Open Scope bs_scope.
Definition is_str (a : list byte) (s : bs) : bool := bytes_eqb a (unbs s).

(* Some (Some b): fixed replacement; Some None: majority; None: invalid mode *)
Definition sp_mode (alphabet : Z) (mr : list byte) : option (option byte) :=
  if is_str mr "" || is_str mr "AMBIG" then
    if Z.eqb alphabet 0 then Some (Some x58) else if Z.eqb alphabet 1 then Some (Some x4e) else None
  else if is_str mr "GAP" then Some (Some x2d)
  else if is_str mr "MAJ" then Some None
  else match mr with [b] => Some (Some b) | _ => None end.
Local Close Scope bs_scope.

Definition cntb (b : byte) (l : list byte) : nat := length (filter (beqb b) l).

(* b is a most frequent byte of l, the smallest one among ties *)
Definition is_majority (b : byte) (l : list byte) : bool :=
  Nat.ltb 0 (cntb b l) &&
  forallb (fun c => Nat.ltb (cntb c l) (cntb b l) ||
                    (Nat.eqb (cntb c l) (cntb b l) && N.leb (Byte.to_N b) (Byte.to_N c))) l.

Definition spec_check (c : case) : option bool :=
  let rs := unrows (c_in c) in
  let out := unrows (c_out c) in
  let al := c_alpha c in
  let L := width rs in
  if negb (rectangularb rs && nodup_names (names rs) && Nat.ltb 0 (length rs) &&
           forallb (fun r => forallb is_ascii (snd r)) rs) then None else
  let frame := list_eqb bytes_eqb (names out) (names rs) && rectangularb out && Nat.eqb (width out) L &&
               Z.eqb (c_len c) (Z.of_nat L) in
  match c_op c with
  | OpMask refseq start len mr nogap noref =>
      let refseq := unbs refseq in
      match sp_mode al (unbs mr) with
      | None => Some (c_err c && rows_eqb out rs)
      | Some mode =>
          (* reference protection without a reference row protects nothing *)
          let noref := noref && negb (Nat.eqb (length refseq) 0) in
          if (start <? 0)%Z || (Z.of_nat L <? start)%Z then Some (c_err c && rows_eqb out rs) else
          match (if noref then get_seq refseq rs else Some []) with
          | None => Some (c_err c && rows_eqb out rs)
          | Some refrow =>
              Some (negb (c_err c) && frame &&
                forallb (fun ro =>
                  let '(r, o) := ro in
                  forallb (fun i =>
                    let b := nth i (snd r) x00 in
                    let inw := (start <=? Z.of_nat i)%Z && (Z.of_nat i <? start + len)%Z in
                    let prot := (nogap && beqb b x2d) || (noref && beqb b (nth i refrow x00)) in
                    if inw && negb prot then
                      match mode with
                      | Some rep => beqb (nth i (snd o) x00) rep
                      | None => is_majority (nth i (snd o) x00) (column rs i)
                      end
                    else beqb (nth i (snd o) x00) b) (seq 0 L)) (combine rs out))
          end
      end
  | OpCli _ => Some (negb (c_err c))
  | OpMaskOcc _ _ _ | OpMaskUnique _ _ =>
      let '(refseq, maxocc, mr) :=
        match c_op c with
        | OpMaskOcc a b m => (unbs a, b, unbs m)
        | OpMaskUnique a m => (unbs a, 1%Z, unbs m)
        | _ => ([], 0%Z, [])
        end in
      match sp_mode al mr with
      | None => Some (c_err c && rows_eqb out rs)
      | Some mode =>
          match (match refseq with [] => Some [] | _ => get_seq refseq rs end) with
          | None => Some (c_err c && rows_eqb out rs)
          | Some refrow =>
              let hasref := negb (Nat.eqb (length refseq) 0) in
              Some (negb (c_err c) && frame &&
                forallb (fun i =>
                  (* residues counted at this site (documented rule of MaskOccurences): not the
                     reference row, and different from the reference residue or the reference is a gap *)
                  let cnted r := negb hasref ||
                                 (negb (bytes_eqb (fst r) refseq) &&
                                  (negb (beqb (nth i (snd r) x00) (nth i refrow x00)) || beqb (nth i refrow x00) x2d)) in
                  let ccol := map (fun r => nth i (snd r) x00) (filter cnted rs) in
                  forallb (fun ro =>
                    let '(r, o) := ro in
                    let b := nth i (snd r) x00 in
                    let ob := nth i (snd o) x00 in
                    let rare := cnted r && negb (beqb b x2d) && (Z.of_nat (cntb b ccol) <=? maxocc)%Z in
                    match mode with
                    | Some rep => if rare then beqb ob rep else beqb ob b
                    | None =>
                        (* majority mode: rare residues become a most frequent counted byte (or stay if they are it) *)
                        if rare then beqb ob b && is_majority b ccol || is_majority ob ccol
                        else beqb ob b
                    end) (combine rs out)) (seq 0 L))
          end
      end
  end.

Definition spec_ok (c : case) : bool := ok_of (spec_check c).
Definition failing := failing_gen model_ok spec_ok.
Definition count_judged := count_judged_gen spec_check.
