(* Shannon entropy of a column from the positive counts of its distinct counted characters
   (align/align.go Entropy: - sum over the kinds of (v/total) ln (v/total)), over the reals. *)
From Coq Require Import List ZArith Reals.
Import ListNotations.
Local Open Scope R_scope.

Definition total_of (counts : list Z) : R := fold_right (fun c acc => IZR c + acc) 0 counts.

Definition entropy_of (counts : list Z) : R :=
  let t := total_of counts in
  fold_right (fun c acc => acc - (IZR c / t) * ln (IZR c / t)) 0 counts.
