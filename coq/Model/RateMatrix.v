(* SPEC: the textbook rate matrices of the nucleotide substitution models
   (general time reversible family: Q_ij = r_ij pi_j for i <> j, rows summing to
   zero, scaled to one expected substitution per unit time), in exact rational
   arithmetic.  States A=0 C=1 G=2 T=3. *)
From Coq Require Import List Bool ZArith QArith Arith.
Import ListNotations.
Local Open Scope Q_scope.

Definition st := [0; 1; 2; 3]%nat.
Definition qnth (l : list Q) (i : nat) : Q := nth i l 0.

(* symmetric exchangeabilities indexed by the unordered pair *)
Record exch := { rAC : Q; rAG : Q; rAT : Q; rCG : Q; rCT : Q; rGT : Q }.
Definition r_of (e : exch) (i j : nat) : Q :=
  match i, j with
  | O, 1%nat | 1%nat, O => rAC e | O, 2%nat | 2%nat, O => rAG e | O, 3%nat | 3%nat, O => rAT e
  | 1%nat, 2%nat | 2%nat, 1%nat => rCG e | 1%nat, 3%nat | 3%nat, 1%nat => rCT e | 2%nat, 3%nat | 3%nat, 2%nat => rGT e
  | _, _ => 0%Q
  end.

Definition offdiag (e : exch) (pi : list Q) (i j : nat) : Q := r_of e i j * qnth pi j.
Definition rowout (e : exch) (pi : list Q) (i : nat) : Q :=
  offdiag e pi i 0 + offdiag e pi i 1 + offdiag e pi i 2 + offdiag e pi i 3.   (* r_ii = 0 *)
Definition norm (e : exch) (pi : list Q) : Q :=
  qnth pi 0 * rowout e pi 0 + qnth pi 1 * rowout e pi 1 + qnth pi 2 * rowout e pi 2 + qnth pi 3 * rowout e pi 3.

Definition rate (e : exch) (pi : list Q) (i j : nat) : Q :=
  (if Nat.eqb i j then - rowout e pi i else offdiag e pi i j) / norm e pi.

(* the models' exchangeabilities *)
Definition uniform : list Q := [1#4; 1#4; 1#4; 1#4].
Definition ex_jc : exch := {| rAC := 1; rAG := 1; rAT := 1; rCG := 1; rCT := 1; rGT := 1 |}.
Definition ex_k2p (kappa : Q) : exch := {| rAC := 1; rAG := kappa; rAT := 1; rCG := 1; rCT := kappa; rGT := 1 |}.
Definition ex_tn93 (k1 k2 : Q) : exch := {| rAC := 1; rAG := k1; rAT := 1; rCG := 1; rCT := k2; rGT := 1 |}.
Definition ex_f84 (kappa : Q) (pi : list Q) : exch :=
  let piR := qnth pi 0 + qnth pi 2 in let piY := qnth pi 1 + qnth pi 3 in
  {| rAC := 1; rAG := 1 + kappa / piR; rAT := 1; rCG := 1; rCT := 1 + kappa / piY; rGT := 1 |}.
(* GTRModel.InitModel(d, f, b, e, a, c, ...) *)
Definition ex_gtr (d f b e a c : Q) : exch := {| rAC := d; rAG := f; rAT := b; rCG := e; rCT := a; rGT := c |}.
