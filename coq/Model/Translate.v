(* CODE-MODEL of translation (align/sequence.go GenAllPossibleCodons,
   translateCodon, bufferTranslate, Translate, DetectAlphabet;
   align/seqbag.go Translate; align/align.go Translate, CodonAlign,
   TranslateByReference).  Tables come from Gen/ (regenerated from /repo). *)
From Coq Require Import List Bool NArith ZArith Lia.
From Coq.Strings Require Import Byte.
Import ListNotations.
From GA.Base Require Import Bytes Case.
From GA.Gen Require Import GenCodes Iupac Alpha.

Notation row := (list byte * list byte)%type (only parsing).

(* nt = uint8(unicode.ToUpper(rune(nt))); if nt == 'U' { nt = 'T' } *)
Definition fold_nt (b : byte) : byte :=
  let u := to_upper b in if beqb u x55 then x54 else u.

Definition iupac_lookup (b : byte) : option (list byte) := bassoc b iupac_code.

(* the three nested append loops of GenAllPossibleCodons, in Go's order *)
Definition gen_codons_of (n1 n2 n3 : list byte) : list (list byte) :=
  let c1 := map (fun x => [x]) n1 in
  let c2 := flat_map (fun y => map (fun c => c ++ [y]) c1) n2 in
  flat_map (fun z => map (fun c => c ++ [z]) c2) n3.

Definition gen_codons_opt (o1 o2 o3 : option (list byte)) : list (list byte) :=
  match o1, o2, o3 with
  | Some n1, Some n2, Some n3 => gen_codons_of n1 n2 n3
  | _, _, _ => []
  end.

Definition gen_all_codons (b1 b2 b3 : byte) : list (list byte) :=
  gen_codons_opt (iupac_lookup (fold_nt b1)) (iupac_lookup (fold_nt b2)) (iupac_lookup (fold_nt b3)).

Definition code_table := list (list byte * byte).

(* the range loop of translateCodon; [aa] starts as ' ' *)
Fixpoint tc_loop (code : code_table) (codons : list (list byte)) (aa : byte) : byte :=
  match codons with
  | [] => aa
  | c :: t =>
      match lassoc c code with
      | None => x58
      | Some a =>
          if negb (beqb aa x20) && negb (beqb a aa) then x58 else tc_loop code t a
      end
  end.

Definition tc_of (code : code_table) (codons : list (list byte)) : byte :=
  match codons with
  | [] => x58
  | _ => tc_loop code codons x20
  end.

Definition translate_codon (code : code_table) (b1 b2 b3 : byte) : byte :=
  tc_of code (gen_all_codons b1 b2 b3).

Definition genetic_code (c : Z) : option code_table :=
  if Z.eqb c GENETIC_CODE_STANDARD then Some standardcode
  else if Z.eqb c GENETIC_CODE_VETEBRATE_MITO then Some vertebratemitocode
  else if Z.eqb c GENETIC_CODE_INVETEBRATE_MITO then Some invertebratemitocode
  else None.

(* ---- alphabet detection ---------------------------------------------------- *)
Definition could_be_nt_aa (b : byte) : bool * bool :=
  let u := to_upper b in
  match u with
  | x41 | x43 | x42 | x52 | x47 | x3f | x2d | x2e | x2a | x44 | x4b | x53 | x48 | x4d | x4e | x56
  | x58 | x54 | x57 | x59 => (true, true)
  | x55 | x4f => (true, false)
  | x51 | x45 | x49 | x4c | x46 | x50 | x5a => (false, true)
  | _ => (false, false)
  end.

Definition detect_alphabet_seq (s : list byte) : Z :=
  let isnt := forallb (fun b => fst (could_be_nt_aa b)) s in
  let isaa := forallb (fun b => snd (could_be_nt_aa b)) s in
  if isnt && isaa then BOTH else if isnt then NUCLEOTIDS else if isaa then AMINOACIDS else UNKNOWN.

(* seqbag.DetectAlphabet: conjunction over all sequences *)
Definition detect_alphabet_rows (rs : list row) : Z :=
  let isnt := forallb (fun r => forallb (fun b => fst (could_be_nt_aa b)) (snd r)) rs in
  let isaa := forallb (fun r => forallb (fun b => snd (could_be_nt_aa b)) (snd r)) rs in
  if isnt && isaa then BOTH else if isnt then NUCLEOTIDS else if isaa then AMINOACIDS else UNKNOWN.

Definition auto_alphabet (rs : list row) : Z :=
  let a := detect_alphabet_rows rs in
  if Z.eqb a BOTH || Z.eqb a NUCLEOTIDS then NUCLEOTIDS
  else if Z.eqb a AMINOACIDS then AMINOACIDS else UNKNOWN.

(* ---- frame loop -------------------------------------------------------------- *)
Fixpoint translate_from (code : code_table) (s : list byte) : list byte :=
  match s with
  | a :: ((b :: c :: t) as _) => translate_codon code a b c :: translate_from code t
  | _ => []
  end.

(* bufferTranslate; [phase] is a non-negative frame offset *)
Definition buffer_translate (code : code_table) (phase : nat) (s : list byte) : option (list byte) :=
  let a := detect_alphabet_seq s in
  if negb (Z.eqb a NUCLEOTIDS) && negb (Z.eqb a BOTH) then None
  else if Nat.ltb (length s) (3 + phase) then None
  else Some (translate_from code (skipn phase s)).

(* Sequence.Translate(phase, geneticcode) *)
Definition seq_translate (gc : Z) (phase : nat) (s : list byte) : option (list byte) :=
  match genetic_code gc with
  | None => None
  | Some code => buffer_translate code phase s
  end.

(* ---- seqbag.Translate ------------------------------------------------------------ *)
(* "%s_%d" for phase 0..2 *)
Definition digit_byte (n : nat) : byte := byte_of_Z (48 + Z.of_nat n).
Definition suffix_name (name : list byte) (phase : nat) : list byte := name ++ [x5f; digit_byte phase].

(* one input row under the phase list; stops at the first error, keeping what
   was already added *)
Fixpoint translate_row_phases (code : code_table) (suffix : bool) (phases : list nat) (r : row)
  : list row * bool :=
  match phases with
  | [] => ([], true)
  | p :: more =>
      match buffer_translate code p (snd r) with
      | None => ([], false)
      | Some t =>
          let nm := if suffix then suffix_name (fst r) p else fst r in
          let '(rest, ok) := translate_row_phases code suffix more r in
          ((nm, t) :: rest, ok)
      end
  end.

Fixpoint translate_rows (code : code_table) (suffix : bool) (phases : list nat) (rs : list row)
  : list row * bool :=
  match rs with
  | [] => ([], true)
  | r :: t =>
      let '(out, ok) := translate_row_phases code suffix phases r in
      if ok then let '(rest, ok') := translate_rows code suffix phases t in (out ++ rest, ok')
      else (out, false)
  end.

(* result: rows, alphabet, ok.  phase = -1 means the three frames.  Names are
   assumed pairwise distinct (then AddSequence never renames, see C01). *)
Definition bag_translate (alphabet gc phase : Z) (rs : list row) : list row * Z * bool :=
  match genetic_code gc with
  | None => (rs, alphabet, false)
  | Some code =>
      if negb (Z.eqb alphabet NUCLEOTIDS) then (rs, alphabet, false)
      else
        let '(suffix, phases) :=
          if Z.eqb phase (-1) then (true, [0; 1; 2]) else (false, [Z.to_nat phase]) in
        let '(out, ok) := translate_rows code suffix phases rs in
        if ok then (out, auto_alphabet out, true) else (out, alphabet, false)
  end.

(* ---- CodonAlign ---------------------------------------------------------------------- *)
(* threads the nucleotides of [nt] onto the protein row [p]; returns the codon
   row and what is left of [nt] *)
Fixpoint thread (p nt : list byte) : option (list byte * list byte) :=
  match p with
  | [] => Some ([], nt)
  | a :: p' =>
      if beqb a x2d then
        match thread p' nt with
        | Some (r, rest) => Some (x2d :: x2d :: x2d :: r, rest)
        | None => None
        end
      else
        match nt with
        | x :: y :: z :: nt' =>
            match thread p' nt' with
            | Some (r, rest) => Some (x :: y :: z :: r, rest)
            | None => None
            end
        | _ => None
        end
  end.

Definition codon_align_row (p nt : list byte) : option (list byte) :=
  match thread p nt with
  | Some (r, rest) => if Nat.leb (length rest) 2 then Some r else None
  | None => None
  end.

Fixpoint codon_align_rows (prot nts : list row) : option (list row) :=
  match prot with
  | [] => Some []
  | (n, p) :: t =>
      match lassoc n nts with
      | None => None
      | Some nt =>
          match codon_align_row p nt with
          | None => None
          | Some r =>
              match codon_align_rows t nts with
              | Some rest => Some ((n, r) :: rest)
              | None => None
              end
          end
      end
  end.

Definition codon_align (palpha ntalpha : Z) (prot nts : list row) : option (list row) :=
  if negb (Z.eqb palpha AMINOACIDS) then None
  else if negb (Z.eqb ntalpha NUCLEOTIDS) then None
  else codon_align_rows prot nts.

(* ---- TranslateByReference --------------------------------------------------------------- *)
Definition isgap (b : byte) : bool := beqb b x2d.
Definition at_ (s : list byte) (i : nat) : byte := nth i s x2d.

Fixpoint adv3 (fuel : nat) (ref : list byte) (alen i0 i1 i2 : nat) : nat * nat * nat :=
  match fuel with
  | O => (i0, i1, i2)
  | S f => if Nat.ltb i2 alen && isgap (at_ ref i0) then adv3 f ref alen (S i0) (S i1) (S i2) else (i0, i1, i2)
  end.
Fixpoint adv2 (fuel : nat) (ref : list byte) (alen i1 i2 : nat) : nat * nat :=
  match fuel with
  | O => (i1, i2)
  | S f => if Nat.ltb i2 alen && isgap (at_ ref i1) then adv2 f ref alen (S i1) (S i2) else (i1, i2)
  end.
Fixpoint adv1 (fuel : nat) (ref : list byte) (alen i2 : nat) : nat :=
  match fuel with
  | O => i2
  | S f => if Nat.ltb i2 alen && isgap (at_ ref i2) then adv1 f ref alen (S i2) else i2
  end.

Definition repeatb (b : byte) (n : nat) : list byte := repeat b n.

(* what one non-reference sequence contributes for the reference codon
   [i0..i2] with [naa] potential amino acids *)
Definition comp_piece (code : code_table) (s : list byte) (i0 i2 naa : nat) : list byte :=
  let tmp := filter (fun b => negb (isgap b)) (firstn (i2 + 1 - i0) (skipn i0 s)) in
  match tmp with
  | [] => repeatb x2d naa
  | _ =>
      if negb (Nat.eqb (Nat.modulo (length tmp) 3) 0) then repeatb x58 naa
      else let tr := translate_from code tmp in tr ++ repeatb x2d (naa - length tr)
  end.

(* appends, to every buffer, its piece for this codon *)
Fixpoint append_pieces (code : code_table) (k refid : nat) (seqs bufs : list (list byte))
         (refpiece : list byte) (i0 i2 naa : nat) : list (list byte) :=
  match seqs, bufs with
  | s :: ss, b :: bs =>
      (b ++ (if Nat.eqb k refid then refpiece else comp_piece code s i0 i2 naa))
        :: append_pieces code (S k) refid ss bs refpiece i0 i2 naa
  | _, _ => []
  end.

Fixpoint byref_loop (fuel : nat) (code : code_table) (refid alen : nat) (seqs bufs : list (list byte))
         (i0 i1 i2 : nat) : list (list byte) :=
  match fuel with
  | O => bufs
  | S f =>
      if negb (Nat.ltb i2 alen) then bufs else
      let ref := nth refid seqs [] in
      if isgap (at_ ref i0) && isgap (at_ ref i1) && isgap (at_ ref i2) then
        let naa := (i2 + 1 - i0) / 3 in
        let bufs' := append_pieces code 0 refid seqs bufs (repeatb x2d naa) i0 i2 naa in
        byref_loop f code refid alen seqs bufs' (i2 + 1) (i2 + 2) (i2 + 3)
      else
        let '(j0, j1, j2) := adv3 alen ref alen i0 i1 i2 in
        if negb (Nat.ltb j2 alen) then bufs else
        let '(k1, k2) := adv2 alen ref alen j1 j2 in
        if negb (Nat.ltb k2 alen) then bufs else
        let l2 := adv1 alen ref alen k2 in
        if negb (Nat.ltb l2 alen) then bufs else
        let refaa := translate_codon code (at_ ref j0) (at_ ref k1) (at_ ref l2) in
        let naa := (l2 + 1 - j0) / 3 in
        let refpiece := refaa :: repeatb x2d (naa - 1) in
        let bufs' := append_pieces code 0 refid seqs bufs refpiece j0 l2 naa in
        byref_loop f code refid alen seqs bufs' (l2 + 1) (l2 + 2) (l2 + 3)
  end.

Fixpoint index_of_name (n : list byte) (rs : list row) (k : nat) : option nat :=
  match rs with
  | [] => None
  | r :: t => if bytes_eqb (fst r) n then Some k else index_of_name n t (S k)
  end.

(* alignment rows are assumed rectangular (C01); [phase] non-negative *)
Definition translate_by_reference (alphabet gc : Z) (phase : nat) (refname : list byte) (rs : list row)
  : option (list row) :=
  match refname with
  | [] => None
  | _ =>
      match index_of_name refname rs 0 with
      | None => None
      | Some refid =>
          if negb (Z.eqb alphabet NUCLEOTIDS) && negb (Z.eqb alphabet BOTH) then None
          else match genetic_code gc with
               | None => None
               | Some code =>
                   let alen := length (snd (hd ([], []) rs)) in
                   let seqs := map snd rs in
                   let bufs := byref_loop (S alen) code refid alen seqs (map (fun _ => []) rs)
                                          phase (phase + 1) (phase + 2) in
                   Some (combine (map fst rs) bufs)
               end
      end
  end.
