(* CODE-MODEL of the phaser (align/phaser.go alignAgainstRefsAA, alignAgainstRefsNT,
   Phase's choice of references): best frame / strand search with the anchored
   Smith-Waterman model (Model/SW.v), coordinate conversion, cut-offs. *)
From Coq Require Import List Bool NArith ZArith QArith Lia.
From Coq.Strings Require Import Byte.
Import ListNotations.
From GA.Base Require Import Bytes Case Align.
From GA.Gen Require Import Alpha.
From GA.Model Require Import Strand Translate SW Orf.
Local Open Scope Z_scope.

Record pres := mkpres { p_removed : bool; p_pos : Z; p_nt : list byte; p_codon : list byte; p_aa : list byte }.

(* NewPhaser(): substitution matrix, gap open -10, gap extend -0.5 (scores are doubled in the SW model) *)
Definition phaser_scheme : scheme := mkscheme true 2 (-2) (-20) (-1).
Definition LENCUT : Q := 8 # 10.
Definition MATCHCUT : Q := 1 # 2.

Definition sub (s : list byte) (a b : Z) : list byte := firstn (Z.to_nat (b - a)) (skipn (Z.to_nat a) s).

Record best := mkbest {
  b_score : Z; b_start : Z; b_end : Z; b_startaa : Z; b_endaa : Z;
  b_seq : list byte; b_seqaa : list byte; b_rate : Q; b_len : Q; b_gapstart : Z
}.

Inductive outcome := OErr | ORes (r : pres).

Definition removed_of (b : best) : bool :=
  Qle_bool (b_rate b) MATCHCUT || Qle_bool (b_len b) LENCUT.

Definition no_alignment (s : list byte) : outcome := ORes (mkpres true 0 s s []).

(* one (reference, phase) attempt of alignAgainstRefsAA; None = error *)
Definition try_aa (gc : Z) (cutend : bool) (s rc : list byte) (orfaa : list byte) (phase : Z) (cur : option best)
  : option (option best) :=
  let tmp := if phase <? 3 then s else rc in
  match seq_translate gc (Z.to_nat (phase mod 3)) tmp with
  | None => None
  | Some seqaa =>
      (* the phaser forces the protein matrix (0) *)
      match align_pair_with 0 true phaser_scheme orfaa seqaa with
      | None => None
      | Some r =>
          let better := match cur with Some b => b_score b <? r_score r | None => 0 <? r_score r end in
          if better then
            Some (Some (mkbest (r_score r) (phase mod 3 + 3 * r_start2 r)
                               (if cutend then phase mod 3 + (r_end2 r + 1) * 3 else Z.of_nat (length tmp))
                               (r_start2 r) (if cutend then r_end2 r + 1 else Z.of_nat (length seqaa))
                               tmp seqaa
                               (r_matches r # Z.to_pos (r_length r)) (r_length r # Z.to_pos (Z.of_nat (length orfaa))) 0))
          else Some cur
      end
  end.

Fixpoint fold_try {A} (f : A -> option best -> option (option best)) (l : list A) (cur : option best) : option (option best) :=
  match l with
  | [] => Some cur
  | x :: t => match f x cur with None => None | Some c => fold_try f t c end
  end.

Definition phase_aa (gc : Z) (reverse cutend : bool) (orfsaa : list (list byte)) (s : list byte) : outcome :=
  let rc := fst (revcomp_seq s) in
  let phases := if reverse then [0; 1; 2; 3; 4; 5] else [0; 1; 2] in
  match fold_try (fun (op : list byte * Z) cur => try_aa gc cutend s rc (fst op) (snd op) cur)
                 (list_prod orfsaa phases) None with
  | None => OErr
  | Some None => no_alignment s
  | Some (Some b) =>
      ORes (mkpres (removed_of b) (b_start b) (sub (b_seq b) (b_start b) (b_end b)) (sub (b_seq b) (b_start b) (b_end b))
                   (sub (b_seqaa b) (b_startaa b) (b_endaa b)))
  end.

Fixpoint leading_gaps (l : list byte) : Z :=
  match l with b :: t => if beqb b x2d then 1 + leading_gaps t else 0 | [] => 0 end.

Definition try_nt (cutend : bool) (s rc : list byte) (orf : list byte) (phase : Z) (cur : option best)
  : option (option best) :=
  let tmp := if phase <? 1 then s else rc in
  match align_pair true phaser_scheme orf tmp with
  | None => None
  | Some r =>
      let better := match cur with Some b => b_score b <? r_score r | None => 0 <? r_score r end in
      if better then
        Some (Some (mkbest (r_score r) (r_start2 r) (if cutend then r_end2 r + 1 else Z.of_nat (length tmp)) 0 0
                           tmp [] (r_matches r # Z.to_pos (r_length r)) (r_length r # Z.to_pos (Z.of_nat (length orf)))
                           (leading_gaps (r_row2 r))))
      else Some cur
  end.

Definition phase_nt (gc : Z) (reverse cutend : bool) (orfs : list (list byte)) (s : list byte) : outcome :=
  let rc := fst (revcomp_seq s) in
  let phases := if reverse then [0; 1] else [0] in
  match fold_try (fun (op : list byte * Z) cur => try_nt cutend s rc (fst op) (snd op) cur) (list_prod orfs phases) None with
  | None => OErr
  | Some None => no_alignment s
  | Some (Some b) =>
      let ph := (3 - (b_gapstart b) mod 3) mod 3 in
      let codon := sub (b_seq b) (b_start b + ph) (b_end b) in
      match seq_translate gc 0 codon with
      | None => OErr
      | Some aa => ORes (mkpres (removed_of b) (b_start b) (sub (b_seq b) (b_start b) (b_end b)) codon aa)
      end
  end.

(* Phase(orfs, seqs): the references (the longest ORF of the input when none is given), translated when
   amino acids are compared *)
Definition phase_all (translate reverse cutend : bool) (gc : Z) (orfs : option (list (list byte))) (seqs : list (list byte))
  : option (list outcome) :=
  let refs := match orfs with
              | Some l => Some l
              | None => match bag_longest_orf reverse seqs with Some o => Some [o] | None => None end
              end in
  match refs with
  | None => None
  | Some rs =>
      if translate then
        match all_some (map (seq_translate gc 0) rs) with
        | None => None
        | Some rsaa => Some (map (phase_aa gc reverse cutend rsaa) seqs)
        end
      else Some (map (phase_nt gc reverse cutend rs) seqs)
  end.
