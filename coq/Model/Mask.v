(* CODE-MODEL of masking (align/align.go Mask, MaskOccurences, MaskUnique). *)
From Coq Require Import List Bool NArith ZArith Lia.
From Coq.Strings Require Import Byte.
Import ListNotations.
From GA.Base Require Import Bytes Align.
From GA.Gen Require Import Alpha.

Local Open Scope bs_scope.
Definition s_AMBIG : list byte := unbs "AMBIG".
Definition s_GAP : list byte := unbs "GAP".
Definition s_MAJ : list byte := unbs "MAJ".
Local Close Scope bs_scope.

Inductive repmode := RepFixed (b : byte) | RepMaj.

(* the replacement character selection shared by Mask and MaskOccurences *)
Definition rep_mode (alphabet : Z) (maskreplace : list byte) : option repmode :=
  if bytes_eqb maskreplace s_AMBIG || bytes_eqb maskreplace [] then
    if Z.eqb alphabet AMINOACIDS then Some (RepFixed ALL_AMINO)
    else if Z.eqb alphabet NUCLEOTIDS then Some (RepFixed ALL_NUCLE)
    else None
  else if bytes_eqb maskreplace s_GAP then Some (RepFixed GAP)
  else if bytes_eqb maskreplace s_MAJ then Some RepMaj
  else match maskreplace with
       | [b] => Some (RepFixed b)
       | _ => None
       end.

Definition countb (c : byte) (col : list byte) : nat := length (filter (beqb c) col).

(* for c, num := range occurences { if num > max { rep = c; max = num } } over the
   130-entry table: the smallest byte among the most frequent ones; [rep0] is
   kept when nothing is counted *)
Definition ascii130 : list byte := firstn 130 all_bytes.

Definition maj_byte (rep0 : byte) (col : list byte) : byte :=
  fst (fold_left (fun (st : byte * nat) c => let n := countb c col in
                                             if Nat.ltb (snd st) n then (c, n) else st)
                 ascii130 (rep0, 0)).

Definition get_row (n : list byte) (rs : rows) : option (list byte) := get_seq n rs.

Definition in_window (start len : Z) (i : nat) : bool :=
  (start <=? Z.of_nat i)%Z && (Z.of_nat i <? start + len)%Z.

(* Mask: one row, given the per-site replacement [rep i] and reference character [refc i] *)
Definition mask_row (start len : Z) (nogap noref : bool) (rep refc : nat -> byte) (s : list byte) : list byte :=
  map (fun i => let b := nth i s x2d in
                if in_window start len i && negb (nogap && beqb b GAP) && negb (noref && beqb b (refc i))
                then rep i else b)
      (seq 0 (length s)).

Definition mask (alphabet : Z) (rs : rows) (refseq : list byte) (start len : Z) (maskreplace : list byte)
           (nogap noref : bool) : option rows :=
  if (start <? 0)%Z then None
  else if (start >? alen rs)%Z then None
  else match rep_mode alphabet maskreplace with
       | None => None
       | Some mode =>
           let useref := negb (bytes_eqb refseq []) && noref in
           match (if useref then get_row refseq rs else Some []) with
           | None => None
           | Some refrow =>
               let refc i := if useref then nth i refrow x2d else x2e in
               let rep i := match mode with
                            | RepFixed b => b
                            | RepMaj => maj_byte x2e (column rs i)
                            end in
               (* the reference protects only when a reference sequence was given *)
               Some (map (fun r => (fst r, mask_row start len nogap useref rep refc (snd r))) rs)
           end
       end.

(* ---- MaskOccurences ------------------------------------------------------------------------ *)
(* is row [r] counted at site [i]? *)
Definition counted (refseq : list byte) (refrow : list byte) (i : nat) (r : list byte * list byte) : bool :=
  match refseq with
  | [] => true
  | _ => negb (bytes_eqb (fst r) refseq) &&
         (negb (beqb (nth i (snd r) x2d) (nth i refrow x2d)) || beqb (nth i refrow x2d) GAP)
  end.

Definition counted_col (refseq refrow : list byte) (rs : rows) (i : nat) : list byte :=
  map (fun r => nth i (snd r) x2d) (filter (counted refseq refrow i) rs).

(* replacement character of every site; in MAJ mode the previous site's value
   is kept when no row is counted *)
Fixpoint occ_reps (mode : repmode) (refseq refrow : list byte) (rs : rows) (sites : list nat) (prev : byte)
  : list byte :=
  match sites with
  | [] => []
  | i :: t =>
      let rep := match mode with
                 | RepFixed b => b
                 | RepMaj => maj_byte prev (counted_col refseq refrow rs i)
                 end in
      rep :: occ_reps mode refseq refrow rs t rep
  end.

Definition occ_masked (refseq refrow : list byte) (rs : rows) (maxocc : Z) (reps : list byte) (i : nat)
           (r : list byte * list byte) : bool :=
  let b := nth i (snd r) x2d in
  let n := countb b (counted_col refseq refrow rs i) in
  counted refseq refrow i r && (Z.of_nat n <=? maxocc)%Z && Nat.ltb 0 n &&
  negb (beqb b (nth i reps x2e)) && negb (beqb b GAP).

Definition mask_occurences (alphabet : Z) (rs : rows) (refseq : list byte) (maxocc : Z) (maskreplace : list byte)
  : option rows :=
  match rep_mode alphabet maskreplace with
  | None => None
  | Some mode =>
      match (match refseq with [] => Some [] | _ => get_row refseq rs end) with
      | None => None
      | Some refrow =>
          let L := width rs in
          let reps := occ_reps mode refseq refrow rs (seq 0 L) x2e in
          Some (map (fun r => (fst r,
                               map (fun i => if occ_masked refseq refrow rs maxocc reps i r
                                             then nth i reps x2e else nth i (snd r) x2d)
                                   (seq 0 (length (snd r))))) rs)
      end
  end.

Definition mask_unique alphabet rs refseq maskreplace := mask_occurences alphabet rs refseq 1 maskreplace.
