(* Abstraction of DistMatrix's producer / worker pool (distance/dna/distance.go):
   every pair (i, j) produced on the channel is evaluated by exactly one worker,
   which writes cells (i,j) and (j,i).  A schedule (any interleaving of any
   number of workers) determines the ORDER in which the pairs are processed:
   it is a permutation of the produced list.  Cell writes of distinct pairs do
   not overlap, hence the final matrix does not depend on the schedule. *)
From Coq Require Import List Bool Arith Lia Permutation.
Import ListNotations.

Section Pool.
  Variable V : Type.                      (* distance values *)
  Variable dist : nat * nat -> V.         (* the model's Distance on a pair *)

  Definition matrix := nat -> nat -> option V.
  Definition empty : matrix := fun _ _ => None.

  Definition write_pair (m : matrix) (p : nat * nat) : matrix :=
    fun i j =>
      if (Nat.eqb i (fst p) && Nat.eqb j (snd p)) || (Nat.eqb i (snd p) && Nat.eqb j (fst p))
      then Some (dist p) else m i j.

  Definition process (order : list (nat * nat)) (m : matrix) : matrix := fold_left write_pair order m.

  (* the pairs of the half matrix, as the producer emits them *)
  Definition produced (n : nat) : list (nat * nat) :=
    flat_map (fun i => map (fun j => (i, j)) (seq (S i) (n - S i))) (seq 0 n).
End Pool.
