(* CODE-MODEL of the pairwise counters of nucleotide distances (distance/dna/
   distance.go alignmentToCodes, selectedSites, countDiffs, countDiffsWithGaps,
   countDiffsWithInternalGaps, countMutations, probaNt; align.NtIUPACDifference).
   Exact rational arithmetic: counts are integers or sums of dyadic weights. *)
From Coq Require Import List Bool NArith ZArith QArith Lia.
From Coq.Strings Require Import Byte.
Import ListNotations.
From GA.Base Require Import Bytes Case Align.
From GA.Gen Require Import Iupac Alpha.

Local Open Scope Q_scope.

(* Nt2IndexIUPAC on every residue; None = error (character without a code) *)
Definition nt_code (b : byte) : option Z := bassoc (to_upper b) iupac_to_int.

Fixpoint all_some {A} (l : list (option A)) : option (list A) :=
  match l with
  | [] => Some []
  | None :: _ => None
  | Some x :: t => match all_some t with Some r => Some (x :: r) | None => None end
  end.

Definition codes_of (rs : rows) : option (list (list Z)) := all_some (map (fun r => all_some (map nt_code (snd r))) rs).

Definition is_nuc (c : Z) : bool := (1 <=? c)%Z && (c <=? 15)%Z.
Definition is_ambiguous (c : Z) : bool := negb (Z.eqb c 0) && negb (Z.eqb (Z.land c (c - 1)) 0).

(* selectedSites: with removegaps a site is kept only if every row holds A, C, G or T *)
Definition plain_nt (b : byte) : bool :=
  let u := to_upper b in beqb u x41 || beqb u x43 || beqb u x47 || beqb u x54.
Definition selected_sites (rs : rows) (removegaps : bool) : list bool :=
  map (fun j => negb removegaps || forallb (fun r => plain_nt (nth j (snd r) x2d)) rs) (seq 0 (width rs)).

Definition weight_at (ws : option (list Q)) (i : nat) : Q :=
  match ws with None => 1 | Some l => nth i l 1 end.

(* NtIUPACDifference: 0 when the codes are equal or their base sets intersect, 1 otherwise *)
Definition iupac_diff (a b : Z) : Q := if Z.eqb a b then 0 else if Z.eqb (Z.land a b) 0 then 1 else 0.

(* (nbdiffs, total) *)
Fixpoint count_diffs_from (i : nat) (s1 s2 : list Z) (sel : list bool) (ws : option (list Q)) (rm_amb : bool) : Q * Q :=
  match s1, s2 with
  | a :: t1, b :: t2 =>
      let '(d, t) := count_diffs_from (S i) t1 t2 sel ws rm_amb in
      let w := weight_at ws i in
      if is_nuc a && is_nuc b && nth i sel false then
        let diff := if Z.eqb a b then 0 else iupac_diff a b in
        let keep := negb (Qeq_bool diff 0 && rm_amb && (is_ambiguous a || is_ambiguous b)) in
        (d + diff * w, if keep then t + w else t)
      else (d, t)
  | _, _ => (0, 0)
  end.
Definition count_diffs := count_diffs_from 0.

Fixpoint count_diffs_gaps_from (i : nat) (s1 s2 : list Z) (sel : list bool) (ws : option (list Q)) (rm_amb : bool) : Q * Q :=
  match s1, s2 with
  | a :: t1, b :: t2 =>
      let '(d, t) := count_diffs_gaps_from (S i) t1 t2 sel ws rm_amb in
      let w := weight_at ws i in
      if (is_nuc a || is_nuc b) && nth i sel false then
        let diff := if Z.eqb a b then 0 else iupac_diff a b in
        let keep := negb (Qeq_bool diff 0 && rm_amb && (is_ambiguous a || is_ambiguous b)) in
        (d + diff * w, if keep then t + w else t)
      else (d, t)
  | _, _ => (0, 0)
  end.
Definition count_diffs_gaps := count_diffs_gaps_from 0.

(* internal gaps only: left-to-right state (firstgaps1, firstgaps2, tmp1, tmp2, nbdiffs, total);
   NB: this counter ignores the selected sites *)
Fixpoint internal_loop (i : nat) (s1 s2 : list Z) (ws : option (list Q)) (rm_amb : bool)
         (fg1 fg2 : bool) (tmp1 tmp2 d t : Q) : Q * Q :=
  match s1, s2 with
  | a :: t1, b :: t2 =>
      let w := weight_at ws i in
      let fg1' := fg1 && negb (is_nuc a) in
      let fg2' := fg2 && negb (is_nuc b) in
      if (is_nuc a || is_nuc b) && negb fg1' && negb fg2' then
        let diff := if Z.eqb a b then 0 else iupac_diff a b in
        let dw := diff * w in
        let d' := d + dw in
        let keep := negb (Qeq_bool diff 0 && rm_amb && (is_ambiguous a || is_ambiguous b)) in
        let t' := if keep then t + w else t in
        let tmp1' := if is_nuc a then 0 else tmp1 + dw in
        let tmp2' := if is_nuc b then 0 else tmp2 + dw in
        internal_loop (S i) t1 t2 ws rm_amb fg1' fg2' tmp1' tmp2' d' t'
      else internal_loop (S i) t1 t2 ws rm_amb fg1' fg2' tmp1 tmp2 d t
  | _, _ =>
      let m := if Qle_bool tmp1 tmp2 then tmp2 else tmp1 in (d - m, t - m)
  end.
Definition count_diffs_internal (s1 s2 : list Z) (ws : option (list Q)) (rm_amb : bool) : Q * Q :=
  internal_loop 0 s1 s2 ws rm_amb true true 0 0 0 0.

(* SPEC of "internal gaps only", by columns: the columns where either row is still in its leading run of
   non-nucleotides, or already in its trailing one, are left out; on the others every gap against a
   nucleotide counts *)
Fixpoint lead_nonnuc (s : list Z) : nat :=
  match s with a :: t => if is_nuc a then O else S (lead_nonnuc t) | [] => O end.
Definition count_diffs_internal_spec (s1 s2 : list Z) (ws : option (list Q)) (rm_amb : bool) : Q * Q :=
  let L := length s1 in
  let lead := Nat.max (lead_nonnuc s1) (lead_nonnuc s2) in
  let trail := Nat.max (lead_nonnuc (rev s1)) (lead_nonnuc (rev s2)) in
  let mask := map (fun i => Nat.leb lead i && Nat.ltb i (L - trail)) (seq 0 L) in
  count_diffs_gaps s1 s2 mask ws rm_amb.

(* transitions / transversions on IUPAC bit sets *)
Definition NT_R : Z := 5.    (* A | G *)
Definition NT_Y : Z := 10.   (* C | T *)
Definition is_transition (a b : Z) : bool :=
  (Z.eqb a 1 && Z.eqb b 4) || (Z.eqb a 4 && Z.eqb b 1) || (Z.eqb a 8 && Z.eqb b 2) || (Z.eqb a 2 && Z.eqb b 8).
Definition is_ag (a b : Z) : bool := (Z.eqb a 1 && Z.eqb b 4) || (Z.eqb a 4 && Z.eqb b 1).
Definition is_ct (a b : Z) : bool := (Z.eqb a 8 && Z.eqb b 2) || (Z.eqb a 2 && Z.eqb b 8).
Definition subset_of (a m : Z) : bool := (0 <? a)%Z && Z.eqb (Z.lor a m) m.
Definition is_transversion (a b : Z) : bool :=
  (subset_of a NT_R && subset_of b NT_Y) || (subset_of a NT_Y && subset_of b NT_R).

(* (transitions, transversions, ag, ct, total) *)
Fixpoint count_mutations_from (i : nat) (s1 s2 : list Z) (sel : list bool) (ws : option (list Q))
  : Q * Q * Q * Q * Q :=
  match s1, s2 with
  | a :: t1, b :: t2 =>
      let '(ts, tv, ag, ct, tot) := count_mutations_from (S i) t1 t2 sel ws in
      let w := weight_at ws i in
      if is_nuc a && is_nuc b && nth i sel false then
        if Z.eqb a b then (ts, tv, ag, ct, tot + w)
        else
          let tv' := if is_transversion a b then tv + w else tv in
          let ts' := if negb (is_transversion a b) && is_transition a b then ts + w else ts in
          let ag' := if is_ag a b then ag + w else ag in
          let ct' := if negb (is_ag a b) && is_ct a b then ct + w else ct in
          (ts', tv', ag', ct', tot + w)
      else (ts, tv, ag, ct, tot)
  | _, _ => (0, 0, 0, 0, 0)
  end.
Definition count_mutations := count_mutations_from 0.

(* base frequencies with ambiguity sharing: (piA, piC, piG, piT) as unnormalised sums and the total *)
Definition bases_of_code (c : Z) : list Z :=
  (if Z.testbit c 0 then [0%Z] else []) ++ (if Z.testbit c 1 then [1%Z] else []) ++
  (if Z.testbit c 2 then [2%Z] else []) ++ (if Z.testbit c 3 then [3%Z] else []).

Definition proba_nt (codes : list (list Z)) (sel : list bool) (ws : option (list Q)) : list Q :=
  let L := match codes with [] => 0%nat | r :: _ => length r end in
  let cells := flat_map (fun j => if nth j sel false
                                  then map (fun r => (j, nth j r 0%Z)) codes else []) (seq 0 L) in
  let total := fold_right (fun c acc => weight_at ws (fst c) + acc) 0 cells in
  map (fun k =>
         fold_right (fun c acc =>
                       let bs := bases_of_code (snd c) in
                       (if is_nuc (snd c) && existsb (Z.eqb k) bs
                        then weight_at ws (fst c) / inject_Z (Z.of_nat (length bs)) else 0) + acc) 0 cells / total)
      [0%Z; 1%Z; 2%Z; 3%Z].
