(* Position-specific scoring matrix (align/align.go Pssm): the exact rational part of every entry (counts,
   pseudo counts, normalisation factors) and the real-valued entry built from it. *)
From Coq Require Import List Bool ZArith QArith Reals.
From Coq.Strings Require Import Byte.
Import ListNotations.
From GA.Base Require Import Bytes Case Align.
From GA.Gen Require Import Alpha.
From GA.Model Require Import Stats.

Definition std_nucleotides : list byte := [x41; x43; x47; x54].
Definition std_aminoacids : list byte :=
  [x41; x52; x4e; x44; x43; x51; x45; x47; x48; x49; x4c; x4b; x4d; x46; x50; x53; x54; x57; x59; x56].
Definition pssm_alphabet (alphabet : Z) : list byte :=
  if Z.eqb alphabet AMINOACIDS then std_aminoacids else std_nucleotides.

Definition PSSM_NORM_NONE := 0%Z.
Definition PSSM_NORM_FREQ := 1%Z.
Definition PSSM_NORM_DATA := 2%Z.
Definition PSSM_NORM_UNIF := 3%Z.
Definition PSSM_NORM_LOGO := 4%Z.

Definition site_count (rs : rows) (site : nat) (c : byte) : Z :=
  Z.of_nat (countb c (map to_upper (column rs site))).
Definition data_count (rs : rows) (c : byte) : Z :=
  Z.of_nat (countb c (map to_upper (flat_map snd rs))).

Definition zq (z : Z) : Q := inject_Z z.

(* the normalisation factor of a character, None when it is undefined (a frequency of zero in the data) *)
Definition norm_factor (rs : rows) (alphabet norm : Z) (pc : Q) (c : byte) : option Q :=
  let chars := pssm_alphabet alphabet in
  let n := zq (Z.of_nat (length rs)) in
  let k := zq (Z.of_nat (length chars)) in
  if Z.eqb norm PSSM_NORM_NONE then Some 1%Q
  else if Z.eqb norm PSSM_NORM_UNIF then Some (1 / (n + k * pc) / (1 / k))%Q
  else if Z.eqb norm PSSM_NORM_FREQ then Some (1 / (n + k * pc))%Q
  else if Z.eqb norm PSSM_NORM_LOGO then Some (1 / n)%Q
  else if Z.eqb norm PSSM_NORM_DATA then
    let total := fold_right Z.add 0%Z (map (data_count rs) chars) in
    let s := data_count rs c in
    if Z.eqb s 0 then None else Some (1 / (n + k * pc) / (zq s / zq total))%Q
  else None.

(* the rational value before the logarithm / logo step *)
Definition pssm_ratio (rs : rows) (alphabet norm : Z) (pc : Q) (c : byte) (site : nat) : option Q :=
  match norm_factor rs alphabet norm pc c with
  | Some f => Some (Qred ((zq (site_count rs site c) + pc) * f))
  | None => None
  end.

(* the positive frequencies of the site (logo normalisation) *)
Definition site_freqs (rs : rows) (alphabet : Z) (pc : Q) (site : nat) : list Q :=
  filter (fun q => (0 <? Qnum q)%Z)
         (map (fun c => match pssm_ratio rs alphabet PSSM_NORM_LOGO pc c site with Some q => q | None => 0%Q end)
              (pssm_alphabet alphabet)).

Local Open Scope R_scope.
Definition log2 (x : R) : R := ln x / ln 2.

(* entropy in bits of the positive frequencies (0 log 0 = 0) *)
Definition bits_entropy (fs : list Q) : R :=
  fold_right (fun f acc => acc - Q2R f * log2 (Q2R f)) 0 fs.

(* mode 0: the ratio itself; 1: its base-2 logarithm; 2: logo height ratio * (log2 k - H) *)
Definition pssm_real (mode : Z) (x : Q) (fs : list Q) (k : Z) : R :=
  if Z.eqb mode 0 then Q2R x
  else if Z.eqb mode 1 then log2 (Q2R x)
  else Q2R x * (log2 (IZR k) - bits_entropy fs).
