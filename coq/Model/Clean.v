(* CODE-MODEL of alignment cleaning (align/align.go RemoveCharacterSites,
   RemoveGapSites, RemoveMajorityCharacterSites, RemoveCharacterSeqs,
   RemoveGapSeqs; gutils.ContainsRune).  Cut-offs are rationals: the
   correspondence only feeds dyadic cut-offs, for which float64 is exact. *)
From Coq Require Import List Bool NArith ZArith QArith Lia.
From Coq.Strings Require Import Byte.
Import ListNotations.
From GA.Base Require Import Bytes Case Align.
From GA.Gen Require Import Alpha.

Definition contains_rune (c : list byte) (e : byte) (ignore_case : bool) : bool :=
  existsb (fun v => beqb v e || (ignore_case && beqb (to_lower v) (to_lower e))) c.

Definition wildcard (alphabet : Z) : byte := if Z.eqb alphabet AMINOACIDS then ALL_AMINO else ALL_NUCLE.

(* row not counted in the total *)
Definition excluded (alphabet : Z) (ignore_gaps ignore_ns : bool) (b : byte) : bool :=
  (ignore_gaps && beqb b GAP) ||
  (ignore_ns && (beqb b (wildcard alphabet) || beqb b (to_lower (wildcard alphabet)))).

Definition norm_cutoff (c : Q) : Q := if Qlt_le_dec c 0 then 0%Q else if Qlt_le_dec 1 c then 0%Q else c.

(* (cutoff > 0 && nb >= cutoff*total) || (cutoff == 0 && nb > 0) *)
Definition qualifies (cutoff : Q) (nb total : nat) : bool :=
  if Qlt_le_dec 0 cutoff then Qle_bool (cutoff * inject_Z (Z.of_nat total)) (inject_Z (Z.of_nat nb))
  else Qeq_bool cutoff 0 && Nat.ltb 0%nat nb.

Definition count (f : byte -> bool) (col : list byte) : nat := length (filter f col).

Record site_opts := { o_chars : list byte; o_ignore_case : bool; o_ignore_gaps : bool; o_ignore_ns : bool;
                      o_reverse : bool }.

Definition selected (o : site_opts) (b : byte) : bool :=
  let s := contains_rune (o_chars o) b (o_ignore_case o) in if o_reverse o then negb s else s.

Definition site_qualifies (alphabet : Z) (o : site_opts) (cutoff : Q) (col : list byte) : bool :=
  qualifies cutoff (count (selected o) col)
            (count (fun b => negb (excluded alphabet (o_ignore_gaps o) (o_ignore_ns o) b)) col).

Fixpoint take_while (l : list bool) : nat :=
  match l with true :: t => S (take_while t) | _ => 0%nat end.

(* result of a site cleaning: first, last, kept, removed, new rows *)
Definition clean_with (rs : rows) (ends : bool) (quals : list bool) : nat * nat * list nat * list nat * rows :=
  let L := length quals in
  let first := take_while quals in
  let last := take_while (rev quals) in
  let removed i := nth i quals false && (negb ends || Nat.leb (L - last)%nat i || Nat.ltb i first) in
  let idx := seq 0%nat L in
  match rs with
  | [] => (first, last, [], [], [])
  | _ =>
      let kept := filter (fun i => negb (removed i)) idx in
      let rm := filter removed idx in
      (first, last, kept, rm, map (fun r => (fst r, map (fun i => nth i (snd r) x2d) kept)) rs)
  end.

Definition remove_character_sites (alphabet : Z) (rs : rows) (o : site_opts) (cutoff : Q) (ends : bool) :=
  let c := norm_cutoff cutoff in
  let quals := map (fun i => site_qualifies alphabet o c (column rs i)) (seq 0%nat (width rs)) in
  clean_with rs ends quals.

Definition remove_gap_sites (alphabet : Z) (rs : rows) (cutoff : Q) (ends : bool) :=
  remove_character_sites alphabet rs
    {| o_chars := [GAP]; o_ignore_case := false; o_ignore_gaps := false; o_ignore_ns := false; o_reverse := false |}
    cutoff ends.

(* ---- majority variant (through MaxCharStats' occur / total) ------------------------ *)
Definition up_col (col : list byte) : list byte := map to_upper col.

(* occur[site], total[site] of MaxCharStats: counts over upper-cased characters; when
   no character is counted, occur is the number of sequences *)
Definition max_count (alphabet : Z) (ig ins : bool) (col : list byte) : nat * nat :=
  let u := up_col col in
  let keys := nodup Byte.byte_eq_dec u in
  let ok := filter (fun k => negb (excluded alphabet ig ins k)) keys in
  let cnt k := count (beqb k) u in
  let total := fold_right (fun k acc => (cnt k + acc)%nat) 0%nat ok in
  let mx := fold_right (fun k acc => Nat.max (cnt k) acc) 0%nat ok in
  ((if Nat.eqb mx 0%nat then length col else mx), total).

Definition majority_qualifies (alphabet : Z) (ig ins : bool) (cutoff : Q) (col : list byte) : bool :=
  let '(occ, total) := max_count alphabet ig ins col in
  if Qlt_le_dec 0 cutoff then Qle_bool (cutoff * inject_Z (Z.of_nat total)) (inject_Z (Z.of_nat occ))
  else Qeq_bool cutoff 0 && Nat.ltb 0%nat occ.

(* NB: RemoveMajorityCharacterSites does not normalise the cutoff *)
Definition remove_majority_sites (alphabet : Z) (rs : rows) (cutoff : Q) (ends ig ins : bool) :=
  let quals := map (fun i => majority_qualifies alphabet ig ins cutoff (column rs i)) (seq 0%nat (width rs)) in
  clean_with rs ends quals.

(* ---- per-sequence variant --------------------------------------------------------------- *)
Definition seq_selected (c : byte) (ignore_case : bool) (b : byte) : bool :=
  beqb b c || (ignore_case && beqb (to_lower b) (to_lower c)).

Definition seq_qualifies (alphabet : Z) (c : byte) (cutoff : Q) (ic ig ins : bool) (s : list byte) : bool :=
  qualifies cutoff (count (seq_selected c ic) s) (count (fun b => negb (excluded alphabet ig ins b)) s).

(* returns number removed and the remaining rows *)
Definition remove_character_seqs (alphabet : Z) (rs : rows) (c : byte) (cutoff : Q) (ic ig ins : bool)
  : nat * rows :=
  let cq := norm_cutoff cutoff in
  let keep := filter (fun r => negb (seq_qualifies alphabet c cq ic ig ins (snd r))) rs in
  ((length rs - length keep)%nat, keep).

Definition remove_gap_seqs (alphabet : Z) (rs : rows) (cutoff : Q) (ins : bool) :=
  remove_character_seqs alphabet rs GAP cutoff false false ins.
