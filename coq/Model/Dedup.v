(* CODE-MODEL of de-duplication (align/seqbag.go Deduplicate) and site
   compression (align/align.go Compress). *)
From Coq Require Import List Bool NArith ZArith Lia.
From Coq.Strings Require Import Byte.
Import ListNotations.
From GA.Base Require Import Bytes Align Sort.
From GA.Gen Require Import Alpha.

(* comparison key: N (nucleotides) / X (proteins), upper case only, read as gap *)
Definition compare_key (alphabet : Z) (n_as_gap : bool) (s : list byte) : list byte :=
  if n_as_gap then
    if Z.eqb alphabet AMINOACIDS then map (fun b => if beqb b ALL_AMINO then GAP else b) s
    else if Z.eqb alphabet NUCLEOTIDS then map (fun b => if beqb b ALL_NUCLE then GAP else b) s
    else s
  else s.

Fixpoint key_index (k : list byte) (keys : list (list byte)) (i : nat) : option nat :=
  match keys with
  | [] => None
  | x :: t => if bytes_eqb x k then Some i else key_index k t (S i)
  end.

Fixpoint add_to_group (i : nat) (n : list byte) (groups : list (list (list byte))) : list (list (list byte)) :=
  match groups, i with
  | [], _ => []
  | g :: t, O => (g ++ [n]) :: t
  | g :: t, S i' => g :: add_to_group i' n t
  end.

(* state of the loop: keys of the kept rows (in order), kept rows, groups *)
Definition dd_state := (list (list byte) * rows * list (list (list byte)))%type.

Definition dedup_step (alphabet : Z) (nag : bool) (st : dd_state) (r : list byte * list byte) : dd_state :=
  let '(keys, kept, groups) := st in
  let k := compare_key alphabet nag (snd r) in
  match key_index k keys 0 with
  | None => (keys ++ [k], kept ++ [r], groups ++ [[fst r]])
  | Some i => (keys, kept, add_to_group i (fst r) groups)
  end.

Definition deduplicate (alphabet : Z) (nag : bool) (rs : rows) : rows * list (list (list byte)) :=
  let '(_, kept, groups) := fold_left (dedup_step alphabet nag) rs ([], [], []) in (kept, groups).

(* ---- Compress ------------------------------------------------------------------------ *)
Definition bytes_dec := list_eq_dec Byte.byte_eq_dec.

(* the columns of the rows, by peeling one residue off every row at a time (linear; equal to
   [map (column rs) (seq 0 (width rs))], Proofs/DedupProofs.v columns_spec) *)
Definition hd_gap (s : list byte) : byte := match s with [] => x2d | b :: _ => b end.
Fixpoint cols_fast (ss : list (list byte)) (w : nat) : list (list byte) :=
  match w with
  | O => []
  | S w' => map hd_gap ss :: cols_fast (map (@tl byte) ss) w'
  end.
Definition columns (rs : rows) : list (list byte) := cols_fast (map snd rs) (width rs).

(* the radix tree holds each distinct pattern once with its count; Walk visits
   them in bytewise lexicographic order *)
(* first occurrences, against the list of the patterns already seen (linear in the number of columns
   for a bounded number of distinct patterns; the standard [nodup] is quadratic under vm_compute) *)
Fixpoint distinct_acc (seen l : list (list byte)) : list (list byte) :=
  match l with
  | [] => []
  | x :: t => if existsb (bytes_eqb x) seen then distinct_acc seen t else x :: distinct_acc (x :: seen) t
  end.
Definition distinct_cols (l : list (list byte)) : list (list byte) := distinct_acc [] l.

Definition patterns (cols : list (list byte)) : list (list byte) := isort (distinct_cols cols).

Definition compress (rs : rows) : list nat * rows :=
  let cols := columns rs in
  let pats := patterns cols in
  (map (fun p => count_occ bytes_dec cols p) pats,
   map (fun kr => (fst (snd kr), map (fun p => nth (fst kr) p x2d) pats)) (combine (seq 0 (length rs)) rs)).
