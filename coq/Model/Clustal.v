(* CODE-MODEL of the Clustal writer (io/clustal/writer.go WriteAlignment) and of
   the conservation of a site (align/align.go SiteConservation, with the strong
   and weak amino acid groups regenerated from the code). *)
From Coq Require Import List Arith Bool NArith ZArith Lia.
From Coq.Strings Require Import Byte.
Import ListNotations.
From GA.Base Require Import Bytes Case Dec Align.
From GA.Gen Require Import Alpha IOConst Groups.
From GA.Model Require Import Phylip.

Local Open Scope bs_scope.

(* prevchar starts as ';' (no previous character) *)
Fixpoint same_loop (col : list byte) (prev : byte) (same : bool) : bool :=
  match col with
  | [] => same
  | c :: t => same_loop t c (if (negb (beqb prev x3b) && negb (beqb c prev)) || beqb c GAP then false else same)
  end.

Definition group_full (col : list byte) (g : list byte) : bool :=
  Nat.eqb (fold_right (fun c acc => length (filter (fun aa => beqb aa (to_upper c)) g) + acc) 0 col) (length col).

(* 0 identical, 1 same strong group, 2 same weak group, 3 not conserved *)
Definition site_conservation (alphabet : Z) (col : list byte) : Z :=
  if same_loop col x3b true then 0%Z
  else if Z.eqb alphabet AMINOACIDS && existsb (group_full col) strong_groups then 1%Z
  else if Z.eqb alphabet AMINOACIDS && existsb (group_full col) weak_groups then 2%Z
  else 3%Z.

Definition cons_symbol (c : Z) : byte :=
  if Z.eqb c 0 then x2a else if Z.eqb c 1 then x3a else if Z.eqb c 2 then x2e else SP.

Definition pad_to (n : nat) (s : list byte) : list byte := s ++ repeat SP (n - length s).

Fixpoint clustal_blocks (fuel : nat) (alphabet : Z) (w cur L namew : nat) (a : list row) : list (list byte) :=
  match fuel with
  | O => []
  | S f =>
      if Nat.ltb cur L then
        let e := Nat.min (cur + w) L in
        (if Nat.eqb cur 0 then [] else [[]]) ++
        map (fun r : row => pad_to namew (fst r) ++ firstn (e - cur) (skipn cur (snd r)) ++ SP :: dec_of_nat (Nat.min (cur + w) (length (snd r)))) a ++
        [repeat SP namew ++
         map (fun pos => cons_symbol (site_conservation alphabet (map (fun r : row => nth pos (snd r) x00) a)))
             (seq cur (match a with [] => 0 | _ => e - cur end))] ++
        clustal_blocks f alphabet w (cur + w) L namew a
      else []
  end.

Definition write (alphabet : Z) (a : list row) : list byte :=
  let L := match a with [] => 0 | r :: _ => length (snd r) end in
  let namew := fold_right (fun r acc => Nat.max (length (fst r)) acc) 0 a + 3 in
  join_lines ((unbs "CLUSTAL W (goalign version " ++ GOALIGN_VERSION ++ unbs ")") :: [] ::
              clustal_blocks (S L) alphabet CLUSTAL_LINE 0 L namew a).
