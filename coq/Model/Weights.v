(* CODE-MODEL over the reals of the weight/rate normalisations
   (stats/dirichlet.go Dirichlet, Dirichlet1; distance/dna/distance.go
   BuildWeightsGamma, BuildWeightsDirichlet; models/gamma.go DiscreteGamma and
   the series branch of IncompleteGamma; stats/gamma.go gamma: one round of each
   of the three samplers as a function of the uniform draws). *)
From Coq Require Import Reals List.
Import ListNotations.
Local Open Scope R_scope.

Definition rsum (l : list R) : R := fold_right Rplus 0 l.

(* sample[i] = factor * sample[i] / sum   (Dirichlet; BuildWeightsGamma with factor = length) *)
Definition normalise (factor : R) (g : list R) : list R := map (fun x => factor * x / rsum g) g.

(* Dirichlet1: consecutive differences of the sorted cut points, times factor *)
Fixpoint diffs (l : list R) : list R :=
  match l with
  | a :: ((b :: _) as t) => (b - a) :: diffs t
  | _ => []
  end.
Definition dirichlet1 (factor : R) (sorted_cuts : list R) : list R := map (fun d => factor * d) (diffs sorted_cuts).

Fixpoint sorted (l : list R) : Prop :=
  match l with
  | a :: ((b :: _) as t) => a <= b /\ sorted t
  | _ => True
  end.

(* DiscreteGamma: freq holds the ncat-1 incomplete gamma ratios at the quantiles (alpha / beta = 1) *)
Definition discrete_gamma (ncat : nat) (freq : list R) : list R :=
  map (fun d => d * INR ncat) (diffs (0 :: freq ++ [1])).

(* one accepted round of the samplers of stats/gamma.go *)
(* alpha > 1 (Cheng): *)
Definition cheng_v (alpha u1 : R) : R := ln (u1 / (1 - u1)) / sqrt (2 * alpha - 1).
Definition cheng_x (alpha u1 : R) : R := alpha * exp (cheng_v alpha u1).
Definition cheng_accept (alpha u1 u2 : R) : Prop :=
  let ainv := sqrt (2 * alpha - 1) in
  let v := cheng_v alpha u1 in
  let x := cheng_x alpha u1 in
  let z := u1 * u1 * u2 in
  let r := (alpha - ln 4) + (alpha + ainv) * v - x in
  r + 4 * exp (- (1/2)) / sqrt 2 - (9/2) * z >= 0 \/ r >= ln z.
(* alpha = 1: *)
Definition expo_x (u : R) : R := - ln u.
(* alpha < 1 (Kennedy & Gentle / Ahrens-Dieter): *)
Definition small_b (alpha : R) : R := (exp 1 + alpha) / exp 1.
Definition small_x (alpha u : R) : R :=
  let p := small_b alpha * u in
  if Rle_dec p 1 then Rpower p (1 / alpha) else - ln ((small_b alpha - p) / alpha).

(* IncompleteGamma, series branch: gin = sum_{n} x^n / ((p+1)...(p+n)), times factor / p *)
Fixpoint series_term (x p : R) (n : nat) : R :=
  match n with O => 1 | S k => series_term x p k * (x / (p + INR (S k))) end.
Fixpoint series_sum (x p : R) (n : nat) : R :=
  match n with O => series_term x p 0 | S k => series_sum x p k + series_term x p (S k) end.
