(* CODE-MODEL of the strand / case / un-align transforms
   (align/sequence.go Reverse, Complement; align/seqbag.go ReverseComplement,
   ReverseComplementSequences, ToUpper, ToLower, Unalign). *)
From Coq Require Import List Bool NArith ZArith Lia.
From Coq.Strings Require Import Byte.
Import ListNotations.
From GA.Base Require Import Bytes Case.
From GA.Gen Require Import Compl Alpha.

Notation row := (list byte * list byte)%type (only parsing).   (* name, residues *)

Definition complement_b (b : byte) : option byte := bassoc b complement_tbl.

(* Go: Complement(seq) mutates in place and stops at the first byte without
   an entry; what was already rewritten stays rewritten.  Returns the new
   content and whether it succeeded. *)
Fixpoint complement (s : list byte) : list byte * bool :=
  match s with
  | [] => ([], true)
  | b :: t =>
      match complement_b b with
      | None => (s, false)
      | Some c => let '(t', ok) := complement t in (c :: t', ok)
      end
  end.

(* Go: Reverse(seq), in-place two-index swap loop = list reversal *)
Definition reverse (s : list byte) : list byte := rev s.

Definition revcomp_seq (s : list byte) : list byte * bool :=
  let '(c, ok) := complement s in
  if ok then (reverse c, true) else (c, false).

(* seqbag.ReverseComplement: alphabet test, then row by row; an error aborts
   the loop, rows already handled stay reverse-complemented, the failing row
   is partially complemented and not reversed. *)
Fixpoint revcomp_rows (rs : list row) : list row * bool :=
  match rs with
  | [] => ([], true)
  | (n, s) :: t =>
      let '(s', ok) := revcomp_seq s in
      if ok then let '(t', ok') := revcomp_rows t in ((n, s') :: t', ok')
      else ((n, s') :: t, false)
  end.

Definition reverse_complement (alphabet : Z) (rs : list row) : list row * bool :=
  if Z.eqb alphabet NUCLEOTIDS then revcomp_rows rs else (rs, false).

(* by-name access: the first row carrying the name (names are unique in every
   state reachable through AddSequence with the default policy, see C01) *)
Fixpoint revcomp_named (name : list byte) (rs : list row) : list row * bool :=
  match rs with
  | [] => ([], true)     (* unknown name: ignored *)
  | (n, s) :: t =>
      if bytes_eqb n name then let '(s', ok) := revcomp_seq s in ((n, s') :: t, ok)
      else let '(t', ok) := revcomp_named name t in ((n, s) :: t', ok)
  end.

Fixpoint revcomp_names (names : list (list byte)) (rs : list row) : list row * bool :=
  match names with
  | [] => (rs, true)
  | nm :: more =>
      let '(rs', ok) := revcomp_named nm rs in
      if ok then revcomp_names more rs' else (rs', false)
  end.

Definition reverse_complement_sequences (alphabet : Z) (names : list (list byte)) (rs : list row)
  : list row * bool :=
  if Z.eqb alphabet NUCLEOTIDS then revcomp_names names rs else (rs, false).

Definition to_upper_rows (rs : list row) : list row := map (fun r => (fst r, map to_upper (snd r))) rs.
Definition to_lower_rows (rs : list row) : list row := map (fun r => (fst r, map to_lower (snd r))) rs.

(* strings.Replace(seq, "-", "", -1) *)
Definition ungap (s : list byte) : list byte := filter (fun b => negb (beqb b GAP)) s.
(* seqbag.Unalign: new bag, same names (unique names assumed, see above) *)
Definition unalign_rows (rs : list row) : list row := map (fun r => (fst r, ungap (snd r))) rs.
