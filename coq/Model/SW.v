(* CODE-MODEL of the pairwise local aligner (align/aligner.go NewPwAligner,
   fillMatrix_SW, backTrack_SW, the ATG variant).  Scores are integers: every
   score is multiplied by 2 by the caller (the built-in matrices are integral,
   the default gap extension is -1/2), so float64 arithmetic is exact. *)
From Coq Require Import List Bool NArith ZArith Lia.
From Coq.Strings Require Import Byte.
Import ListNotations.
From GA.Base Require Import Bytes Case Align.
From GA.Gen Require Import Subst Alpha.
From GA.Model Require Import Translate.

Local Open Scope Z_scope.

Definition T_UP : Z := 0.
Definition T_LEFT : Z := 1.
Definition T_DIAG : Z := 2.

Record scheme := mkscheme {
  sc_use_matrix : bool;       (* false after SetScore *)
  sc_match : Z; sc_mismatch : Z; sc_open : Z; sc_extend : Z   (* all x2 *)
}.

(* which matrix NewPwAligner picks from the two detected alphabets: 1 DNA, 0 protein, -1 none *)
Definition pick_matrix (s1 s2 : list byte) : Z :=
  let a1 := detect_alphabet_seq s1 in
  let a2 := detect_alphabet_seq s2 in
  if (Z.eqb a1 NUCLEOTIDS || Z.eqb a1 BOTH) && (Z.eqb a2 NUCLEOTIDS || Z.eqb a2 BOTH) then 1
  else if (Z.eqb a1 AMINOACIDS || Z.eqb a1 BOTH) && (Z.eqb a2 AMINOACIDS || Z.eqb a2 BOTH) then 0
  else (-1).

Definition char_pos (which : Z) (b : byte) : option Z :=
  if Z.eqb which 1 then bassoc (to_upper b) dna_to_matrix_pos
  else if Z.eqb which 0 then bassoc (to_upper b) prot_to_matrix_pos
  else None.

Definition sub_entry (which : Z) (i j : Z) : Z :=
  2 * nth (Z.to_nat j) (nth (Z.to_nat i) (if Z.eqb which 1 then dnafull_subst_matrix else blosum62_subst_matrix) []) 0.

Definition match_score (sc : scheme) (which : Z) (c1 c2 : byte) (i1 i2 : Z) : Z :=
  if sc_use_matrix sc then sub_entry which i1 i2
  else if beqb c1 c2 then sc_match sc else sc_mismatch sc.

Fixpoint all_some {A} (l : list (option A)) : option (list A) :=
  match l with
  | [] => Some []
  | None :: _ => None
  | Some x :: t => match all_some t with Some r => Some (x :: r) | None => None end
  end.

Definition nz (l : list Z) (k : nat) : Z := nth k l 0.

(* ---- matrix fill ----------------------------------------------------------------------------- *)
(* first row: for each j: (value, trace, maxa).  [bx]: best score of a gap in row 1 ending in the previous cell
   (None before any cell: the float -Inf of the code); the gap ending here extends it or opens after the cell on the
   left - the recurrence of the inner cells *)
Definition gap_acc (sc : scheme) (acc : option Z) (prev_val : Z) : Z :=
  match acc with
  | None => prev_val + sc_open sc
  | Some b => Z.max (b + sc_extend sc) (prev_val + sc_open sc)
  end.

Fixpoint first_row (sc : scheme) (scores : list Z) (prev_val : Z) (bx : option Z) (j : nat) : list (Z * Z * Z) :=
  match scores with
  | [] => []
  | m :: t =>
      let bx' := if Nat.eqb j 0 then None else Some (gap_acc sc bx prev_val) in
      let fnew := match bx' with None => 0 | Some b => b end in
      let '(v, tr) := if (fnew <? m) && (0 <? m) then (m, T_DIAG)
                      else if 0 <? fnew then (fnew, T_LEFT) else (0, T_DIAG) in
      let maxa := v + sc_open sc in     (* a gap below a first-row cell is always opened there *)
      (v, tr, maxa) :: first_row sc t v bx' (S j)
  end.

(* first column: for each i: (value, trace); [ma]: best score of a gap in row 2 ending in the previous cell *)
Fixpoint first_col (sc : scheme) (scores : list Z) (prev_val : Z) (ma : option Z) (i : nat) : list (Z * Z) :=
  match scores with
  | [] => []
  | m :: t =>
      let ma' := if Nat.eqb i 0 then None else Some (gap_acc sc ma prev_val) in
      let fnew := match ma' with None => 0 | Some b => b end in
      let '(v, tr) := if (fnew <? m) && (0 <? m) then (m, T_DIAG)
                      else if 0 <? fnew then (fnew, T_UP) else (0, T_DIAG) in
      (v, tr) :: first_col sc t v ma' (S i)
  end.

(* one inner row, columns j >= 1.  [prow]: previous row values (all columns);
   [maxa]: per-column accumulators (columns >= 1); [scores]: match scores for
   columns >= 1; [left]: value of the cell to the left; [diag]: value up-left.
   Returns cells (value after clamping, trace, raw mscore) and the new maxa. *)
Fixpoint inner_row (sc : scheme) (scores prow_tl maxa : list Z) (left diag bx : Z)
  : list (Z * Z * Z) * list Z :=
  match scores, prow_tl, maxa with
  | m :: ts, up :: tp, ma :: tm =>
      let mscore0 := diag + m in
      let ma1 := ma + sc_extend sc in
      let fnewu := up + sc_open sc in
      let ma2 := if ma1 <? fnewu then fnewu else ma1 in
      let '(mscore1, tr1) := if mscore0 <? ma2 then (ma2, T_UP) else (mscore0, T_DIAG) in
      let bx1 := bx + sc_extend sc in
      let fnewl := left + sc_open sc in
      let bx2 := if bx1 <? fnewl then fnewl else bx1 in
      let '(mscore2, tr2) := if mscore1 <? bx2 then (bx2, T_LEFT) else (mscore1, tr1) in
      let v := if mscore2 <? 0 then 0 else mscore2 in
      let '(cells, maxa') := inner_row sc ts tp tm v up bx2 in
      ((v, tr2, mscore2) :: cells, ma2 :: maxa')
  | _, _, _ => ([], [])
  end.

Record filled := mkfilled {
  f_vals : list (list Z); f_trace : list (list Z); f_max : Z; f_maxi : Z; f_maxj : Z
}.

(* running maximum: strict improvement only *)
Definition upd_max (cur : Z * Z * Z) (v i j : Z) : Z * Z * Z :=
  let '(mx, mi, mj) := cur in if mx <? v then (v, i, j) else cur.

Fixpoint fill_rows (sc : scheme) (which : Z) (s1 : list (byte * Z)) (s2 : list (byte * Z))
         (fcol : list (Z * Z)) (prow : list Z) (maxa : list Z) (i : Z) (best : Z * Z * Z)
  : list (list Z) * list (list Z) * (Z * Z * Z) :=
  match s1, fcol with
  | (c1, i1) :: t1, (v0, tr0) :: tc =>
      let scores := map (fun x => match_score sc which c1 (fst x) i1 (snd x)) (tl s2) in
      let '(cells, maxa') := inner_row sc scores (tl prow) maxa v0 (hd 0 prow) (v0 + sc_open sc + sc_extend sc) in
      let row := v0 :: map (fun c => fst (fst c)) cells in
      let trow := tr0 :: map (fun c => snd (fst c)) cells in
      (* the running maximum looks at the raw score, before clamping *)
      let best' := fst (fold_left (fun (st : (Z * Z * Z) * Z) c => (upd_max (fst st) (snd c) i (snd st), snd st + 1))
                                  cells (best, 1)) in
      let '(vals, trs, b) := fill_rows sc which t1 s2 tc row maxa' (i + 1) best' in
      (row :: vals, trow :: trs, b)
  | _, _ => ([], [], best)
  end.

Definition fill (sc : scheme) (which : Z) (s1 s2 : list (byte * Z)) : filled :=
  match s1 with
  | [] => mkfilled [] [] 0 0 0
  | (c10, i10) :: rest1 =>
      let row0 := first_row sc (map (fun x => match_score sc which c10 (fst x) i10 (snd x)) s2) 0 None 0 in
      let vals0 := map (fun x => fst (fst x)) row0 in
      let tr0 := map (fun x => snd (fst x)) row0 in
      let maxa0 := map snd row0 in
      let best0 := fst (fold_left (fun (st : (Z * Z * Z) * Z) v => (upd_max (fst st) v 0 (snd st), snd st + 1)) vals0 ((0, 0, 0), 0)) in
      let c20 := match s2 with x :: _ => x | [] => (x00, 0) end in
      let fcol := first_col sc (map (fun x => match_score sc which (fst x) (fst c20) (snd x) (snd c20)) s1) 0 None 0 in
      let best1 := fst (fold_left (fun (st : (Z * Z * Z) * Z) c => (upd_max (fst st) (fst c) (snd st) 0, snd st + 1)) fcol (best0, 0)) in
      match s2 with
      | [] => mkfilled (map (fun _ => []) s1) (map (fun _ => []) s1) 0 0 0
      | _ =>
          (* the first-column loop overwrites cell (0,0) with the same value *)
          let '(vals, trs, best) := fill_rows sc which rest1 s2 (tl fcol) vals0 (tl maxa0) 1 best1 in
          let '(mx, mi, mj) := best in
          mkfilled (vals0 :: vals) (tr0 :: trs) mx mi mj
      end
  end.

(* ---- trace-back -------------------------------------------------------------------------------- *)
Definition mget (m : list (list Z)) (i j : Z) : Z := nz (nth (Z.to_nat i) m []) (Z.to_nat j).

(* smallest ngaps >= 1 with M[i-ngaps][j] + open + (ngaps-1)*ext = M[i][j], or i - ngaps = 0 *)
Fixpoint gap_len_up (fuel : nat) (sc : scheme) (m : list (list Z)) (i j ng : Z) : Z :=
  match fuel with
  | O => ng
  | S f => if Z.eqb (mget m (i - ng) j + sc_open sc + (ng - 1) * sc_extend sc) (mget m i j) || Z.eqb (i - ng) 0
           then ng else gap_len_up f sc m i j (ng + 1)
  end.
Fixpoint gap_len_left (fuel : nat) (sc : scheme) (m : list (list Z)) (i j ng : Z) : Z :=
  match fuel with
  | O => ng
  | S f => if Z.eqb (mget m i (j - ng) + sc_open sc + (ng - 1) * sc_extend sc) (mget m i j) || Z.eqb (j - ng) 0
           then ng else gap_len_left f sc m i j (ng + 1)
  end.

Record tb := mktb { tb_r1 : list byte; tb_r2 : list byte; tb_match : Z; tb_mis : Z; tb_gaps : Z; tb_i : Z; tb_j : Z }.

Definition at1 (s : list byte) (i : Z) : byte := nth (Z.to_nat i) s x00.

(* rows are accumulated by consing while walking backwards, which is the
   code's append-then-Reverse *)
Fixpoint push_up (n : nat) (s1 : list byte) (st : tb) : tb :=
  match n with
  | O => st
  | S k => push_up k s1 (mktb (at1 s1 (tb_i st) :: tb_r1 st) (x2d :: tb_r2 st) (tb_match st) (tb_mis st)
                              (tb_gaps st + 1) (tb_i st - 1) (tb_j st))
  end.
Fixpoint push_left (n : nat) (s2 : list byte) (st : tb) : tb :=
  match n with
  | O => st
  | S k => push_left k s2 (mktb (x2d :: tb_r1 st) (at1 s2 (tb_j st) :: tb_r2 st) (tb_match st) (tb_mis st)
                                (tb_gaps st + 1) (tb_i st) (tb_j st - 1))
  end.

Fixpoint backtrack (fuel : nat) (atg : bool) (sc : scheme) (f : filled) (s1 s2 : list byte) (st : tb) : tb :=
  match fuel with
  | O => st
  | S fu =>
      let i := tb_i st in
      let j := tb_j st in
      if (i <? 0) || (j <? 0) then st else
      let tr := mget (f_trace f) i j in
      let st' :=
        if Z.eqb tr T_UP then push_up (Z.to_nat (gap_len_up (Z.to_nat i + 1) sc (f_vals f) i j 1)) s1 st
        else if Z.eqb tr T_DIAG then
          mktb (at1 s1 i :: tb_r1 st) (at1 s2 j :: tb_r2 st)
               (if beqb (at1 s2 j) (at1 s1 i) then tb_match st + 1 else tb_match st)
               (if beqb (at1 s2 j) (at1 s1 i) then tb_mis st else tb_mis st + 1) (tb_gaps st) (i - 1) (j - 1)
        else push_left (Z.to_nat (gap_len_left (Z.to_nat j + 1) sc (f_vals f) i j 1)) s2 st in
      if (0 <=? tb_i st') && (0 <=? tb_j st') && (mget (f_vals f) (tb_i st') (tb_j st') <=? 0) && negb atg then st'
      else backtrack fu atg sc f s1 s2 st'
  end.

Record result := mkres {
  r_score : Z; r_row1 : list byte; r_row2 : list byte;
  r_start1 : Z; r_start2 : Z; r_end1 : Z; r_end2 : Z;
  r_matches : Z; r_mismatches : Z; r_gaps : Z; r_length : Z
}.

(* the last-row maximum used by the ATG variant *)
Definition last_row_max (f : filled) (l1 : Z) : Z * Z * Z :=
  fst (fold_left (fun (st : (Z * Z * Z) * Z) v => (upd_max (fst st) v (l1 - 1) (snd st), snd st + 1))
                 (nth (Z.to_nat (l1 - 1)) (f_vals f) []) ((0, 0, 0), 0)).

(* NewPwAligner + Set* + Alignment(); None = error (character outside the alphabet) *)
Definition align_pair_with (which : Z) (atg : bool) (sc : scheme) (s1 s2 : list byte) : option result :=
  match s1, s2 with [], _ | _, [] => None | _, _ =>     (* an empty sequence is an error *)
  let t1 := if atg then rev s1 else s1 in
  let t2 := if atg then rev s2 else s2 in
  match all_some (map (char_pos which) t1), all_some (map (char_pos which) t2) with
  | Some p1, Some p2 =>
      let sc' := mkscheme (sc_use_matrix sc) (sc_match sc) (sc_mismatch sc) (sc_open sc) (sc_extend sc) in
      let f := fill sc' which (combine t1 p1) (combine t2 p2) in
      let l1 := Z.of_nat (length t1) in
      let l2 := Z.of_nat (length t2) in
      let '(mx, mi, mj) := if atg then last_row_max f l1 else (f_max f, f_maxi f, f_maxj f) in
      let st := backtrack (length t1 + length t2 + 2) atg sc' f t1 t2 (mktb [] [] 0 0 0 mi mj) in
      let start1 := tb_i st + 1 in
      let start2 := tb_j st + 1 in
      Some (if atg then
              mkres mx (rev (tb_r1 st)) (rev (tb_r2 st))
                    (l1 - mi - 1) (l2 - mj - 1) (l1 - start1 - 1) (l2 - start2 - 1)
                    (tb_match st) (tb_mis st) (tb_gaps st) (tb_match st + tb_mis st + tb_gaps st)
            else
              mkres mx (tb_r1 st) (tb_r2 st) start1 start2 mi mj
                    (tb_match st) (tb_mis st) (tb_gaps st) (tb_match st + tb_mis st + tb_gaps st))
  | _, _ => None
  end
  end.

Definition align_pair (atg : bool) (sc : scheme) (s1 s2 : list byte) : option result :=
  align_pair_with (pick_matrix s1 s2) atg sc s1 s2.
