(* CODE-MODEL of the Clustal lexer and parser (io/clustal/lexer.go Scan / scanWhitespace / scanIdent, parser.go scan /
   unscan / scanWithEOL / Parse).  ASCII input (the lexer decodes runes); a NUL is read as "end of file" by the lexer:
   as the first rune of a token it gives the EOF token, inside a run it ends the run and is consumed.  The rows found are
   then handed to the container (AddSequence), see Corr/C03.v. *)
From Coq Require Import List Arith Lia Bool NArith ZArith.
From Coq.Strings Require Import Byte.
Import ListNotations.
From GA.Base Require Import Bytes Case.

Definition NL : byte := x0a.
Definition CR : byte := x0d.
Definition SP : byte := x20.
Definition TAB : byte := x09.
Definition NUL : byte := x00.

Inductive tok := TIllegal | TIdent (l : list byte) | TEol | TClustal (l : list byte) | TEof | TWs | TNumeric (l : list byte).

Definition is_ws (b : byte) : bool := beqb b SP || beqb b TAB.
Definition is_identch (b : byte) : bool := negb (beqb b NL || beqb b SP || beqb b CR).

(* the run loops: a NUL ends the run and is consumed, another rune that does not belong to the run is put back *)
Fixpoint run (p : byte -> bool) (l : list byte) : list byte * list byte :=
  match l with
  | [] => ([], [])
  | b :: t => if beqb b NUL then ([], t)
              else if p b then let '(a, r) := run p t in (b :: a, r)
              else ([], l)
  end.

(* strconv.ParseInt(lit, 10, 64) succeeds *)
Definition is_digit (b : byte) : bool := N.leb 48 (Byte.to_N b) && N.leb (Byte.to_N b) 57.
Definition num_of (l : list byte) : Z := fold_left (fun acc b => acc * 10 + (Z.of_N (Byte.to_N b) - 48))%Z l 0%Z.
Definition is_int64 (lit : list byte) : bool :=
  let '(neg, ds) := match lit with
                    | b :: t => if beqb b x2b then (false, t) else if beqb b x2d then (true, t) else (false, lit)
                    | [] => (false, lit)
                    end in
  match ds with
  | [] => false
  | _ => forallb is_digit ds && (if neg then (num_of ds <=? 9223372036854775808)%Z else (num_of ds <? 9223372036854775808)%Z)
  end.

Definition KW1 : list byte := [x43; x4c; x55; x53; x54; x41; x4c].          (* CLUSTAL *)
Definition KW2 : list byte := KW1 ++ [x57].                                    (* CLUSTALW *)

Definition classify (lit : list byte) : tok :=
  let u := map to_upper lit in
  if bytes_eqb u KW1 || bytes_eqb u KW2 then TClustal lit
  else if is_int64 lit then TNumeric lit else TIdent lit.

Definition scan (l : list byte) : tok * list byte :=
  match l with
  | [] => (TEof, [])
  | b :: t =>
      if is_ws b then (TWs, snd (run is_ws t))
      else if beqb b NL then (TEol, t)
      else if beqb b CR then
        match t with
        | [] => (TIllegal, [])
        | c :: t' => if beqb c NL then (TEol, t') else (TIllegal, t')
        end
      else if beqb b NUL then (TEof, t)
      else let '(a, r) := run is_identch t in (classify (b :: a), r)
  end.

(* token stream up to and including the first EOF token (the parser never scans beyond an EOF token) *)
Fixpoint lex (fuel : nat) (l : list byte) : list tok :=
  match fuel with
  | O => [TEof]
  | S f => let '(t, r) := scan l in
           match t with TEof => [TEof] | _ => t :: lex f r end
  end.
Definition lex_all (l : list byte) := lex (S (length l)) l.

Definition row := (list byte * list byte)%type.
Inductive res := ROk (rows : list row) | RErr.

Definition next (ts : list tok) : tok * list tok := match ts with [] => (TEof, []) | t :: r => (t, r) end.
Fixpoint drop_eols (ts : list tok) : list tok := match ts with TEol :: r => drop_eols r | _ => ts end.

(* rest of the header line: scanWithEOL until an end of line (which swallows the following empty lines) *)
Fixpoint hdr (ts : list tok) : option (list tok) :=
  match ts with
  | [] => None
  | TEof :: _ => None
  | TEol :: r => Some (drop_eols r)
  | _ :: r => hdr r
  end.

(* rest of the conservation line: plain scan until an end of line *)
Fixpoint skip_line (ts : list tok) : option (list tok) :=
  match ts with
  | [] => None
  | TEof :: _ => None
  | TEol :: r => Some r
  | _ :: r => skip_line r
  end.

Definition upd_row (rows : list row) (cur : nat) (name seq : list byte) : option (list row) :=
  match nth_error rows cur with
  | Some (n, s) => if bytes_eqb n name then Some (firstn cur rows ++ (n, s ++ seq) :: skipn (S cur) rows) else None
  | None => None
  end.

(* one sequence line whose first token is [t]: name, blanks, sequence, optionally blanks and a count, end of line *)
Definition seq_line (t : tok) (r : list tok) (rows : list row) (cur nblocks : nat) : option (list tok * list row) :=
  let name := match t with TIdent l | TNumeric l | TClustal l => Some l | _ => None end in
  match name with
  | None => None
  | Some nm =>
      match next r with
      | (TWs, r1) =>
          let '(t2, r2) := next r1 in
          let sq := match t2 with TIdent l | TClustal l => Some l | _ => None end in
          match sq with
          | None => None
          | Some s =>
              let '(t3, r3) := next r2 in
              let after := match t3 with
                           | TWs => match next r3 with
                                    | (TNumeric _, r4) => Some (next r4)
                                    | _ => None
                                    end
                           | _ => Some (t3, r3)
                           end in
              match after with
              | Some (TEol, r5) =>
                  if Nat.eqb nblocks 0 then Some (r5, rows ++ [(nm, s)])
                  else match upd_row rows cur nm s with Some rows' => Some (r5, rows') | None => None end
              | _ => None
              end
          end
      | _ => None
      end
  end.

Definition finish (rows : list row) : res := match rows with [] => RErr | _ => ROk rows end.

Fixpoint ploop (fuel : nat) (ts : list tok) (rows : list row) (nbseq cur nblocks : nat) : res :=
  match fuel with
  | O => RErr
  | S f =>
      let '(t, r) := next ts in
      match t with
      | TWs =>
          if Nat.eqb cur 0 then RErr
          else if negb (Nat.eqb nbseq 0) && negb (Nat.eqb cur nbseq) then RErr
          else match skip_line r with
               | None => RErr
               | Some r1 =>
                   let '(t2, r2) := next r1 in
                   match t2 with
                   | TEof => finish rows
                   | TEol =>
                       let '(t3, r3) := next (drop_eols r2) in
                       match t3 with
                       | TEof => finish rows
                       | _ => match seq_line t3 r3 rows 0 (S nblocks) with
                              | Some (r', rows') => ploop f r' rows' cur 1 (S nblocks)
                              | None => RErr
                              end
                       end
                   | _ => RErr
                   end
               end
      | _ => match seq_line t r rows cur nblocks with
             | Some (r', rows') => ploop f r' rows' nbseq (S cur) nblocks
             | None => RErr
             end
      end
  end.

Definition parse (inp : list byte) : res :=
  match lex_all inp with
  | TClustal _ :: r =>
      match hdr r with
      | Some r' => ploop (S (length r')) r' [] 0 0 0
      | None => RErr
      end
  | _ => RErr
  end.
