(* CODE-MODEL of the seeded bootstrap commands (cmd/bootstrap.go build seqboot,
   cmd/distboot.go build distboot) as functions of the raw tape of the single
   source seeded in cmd/root.go, and of "goalign reformat fasta" on a FASTA file. *)
From Coq Require Import List Bool NArith ZArith QArith.
From Coq.Strings Require Import Byte.
Import ListNotations.
From GA.Base Require Import Bytes Align Tape.
From GA.Model Require Import Random Fasta.

(* build seqboot -n N -f frac [-S]: replicate after replicate on the same stream *)
Fixpoint seqboot (n : nat) (frac : Q) (shuffle : bool) (rs : rows) : tape -> option (list rows * tape) :=
  match n with
  | O => ret []
  | S k =>
      b <- build_bootstrap frac rs ;;
      b' <- (if shuffle then shuffle_sequences (snd b) else ret (snd b)) ;;
      rest <- seqboot k frac shuffle rs ;;
      ret (b' :: rest)
  end.

(* build distboot -n N -f frac: draw a replicate, compute its matrix, write it, repeat; [dist] is the
   (deterministic, draw-free) distance computation *)
Fixpoint distboot {M : Type} (dist : rows -> M) (n : nat) (frac : Q) (rs : rows) : tape -> option (list M * tape) :=
  match n with
  | O => ret []
  | S k =>
      b <- build_bootstrap frac rs ;;
      let m := dist (snd b) in
      rest <- distboot dist k frac rs ;;
      ret (m :: rest)
  end.

(* goalign reformat fasta on a FASTA file: parse, write with the same line width *)
Definition reformat_fasta (w : nat) (file : list byte) : option (list byte) :=
  match parse file with
  | ROk a => Some (write w a)
  | RErr => None
  end.
