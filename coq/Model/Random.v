(* CODE-MODEL of the randomised operations (align/align.go ShuffleSites, Swap,
   Recombine, AddGaps, Mutate, SimulateRogue, BuildBootstrap, RandSubAlign,
   Sample; align/seqbag.go ShuffleSequences) as functions of a raw tape of Int63
   values (Base/Tape.v).  None = the tape ran out (excluded by the theorems'
   hypotheses; the harness supplies long tapes). Rates are rationals (the
   correspondence feeds dyadic rates: float64 arithmetic is then exact). *)
From Coq Require Import List Bool NArith ZArith QArith Lia.
From Coq.Strings Require Import Byte.
Import ListNotations.
From GA.Base Require Import Bytes Align Tape.
From GA.Gen Require Import Alpha.

Local Open Scope Z_scope.

Definition tape := list Z.
Definition bind {A B} (m : tape -> option (A * tape)) (f : A -> tape -> option (B * tape)) : tape -> option (B * tape) :=
  fun t => match m t with None => None | Some (a, t') => f a t' end.
Definition ret {A} (a : A) : tape -> option (A * tape) := fun t => Some (a, t).
Notation "x <- m ;; f" := (bind m (fun x => f)) (at level 61, m at next level, right associativity).

(* int(q * float64(n)) for a non-negative rational q *)
Definition scale (q : Q) (n : Z) : Z := (Qnum q * n) / Z.pos (Qden q).

Definition cell (rs : rows) (i j : Z) : byte := nth (Z.to_nat j) (snd (nth (Z.to_nat i) rs ([], []))) x00.

Fixpoint set_nth {A} (k : nat) (x : A) (l : list A) : list A :=
  match l, k with
  | [], _ => []
  | _ :: t, O => x :: t
  | h :: t, S k' => h :: set_nth k' x t
  end.

Definition set_cell (rs : rows) (i j : Z) (b : byte) : rows :=
  let r := nth (Z.to_nat i) rs ([], []) in
  set_nth (Z.to_nat i) (fst r, set_nth (Z.to_nat j) b (snd r)) rs.

Definition swap_cells (rs : rows) (i1 i2 j : Z) : rows :=
  let a := cell rs i1 j in
  let b := cell rs i2 j in
  set_cell (set_cell rs i1 j b) i2 j a.

Definition nthZ (l : list Z) (k : Z) : Z := nth (Z.to_nat k) l 0.
Definition nrows (rs : rows) : Z := Z.of_nat (length rs).
Definition ncols (rs : rows) : Z := Z.of_nat (width rs).

(* for n > 1 { r := Intn(n); n--; swap(n, r) }: generic, [sw] performs the swap *)
Fixpoint fy_loop {S} (fuel : nat) (n : Z) (sw : S -> Z -> Z -> S) (s : S) : tape -> option (S * tape) :=
  match fuel with
  | O => ret s
  | S f => if n <=? 1 then ret s
           else r <- intn n ;; fy_loop f (n - 1) sw (sw s (n - 1) r)
  end.

Definition swap_rows (rs : rows) (i j : Z) : rows :=
  let a := nth (Z.to_nat i) rs ([], []) in
  let b := nth (Z.to_nat j) rs ([], []) in
  set_nth (Z.to_nat j) a (set_nth (Z.to_nat i) b rs).

Definition shuffle_sequences (rs : rows) : tape -> option (rows * tape) :=
  fy_loop (length rs) (nrows rs) swap_rows rs.

(* ---- bootstrap / sub-sampling ----------------------------------------------------------- *)
Fixpoint draw_n (k : nat) (n : Z) : tape -> option (list Z * tape) :=
  match k with
  | O => ret []
  | S k' => v <- intn n ;; vs <- draw_n k' n ;; ret (v :: vs)
  end.

Definition pick_cols (rs : rows) (idx : list Z) : rows :=
  map (fun r => (fst r, map (fun j => nth (Z.to_nat j) (snd r) x00) idx)) rs.

Definition norm_frac (frac : Q) : Q := if Qle_bool frac 0 || negb (Qle_bool frac 1) then 1%Q else frac.

(* indices drawn and resulting alignment *)
Definition build_bootstrap (frac : Q) (rs : rows) : tape -> option ((list Z * rows) * tape) :=
  let L := alen rs in
  let n := scale (norm_frac frac) L in
  idx <- draw_n (Z.to_nat n) L ;; ret (idx, pick_cols rs idx).

Definition zperm (n : Z) : tape -> option (list Z * tape) := perm (Z.to_nat n).

(* None in the result = error returned *)
Definition rand_sub_align (len : Z) (consecutive : bool) (rs : rows) : tape -> option (option rows * tape) :=
  let L := alen rs in
  if (L <? len) || (len <=? 0) then ret None
  else if consecutive then
    start <- intn (L - len + 1) ;;
    ret (Some (map (fun r => (fst r, firstn (Z.to_nat len) (skipn (Z.to_nat start) (snd r)))) rs))
  else
    p <- zperm L ;; ret (Some (pick_cols rs (firstn (Z.to_nat len) p))).

Definition sample_rows (nb : Z) (rs : rows) : tape -> option (option rows * tape) :=
  if (nrows rs <? nb) || (nb <? 1) then ret None
  else p <- zperm (nrows rs) ;;
       ret (Some (map (fun k => nth (Z.to_nat k) rs ([], [])) (firstn (Z.to_nat nb) p))).

(* ---- in-place perturbations ---------------------------------------------------------------- *)
Fixpoint for_each {S A} (l : list A) (f : S -> A -> tape -> option (S * tape)) (s : S) : tape -> option (S * tape) :=
  match l with
  | [] => ret s
  | x :: t => s' <- f s x ;; for_each t f s'
  end.

Definition zseq (n : Z) : list Z := map Z.of_nat (seq 0 (Z.to_nat n)).

Definition shuffle_sites (rate roguerate : Q) (roguefirst : bool) (rs : rows)
  : tape -> option ((rows * list (list byte)) * tape) :=
  let L := alen rs in
  let n := nrows rs in
  let nsites := scale rate L in
  let nrsites := scale (rate * (1 - rate)) L in
  let nrseqs := scale roguerate n in
  perms <- (if roguefirst then tp <- zperm n ;; sp <- zperm L ;; ret (tp, sp)
            else sp <- zperm L ;; tp <- zperm n ;; ret (tp, sp)) ;;
  let '(taxperm, siteperm) := perms in
  rs1 <- for_each (zseq nsites)
           (fun s i => fy_loop (length rs) n (fun s' a b => swap_cells s' a b (nthZ siteperm i)) s) rs ;;
  res <- for_each (zseq nrsites)
           (fun (st : rows * list (list byte)) i =>
              for_each (zseq nrseqs)
                (fun (st' : rows * list (list byte)) r =>
                   j <- intn (r + 1) ;;
                   let site := nthZ siteperm (i + nsites) in
                   let s1 := nthZ taxperm r in
                   let s2 := nthZ taxperm j in
                   (* seq1[site], seq2[site] = seq2[site], seq1[site]; rogues[r] = seq1.name (read after the swap) *)
                   let rs' := swap_cells (fst st') s1 s2 site in
                   ret (rs', set_nth (Z.to_nat r) (fst (nth (Z.to_nat s1) rs' ([], []))) (snd st'))) st)
           (rs1, repeat [] (Z.to_nat nrseqs)) ;;
  ret res.

Fixpoint swap_suffix (fuel : nat) (rs : rows) (s1 s2 pos L : Z) : rows :=
  match fuel with
  | O => rs
  | S f => if pos <? L then swap_suffix f (swap_cells rs s1 s2 pos) s1 s2 (pos + 1) L else rs
  end.

(* rate in [0,1] (checked by the caller); pos: None = random position, Some p = int(L*p) *)
Definition swap (rate : Q) (pos : option Q) (rs : rows) : tape -> option (rows * tape) :=
  let L := alen rs in
  let n := nrows rs in
  let half := (scale rate n) / 2 in
  p <- zperm n ;;
  for_each (zseq half)
    (fun s i =>
       position <- (match pos with None => intn L | Some q => ret (scale q L) end) ;;
       ret (swap_suffix (Z.to_nat L) s (nthZ p i) (nthZ p (i + half)) position L)) rs.

Fixpoint recomb_window (fuel : nat) (rs : rows) (s1 s2 j e : Z) (sw : bool) : rows :=
  match fuel with
  | O => rs
  | S f => if j <? e then
             let tmp := cell rs s1 j in
             let rs1 := set_cell rs s1 j (cell rs s2 j) in
             let rs2 := if sw then set_cell rs1 s2 j tmp else rs1 in
             recomb_window f rs2 s1 s2 (j + 1) e sw
           else rs
  end.

Definition recombine (prop lenprop : Q) (sw : bool) (rs : rows) : tape -> option (rows * tape) :=
  let L := alen rs in
  let n := nrows rs in
  let nb := scale prop n in
  let len := scale lenprop L in
  p <- zperm n ;;
  for_each (zseq nb)
    (fun s i => pos <- intn (L - len + 1) ;;
                ret (recomb_window (Z.to_nat len) s (nthZ p i) (nthZ p (i + nb)) pos (pos + len) sw)) rs.

Definition add_gaps (lenprop prop : Q) (rs : rows) : tape -> option (rows * tape) :=
  let L := alen rs in
  let n := nrows rs in
  let nb := scale prop n in
  let ngaps := scale lenprop L in
  ps <- zperm n ;;
  for_each (zseq nb)
    (fun s i => psites <- zperm L ;;
                ret (fold_left (fun s' j => set_cell s' (nthZ ps i) (nthZ psites j) GAP) (zseq ngaps) s)) rs.

(* Float64 draw as numerator over 2^63 *)
Definition mutate (alphabet : Z) (rate : Q) (rs : rows) : tape -> option (rows * tape) :=
  if Qle_bool rate 0 then ret rs
  else
    let rt := if Qle_bool rate 1 then rate else 1%Q in
    let letters := if Z.eqb alphabet AMINOACIDS then stdaminoacid else stdnucleotides in
    for_each (zseq (nrows rs))
      (fun s i =>
         for_each (zseq (alen rs))
           (fun s' j =>
              f <- float64 ;;
              let b := cell s' i j in
              if Qle_bool (fst f # Z.to_pos (snd f)) rt && negb (beqb b GAP) && negb (beqb b POINT) && negb (beqb b OTHER)
              then k <- intn (Z.of_nat (length letters)) ;; ret (set_cell s' i j (nth (Z.to_nat k) letters x00))
              else ret s') s) rs.

(* rogue names, intact names, rows *)
Definition simulate_rogue (prop proplen : Q) (rs : rows)
  : tape -> option ((list (list byte) * list (list byte) * rows) * tape) :=
  let L := alen rs in
  let n := nrows rs in
  let prop' := if Qeq_bool proplen 0 then 0%Q else prop in
  let nb := scale prop' n in
  let len := scale proplen L in
  p <- zperm n ;;
  rs' <- for_each (zseq nb)
           (fun s r =>
              ps <- zperm L ;;
              let sites := firstn (Z.to_nat len) ps in
              for_each (zseq (Z.of_nat (length sites)))
                (fun s' i => j <- intn (i + 1) ;;
                             ret (let a := cell s' (nthZ p r) (nthZ sites i) in
                                  let b := cell s' (nthZ p r) (nthZ sites j) in
                                  set_cell (set_cell s' (nthZ p r) (nthZ sites i) b) (nthZ p r) (nthZ sites j) a)) s) rs ;;
  ret (map (fun r => fst (nth (Z.to_nat (nthZ p r)) rs ([], []))) (zseq nb),
       map (fun r => fst (nth (Z.to_nat (nthZ p r)) rs ([], []))) (map (fun k => k + nb) (zseq (n - nb))),
       rs').
