(* CODE-MODEL of the sequence containers (align/seqbag.go seqbag, align/align.go
   align): the ordered list of sequence objects AND the separate name index
   (Go: seqs []*seq and seqmap map[string]*seq hold the same objects), the
   duplicate-name policy, the alphabet and, for alignments, the cached length.
   Objects are identified by an id so that re-ordering does not disturb the
   index; an in-place name edit changes the object, not the index key. *)
From Coq Require Import List Bool NArith ZArith Lia.
From Coq.Strings Require Import Byte.
Import ListNotations.
From GA.Base Require Import Bytes Case Align Dec Sort.
From GA.Gen Require Import Alpha.

Definition obj := (nat * (list byte * list byte))%type.          (* id, (name, residues) *)
Definition oid (o : obj) : nat := fst o.
Definition oname (o : obj) : list byte := fst (snd o).
Definition oseq (o : obj) : list byte := snd (snd o).

Record cstate := mkst {
  c_kind : bool;                       (* true: alignment, false: sequence bag *)
  c_policy : Z;
  c_alpha : Z;
  c_len : Z;                           (* cached length (alignments); -1 = none *)
  c_next : nat;                        (* next object id *)
  c_objs : list obj;
  c_index : list (list byte * nat)     (* name -> object id, at most one entry per key *)
}.

Definition set_objs (st : cstate) (objs : list obj) (index : list (list byte * nat)) : cstate :=
  mkst (c_kind st) (c_policy st) (c_alpha st) (c_len st) (c_next st) objs index.
Definition set_len (st : cstate) (l : Z) : cstate :=
  mkst (c_kind st) (c_policy st) (c_alpha st) l (c_next st) (c_objs st) (c_index st).

Definition empty_state (kind : bool) (alpha : Z) : cstate := mkst kind IGNORE_NONE alpha (-1) 0 [] [].

Definition idx_lookup (n : list byte) (index : list (list byte * nat)) : option nat := lassoc n index.

Fixpoint idx_set (n : list byte) (id : nat) (index : list (list byte * nat)) : list (list byte * nat) :=
  match index with
  | [] => [(n, id)]
  | (k, v) :: t => if bytes_eqb n k then (k, id) :: t else (k, v) :: idx_set n id t
  end.

Fixpoint obj_by_id (id : nat) (objs : list obj) : option obj :=
  match objs with
  | [] => None
  | o :: t => if Nat.eqb (oid o) id then Some o else obj_by_id id t
  end.

(* the abstraction: the plain list of (name, residues) *)
Definition abs (st : cstate) : rows := map snd (c_objs st).

(* ---- observers ------------------------------------------------------------------------ *)
(* GetSequence(name): through the index *)
Definition get_by_name (st : cstate) (n : list byte) : option (list byte) :=
  match idx_lookup n (c_index st) with
  | None => None
  | Some id => match obj_by_id id (c_objs st) with Some o => Some (oseq o) | None => None end
  end.

(* GetSequenceIdByName(name): linear scan of the ordered list *)
Fixpoint id_by_name_from (n : list byte) (objs : list obj) (k : Z) : Z :=
  match objs with
  | [] => (-1)%Z
  | o :: t => if bytes_eqb (oname o) n then k else id_by_name_from n t (k + 1)%Z
  end.
Definition id_by_name (st : cstate) (n : list byte) : Z := id_by_name_from n (c_objs st) 0.

(* ---- insertion -------------------------------------------------------------------------------- *)
Definition name_idx (name : list byte) (i : nat) : list byte := name ++ [x5f] ++ pad4 (N.of_nat i).

(* for ok { idx++; tmpname = name_%04d; _, ok = seqmap[tmpname] } *)
Fixpoint rename_loop (fuel : nat) (name : list byte) (index : list (list byte * nat)) (i : nat) : option (list byte) :=
  match fuel with
  | O => None
  | S f =>
      let tmp := name_idx name (S i) in
      match idx_lookup tmp index with
      | None => Some tmp
      | Some _ => rename_loop f name index (S i)
      end
  end.

Inductive addres := Added (st : cstate) | Ignored | Rejected.

(* AddSequenceChar; [as_align]: the alignment's own method (length check and
   update) or the embedded sequence bag's (promoted methods use that one) *)
Definition add_seq (as_align : bool) (st : cstate) (name seq : list byte) : addres :=
  let look := idx_lookup name (c_index st) in
  let existing := match look with
                  | Some id => match obj_by_id id (c_objs st) with Some o => Some (oseq o) | None => Some [] end
                  | None => None
                  end in
  match existing with
  | Some s =>
      if Z.eqb (c_policy st) IGNORE_NAME then Ignored
      else if Z.eqb (c_policy st) IGNORE_SEQUENCE && bytes_eqb s seq then Ignored
      else
        match rename_loop (S (length (c_index st))) name (c_index st) 0 with
        | None => Rejected   (* unreachable: see rename_loop_terminates *)
        | Some tmp =>
            if as_align && negb (Z.eqb (c_len st) (-1)) && negb (Z.eqb (c_len st) (Z.of_nat (length seq))) then Rejected
            else Added (mkst (c_kind st) (c_policy st) (c_alpha st)
                             (if as_align then Z.of_nat (length seq) else c_len st) (S (c_next st))
                             (c_objs st ++ [(c_next st, (tmp, seq))]) (idx_set tmp (c_next st) (c_index st)))
        end
  | None =>
      if as_align && negb (Z.eqb (c_len st) (-1)) && negb (Z.eqb (c_len st) (Z.of_nat (length seq))) then Rejected
      else Added (mkst (c_kind st) (c_policy st) (c_alpha st)
                       (if as_align then Z.of_nat (length seq) else c_len st) (S (c_next st))
                       (c_objs st ++ [(c_next st, (name, seq))]) (idx_set name (c_next st) (c_index st)))
  end.

(* adds rows one after the other; stops at the first rejection (state keeps
   what was added before) *)
Fixpoint add_all (as_align : bool) (st : cstate) (rs : rows) : cstate * bool :=
  match rs with
  | [] => (st, true)
  | (n, s) :: t =>
      match add_seq as_align st n s with
      | Added st' => add_all as_align st' t
      | Ignored => add_all as_align st t
      | Rejected => (st, false)
      end
  end.

Definition clear (as_align : bool) (st : cstate) : cstate :=
  mkst (c_kind st) (c_policy st) (c_alpha st) (if as_align then (-1)%Z else c_len st) (c_next st) [] [].

(* reindex(): first sequence of each name wins *)
Fixpoint reindex_from (objs : list obj) (index : list (list byte * nat)) : list (list byte * nat) :=
  match objs with
  | [] => index
  | o :: t =>
      match idx_lookup (oname o) index with
      | Some _ => reindex_from t index
      | None => reindex_from t (index ++ [(oname o, oid o)])
      end
  end.
Definition reindex (objs : list obj) : list (list byte * nat) := reindex_from objs [].

Definition rename_objs (f : list byte -> list byte) (objs : list obj) : list obj :=
  map (fun o => (oid o, (f (oname o), oseq o))) objs.

Definition rename_with (st : cstate) (f : list byte -> list byte) : cstate :=
  let objs := rename_objs f (c_objs st) in set_objs st objs (reindex objs).

(* ---- name edits --------------------------------------------------------------------------------- *)
(* strings.Replace / regexp literal ReplaceAllString with a non-empty literal pattern *)
Fixpoint starts_with (p s : list byte) : bool :=
  match p, s with
  | [], _ => true
  | x :: p', y :: s' => beqb x y && starts_with p' s'
  | _, [] => false
  end.

Fixpoint replace_all_fuel (fuel : nat) (old new s : list byte) : list byte :=
  match fuel with
  | O => s
  | S f =>
      match s with
      | [] => []
      | b :: t =>
          if starts_with old s then new ++ replace_all_fuel f old new (skipn (length old) s)
          else b :: replace_all_fuel f old new t
      end
  end.
Definition replace_all (old new s : list byte) : list byte :=
  match old with [] => s | _ => replace_all_fuel (S (length s)) old new s end.

(* CleanNames: strip leading/trailing blanks (\s and \t), then every run of
   [|\s\t,\[\]\(\),;\.:] becomes one '-' *)
Definition is_blank (b : byte) : bool :=
  beqb b x20 || beqb b x09 || beqb b x0a || beqb b x0d || beqb b x0c || beqb b x0b.
Definition is_special (b : byte) : bool :=
  is_blank b || beqb b x7c || beqb b x2c || beqb b x5b || beqb b x5d || beqb b x28 || beqb b x29 ||
  beqb b x3b || beqb b x2e || beqb b x3a.
Fixpoint drop_blanks (s : list byte) : list byte :=
  match s with b :: t => if is_blank b then drop_blanks t else s | [] => [] end.
Fixpoint collapse (s : list byte) (in_run : bool) : list byte :=
  match s with
  | [] => []
  | b :: t => if is_special b then (if in_run then collapse t true else x2d :: collapse t true)
              else b :: collapse t false
  end.
Definition clean_name (n : list byte) : list byte :=
  collapse (rev (drop_blanks (rev (drop_blanks n)))) false.

(* TrimNamesAuto with an empty name map: S%0<k>d numbering, k from the number of
   sequences, growing with the running identifier *)
Fixpoint ndigits_fuel (fuel : nat) (n : N) : nat :=   (* ceil(log10(n+1)) = number of decimal digits of n, 0 for n = 0 *)
  match fuel with
  | O => 0
  | S f => if N.eqb n 0 then 0 else S (ndigits_fuel f (N.div n 10))
  end.
Definition ndigits (n : N) : nat := ndigits_fuel 64 n.
Definition padk (k : nat) (n : N) : list byte := let d := dec_of_N n in repeat x30 (k - length d) ++ d.

Fixpoint trim_auto_names (objs : list obj) (seen : list (list byte * list byte)) (curid : N) (len : nat)
  : list (list byte) :=
  match objs with
  | [] => []
  | o :: t =>
      match lassoc (oname o) seen with
      | Some nn => nn :: trim_auto_names t seen curid len
      | None =>
          let nn := x53 :: padk len curid in
          nn :: trim_auto_names t (seen ++ [(oname o, nn)]) (curid + 1) (ndigits (curid + 1))
      end
  end.

(* TrimNames(namemap, size): names already in the caller's map keep their short name; the others get
   the first size-2 characters (':' and '_' removed, padded with 'x') and the first free two-digit
   identifier among the short names handed out so far (those of the map included) *)
Definition strip_name (n : list byte) : list byte := filter (fun b => negb (beqb b x3a || beqb b x5f)) n.
(* for m := 0; m < size-2-len(newname); m++ { newname += "x" }: the bound is re-evaluated while the name
   grows, so only about half of the missing characters are added *)
Fixpoint pad_loop (fuel m : nat) (name : list byte) (k : nat) : list byte :=
  match fuel with
  | O => name
  | S f => if Nat.ltb m (k - length name) then pad_loop f (S m) (name ++ [x78]) k else name
  end.
Definition short_base (n : list byte) (k : nat) : list byte :=
  let s := strip_name n in
  if Nat.leb k (length s) then firstn k s else pad_loop k 0 s k.
Definition mem_bytes (x : list byte) (l : list (list byte)) : bool := existsb (bytes_eqb x) l.
Fixpoint find_id (fuel : nat) (base : list byte) (short : list (list byte)) (id : nat) : option nat :=
  match fuel with
  | O => None
  | S f => if mem_bytes (base ++ padk 2 (N.of_nat id)) short
           then (if Nat.leb 99 id then None else find_id f base short (S id))
           else Some id
  end.
Fixpoint trim_names (objs : list obj) (m : list (list byte * list byte)) (short : list (list byte)) (k : nat)
  : option (list (list byte)) :=
  match objs with
  | [] => Some []
  | o :: t =>
      match lassoc (oname o) m with
      | Some nn => option_map (cons nn) (trim_names t m short k)
      | None =>
          let base := short_base (oname o) k in
          match find_id 100 base short 1 with
          | None => None
          | Some id => let nn := base ++ padk 2 (N.of_nat id) in
                       option_map (cons nn) (trim_names t (m ++ [(oname o, nn)]) (nn :: short) k)
          end
      end
  end.

Definition set_names (objs : list obj) (names : list (list byte)) : list obj :=
  map (fun on => (oid (fst on), (snd on, oseq (fst on)))) (combine objs names).

(* ---- order ------------------------------------------------------------------------------------- *)
(* stable: an element is inserted after the elements that are <= it; objects are
   inserted from the last to the first *)
Definition sort_objs (l : list obj) : list obj :=
  fold_right (fun o acc =>
                (fix ins (l : list obj) : list obj :=
                   match l with
                   | [] => [o]
                   | y :: t => if lex_leb (oname o) (oname y) then o :: y :: t else y :: ins t
                   end) acc) [] l.

Definition swap_nth (i j : nat) (l : list obj) : list obj :=
  match nth_error l i, nth_error l j with
  | Some a, Some b =>
      map (fun ko => if Nat.eqb (fst ko) i then b else if Nat.eqb (fst ko) j then a else snd ko)
          (combine (seq 0 (length l)) l)
  | _, _ => l
  end.

(* for n > 1 { r := Intn(n); n--; swap(n, r) } with the draws given *)
Fixpoint shuffle_objs (draws : list nat) (n : nat) (l : list obj) : list obj :=
  match draws, n with
  | r :: t, S n' => shuffle_objs t n' (swap_nth n' r l)
  | _, _ => l
  end.

(* ---- operations ----------------------------------------------------------------------------------- *)
(* ---- Concat (alignments only): appendToSequence goes through the name index ----------------- *)
Definition append_by_name (st : cstate) (name add : list byte) : option cstate :=
  match idx_lookup name (c_index st) with
  | None => None
  | Some id =>
      Some (set_objs st (map (fun o => if Nat.eqb (oid o) id then (oid o, (oname o, oseq o ++ add)) else o) (c_objs st))
                     (c_index st))
  end.

(* rows of a whose name c does not hold receive clen gaps *)
Fixpoint concat_a (st : cstate) (anames : list (list byte)) (crows : rows) (clen : nat) : cstate * bool :=
  match anames with
  | [] => (st, true)
  | n :: t =>
      match lassoc n crows with
      | Some _ => concat_a st t crows clen
      | None =>
          match append_by_name st n (repeat GAP clen) with
          | None => (st, false)
          | Some st' => concat_a st' t crows clen
          end
      end
  end.

(* rows of c: created with alen gaps when a does not hold the name, then extended *)
Fixpoint concat_c (st : cstate) (crows : rows) (alen : nat) : cstate * bool :=
  match crows with
  | [] => (st, true)
  | (n, s) :: t =>
      let st1 := match idx_lookup n (c_index st) with
                 | Some _ => st
                 | None => match add_seq true st n (repeat GAP alen) with Added st' => st' | _ => st end
                 end in
      match append_by_name st1 n s with
      | None => (st1, false)
      | Some st2 => concat_c st2 t alen
      end
  end.

Definition concat_op (st : cstate) (calpha : Z) (crows : rows) : cstate * bool :=
  if negb (Z.eqb (c_alpha st) calpha) then (st, false)
  else
    let alen := Z.to_nat (Z.max 0 (c_len st)) in
    let clen := match crows with [] => O | r :: _ => length (snd r) end in
    let '(st1, ok1) := concat_a st (map oname (c_objs st)) crows clen in
    if negb ok1 then (st1, false)
    else
      let '(st2, ok2) := concat_c st1 crows alen in
      if negb ok2 then (st2, false)
      else
        match c_objs st2 with
        | [] => (set_len st2 (-1), true)
        | o :: t =>
            (set_len st2 (Z.of_nat (length (oseq o))),
             forallb (fun o' => Nat.eqb (length (oseq o')) (length (oseq o))) t)
        end.

Inductive cop :=
| OpAdd (name seq : list byte)
| OpPolicy (p : Z)
| OpAppend (rs : rows)
| OpIdent (id : list byte) (atright : bool)
| OpRename (m : list (list byte * list byte))
| OpRenameLit (old new : list byte)
| OpCleanNames
| OpTrimAuto (curid : N)
| OpTrim (m : list (list byte * list byte)) (size : Z)
| OpSort
| OpShuffle (draws : list nat)
| OpFilterLength (mn mx : Z)
| OpClear
| OpClone
| OpSetChar (i j : Z) (c : byte)
| OpSample (nb : Z) (perm : list nat)
| OpConcat (calpha : Z) (c : rows).

Definition keep_len (mn mx : Z) (s : list byte) : bool :=
  ((mn <? 0)%Z || (mn <=? Z.of_nat (length s))%Z) && ((mx <? 0)%Z || (Z.of_nat (length s) <=? mx)%Z).

Fixpoint set_nth_b (j : nat) (c : byte) (s : list byte) : list byte :=
  match s, j with
  | [], _ => []
  | _ :: t, O => c :: t
  | b :: t, S j' => b :: set_nth_b j' c t
  end.

Definition auto_len (objs : list obj) : Z :=
  match objs with [] => (-1)%Z | o :: _ => Z.of_nat (length (oseq o)) end.

(* new state and whether an error was returned *)
Definition step (st : cstate) (op : cop) : cstate * bool :=
  match op with
  | OpAdd n s =>
      match add_seq (c_kind st) st n s with
      | Added st' => (st', true)
      | Ignored => (st, true)
      | Rejected => (st, false)
      end
  | OpPolicy p =>
      let p' := if Z.eqb p IGNORE_NONE || Z.eqb p IGNORE_NAME || Z.eqb p IGNORE_SEQUENCE then p else IGNORE_NONE in
      (mkst (c_kind st) p' (c_alpha st) (c_len st) (c_next st) (c_objs st) (c_index st), true)
  | OpAppend rs => add_all (c_kind st) st rs
  | OpIdent id atright =>
      match id with
      | [] => (st, true)
      | _ => (rename_with st (fun n => if atright then n ++ id else id ++ n), true)
      end
  | OpRename m => (rename_with st (fun n => match lassoc n m with Some nn => nn | None => n end), true)
  | OpRenameLit old new => (rename_with st (replace_all old new), true)
  | OpCleanNames => (rename_with st clean_name, true)
  | OpTrimAuto curid =>
      let nn := trim_auto_names (c_objs st) [] curid (ndigits (N.of_nat (length (c_objs st)))) in
      let objs := set_names (c_objs st) nn in
      (set_objs st objs (reindex objs), true)
  | OpTrim m size =>
      let n := Z.of_nat (length (c_objs st)) in
      (* math.Pow10(size-2) < float64(n) *)
      if (if (size - 2 <? 0)%Z then (0 <? n)%Z else (10 ^ (size - 2) <? n)%Z) then (st, false)
      else
        match trim_names (c_objs st) m (map snd m) (Z.to_nat (size - 2)) with
        | Some nn => let objs := set_names (c_objs st) nn in (set_objs st objs (reindex objs), true)
        | None => (st, false)    (* more than 99 identical short names: not generated by the harness *)
        end
  | OpSort => (set_objs st (sort_objs (c_objs st)) (c_index st), true)
  | OpShuffle draws => (set_objs st (shuffle_objs draws (length (c_objs st)) (c_objs st)) (c_index st), true)
  | OpFilterLength mn mx =>
      (* promoted seqbag method: seqbag.Clear, seqbag.AddSequenceChar *)
      let '(s, ok) := add_all false (clear false st) (map snd (filter (fun o => keep_len mn mx (oseq o)) (c_objs st))) in
      (* the alignment's own method: no row left, no length left *)
      ((if c_kind st then match c_objs s with [] => set_len s (-1) | _ => s end else s), ok)
  | OpClear => (clear (c_kind st) st, true)
  | OpClone =>
      (* NewAlign/NewSeqBag + IgnoreIdentical + AddSequenceChar of copies *)
      add_all (c_kind st) (mkst (c_kind st) (c_policy st) (c_alpha st) (-1) 0 [] []) (map snd (c_objs st))
  | OpSetChar i j c =>
      match (if (i <? 0)%Z then None else nth_error (c_objs st) (Z.to_nat i)) with
      | None => (st, false)
      | Some o =>
          if (j <? 0)%Z || (Z.of_nat (length (oseq o)) <=? j)%Z then (st, false)
          else (set_objs st (map (fun o' => if Nat.eqb (oid o') (oid o)
                                            then (oid o', (oname o', set_nth_b (Z.to_nat j) c (oseq o'))) else o')
                                 (c_objs st)) (c_index st), true)
      end
  | OpSample nb perm =>
      if (Z.of_nat (length (c_objs st)) <? nb)%Z || (nb <? 1)%Z then (st, false)
      else
        (* rand.Perm only holds valid indices; an index outside the rows selects nothing *)
        let picked := flat_map (fun k => match nth_error (c_objs st) k with Some o => [o] | None => [] end) (firstn (Z.to_nat nb) perm) in
        let '(s, ok) := add_all false (mkst (c_kind st) IGNORE_NONE (c_alpha st) (-1) 0 [] []) (map snd picked) in
        (* seqBagToAlignment: length of the rows *)
        ((if c_kind st then set_len s (auto_len (c_objs s)) else s), ok)
  | OpConcat calpha c => concat_op st calpha c
  end.

Definition run (h : list cop) (st : cstate) : cstate := fold_left (fun s op => fst (step s op)) h st.
