(* CODE-MODEL of the open reading frame search (align/sequence.go LongestORF,
   align/seqbag.go LongestORF) and SPEC of "a longest ATG-to-first-in-frame-stop
   open reading frame".  [regex_longest] models the search by non-overlapping
   regular-expression matches that the code used before the fix (kept for the
   refutation theorem). *)
From Coq Require Import List Bool NArith ZArith Lia.
From Coq.Strings Require Import Byte.
Import ListNotations.
From GA.Base Require Import Bytes Case.
From GA.Model Require Import Strand.

(* strings.ToUpper then U -> T *)
Definition nt_up (b : byte) : byte := let u := to_upper b in if beqb u x55 then x54 else u.
Definition is_atg (a b c : byte) : bool := beqb (nt_up a) x41 && beqb (nt_up b) x54 && beqb (nt_up c) x47.
Definition is_stop (a b c : byte) : bool :=
  let a := nt_up a in let b := nt_up b in let c := nt_up c in
  beqb a x54 && ((beqb b x41 && (beqb c x41 || beqb c x47)) || (beqb b x47 && beqb c x41)).   (* TAA TAG TGA *)

(* number of bases up to and including the first in-frame stop codon *)
Fixpoint stop_after (s : list byte) : option nat :=
  match s with
  | a :: ((b :: c :: t) as _) => if is_stop a b c then Some 3 else option_map (fun n => 3 + n) (stop_after t)
  | _ => None
  end.

(* length of the ORF starting at the head of s *)
Definition orf_at (s : list byte) : option nat :=
  match s with
  | a :: b :: c :: t => if is_atg a b c then option_map (fun n => 3 + n) (stop_after t) else None
  | _ => None
  end.

(* seq.LongestORF: every ATG is a candidate; the leftmost among the longest is kept.
   Result: (start, length) *)
Fixpoint longest_from (s : list byte) (i : nat) (best : option (nat * nat)) : option (nat * nat) :=
  match s with
  | [] => best
  | _ :: t =>
      let best' := match orf_at s with
                   | Some l => match best with
                               | Some (_, bl) => if Nat.ltb bl l then Some (i, l) else best
                               | None => Some (i, l)
                               end
                   | None => best
                   end in
      longest_from t (S i) best'
  end.
Definition longest_orf (s : list byte) : option (nat * nat) := longest_from s 0 None.

(* the search by non-overlapping leftmost matches of (ATG)(.{3})*?(TAA|TGA|TAG) *)
Fixpoint regex_from (fuel : nat) (s : list byte) (i : nat) (best : option (nat * nat)) : option (nat * nat) :=
  match fuel with
  | O => best
  | S f =>
      match s with
      | [] => best
      | _ :: t =>
          match orf_at s with
          | Some l =>
              let best' := match best with
                           | Some (_, bl) => if Nat.ltb bl l then Some (i, l) else best
                           | None => Some (i, l)
                           end in
              regex_from f (skipn l s) (i + l) best'
          | None => regex_from f t (S i) best
          end
      end
  end.
Definition regex_longest (s : list byte) : option (nat * nat) := regex_from (S (length s)) s 0 None.

(* seqbag.LongestORF(reverse): over all sequences, forward then (if allowed) reverse complement, first
   strictly longer wins. Result: the ORF's nucleotides *)
Definition strands (reverse : bool) (s : list byte) : list (list byte) :=
  if reverse then [s; fst (revcomp_seq s)] else [s].
Definition bag_longest_orf (reverse : bool) (seqs : list (list byte)) : option (list byte) :=
  let cands := flat_map (strands reverse) seqs in
  let best := fold_left (fun (best : option (list byte * nat * nat)) s =>
                           match longest_orf s with
                           | Some (st, l) =>
                               match best with
                               | Some (_, _, bl) => if Nat.ltb bl l then Some (s, st, l) else best
                               | None => Some (s, st, l)
                               end
                           | None => best
                           end) cands None in
  match best with
  | Some (s, st, l) => Some (firstn l (skipn st s))
  | None => None
  end.
