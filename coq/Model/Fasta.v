(* CODE-MODEL of the FASTA lexer, parser and writer (io/fasta/lexer.go, parser.go,
   writer.go): Scan / scanEndOfLine / scanIdent with NUL read as end of file, the
   one-token push-back (scanIgnoreEndOfLine), parseGeneric's loop, WriteAlignment
   for any line width.  ASCII input (the lexer decodes runes).  The rows found
   are then handed to the container (AddSequence), see Corr/C03.v. *)
From Coq Require Import List Arith Lia Bool.
From Coq.Strings Require Import Byte.
Import ListNotations.

Definition NL : byte := x0a.
Definition CR : byte := x0d.
Definition GT : byte := x3e.
Definition SP : byte := x20.
Definition NUL : byte := x00.

Definition beqb (a b : byte) : bool := Byte.eqb a b.
Definition is_eol (b : byte) : bool := beqb b NL || beqb b CR.

Inductive tok := TStart | TIdent (l : list byte) | TEol | TEof.

(* span p l = (maximal prefix satisfying p, rest) *)
Fixpoint span (p : byte -> bool) (l : list byte) : list byte * list byte :=
  match l with
  | [] => ([], [])
  | b :: t => if p b then let '(a, r) := span p t in (b :: a, r) else ([], l)
  end.

(* ident run: stops before an EOL (unread) or at a NUL which is consumed *)
Fixpoint ident_run (l : list byte) : list byte * list byte :=
  match l with
  | [] => ([], [])
  | b :: t => if beqb b NUL then ([], t)
              else if is_eol b then ([], l)
              else let '(a, r) := ident_run t in (b :: a, r)
  end.

(* scanEndOfLine stops at the first rune that is not an end of line; a NUL there is read as end of
   file and NOT put back: it is consumed *)
Definition drop_nul (l : list byte) : list byte :=
  match l with b :: t => if beqb b NUL then t else l | [] => [] end.

Definition scan (l : list byte) : tok * list byte :=
  match l with
  | [] => (TEof, [])
  | b :: t =>
      if is_eol b then (TEol, drop_nul (snd (span is_eol t)))
      else if beqb b NUL then (TEof, t)
      else if beqb b GT then (TStart, t)
      else let '(a, r) := ident_run t in (TIdent (b :: a), r)
  end.

Lemma span_len p l : length (snd (span p l)) <= length l.
Proof. induction l as [|b t IH]; simpl; [lia|]. destruct (p b); [destruct (span p t); simpl in *; lia| simpl; lia]. Qed.
Lemma ident_run_len l : length (snd (ident_run l)) <= length l.
Proof. induction l as [|b t IH]; simpl; [lia|]. destruct (beqb b NUL); [simpl; lia|]. destruct (is_eol b); [simpl; lia|]. destruct (ident_run t); simpl in *; lia. Qed.

(* token stream up to and including the first EOF token *)
Fixpoint lex (fuel : nat) (l : list byte) : list tok :=
  match fuel with
  | O => [TEof]
  | S f => let '(t, r) := scan l in
           match t with TEof => [TEof] | _ => t :: lex f r end
  end.
Definition lex_all (l : list byte) := lex (S (length l)) l.

Definition strip_sp (l : list byte) := snd (span (fun b => beqb b SP) l).
Definition rm_sp (l : list byte) := filter (fun b => negb (beqb b SP)) l.

Definition row := (list byte * list byte)%type.
Inductive res := ROk (rows : list row) | RErr.

(* skip at most one EOL token : scanIgnoreEndOfLine *)
Definition skip_eol (ts : list tok) : list tok :=
  match ts with TEol :: r => r | _ => ts end.

(* main loop; acc is reversed rows; no duplicate-name policy here (added by container model) *)
Fixpoint ploop (ts : list tok) (curname curseq : list byte) (acc : list row) : res :=
  match skip_eol ts with
  | [] => RErr (* cannot happen: stream ends with TEof *)
  | TStart :: r =>
      match r with
      | TIdent n :: r' =>
          match curseq with
          | _ :: _ => ploop r' (strip_sp n) [] ((curname, curseq) :: acc)
          | [] => match curname with
                  | _ :: _ => RErr
                  | [] => ploop r' (strip_sp n) [] acc
                  end
          end
      | _ => RErr
      end
  | TIdent s :: r => ploop r curname (curseq ++ rm_sp s) acc
  | TEol :: r => ploop r curname curseq acc  (* second consecutive EOL token: impossible from lexer, ignored by switch *)
  | TEof :: _ => match curseq with
                 | _ :: _ => ROk (rev ((curname, curseq) :: acc))
                 | [] => match curname with
                         | _ :: _ => RErr        (* a name but no sequence *)
                         | [] => ROk (rev acc)
                         end
                 end
  end.

Definition parse (inp : list byte) : res :=
  let ts := lex_all inp in
  match skip_eol ts with
  | TStart :: _ =>
      match ploop ts [] [] [] with
      | ROk [] => RErr            (* no sequence in the file *)
      | r => r
      end
  | _ => RErr
  end.

(* writer *)
Fixpoint wrap_aux (w k : nat) (s : list byte) : list byte :=
  match s with
  | [] => []
  | b :: t => match k with
              | O => NL :: b :: wrap_aux w (w - 1) t
              | S k' => b :: wrap_aux w k' t
              end
  end.
Definition wrap (w : nat) (s : list byte) := wrap_aux w w s.
Definition write_row (w : nat) (r : row) : list byte :=
  GT :: fst r ++ NL :: wrap w (snd r) ++ [NL].
Definition write (w : nat) (a : list row) : list byte := flat_map (write_row w) a.

