(* CODE-MODEL of the Phylip writer (io/phylip/writer.go WriteAlignment, the four
   layouts: strict names, one line, no blocks) and SPEC of how a Phylip file is
   read back (header counts, names on the first block, residues with blanks
   removed, interleaved blocks appended row by row).  The code's parser is not
   modelled; it is compared with this reader on every generated file. *)
From Coq Require Import List Arith Bool NArith Lia.
From Coq.Strings Require Import Byte.
Import ListNotations.
From GA.Base Require Import Bytes Dec Align.

Definition NL : byte := x0a.
Definition SP : byte := x20.
Definition row := (list byte * list byte)%type.

Record layout := { strict : bool; oneline : bool; noblock : bool }.

(* groups of [k] residues separated by one blank *)
Fixpoint groups_aux (fuel k : nat) (s : list byte) : list byte :=
  match fuel with
  | O => s
  | S f => if Nat.leb (length s) k then s else firstn k s ++ SP :: groups_aux f k (skipn k s)
  end.
Definition groups (k : nat) (s : list byte) : list byte := groups_aux (length s) k s.

Definition pad_name (n : list byte) : list byte :=
  let t := firstn 10 n in t ++ repeat SP (10 - length t).

(* one line of row r in the block starting at [cur] *)
Definition row_line (ly : layout) (first : bool) (linelen blocklen cur : nat) (r : row) : list byte :=
  let piece := firstn linelen (skipn cur (snd r)) in
  (if first then (if strict ly then pad_name (fst r) else fst r ++ [SP; SP])
   else match piece with
        | [] => []
        | _ => if strict ly then repeat SP 10 else [SP; SP; SP]
        end)
  ++ groups blocklen piece.

Definition header (n L : nat) : list byte := [SP; SP; SP] ++ dec_of_nat n ++ [SP; SP; SP] ++ dec_of_nat L.

(* the lines of the file, without their line ends *)
Fixpoint block_lines (fuel : nat) (ly : layout) (linelen blocklen cur L : nat) (a : list row) : list (list byte) :=
  match fuel with
  | O => []
  | S f =>
      if Nat.ltb cur L then
        (if Nat.eqb cur 0 then [] else [[]]) ++
        map (row_line ly (Nat.eqb cur 0) linelen blocklen cur) a ++
        block_lines f ly linelen blocklen (cur + linelen) L a
      else []
  end.

(* [wl], [wb]: PHYLIP_LINE and PHYLIP_BLOCK (regenerated from the code into Gen/IOConst.v) *)
Definition write_lines (wl wb : nat) (ly : layout) (a : list row) : list (list byte) :=
  let L := match a with [] => 0 | r :: _ => length (snd r) end in
  let linelen := if oneline ly then L else wl in
  let blocklen := if noblock ly then linelen else wb in
  header (length a) L :: block_lines (S L) ly linelen blocklen 0 L a.

Definition join_lines (ls : list (list byte)) : list byte := flat_map (fun l => l ++ [NL]) ls.
Definition write (wl wb : nat) (ly : layout) (a : list row) : list byte := join_lines (write_lines wl wb ly a).

(* ---- SPEC reader (relaxed names: up to the first blank) ---------------------------------------------- *)
Fixpoint split_lines_aux (s cur : list byte) : list (list byte) :=
  match s with
  | [] => match cur with [] => [] | _ => [rev cur] end
  | b :: t => if Byte.eqb b NL then rev cur :: split_lines_aux t [] else split_lines_aux t (b :: cur)
  end.
Definition split_lines (s : list byte) : list (list byte) := split_lines_aux s [].

Definition nonblank (b : byte) : bool := negb (Byte.eqb b SP).
Definition strip (l : list byte) : list byte := filter nonblank l.
Fixpoint take_name (l : list byte) : list byte * list byte :=
  match l with
  | [] => ([], [])
  | b :: t => if Byte.eqb b SP then ([], l) else let '(n, r) := take_name t in (b :: n, r)
  end.

Fixpoint chunks {A} (fuel n : nat) (l : list A) : list (list A) :=
  match fuel with
  | O => []
  | S f => match l with [] => [] | _ => firstn n l :: chunks f n (skipn n l) end
  end.

(* rows from the data lines (header and empty lines removed), n rows per block *)
Definition read_blocks (n : nat) (dl : list (list byte)) : list row :=
  match chunks (length dl) n dl with
  | [] => []
  | first :: others =>
      map (fun k =>
             let '(name, rest) := take_name (nth k first []) in
             (name, strip rest ++ flat_map (fun blk => strip (nth k blk [])) others))
          (seq 0 n)
  end.

Definition is_empty_line (l : list byte) : bool := match strip l with [] => true | _ => false end.

Definition read (nrows : nat) (file : list byte) : list row :=
  match split_lines file with
  | [] => []
  | _ :: rest => read_blocks nrows (filter (fun l => negb (is_empty_line l)) rest)
  end.
