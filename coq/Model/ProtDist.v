(* CODE-MODEL of the pair statistics of the protein ML distance
   (distance/protein/utils.go selectedSites, aaFrequency, isAmbigu,
   checkAmbiguities, check2SequencesDiff; lk.go MLDist: the pair frequency
   matrix F).  Exact rational arithmetic (weights are dyadic in the
   correspondence). The likelihood itself is over the reals (Proofs). *)
From Coq Require Import List Bool NArith ZArith QArith Lia.
From Coq.Strings Require Import Byte.
Import ListNotations.
From GA.Base Require Import Bytes Case Align.
From GA.Gen Require Import Alpha.
Local Open Scope Q_scope.

Fixpoint index_of (b : byte) (l : list byte) : option nat :=
  match l with
  | [] => None
  | x :: t => if beqb x b then Some O else option_map S (index_of b t)
  end.

(* AA2Index / AlphabetCharToIndex for amino acids *)
Definition aa_index (b : byte) : option nat := index_of (to_upper b) stdaminoacid.
Definition is_ambigu (b : byte) : bool := beqb b GAP || beqb b POINT || beqb b OTHER || beqb b ALL_AMINO.

Definition wt (ws : option (list Q)) (l : nat) : Q := match ws with None => 1 | Some w => nth l w 1 end.

(* selectedSites *)
Definition selected_sites (rs : rows) (removegaps : bool) : list bool :=
  map (fun l => negb removegaps ||
                forallb (fun r => match aa_index (nth l (snd r) x2d) with Some _ => true | None => false end) rs)
      (seq 0 (width rs)).

(* check2SequencesDiff after checkAmbiguities: over ALL columns *)
Fixpoint seqs_differ (s1 s2 : list byte) : bool :=
  match s1, s2 with
  | a :: t1, b :: t2 => (negb (is_ambigu a) && negb (is_ambigu b) && negb (beqb a b)) || seqs_differ t1 t2
  | _, _ => false
  end.

(* one column of a pair as seen by the F loop: states, effective weight, counted *)
Definition pcol := (option nat * option nat * Q)%type.
Fixpoint pair_cols (l : nat) (s1 s2 : list byte) (sel : list bool) (ws : option (list Q)) : list pcol :=
  match s1, s2 with
  | a :: t1, b :: t2 =>
      (if nth l sel false
       then [(aa_index a, aa_index b, if is_ambigu a || is_ambigu b then 0 else wt ws l)]
       else []) ++ pair_cols (S l) t1 t2 sel ws
  | _, _ => []
  end.

Definition counted (c : pcol) : bool :=
  match c with (Some _, Some _, _) => true | _ => false end.
Definition hits (i j : nat) (c : pcol) : bool :=
  match c with (Some a, Some b, _) => Nat.eqb a i && Nat.eqb b j | _ => false end.
Definition cw (c : pcol) : Q := snd c.

(* unnormalised cell and total weight (len) *)
Definition cell (cols : list pcol) (i j : nat) : Q :=
  fold_right (fun c acc => (if hits i j c then cw c else 0) + acc) 0 cols.
Definition total (cols : list pcol) : Q :=
  fold_right (fun c acc => (if counted c then cw c else 0) + acc) 0 cols.
(* Fs after normalisation *)
Definition F (cols : list pcol) (i j : nat) : Q := cell cols i j / total cols.

(* aaFrequency: counts row after row, unknown residues shared uniformly, pseudo-count when a
   count is below 1/20 *)
Definition add_at (k : nat) (w : Q) (num : list Q) : list Q :=
  map (fun p => if Nat.eqb (fst p) k then snd p + w else snd p) (combine (seq 0 (length num)) num).
Fixpoint count_row (l : nat) (s : list byte) (sel : list bool) (ws : option (list Q)) (num : list Q) : list Q :=
  match s with
  | [] => num
  | b :: t =>
      let num' := if nth l sel false
                  then match aa_index b with
                       | Some k => add_at k (wt ws l) num
                       | None => map (fun x => x + wt ws l * (1 # 20)) num
                       end
                  else num in
      count_row (S l) t sel ws num'
  end.
Definition aa_frequency (rs : rows) (sel : list bool) (ws : option (list Q)) : list Q :=
  let num := fold_left (fun num r => count_row 0 (snd r) sel ws num) rs (repeat 0 20) in
  let pseudo := existsb (fun v => negb (Qle_bool (1 # 20) v)) num in
  let num' := if pseudo then map (fun v => v + 1) num else num in
  let s := fold_right Qplus 0 num' in
  map (fun v => v / s) num'.
