(* CODE-MODEL of the nucleotide substitution models' transition probabilities
   (models/dna/jc.go, k2p.go: closed forms and eigen systems as coded;
   models/model.go SetLength: P = R exp(D t) L). Over the real numbers. *)
From Coq Require Import Reals List.
Import ListNotations.
Local Open Scope R_scope.

(* JCModel.Pij *)
Definition jc_pij (i j : nat) (l : R) : R :=
  let p := (1/4) * (1 - exp (- (4/3) * l)) in
  if Nat.eqb i j then p + exp (- (4/3) * l) else p.

(* K2PModel.Pij; states A=0 C=1 G=2 T=3; transitions A<->G, C<->T *)
Definition is_ts (i j : nat) : bool :=
  match i, j with
  | 0%nat, 2%nat | 2%nat, 0%nat | 1%nat, 3%nat | 3%nat, 1%nat => true
  | _, _ => false
  end.

Definition k2p_pts (kappa l : R) : R :=
  let k := (1/2) * kappa in
  1/4 - (1/2) * exp (- ((2 * k + 1) / (k + 1)) * l) + (1/4) * exp (- (2 / (k + 1)) * l).
Definition k2p_ptr (kappa l : R) : R :=
  let k := (1/2) * kappa in
  (1/2) * (1/2 - (1/2) * exp (- (2 / (k + 1)) * l)).

Definition k2p_pij (kappa : R) (i j : nat) (l : R) : R :=
  if is_ts i j then k2p_pts kappa l
  else if Nat.eqb i j then 1 - (k2p_pts kappa l + 2 * k2p_ptr kappa l)
  else k2p_ptr kappa l.

(* 4x4 matrices as row-major lists; SetLength's triple loop *)
Definition mat := list (list R).
Definition at_ (m : mat) (i j : nat) : R := nth j (nth i m []) 0.

Definition eig_pij (val : list R) (left right : mat) (l : R) (i j : nat) : R :=
  fold_right (fun k acc => at_ right i k * exp (nth k val 0 * l) * at_ left k j + acc) 0 [0; 1; 2; 3]%nat.

(* JCModel.Eigens *)
Definition jc_val : list R := [0; - (4/3); - (4/3); - (4/3)].
Definition jc_left : mat :=
  [[1/4; 1/4; 1/4; 1/4]; [-(1/4); -(1/4); 3/4; -(1/4)]; [-(1/4); 3/4; -(1/4); -(1/4)]; [3/4; -(1/4); -(1/4); -(1/4)]].
Definition jc_right : mat :=
  [[1; 0; 0; 1]; [1; 0; 1; 0]; [1; 1; 0; 0]; [1; -1; -1; -1]].

(* K2PModel.Eigens *)
Definition k2p_val (kappa : R) : list R :=
  [0; - 2 * (1 + kappa) / (kappa + 2); - 2 * (1 + kappa) / (kappa + 2); - 4 / (kappa + 2)].
Definition k2p_left : mat :=
  [[1/4; 1/4; 1/4; 1/4]; [0; 1/2; 0; -(1/2)]; [1/2; 0; -(1/2); 0]; [1/4; -(1/4); 1/4; -(1/4)]].
Definition k2p_right : mat :=
  [[1; 0; 1; 1]; [1; 1; 0; -1]; [1; 0; -1; 1]; [1; -1; 0; -1]].
