(* CODE-MODEL of column statistics (align/seqbag.go CharStats, UniqueCharacters,
   CharStatsSeq; align/align.go CharStatsSite, MaxCharStats, Consensus, Entropy
   (domain and counts), NbVariableSites, InformativeSites, AvgAllelesPerSite,
   CountDifferences, NumGapsUniquePerSequence, NumMutationsUniquePerSequence;
   align/sequence.go NumMutationsComparedToReferenceSequence, EqualOrCompatible).
   Go maps are returned as association lists sorted by key. ASCII residues. *)
From Coq Require Import List Bool NArith ZArith Lia.
From Coq.Strings Require Import Byte.
Import ListNotations.
From GA.Base Require Import Bytes Case Align.
From GA.Gen Require Import Alpha Iupac.

Definition ascii130 : list byte := firstn 130 all_bytes.
Definition countb (c : byte) (l : list byte) : nat := length (filter (beqb c) l).

(* counts of the upper-cased bytes of [l], keys ascending, zero counts omitted *)
Definition upper_counts (l : list byte) : list (byte * nat) :=
  let u := map to_upper l in
  filter (fun kv => Nat.ltb 0 (snd kv)) (map (fun k => (k, countb k u)) ascii130).

Definition char_stats (rs : rows) : list (byte * nat) := upper_counts (flat_map snd rs).
Definition unique_characters (rs : rows) : list byte := map fst (char_stats rs).

Definition char_stats_seq (rs : rows) (idx : Z) : option (list (byte * nat)) :=
  if (idx <? 0)%Z then None
  else match nth_error rs (Z.to_nat idx) with
       | None => None
       | Some r => Some (upper_counts (snd r))
       end.

Definition site_in_range (rs : rows) (site : Z) : bool := (0 <=? site)%Z && (site <? alen rs)%Z.

Definition char_stats_site (rs : rows) (site : Z) : option (list (byte * nat)) :=
  if site_in_range rs site then Some (upper_counts (column rs (Z.to_nat site))) else None.

(* ---- MaxCharStats ------------------------------------------------------------------ *)
Definition wildcard (alphabet : Z) : byte := if Z.eqb alphabet AMINOACIDS then ALL_AMINO else ALL_NUCLE.

Definition mc_excluded (alphabet : Z) (ig ins : bool) (k : byte) : bool :=
  (ig && beqb k GAP) || (ins && (beqb k (wildcard alphabet) || beqb k (to_lower (wildcard alphabet)))).

(* one site: state (out, occur, total, max); keys are visited in increasing order *)
Definition mc_step (alphabet : Z) (ig ins : bool) (st : byte * nat * nat * nat) (kv : byte * nat)
  : byte * nat * nat * nat :=
  let '(out, occ, tot, mx) := st in
  if mc_excluded alphabet ig ins (fst kv) then st
  else if Nat.ltb mx (snd kv) then (fst kv, snd kv, tot + snd kv, snd kv)
       else (out, occ, tot + snd kv, mx).

Definition max_char_site (alphabet : Z) (ig ins : bool) (col : list byte) : byte * nat * nat :=
  let out0 := match col with b :: _ => to_upper b | [] => x00 end in
  let '(out, occ, tot, _) := fold_left (mc_step alphabet ig ins) (upper_counts col) (out0, length col, 0, 0) in
  (out, occ, tot).

Definition max_char_stats (alphabet : Z) (ig ins : bool) (rs : rows) : list byte * list nat * list nat :=
  let res := map (fun i => max_char_site alphabet ig ins (column rs i)) (seq 0 (width rs)) in
  match rs with
  | [] => ([], [], [])
  | _ => (map (fun x => fst (fst x)) res, map (fun x => snd (fst x)) res, map snd res)
  end.

Local Open Scope bs_scope.
Definition consensus (alphabet : Z) (ig ins : bool) (rs : rows) : rows :=
  [(unbs "consensus", fst (fst (max_char_stats alphabet ig ins rs)))].
Local Close Scope bs_scope.

(* ---- Entropy: domain and the counts it is computed from ------------------------------- *)
(* None: error; Some l: the positive counts of the distinct counted (raw) characters *)
Definition entropy_counts (rs : rows) (site : Z) (removegaps : bool) : option (list nat) :=
  if site_in_range rs site then
    let col := filter (fun s => negb (beqb s OTHER) && negb (beqb s POINT) && negb (removegaps && beqb s GAP))
                      (column rs (Z.to_nat site)) in
    Some (filter (fun n => Nat.ltb 0 n) (map (fun k => countb k col) all_bytes))
  else None.

(* ---- site measures --------------------------------------------------------------------------- *)
Definition special (b : byte) : bool := beqb b GAP || beqb b POINT || beqb b OTHER.

Definition distinct_plain (col : list byte) : nat :=
  length (filter (fun k => Nat.ltb 0 (countb k (filter (fun b => negb (special b)) col))) all_bytes).

Definition nb_variable_sites (rs : rows) : nat :=
  length (filter (fun i => Nat.ltb 1 (distinct_plain (column rs i))) (seq 0 (width rs))).

Definition info_wild (alphabet : Z) : byte :=
  if Z.eqb alphabet AMINOACIDS then ALL_AMINO else if Z.eqb alphabet NUCLEOTIDS then ALL_NUCLE else x2e.

Definition informative_site (alphabet : Z) (col : list byte) : bool :=
  let kept := filter (fun s => negb (beqb s GAP) && negb (beqb s POINT) && negb (beqb s (info_wild alphabet))) col in
  Nat.leb 2 (length (filter (fun kv => Nat.leb 2 (snd kv)) (upper_counts kept))).

Definition informative_sites (alphabet : Z) (rs : rows) : list nat :=
  filter (fun i => informative_site alphabet (column rs i)) (seq 0 (width rs)).

(* (number of alleles summed over sites, number of sites with at least one) *)
Definition avg_alleles (rs : rows) : nat * nat :=
  let per := map (fun i => distinct_plain (column rs i)) (seq 0 (width rs)) in
  (fold_right Nat.add 0 per, length (filter (fun n => Nat.ltb 0 n) per)).

(* ---- differences to the first sequence -------------------------------------------------------- *)
Fixpoint diff_pairs (first other : list byte) : list (byte * byte) :=
  match first, other with
  | f :: ft, o :: ot => (if beqb f o then [] else [(f, o)]) ++ diff_pairs ft ot
  | _, _ => []
  end.

Definition pair_eqb (a b : byte * byte) : bool := beqb (fst a) (fst b) && beqb (snd a) (snd b).

Fixpoint add_new (seen : list (byte * byte)) (l : list (byte * byte)) : list (byte * byte) :=
  match l with
  | [] => seen
  | p :: t => if existsb (pair_eqb p) seen then add_new seen t else add_new (seen ++ [p]) t
  end.

(* alldiffs in order of first appearance; per sequence, every difference with its count
   (order of first appearance within the sequence; the correspondence compares as a map) *)
Definition count_differences (rs : rows) : list (byte * byte) * list (list (byte * byte * nat)) :=
  match rs with
  | [] => ([], [])
  | r0 :: t =>
      let per := map (fun r => diff_pairs (snd r0) (snd r)) t in
      (fold_left add_new per [],
       map (fun l => map (fun p => (p, length (filter (pair_eqb p) l))) (add_new [] l)) per)
  end.

(* ---- uniqueness per column ------------------------------------------------------------------------ *)
Definition index_of_gap (col : list byte) : option nat :=
  let idx := filter (fun i => beqb (nth i col x00) GAP) (seq 0 (length col)) in
  match idx with [i] => Some i | _ => None end.

Definition bump (n : nat) (i : nat) (l : list nat) : list nat :=
  map (fun kv => if Nat.eqb (fst kv) i then S (snd kv) else snd kv) (combine (seq 0 n) l).

Definition num_gaps_unique (rs : rows) : list nat :=
  let n := length rs in
  fold_left (fun acc i => match index_of_gap (column rs i) with Some j => bump n j acc | None => acc end)
            (seq 0 (width rs)) (repeat 0 n).

(* with a CountProfile built from [prof] (NewCountProfileFromAlignment): (numuniques, numnew, numboth) *)
Definition prof_count (prof : rows) (b : byte) (i : nat) : nat := countb b (column prof i).
Definition num_gaps_profile (rs prof : rows) : list nat * list nat * list nat :=
  let n := length rs in
  fold_left (fun (acc : list nat * list nat * list nat) i =>
      let '(u, nw, bo) := acc in
      let col := column rs i in
      let absent := Nat.eqb (prof_count prof GAP i) 0 in
      let nw' := fold_left (fun a j => if beqb (nth j col x00) GAP && absent then bump n j a else a) (seq 0 n) nw in
      match index_of_gap col with
      | Some j => (bump n j u, nw', if absent then bump n j bo else bo)
      | None => (u, nw', bo)
      end)
    (seq 0 (width rs)) (repeat 0 n, repeat 0 n, repeat 0 n).

Definition unique_wild (alphabet : Z) : byte := info_wild alphabet.

(* rows holding, at this column, a byte that occurs exactly once (not the wildcard, not a gap) *)
Definition unique_rows (alphabet : Z) (col : list byte) : list nat :=
  filter (fun j => let b := nth j col x00 in
                   Nat.eqb (countb b col) 1 && negb (beqb b (unique_wild alphabet)) && negb (beqb b GAP))
         (seq 0 (length col)).

Definition num_mutations_profile (alphabet : Z) (rs prof : rows) : list nat * list nat * list nat :=
  let n := length rs in
  fold_left (fun (acc : list nat * list nat * list nat) i =>
      let '(u, nw, bo) := acc in
      let col := column rs i in
      let counted b := negb (beqb b (unique_wild alphabet)) && negb (beqb b GAP) in
      let nw' := fold_left (fun a j => let b := nth j col x00 in
                                       if counted b && Nat.eqb (prof_count prof b i) 0 then bump n j a else a) (seq 0 n) nw in
      let uq := unique_rows alphabet col in
      (fold_left (fun a j => bump n j a) uq u, nw',
       fold_left (fun a j => if Nat.eqb (prof_count prof (nth j col x00) i) 0 then bump n j a else a) uq bo))
    (seq 0 (width rs)) (repeat 0 n, repeat 0 n, repeat 0 n).

Definition num_mutations_unique (alphabet : Z) (rs : rows) : list nat :=
  let n := length rs in
  fold_left (fun acc i => fold_left (fun a j => bump n j a) (unique_rows alphabet (column rs i)) acc)
            (seq 0 (width rs)) (repeat 0 n).

(* ---- reference-relative counter ------------------------------------------------------------------- *)
Definition nt_code (b : byte) : option Z := bassoc (to_upper b) iupac_to_int.

(* EqualOrCompatible on NT_* codes (values <= NT_N = 15) *)
Definition equal_or_compatible (a b : Z) : option bool :=
  if (15 <? a)%Z || (15 <? b)%Z then None
  else Some (Z.eqb a b || (0 <? Z.land a b)%Z).

Fixpoint all_some {A} (l : list (option A)) : option (list A) :=
  match l with
  | [] => Some []
  | None :: _ => None
  | Some x :: t => match all_some t with Some r => Some (x :: r) | None => None end
  end.

Definition num_mutations_vs_ref (alphabet : Z) (ref s : list byte) : option nat :=
  if negb (Nat.eqb (length ref) (length s)) then None
  else if Z.eqb alphabet NUCLEOTIDS then
    match all_some (map nt_code ref) with
    | None => None
    | Some refc =>
        (* the loop stops with an error at the first character of s without a code *)
        match all_some (map nt_code s) with
        | None => None
        | Some sc =>
            Some (length (filter (fun x => let '(b, (cs, cr)) := x in
                                           negb (beqb b GAP) && negb (beqb b ALL_NUCLE) &&
                                           negb (match equal_or_compatible cs cr with Some e => e | None => true end))
                                 (combine s (combine sc refc))))
        end
    end
  else
    Some (length (filter (fun x => let '(b, r) := x in
                                   negb (beqb b GAP) && negb (beqb b ALL_AMINO) && negb (beqb b r))
                         (combine s ref))).

(* ListMutationsComparedToReferenceSequence (nucleotide-wise): substitutions and insertions relative to
   the reference, positions counted on the ungapped reference; (Ref, Pos, Alt) *)
Definition mutation := (byte * Z * list byte)%type.
(* the pending insertion, if any, is emitted at the current reference coordinate *)
Definition flush (cur : list byte) (refi : Z) : list mutation :=
  match cur with [] => [] | _ => [(GAP, refi, cur)] end.

Fixpoint list_mut_loop (all : byte) (cols : list (byte * byte * bool)) (cur : list byte) (refi : Z) : list mutation :=
  match cols with
  | [] => flush cur refi
  | (b, rb, eq) :: t =>
      if beqb rb GAP then list_mut_loop all t (if beqb b GAP then cur else cur ++ [b]) refi
      else
        flush cur refi ++
        (if negb (beqb b all) && negb eq then [(rb, refi, [b])] else []) ++
        list_mut_loop all t [] (refi + 1)
  end.

Definition list_mutations_vs_ref (alphabet : Z) (ref s : list byte) : option (list mutation) :=
  if negb (Nat.eqb (length ref) (length s)) then None
  else if Z.eqb alphabet NUCLEOTIDS then
    match all_some (map nt_code ref), all_some (map nt_code s) with
    | Some refc, Some sc =>
        match all_some (map (fun x => equal_or_compatible (fst x) (snd x)) (combine sc refc)) with
        | Some eqs => Some (list_mut_loop ALL_NUCLE (combine (combine s ref) eqs) [] 0)
        | None => None
        end
    | _, _ => None
    end
  else Some (list_mut_loop ALL_AMINO (map (fun x => (fst x, snd x, beqb (fst x) (snd x))) (combine s ref)) [] 0).
