(* CODE-MODEL of the closed-form nucleotide distance estimators (distance/dna/
   jc.go, k2p.go, f81.go, f84.go, tn93.go, pdist.go), as arranged in the Go
   code, over the real numbers.  Inputs are the exact rational proportions
   produced by Model/DnaCount.v. *)
From Coq Require Import Reals.
Local Open Scope R_scope.

Definition jc (p : R) : R := - (3/4) * ln (1 - 4 * p / 3).
Definition jc_gamma (a p : R) : R := (3/4) * a * (Rpower (1 - 4 * p / 3) (- 1 / a) - 1).

Definition k2p (P Q : R) : R := - (1/2) * ln (1 - 2 * P - Q) - (1/4) * ln (1 - 2 * Q).
Definition k2p_gamma (a P Q : R) : R :=
  a * ((1/2) * Rpower (1 - 2 * P - Q) (- 1 / a) + (1/4) * Rpower (1 - 2 * Q) (- 1 / a) - 3/4).

(* b1 = 1 - sum pi_i^2 *)
Definition f81 (b1 p : R) : R := - 1 * b1 * ln (1 - p / b1).
Definition f81_gamma (b1 a p : R) : R := 1 * b1 * a * (Rpower (1 - p / b1) (- 1 / a) - 1).

Definition f84_a (pa pc pg pt : R) : R := pa * pg / (pa + pg) + pc * pt / (pc + pt).
Definition f84_b (pa pc pg pt : R) : R := pa * pg + pc * pt.
Definition f84_c (pa pc pg pt : R) : R := (pa + pg) * (pc + pt).
Definition f84 (a b c P Q : R) : R :=
  - 2 * a * ln (1 - P / (2 * a) - (a - b) * Q / (2 * a * c)) + 2 * (a - b - c) * ln (1 - Q / (2 * c)).
Definition f84_gamma (al a b c P Q : R) : R :=
  2 * al * (a * Rpower (1 - P / (2 * a) - (a - b) * Q / (2 * a * c)) (- 1 / al) +
            (b + c - a) * Rpower (1 - Q / (2 * c)) (- 1 / al) - b - c).

(* TN93: Q = transversions, p1 = A<->G, p2 = C<->T proportions *)
Definition tn93 (pa pc pg pt Q p1 p2 : R) : R :=
  let piy := pc + pt in
  let pir := pa + pg in
  let papg := pa * pg in
  let pcpt := pc * pt in
  let y := papg / (papg + pcpt) in
  let e1 := 1 - Q / (2 * piy * pir) in
  let e2 := 1 - Q / (2 * pir) - pir * p1 / (2 * papg) in
  let e3 := 1 - Q / (2 * piy) - piy * p2 / (2 * pcpt) in
  let b1 := piy / pir * ln e1 - 1 / pir * ln e2 in
  let b2 := pir / piy * ln e1 - 1 / piy * ln e3 in
  let b3 := - ln e1 in
  2 * (pa * pg + pc * pt) * (y * b1 + (1 - y) * b2) + 2 * pir * piy * b3.

Definition tn93_gamma (al pa pc pg pt Q p1 p2 : R) : R :=
  let piy := pc + pt in
  let pir := pa + pg in
  let papg := pa * pg in
  let pcpt := pc * pt in
  let y := papg / (papg + pcpt) in
  let e1 := 1 - Q / (2 * piy * pir) in
  let e2 := 1 - Q / (2 * pir) - pir * p1 / (2 * papg) in
  let e3 := 1 - Q / (2 * piy) - piy * p2 / (2 * pcpt) in
  let b1 := piy / pir * al * (1 - Rpower e1 (- 1 / al)) - 1 / pir * al * (1 - Rpower e2 (- 1 / al)) in
  let b2 := pir / piy * al * (1 - Rpower e1 (- 1 / al)) - 1 / piy * al * (1 - Rpower e3 (- 1 / al)) in
  let b3 := - al * (1 - Rpower e1 (- 1 / al)) in
  2 * (pa * pg + pc * pt) * (y * b1 + (1 - y) * b2) + 2 * pir * piy * b3.
