(* CODE-MODEL of the Nexus writer (io/nexus/writer.go WriteAlignment) and SPEC of
   how its matrix block is read back (one row per line between "matrix" and ";":
   the name up to the first blank, then the residues).  The code's Nexus parser
   is not modelled; it is compared with this reading on every generated file. *)
From Coq Require Import List Arith Bool NArith ZArith Lia.
From Coq.Strings Require Import Byte.
Import ListNotations.
From GA.Base Require Import Bytes Dec Align.
From GA.Model Require Import Phylip.

Local Open Scope bs_scope.
Definition kw_nexus : list byte := unbs "#NEXUS".
Definition kw_begin : list byte := unbs "begin data;".
Definition kw_matrix : list byte := unbs "matrix".
Definition kw_semi : list byte := unbs ";".
Definition kw_end : list byte := unbs "end;".

Definition nexus_lines (protein : bool) (a : list row) : list (list byte) :=
  [kw_nexus; kw_begin;
   unbs "dimensions ntax=" ++ dec_of_nat (length a) ++ unbs " nchar=" ++ dec_of_Z (alen a) ++ unbs ";";
   unbs "format datatype=" ++ (if protein then unbs "protein" else unbs "dna") ++ unbs ";";
   kw_matrix]
  ++ map (fun r : row => fst r ++ SP :: snd r) a
  ++ [kw_semi; kw_end].

Definition write (protein : bool) (a : list row) : list byte := join_lines (nexus_lines protein a).

(* reference reading of the matrix block *)
Fixpoint after_matrix (ls : list (list byte)) : list (list byte) :=
  match ls with
  | [] => []
  | l :: t => if bytes_eqb l kw_matrix then t else after_matrix t
  end.
Fixpoint until_semi (ls : list (list byte)) : list (list byte) :=
  match ls with
  | [] => []
  | l :: t => if bytes_eqb l kw_semi then [] else l :: until_semi t
  end.
Definition read (file : list byte) : list row :=
  map (fun l => let '(n, rest) := take_name l in (n, strip rest)) (until_semi (after_matrix (split_lines file))).
