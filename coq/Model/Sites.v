(* CODE-MODEL of site extraction and coordinates (align/align.go SubAlign,
   SelectSites, InverseCoordinates, InversePositions, TrimSequences,
   RefCoordinates, RefSites, Concat, Split, Transpose, DiffWithFirst,
   ReplaceMatchChars; align/partition.go AddRange). *)
From Coq Require Import List Bool NArith ZArith Lia.
From Coq.Strings Require Import Byte.
Import ListNotations.
From GA.Base Require Import Bytes Align Dec.
From GA.Gen Require Import Alpha.

Local Open Scope Z_scope.

Definition window_ok (L start len : Z) : bool :=
  negb ((start <? 0) || (start >? L)) && negb (len <? 0) &&
  negb ((start + len <? 0) || (start + len >? L)).

Definition sub_align (rs : rows) (start len : Z) : option rows :=
  if window_ok (alen rs) start len then
    Some (map (fun r => (fst r, firstn (Z.to_nat len) (skipn (Z.to_nat start) (snd r)))) rs)
  else None.

Definition site_ok (L s : Z) : bool := negb ((s <? 0) || (s >=? L)).

Definition select_sites (rs : rows) (sites : list Z) : option rows :=
  if forallb (site_ok (alen rs)) sites then
    Some (map (fun r => (fst r, map (fun s => nth (Z.to_nat s) (snd r) x2d) sites)) rs)
  else None.

Definition inverse_coordinates (rs : rows) (start len : Z) : option (list Z * list Z) :=
  let L := alen rs in
  if window_ok L start len then
    let '(s1, l1) := if start >? 0 then ([0], [start]) else ([], []) in
    let '(s2, l2) := if start + len <? L then ([start + len], [L - (start + len)]) else ([], []) in
    Some (s1 ++ s2, l1 ++ l2)
  else None.

Definition Zmem (x : Z) (l : list Z) : bool := existsb (Z.eqb x) l.

Definition zrange (n : Z) : list Z := map Z.of_nat (seq 0 (Z.to_nat n)).

Definition inverse_positions (rs : rows) (sites : list Z) : option (list Z) :=
  let L := alen rs in
  if forallb (site_ok L) sites then Some (filter (fun i => negb (Zmem i sites)) (zrange L))
  else None.

Definition trim_sequences (rs : rows) (n : Z) (from_start : bool) : option rows :=
  if n <? 0 then None
  else if n >=? alen rs then None
  else Some (map (fun r => (fst r, if from_start then skipn (Z.to_nat n) (snd r)
                                   else firstn (length (snd r) - Z.to_nat n) (snd r))) rs).

(* ---- reference coordinates ---------------------------------------------------- *)
Definition isgapb (b : byte) : bool := beqb b GAP.

Fixpoint refcoord_loop (s : list byte) (tmpi ngaps alistart alilen refstart reflen : Z) : Z * Z * Z :=
  match s with
  | [] => (ngaps, alistart, alilen)
  | site :: t =>
      let tmpi' := if isgapb site then tmpi else tmpi + 1 in
      let ngaps' := if isgapb site then ngaps + 1 else ngaps in
      if tmpi' <? refstart then refcoord_loop t tmpi' ngaps' (alistart + 1) alilen refstart reflen
      else if tmpi' >=? refstart + reflen - 1 then (ngaps', alistart, alilen + 1)
      else refcoord_loop t tmpi' ngaps' alistart (alilen + 1) refstart reflen
  end.

(* (alistart, alilen, error) *)
Definition ref_coordinates (rs : rows) (name : list byte) (refstart reflen : Z) : option (Z * Z * bool) :=
  match get_seq name rs with
  | None => None
  | Some s =>
      if refstart <? 0 then None
      else if reflen <=? 0 then None
      else
        let '(ngaps, st, ln) := refcoord_loop s (-1) 0 0 0 refstart reflen in
        Some (st, ln, refstart + reflen >? Z.of_nat (length s) - ngaps)
  end.

Fixpoint refsites_loop (s : list byte) (isite tmpi : Z) (sites : list Z) : list Z :=
  match s with
  | [] => []
  | site :: t =>
      if isgapb site then refsites_loop t (isite + 1) tmpi sites
      else
        let tmpi' := tmpi + 1 in
        (if Zmem tmpi' sites then [isite] else []) ++ refsites_loop t (isite + 1) tmpi' sites
  end.

Definition ref_sites (rs : rows) (name : list byte) (sites : list Z) : option (list Z) :=
  match get_seq name rs with
  | None => None
  | Some s =>
      let reflen := Z.of_nat (length (ungapb s)) in
      if forallb (fun x => negb (x <? 0) && negb (x >=? reflen)) sites
      then Some (refsites_loop s 0 (-1) sites) else None
  end.

(* ---- Concat ----------------------------------------------------------------------- *)
Definition gaps (n : Z) : list byte := repeat GAP (Z.to_nat n).

Fixpoint append_to (name add : list byte) (rs : rows) : rows :=
  match rs with
  | [] => []
  | (n, s) :: t => if bytes_eqb n name then (n, s ++ add) :: t else (n, s) :: append_to name add t
  end.

Definition has_name (n : list byte) (rs : rows) : bool :=
  match get_seq n rs with Some _ => true | None => false end.

Fixpoint concat_step2 (a : rows) (alen0 : Z) (c : rows) : rows :=
  match c with
  | [] => a
  | (n, s) :: t =>
      let a' := if has_name n a then a else a ++ [(n, gaps alen0)] in
      concat_step2 (append_to n s a') alen0 t
  end.

(* result rows and error flag; names are pairwise distinct in [a] and in [c] *)
Definition concat (aalpha calpha : Z) (a c : rows) : rows * bool :=
  if negb (Z.eqb aalpha calpha) then (a, false)
  else
    let al := Z.max 0 (alen a) in
    let cl := Z.max 0 (alen c) in
    let a1 := map (fun r => if has_name (fst r) c then r else (fst r, snd r ++ gaps cl)) a in
    let a2 := concat_step2 a1 al c in
    (a2, rectangularb a2).

(* ---- partitions and Split -------------------------------------------------------------- *)
Record pset := { ps_names : list (list byte); ps_parts : list Z; ps_len : Z }.

Definition new_pset (L : Z) : pset := {| ps_names := []; ps_parts := repeat (-1) (Z.to_nat L); ps_len := L |}.

Fixpoint name_index (n : list byte) (l : list (list byte)) (k : Z) : option Z :=
  match l with
  | [] => None
  | x :: t => if bytes_eqb x n then Some k else name_index n t (k + 1)
  end.

Fixpoint set_nth {A} (i : nat) (v : A) (l : list A) : list A :=
  match l, i with
  | [], _ => []
  | _ :: t, O => v :: t
  | x :: t, S i' => x :: set_nth i' v t
  end.

Fixpoint addrange_loop (fuel : nat) (parts : list Z) (i e m idx : Z) : list Z * bool :=
  match fuel with
  | O => (parts, true)
  | S f =>
      if i >? e then (parts, true)
      else if negb (Z.eqb (nth (Z.to_nat i) parts (-1)) (-1)) then (parts, false)
      else addrange_loop f (set_nth (Z.to_nat i) idx parts) (i + m) e m idx
  end.

Definition add_range (ps : pset) (pname : list byte) (start e modulo : Z) : pset * bool :=
  if start <? 0 then (ps, false)
  else if e >=? ps_len ps then (ps, false)
  else if modulo <=? 0 then (ps, false)
  else
    let '(names', idx) :=
      match name_index pname (ps_names ps) 0 with
      | Some k => (ps_names ps, k)
      | None => (ps_names ps ++ [pname], Z.of_nat (length (ps_names ps)))
      end in
    let '(parts', ok) := addrange_loop (S (Z.to_nat (e - start))) (ps_parts ps) start e modulo idx in
    ({| ps_names := names'; ps_parts := parts'; ps_len := ps_len ps |}, ok).

(* a partition file: its ranges applied in order, stopping at the first refusal *)
Fixpoint add_ranges (ps : pset) (l : list (list byte * (Z * Z * Z))) : pset * bool :=
  match l with
  | [] => (ps, true)
  | (n, (s, e, m)) :: t =>
      let '(ps', ok) := add_range ps n s e m in
      if ok then add_ranges ps' t else (ps', false)
  end.

Definition positions_of (parts : list Z) (pi : Z) : list Z :=
  filter (fun i => Z.eqb (nth (Z.to_nat i) parts (-1)) pi) (zrange (Z.of_nat (length parts))).

Definition split (rs : rows) (ps : pset) : option (list rows) :=
  let np := Z.of_nat (length (ps_names ps)) in
  if np <=? 1 then None
  else if negb (Z.eqb (ps_len ps) (alen rs)) then None
  else Some (map (fun pi =>
                    let pos := positions_of (ps_parts ps) pi in
                    match pos with
                    | [] => []
                    | _ => map (fun r => (fst r, map (fun s => nth (Z.to_nat s) (snd r) x2d) pos)) rs
                    end) (zrange np)).

(* ---- Transpose / Diff ------------------------------------------------------------------------ *)
Definition transpose (rs : rows) : rows :=
  map (fun i => (dec_of_nat i, column rs i)) (seq 0 (Z.to_nat (alen rs))).

Fixpoint diff_row (first other : list byte) : list byte :=
  match first, other with
  | f :: ft, o :: ot => (if beqb f o then POINT else o) :: diff_row ft ot
  | _, _ => other
  end.

Definition diff_with_first (rs : rows) : rows :=
  match rs with
  | [] => []
  | r0 :: t => r0 :: map (fun r => (fst r, diff_row (snd r0) (snd r))) t
  end.

Fixpoint replace_match_row (ref s : list byte) : list byte :=
  match ref, s with
  | f :: ft, o :: ot => (if negb (beqb f POINT) && beqb o POINT then f else o) :: replace_match_row ft ot
  | _, _ => s
  end.

Definition replace_match_chars (rs : rows) : rows :=
  match rs with
  | [] => []
  | r0 :: t => r0 :: map (fun r => (fst r, replace_match_row (snd r0) (snd r))) t
  end.
