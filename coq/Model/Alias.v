(* CODE-MODEL of buffer ownership (C19): sequences are views (buffer, offset,
   length) into a heap of byte buffers.  Go: a []uint8 is such a view;
   make+copy / append to a fresh slice allocates, s[a:b] and storing the
   slice itself do not.  Copy-producing operations allocate; a few operations
   (Sample, RandSubAlign(consecutive), Append) deliberately share. *)
From Coq Require Import List Bool NArith ZArith Lia.
From Coq.Strings Require Import Byte.
Import ListNotations.
From GA.Base Require Import Bytes Align Dec.

Definition heap := list (list byte).

Record sobj := mkobj { s_name : list byte; s_buf : nat; s_off : nat; s_len : nat }.

Definition content (h : heap) (s : sobj) : list byte := firstn (s_len s) (skipn (s_off s) (nth (s_buf s) h [])).
Definition view (h : heap) (objs : list sobj) : rows := map (fun s => (s_name s, content h s)) objs.

Definition alloc (h : heap) (data : list byte) : heap * nat := (h ++ [data], length h).

Fixpoint set_nth {A} (k : nat) (x : A) (l : list A) : list A :=
  match l, k with
  | [], _ => []
  | _ :: t, O => x :: t
  | y :: t, S k' => y :: set_nth k' x t
  end.

(* seq.sequence[i] = b through the view *)
Definition write (h : heap) (s : sobj) (i : nat) (b : byte) : heap :=
  if Nat.ltb i (s_len s) then set_nth (s_buf s) (set_nth (s_off s + i) b (nth (s_buf s) h [])) h else h.

Definition write_all (h : heap) (s : sobj) (b : byte) : heap :=
  fold_left (fun h' i => write h' s i b) (seq 0 (s_len s)) h.

Definition write_all_objs (h : heap) (objs : list sobj) (b : byte) : heap :=
  fold_left (fun h' s => write_all h' s b) objs h.

(* build a container from rows: one fresh buffer per row (AddSequence(name, string)) *)
Fixpoint load (h : heap) (rs : rows) : heap * list sobj :=
  match rs with
  | [] => (h, [])
  | (n, s) :: t =>
      let '(h1, b) := alloc h s in
      let '(h2, objs) := load h1 t in
      (h2, mkobj n b 0 (length s) :: objs)
  end.

(* a copy: fresh buffer holding [data] *)
Definition fresh (h : heap) (n data : list byte) : heap * sobj :=
  let '(h1, b) := alloc h data in (h1, mkobj n b 0 (length data)).

Fixpoint fresh_all (h : heap) (l : list (list byte * list byte)) : heap * list sobj :=
  match l with
  | [] => (h, [])
  | (n, d) :: t => let '(h1, o) := fresh h n d in let '(h2, os) := fresh_all h1 t in (h2, o :: os)
  end.

Inductive aop :=
| AClone                                  (* Clone / CloneSeqBag: make + append *)
| ASubAlign (start len : nat)             (* make + copy *)
| ASelectSites (sites : list nat)
| ATranspose
| AFreshRows (rs : rows)                  (* BuildBootstrap, Unalign, Consensus: new buffers with the given content *)
| AViewWindow (start len : nat)           (* RandSubAlign(consecutive): seq[start:start+len] stored as is *)
| AViewRows (idx : list nat)              (* Sample: the sequences' own slices stored as is *)
| AQuery.                                 (* writers, statistics, distances, aligner, ORF search: no result object *)

Definition column_of (h : heap) (objs : list sobj) (j : nat) : list byte :=
  map (fun s => nth j (content h s) x2d) objs.

(* result objects and new heap *)
Definition apply_op (h : heap) (objs : list sobj) (op : aop) : heap * list sobj :=
  match op with
  | AClone => fresh_all h (view h objs)
  | ASubAlign st ln => fresh_all h (map (fun s => (s_name s, firstn ln (skipn st (content h s)))) objs)
  | ASelectSites sites => fresh_all h (map (fun s => (s_name s, map (fun j => nth j (content h s) x2d) sites)) objs)
  | ATranspose =>
      let L := match objs with [] => 0 | s :: _ => s_len s end in
      fresh_all h (map (fun j => (dec_of_nat j, column_of h objs j)) (seq 0 L))
  | AFreshRows rs => fresh_all h rs
  | AViewWindow st ln => (h, map (fun s => mkobj (s_name s) (s_buf s) (s_off s + st) ln) objs)
  | AViewRows idx => (h, map (fun k => nth k objs (mkobj [] 0 0 0)) idx)
  | AQuery => (h, [])
  end.

(* ---- the three experiments of the correspondence ---------------------------------------------- *)
Record experiment := mkexp {
  e_src_after_call : rows;             (* source read again after the call *)
  e_result : rows;
  e_src_after_result_mutated : rows;   (* every residue of the result overwritten with '#' *)
  e_result_after_src_mutated : rows    (* every residue of the source overwritten with '@' (on a fresh run) *)
}.

Definition run_experiment (rs : rows) (op : aop) : experiment :=
  let '(h0, src) := load [] rs in
  let '(h1, res) := apply_op h0 src op in
  let h2 := write_all_objs h1 res x23 in
  let h3 := write_all_objs h1 src x40 in
  mkexp (view h1 src) (view h1 res) (view h2 src) (view h3 res).
