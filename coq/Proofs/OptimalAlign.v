(* The aligner's reported score is the Gotoh optimum (the last step: from the filled matrices to align_pair). *)
From Coq Require Import List Bool NArith ZArith Lia.
From Coq.Strings Require Import Byte.
Import ListNotations.
From GA.Base Require Import Bytes Case Align.
From GA.Gen Require Import Subst Alpha.
From GA.Spec Require Import Local.
From GA.Model Require Import SW.
From GA.Proofs Require Import OptimalProofs.
Local Open Scope Z_scope.

(* for every scheme with open <= extend < 0 and every pair of sequences: the score reported by the code model is the
   optimum computed by the three-matrix Gotoh program of the specification (which dominates every valid local alignment
   and is attained by one: Proofs/GotohProofs.v) *)
Theorem align_pair_score_optimal sc s1 s2 r :
  sc_open sc <= sc_extend sc -> sc_extend sc < 0 -> NEG <= sc_open sc ->
  align_pair false sc s1 s2 = Some r ->
  r_score r = gotoh_best (sub_of sc (pick_matrix s1 s2)) (sc_open sc) (sc_extend sc) s1 s2.
Proof.
  intros Hoe He HN H. unfold align_pair, align_pair_with in H. set (which := pick_matrix s1 s2) in *.
  destruct s1 as [|a0 r1]; [discriminate|]. destruct s2 as [|b0 bt]; [discriminate|].
  destruct (all_some (map (char_pos which) (a0 :: r1))) as [p1|] eqn:E1; [|discriminate].
  destruct (all_some (map (char_pos which) (b0 :: bt))) as [p2|] eqn:E2; [|discriminate].
  apply all_some_combine in E1. apply all_some_combine in E2.
  rewrite E1, E2 in H.
  assert (Esc : mkscheme (sc_use_matrix sc) (sc_match sc) (sc_mismatch sc) (sc_open sc) (sc_extend sc) = sc) by (destruct sc; reflexivity).
  rewrite Esc in H.
  (* the filled matrices and the trace-back are named before the let-bindings are expanded *)
  set (F := fill sc which _ _) in H. cbv zeta in H. cbv iota beta in H.
  set (ST := backtrack _ _ _ _ _ _ _) in H.
  assert (Hr : forall x y : result, Some x = Some y -> r_score x = r_score y) by (intros x y E; injection E as ->; reflexivity).
  apply Hr in H. cbn [r_score] in H. rewrite <- H. unfold F.
  exact (fill_max_optimal sc which (posf_of which) Hoe He HN a0 r1 b0 bt).
Qed.

From GA.Proofs Require Import GotohProofs TracebackProofs.

(* ... and the reported score is attained: it is 0 or the score of some valid local alignment of the two sequences *)
Theorem align_pair_score_attained sc s1 s2 r :
  sc_open sc <= sc_extend sc -> sc_extend sc < 0 -> NEG <= sc_open sc ->
  align_pair false sc s1 s2 = Some r ->
  r_score r = 0 \/
  exists r1 r2 st1 st2 en1 en2, valid_alignment s1 s2 r1 r2 st1 st2 en1 en2 /\
    score_cols (sub_of sc (pick_matrix s1 s2)) (sc_open sc) (sc_extend sc) r1 r2 0 = r_score r.
Proof.
  intros Hoe He HN H. rewrite (align_pair_score_optimal sc s1 s2 r Hoe He HN H).
  assert (G : (forall b, In b s1 -> isgap b = false) /\ (forall b, In b s2 -> isgap b = false)).
  { unfold align_pair, align_pair_with in H. set (which := pick_matrix s1 s2) in *.
    destruct s1 as [|a0 r1]; [discriminate|]. destruct s2 as [|b0 bt]; [discriminate|].
    destruct (all_some (map (char_pos which) (a0 :: r1))) as [p1|] eqn:E1; [|discriminate].
    destruct (all_some (map (char_pos which) (b0 :: bt))) as [p2|] eqn:E2; [|discriminate].
    clear H. apply all_some_map in E1 as [_ G1]. apply all_some_map in E2 as [_ G2].
    split; [apply (char_pos_nogap which _ G1) | apply (char_pos_nogap which _ G2)]. }
  destruct G as [G1 G2].
  exact (gotoh_attained (sub_of sc (pick_matrix s1 s2)) (sc_open sc) (sc_extend sc) Hoe He s1 s2 G1 G2).
Qed.
