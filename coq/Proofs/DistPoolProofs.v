From Coq Require Import List Bool Arith Lia Permutation.
Import ListNotations.
From GA.Model Require Import DistPool.

Section Proofs.
  Variable V : Type.
  Variable dist : nat * nat -> V.
  Notation write_pair := (write_pair V dist).
  Notation process := (process V dist).

  Definition overlaps (p q : nat * nat) : Prop :=
    (fst p = fst q /\ snd p = snd q) \/ (fst p = snd q /\ snd p = fst q).

  (* two writes of non-overlapping pairs commute *)
  Lemma write_pair_comm m p q i j :
    ~ overlaps p q -> write_pair (write_pair m p) q i j = write_pair (write_pair m q) p i j.
  Proof.
    intros H. unfold write_pair.
    destruct (Nat.eqb_spec i (fst p)); destruct (Nat.eqb_spec j (snd p));
    destruct (Nat.eqb_spec i (snd p)); destruct (Nat.eqb_spec j (fst p));
    destruct (Nat.eqb_spec i (fst q)); destruct (Nat.eqb_spec j (snd q));
    destruct (Nat.eqb_spec i (snd q)); destruct (Nat.eqb_spec j (fst q)); simpl; try reflexivity;
    exfalso; apply H; unfold overlaps; subst; auto; lia.
  Qed.

  Definition pairwise_disjoint (l : list (nat * nat)) : Prop :=
    forall a b l1 l2 l3, l = l1 ++ a :: l2 ++ b :: l3 -> ~ overlaps a b.

  Lemma process_ext order : forall m m', (forall i j, m i j = m' i j) -> forall i j, process order m i j = process order m' i j.
  Proof.
    induction order as [|p t IH]; intros m m' H i j; simpl; [apply H|].
    apply IH. intros i' j'. unfold write_pair. rewrite H. reflexivity.
  Qed.

  (* the value of a cell after processing: the distance of the (unique) pair that owns it *)
  Lemma process_cell order : forall m i j,
    (forall a b, In a order -> In b order -> overlaps a b -> a = b) ->
    process order m i j =
      match find (fun p => (Nat.eqb i (fst p) && Nat.eqb j (snd p)) || (Nat.eqb i (snd p) && Nat.eqb j (fst p))) order with
      | Some p => Some (dist p)
      | None => m i j
      end.
  Proof.
    induction order as [|p t IH]; intros m i j Huniq; simpl; [reflexivity|].
    rewrite IH by (intros a b Ha Hb; apply Huniq; right; assumption).
    destruct ((Nat.eqb i (fst p) && Nat.eqb j (snd p)) || (Nat.eqb i (snd p) && Nat.eqb j (fst p))) eqn:E.
    - (* p owns the cell; no later pair may own it too unless it is p itself *)
      destruct (find _ t) as [q|] eqn:F.
      + apply find_some in F as [Hq Eq].
        assert (overlaps p q).
        { unfold overlaps.
          apply orb_true_iff in E as [E|E]; apply andb_true_iff in E as [E1 E2];
          apply orb_true_iff in Eq as [Eq|Eq]; apply andb_true_iff in Eq as [Q1 Q2];
          apply Nat.eqb_eq in E1, E2, Q1, Q2; subst; [left|right|right|left]; auto; split; congruence. }
        rewrite (Huniq p q (or_introl eq_refl) (or_intror Hq) H). reflexivity.
      + unfold write_pair. rewrite E. reflexivity.
    - destruct (find _ t); [reflexivity|]. unfold write_pair. rewrite E. reflexivity.
  Qed.

  (* schedule independence: any two orders of the same pairs give the same matrix *)
  Theorem schedule_independent order order' m :
    Permutation order order' ->
    (forall a b, In a order -> In b order -> overlaps a b -> a = b) ->
    forall i j, process order m i j = process order' m i j.
  Proof.
    intros Hp Huniq i j.
    assert (Huniq' : forall a b, In a order' -> In b order' -> overlaps a b -> a = b).
    { intros a b Ha Hb. apply Huniq; eapply Permutation_in; try apply Permutation_sym; eauto. }
    rewrite !process_cell by assumption.
    set (f := fun p : nat * nat => (Nat.eqb i (fst p) && Nat.eqb j (snd p)) || (Nat.eqb i (snd p) && Nat.eqb j (fst p))).
    destruct (find f order) as [p|] eqn:F; destruct (find f order') as [q|] eqn:F'.
    - apply find_some in F as [Hp1 Ep]. apply find_some in F' as [Hq1 Eq].
      assert (Hq2 : In q order) by (eapply Permutation_in; [apply Permutation_sym; exact Hp | exact Hq1]).
      assert (overlaps p q).
      { unfold overlaps, f in *.
        apply orb_true_iff in Ep as [E|E]; apply andb_true_iff in E as [E1 E2];
        apply orb_true_iff in Eq as [Eq|Eq]; apply andb_true_iff in Eq as [Q1 Q2];
        apply Nat.eqb_eq in E1, E2, Q1, Q2; subst; [left|right|right|left]; auto; split; congruence. }
      rewrite (Huniq p q Hp1 Hq2 H). reflexivity.
    - apply find_some in F as [Hp1 Ep]. exfalso.
      assert (In p order') by (eapply Permutation_in; eauto).
      pose proof (find_none f order' F' p H) as N. congruence.
    - apply find_some in F' as [Hq1 Eq]. exfalso.
      assert (In q order) by (eapply Permutation_in; [apply Permutation_sym; exact Hp | exact Hq1]).
      pose proof (find_none f order F q H) as N. congruence.
    - reflexivity.
  Qed.

  (* every produced pair is computed: symmetric matrix *)
  Lemma process_symmetric order m i j :
    (forall a b, In a order -> In b order -> overlaps a b -> a = b) ->
    (forall i j, m i j = m j i) -> process order m i j = process order m j i.
  Proof.
    intros Huniq Hs. rewrite !process_cell by assumption.
    set (f := fun p : nat * nat => (Nat.eqb i (fst p) && Nat.eqb j (snd p)) || (Nat.eqb i (snd p) && Nat.eqb j (fst p))).
    set (g := fun p : nat * nat => (Nat.eqb j (fst p) && Nat.eqb i (snd p)) || (Nat.eqb j (snd p) && Nat.eqb i (fst p))).
    assert (E : forall p, f p = g p).
    { intros p; unfold f, g. rewrite orb_comm, (andb_comm (Nat.eqb i (snd p))), (andb_comm (Nat.eqb i (fst p))). reflexivity. }
    assert (E2 : find f order = find g order).
    { clear -E. induction order as [|p t IH]; simpl; [reflexivity|]. rewrite E, IH. reflexivity. }
    rewrite E2. destruct (find g order); [reflexivity | apply Hs].
  Qed.
End Proofs.
