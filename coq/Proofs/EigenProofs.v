(* General theorems about the assembly P(t) = R exp(D t) L of models/model.go
   SetLength, for any number of states and any eigen system: they reduce the
   Markov laws of every eigen-decomposition based model (F81, F84, TN93, GTR,
   protein) to algebraic conditions on (val, L, R), which the correspondence
   checks on the eigen systems the implementation returns. *)
From Coq Require Import Reals List Arith Lia Lra.
Import ListNotations.
Local Open Scope R_scope.

Definition sum (n : nat) (f : nat -> R) : R := fold_right (fun k acc => f k + acc) 0 (seq 0 n).

Lemma sum_seq_ext a n f g : (forall k, (a <= k < a + n)%nat -> f k = g k) ->
  fold_right (fun k acc => f k + acc) 0 (seq a n) = fold_right (fun k acc => g k + acc) 0 (seq a n).
Proof.
  revert a; induction n as [|n IH]; intros a H; cbn [seq fold_right]; [reflexivity|].
  rewrite (H a) by lia. f_equal. apply IH. intros k Hk. apply H. lia.
Qed.

Lemma sum_ext n f g : (forall k, (k < n)%nat -> f k = g k) -> sum n f = sum n g.
Proof. intros H. apply sum_seq_ext. intros k Hk. apply H. lia. Qed.

Lemma sum_seq_scal a n c f :
  fold_right (fun k acc => c * f k + acc) 0 (seq a n) = c * fold_right (fun k acc => f k + acc) 0 (seq a n).
Proof. revert a; induction n as [|n IH]; intros a; cbn [seq fold_right]; [lra|]. rewrite IH. lra. Qed.

Lemma sum_scal_l n c f : sum n (fun k => c * f k) = c * sum n f.
Proof. apply sum_seq_scal. Qed.

Lemma sum_scal_r n c f : sum n (fun k => f k * c) = sum n f * c.
Proof.
  rewrite (sum_ext n (fun k => f k * c) (fun k => c * f k)) by (intros; lra).
  rewrite sum_scal_l. lra.
Qed.

Lemma sum_seq_plus a n f g :
  fold_right (fun k acc => (f k + g k) + acc) 0 (seq a n) =
  fold_right (fun k acc => f k + acc) 0 (seq a n) + fold_right (fun k acc => g k + acc) 0 (seq a n).
Proof. revert a; induction n as [|n IH]; intros a; cbn [seq fold_right]; [lra|]. rewrite IH. lra. Qed.

Lemma sum_zero_seq a n : fold_right (fun k acc => 0 + acc) 0 (seq a n) = 0.
Proof. revert a; induction n as [|n IH]; intros a; cbn [seq fold_right]; [reflexivity|]. rewrite IH. lra. Qed.

Lemma sum_swap_seq a n b m (f : nat -> nat -> R) :
  fold_right (fun i acc => fold_right (fun j acc' => f i j + acc') 0 (seq b m) + acc) 0 (seq a n) =
  fold_right (fun j acc => fold_right (fun i acc' => f i j + acc') 0 (seq a n) + acc) 0 (seq b m).
Proof.
  revert a; induction n as [|n IH]; intros a; cbn [seq fold_right].
  - symmetry. apply sum_zero_seq.
  - rewrite IH. rewrite <- sum_seq_plus. reflexivity.
Qed.

Lemma sum_swap n m f : sum n (fun i => sum m (fun j => f i j)) = sum m (fun j => sum n (fun i => f i j)).
Proof. apply sum_swap_seq. Qed.

Definition delta (i j : nat) : R := if Nat.eqb i j then 1 else 0.

Lemma sum_delta_seq a n k0 f : (a <= k0 < a + n)%nat ->
  fold_right (fun k acc => delta k k0 * f k + acc) 0 (seq a n) = f k0.
Proof.
  revert a; induction n as [|n IH]; intros a H; [lia|]. cbn [seq fold_right]. unfold delta at 1.
  destruct (Nat.eqb_spec a k0) as [->|Hne].
  - rewrite (sum_seq_ext (S k0) n (fun k => delta k k0 * f k) (fun _ => 0)).
    + rewrite sum_zero_seq. lra.
    + intros k Hk. unfold delta. destruct (Nat.eqb_spec k k0); [lia | lra].
  - rewrite IH by lia. lra.
Qed.

Lemma sum_delta n k0 f : (k0 < n)%nat -> sum n (fun k => delta k k0 * f k) = f k0.
Proof. intros H. apply sum_delta_seq. lia. Qed.

Section Eigen.
  Variable n : nat.
  Variable val : nat -> R.
  Variables Lm Rm : nat -> nat -> R.     (* left (rows) and right (columns) eigenvectors *)

  (* SetLength: pij[i][j] = sum_k right[i][k] * exp(val[k] * l) * left[k][j] *)
  Definition P (l : R) (i j : nat) : R := sum n (fun k => Rm i k * exp (val k * l) * Lm k j).

  Hypothesis LR : forall k k', (k < n)%nat -> (k' < n)%nat -> sum n (fun m => Lm k m * Rm m k') = delta k k'.
  Hypothesis RL : forall i j, (i < n)%nat -> (j < n)%nat -> sum n (fun k => Rm i k * Lm k j) = delta i j.

  Theorem eigen_P0 i j : (i < n)%nat -> (j < n)%nat -> P 0 i j = delta i j.
  Proof.
    intros Hi Hj. unfold P. rewrite <- (RL i j Hi Hj). apply sum_ext. intros k _.
    rewrite Rmult_0_r, exp_0. lra.
  Qed.

  (* Chapman-Kolmogorov *)
  Theorem eigen_semigroup s t i j : (i < n)%nat -> (j < n)%nat ->
    P (s + t) i j = sum n (fun m => P s i m * P t m j).
  Proof.
    intros Hi Hj. unfold P.
    (* right-hand side: sum_m (sum_k a_k L_km) (sum_k' R_mk' b_k') *)
    transitivity (sum n (fun k => sum n (fun k' => Rm i k * exp (val k * s) * delta k k' * (exp (val k' * t) * Lm k' j)))).
    - apply sum_ext. intros k Hk.
      rewrite (sum_ext n _ (fun k' => delta k' k * (Rm i k * exp (val k * s) * (exp (val k' * t) * Lm k' j)))).
      + rewrite sum_delta by exact Hk. rewrite Rmult_plus_distr_l, exp_plus. lra.
      + intros k' _. unfold delta. rewrite (Nat.eqb_sym k' k). lra.
    - transitivity (sum n (fun k => sum n (fun k' => sum n (fun m =>
                      Rm i k * exp (val k * s) * Lm k m * (Rm m k' * exp (val k' * t) * Lm k' j))))).
      + apply sum_ext. intros k Hk. apply sum_ext. intros k' Hk'.
        rewrite <- (LR k k' Hk Hk').
        rewrite <- sum_scal_l. rewrite <- sum_scal_r. apply sum_ext. intros m _. lra.
      + rewrite (sum_ext n _ (fun k => sum n (fun m => sum n (fun k' =>
                      Rm i k * exp (val k * s) * Lm k m * (Rm m k' * exp (val k' * t) * Lm k' j)))))
          by (intros; apply sum_swap).
        rewrite sum_swap. apply sum_ext. intros m _.
        rewrite <- sum_scal_r. apply sum_ext. intros k _.
        rewrite <- sum_scal_l. reflexivity.
  Qed.

  (* rows sum to one when the non-stationary left eigenvectors sum to zero *)
  Hypothesis Lsum : forall k, (k < n)%nat -> val k <> 0 -> sum n (fun j => Lm k j) = 0.

  Theorem eigen_row_sum l i : (i < n)%nat -> sum n (fun j => P l i j) = 1.
  Proof.
    intros Hi. unfold P. rewrite sum_swap.
    transitivity (sum n (fun k => Rm i k * sum n (fun j => Lm k j))).
    - apply sum_ext. intros k Hk.
      rewrite sum_scal_l.
      destruct (Req_dec (val k) 0) as [E|E].
      + rewrite E, Rmult_0_l, exp_0, Rmult_1_r. reflexivity.
      + change (sum n (Lm k)) with (sum n (fun j => Lm k j)). rewrite (Lsum k Hk E). ring.
    - transitivity (sum n (fun j => sum n (fun k => Rm i k * Lm k j))).
      + rewrite sum_swap. apply sum_ext. intros k _. rewrite sum_scal_l. reflexivity.
      + rewrite (sum_ext n _ (fun j => delta j i * 1)).
        * apply (sum_delta n i (fun _ => 1)). exact Hi.
        * intros j Hj. rewrite (RL i j Hi Hj). unfold delta. rewrite (Nat.eqb_sym j i). lra.
  Qed.

  (* detailed balance when the left eigenvectors are the pi-weighted right ones *)
  Variable pi : nat -> R.
  Variable c : nat -> R.
  Hypothesis Lpi : forall k j, (k < n)%nat -> (j < n)%nat -> Lm k j = c k * pi j * Rm j k.

  Theorem eigen_detailed_balance l i j : (i < n)%nat -> (j < n)%nat -> pi i * P l i j = pi j * P l j i.
  Proof.
    intros Hi Hj. unfold P. rewrite <- !sum_scal_l. apply sum_ext. intros k Hk.
    rewrite (Lpi k j Hk Hj), (Lpi k i Hk Hi). lra.
  Qed.

  (* convergence: when one eigenvalue is 0 and the others negative, every term but the
     stationary one vanishes; stated for the distance of each entry *)
  Theorem eigen_entry_bound l i j : 0 <= l -> (forall k, (k < n)%nat -> val k <= 0) ->
    Rabs (P l i j) <= sum n (fun k => Rabs (Rm i k * Lm k j)).
  Proof.
    intros Hl Hv. unfold P, sum.
    generalize (seq 0 n) (fun k (H : In k (seq 0 n)) => proj2 (proj1 (in_seq n 0 k) H)).
    intros ks Hks. induction ks as [|k ks IH]; cbn [fold_right].
    - rewrite Rabs_R0. lra.
    - eapply Rle_trans; [apply Rabs_triang|]. apply Rplus_le_compat.
      + replace (Rm i k * exp (val k * l) * Lm k j) with (exp (val k * l) * (Rm i k * Lm k j)) by lra.
        rewrite Rabs_mult. rewrite (Rabs_pos_eq (exp _)) by (left; apply exp_pos).
        assert (E : exp (val k * l) <= 1).
        { rewrite <- exp_0. destruct (Req_dec (val k * l) 0) as [->|N]; [lra|].
          left. apply exp_increasing. assert (val k <= 0) by (apply Hv, Hks; left; reflexivity). nra. }
        pose proof (Rabs_pos (Rm i k * Lm k j)). nra.
      + apply IH. intros k' Hk'. apply Hks. right. exact Hk'.
  Qed.
End Eigen.

(* ---- convergence ------------------------------------------------------------------------------------ *)
From Coquelicot Require Import Coquelicot.

Lemma is_lim_exp_neg v : v < 0 -> is_lim (fun t => exp (v * t)) p_infty 0.
Proof.
  intros Hv.
  apply (is_lim_comp exp (fun t => v * t) p_infty 0 m_infty).
  - apply is_lim_exp_m.
  - replace m_infty with (Rbar_mult (Finite v) p_infty).
    + apply is_lim_scal_l. apply is_lim_id.
    + unfold Rbar_mult, Rbar_mult'. destruct (Rle_dec 0 v) as [H|H]; [exfalso; lra | reflexivity].
  - exists 0. intros y _. discriminate.
Qed.

Lemma is_lim_sum_terms (ks : list nat) (c : nat -> R) (v : nat -> R) :
  (forall k, In k ks -> v k <= 0) ->
  is_lim (fun t => fold_right (fun k acc => c k * exp (v k * t) + acc) 0 ks) p_infty
         (fold_right (fun k acc => (if Req_EM_T (v k) 0 then c k else 0) + acc) 0 ks).
Proof.
  induction ks as [|k ks IH]; intros Hv; cbn [fold_right].
  - apply is_lim_const.
  - apply (is_lim_plus _ _ p_infty (if Req_EM_T (v k) 0 then c k else 0)
                                   (fold_right (fun k acc => (if Req_EM_T (v k) 0 then c k else 0) + acc) 0 ks)).
    + destruct (Req_EM_T (v k) 0) as [E|E].
      * apply (is_lim_ext (fun _ => c k)); [intros t; rewrite E, Rmult_0_l, exp_0; lra | apply is_lim_const].
      * replace (Finite 0) with (Rbar_mult (Finite (c k)) (Finite 0)) by (cbn; f_equal; lra).
        apply is_lim_scal_l. apply is_lim_exp_neg.
        assert (v k <= 0) by (apply Hv; left; reflexivity). lra.
    + apply IH. intros k' Hk'. apply Hv. right. exact Hk'.
    + destruct (Req_EM_T (v k) 0); reflexivity.
Qed.

(* P(t) converges, as t grows, to the part of R L carried by the zero eigen values *)
Theorem eigen_converges n val Lm Rm i j :
  (forall k, (k < n)%nat -> val k <= 0) ->
  is_lim (fun t => P n val Lm Rm t i j) p_infty
         (sum n (fun k => if Req_EM_T (val k) 0 then Rm i k * Lm k j else 0)).
Proof.
  intros Hv. unfold P, sum.
  apply (is_lim_ext (fun t => fold_right (fun k acc => (Rm i k * Lm k j) * exp (val k * t) + acc) 0 (seq 0 n))).
  - intros t. apply sum_seq_ext. intros k _. ring.
  - apply (is_lim_sum_terms (seq 0 n) (fun k => Rm i k * Lm k j) val).
    intros k Hk. apply Hv. apply in_seq in Hk. lia.
Qed.

(* in particular: with a single zero eigen value k0 whose right eigen vector is the vector of ones and
   whose left eigen vector is pi, every row of P(t) converges to pi *)
Corollary eigen_converges_to_stationary n val Lm Rm pi k0 i j :
  (k0 < n)%nat -> val k0 = 0 -> (forall k, (k < n)%nat -> k <> k0 -> val k < 0) ->
  Rm i k0 = 1 -> Lm k0 j = pi j ->
  is_lim (fun t => P n val Lm Rm t i j) p_infty (pi j).
Proof.
  intros Hk0 Hz Hneg HR HL.
  replace (Finite (pi j)) with (Finite (sum n (fun k => if Req_EM_T (val k) 0 then Rm i k * Lm k j else 0))).
  - apply eigen_converges. intros k Hk. destruct (Nat.eq_dec k k0) as [->|Hne]; [lra|]. left. apply Hneg; assumption.
  - f_equal. rewrite (sum_ext n _ (fun k => delta k k0 * (Rm i k * Lm k j))).
    + rewrite sum_delta by exact Hk0. rewrite HR, HL. lra.
    + intros k Hk. unfold delta. destruct (Nat.eqb_spec k k0) as [->|Hne].
      * destruct (Req_EM_T (val k0) 0); [lra | contradiction].
      * destruct (Req_EM_T (val k) 0) as [E|E]; [|lra]. specialize (Hneg k Hk Hne). lra.
Qed.
