(* Relational properties of the pairwise counter (C08): it is a sum over the
   alignment columns, hence invariant under column permutation, linear in
   replication and in integer weights. *)
From Coq Require Import List Bool ZArith QArith Lia Permutation Setoid.
Import ListNotations.
From GA.Model Require Import DnaCount.
Local Open Scope Q_scope.

(* one column of a pair: codes of the two rows, selected flag, weight *)
Definition col := (Z * Z * bool * Q)%type.

Definition contrib (rm : bool) (c : col) : Q * Q :=
  let '(a, b, s, w) := c in
  if is_nuc a && is_nuc b && s then
    let diff := if Z.eqb a b then 0 else iupac_diff a b in
    (diff * w, if negb (Qeq_bool diff 0 && rm && (is_ambiguous a || is_ambiguous b)) then w else 0)
  else (0, 0).

Definition sum_d (rm : bool) (l : list col) : Q := fold_right (fun c acc => fst (contrib rm c) + acc) 0 l.
Definition sum_t (rm : bool) (l : list col) : Q := fold_right (fun c acc => snd (contrib rm c) + acc) 0 l.

Fixpoint zip_cols (i : nat) (s1 s2 : list Z) (sel : list bool) (ws : option (list Q)) : list col :=
  match s1, s2 with
  | a :: t1, b :: t2 => (a, b, nth i sel false, weight_at ws i) :: zip_cols (S i) t1 t2 sel ws
  | _, _ => []
  end.

(* the code's loop is this sum over columns *)
Lemma count_diffs_is_sum i s1 s2 sel ws rm :
  fst (count_diffs_from i s1 s2 sel ws rm) == sum_d rm (zip_cols i s1 s2 sel ws) /\
  snd (count_diffs_from i s1 s2 sel ws rm) == sum_t rm (zip_cols i s1 s2 sel ws).
Proof.
  revert i s2. induction s1 as [|a t1 IH]; intros i [|b t2]; simpl; try (split; reflexivity).
  specialize (IH (S i) t2). destruct (count_diffs_from (S i) t1 t2 sel ws rm) as [d t]. simpl in IH. destruct IH as [H1 H2].
  unfold contrib. destruct (is_nuc a && is_nuc b && nth i sel false); simpl.
  - destruct (negb _); simpl; split; rewrite ?H1, ?H2; ring.
  - split; rewrite ?H1, ?H2; ring.
Qed.

Lemma sum_d_perm rm l l' : Permutation l l' -> sum_d rm l == sum_d rm l'.
Proof.
  induction 1 as [|x l l' _ IH|x y l|l l' l'' _ IH1 _ IH2]; simpl; try reflexivity.
  - rewrite IH. reflexivity.
  - ring.
  - rewrite IH1. exact IH2.
Qed.
Lemma sum_t_perm rm l l' : Permutation l l' -> sum_t rm l == sum_t rm l'.
Proof.
  induction 1 as [|x l l' _ IH|x y l|l l' l'' _ IH1 _ IH2]; simpl; try reflexivity.
  - rewrite IH. reflexivity.
  - ring.
  - rewrite IH1. exact IH2.
Qed.

(* column order does not matter *)
Theorem columns_permutation_invariant rm l l' :
  Permutation l l' -> sum_d rm l == sum_d rm l' /\ sum_t rm l == sum_t rm l'.
Proof. intros H. split; [apply sum_d_perm | apply sum_t_perm]; exact H. Qed.

Lemma sum_d_app rm l1 l2 : sum_d rm (l1 ++ l2) == sum_d rm l1 + sum_d rm l2.
Proof. induction l1 as [|x t IH]; simpl; [ring | rewrite IH; ring]. Qed.
Lemma sum_t_app rm l1 l2 : sum_t rm (l1 ++ l2) == sum_t rm l1 + sum_t rm l2.
Proof. induction l1 as [|x t IH]; simpl; [ring | rewrite IH; ring]. Qed.

Fixpoint replicate {A} (k : nat) (l : list A) : list A := match k with O => [] | S k' => l ++ replicate k' l end.

(* replicating every column k times multiplies both sums by k: raw distances
   scale linearly, normalised ones (their ratio) are unchanged *)
Theorem replication_scales rm l k :
  sum_d rm (replicate k l) == inject_Z (Z.of_nat k) * sum_d rm l /\
  sum_t rm (replicate k l) == inject_Z (Z.of_nat k) * sum_t rm l.
Proof.
  induction k as [|k [IH1 IH2]]; [simpl; split; ring|].
  cbn [replicate]. rewrite sum_d_app, sum_t_app, IH1, IH2.
  rewrite Nat2Z.inj_succ. unfold Z.succ. rewrite inject_Z_plus. split; ring.
Qed.

Definition scale_w (k : Q) (c : col) : col := let '(a, b, s, w) := c in (a, b, s, k * w).

(* an integer weight k is the same as k copies *)
Theorem weight_is_replication rm l k :
  sum_d rm (map (scale_w (inject_Z (Z.of_nat k))) l) == sum_d rm (replicate k l) /\
  sum_t rm (map (scale_w (inject_Z (Z.of_nat k))) l) == sum_t rm (replicate k l).
Proof.
  destruct (replication_scales rm l k) as [R1 R2]. rewrite R1, R2. clear R1 R2.
  induction l as [|[[[a b] s] w] t [IH1 IH2]]; [simpl; split; ring|].
  cbn [map sum_d sum_t fold_right]. fold (sum_d rm (map (scale_w (inject_Z (Z.of_nat k))) t)).
  fold (sum_t rm (map (scale_w (inject_Z (Z.of_nat k))) t)). fold (sum_d rm t). fold (sum_t rm t).
  rewrite IH1, IH2. unfold scale_w, contrib.
  destruct (is_nuc a && is_nuc b && s); simpl; [|split; ring].
  destruct (negb _); simpl; split; ring.
Qed.

(* explicit unit weights are no weights *)
Theorem unit_weights n i : weight_at (Some (repeat 1 n)) i == weight_at None i.
Proof.
  unfold weight_at. destruct (Nat.lt_ge_cases i n) as [H|H].
  - assert (G : forall n i, nth i (repeat 1 n) 1 = 1) by (induction n0; destruct i0; simpl; auto). rewrite G. reflexivity.
  - rewrite nth_overflow by (rewrite repeat_length; exact H). reflexivity.
Qed.
