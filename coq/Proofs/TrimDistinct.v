(* align/seqbag.go TrimNames: rows with pairwise distinct names receive pairwise distinct short names, whenever
   the caller's map hands out no short name twice (e.g. an empty map, or a map filled by earlier calls) *)
From Coq Require Import List Bool NArith ZArith Lia.
From Coq.Strings Require Import Byte.
Import ListNotations.
From GA.Base Require Import Bytes Case Align Dec.
From GA.Model Require Import Container.
From GA.Proofs Require Import ContainerProofs.

Lemma mem_bytes_In x l : mem_bytes x l = true <-> In x l.
Proof.
  unfold mem_bytes. rewrite existsb_exists. split.
  - intros [y [Hy E]]. apply bytes_eqb_eq in E. subst. exact Hy.
  - intros H. exists x. split; [exact H | apply bytes_eqb_refl].
Qed.

Lemma find_id_fresh base short : forall fuel id r,
  find_id fuel base short id = Some r -> ~ In (base ++ padk 2 (N.of_nat r)) short.
Proof.
  induction fuel as [|f IH]; intros id r H; cbn [find_id] in H; [discriminate|].
  destruct (mem_bytes (base ++ padk 2 (N.of_nat id)) short) eqn:Hm.
  - destruct (Nat.leb 99 id); [discriminate | apply IH in H; exact H].
  - inversion H; subst. intros Hin. apply mem_bytes_In in Hin. congruence.
Qed.

Lemma lassoc_In {A} k : forall (l : list (list byte * A)) v, lassoc k l = Some v -> In (k, v) l.
Proof.
  induction l as [|[k' w] t IH]; intros v H; cbn in H; [discriminate|].
  destruct (bytes_eqb k k') eqn:E.
  - apply bytes_eqb_eq in E. inversion H; subst. left; reflexivity.
  - right. apply IH. exact H.
Qed.

Lemma nodup_values_inj {A} : forall (l : list (list byte * A)) k1 k2 v,
  NoDup (map snd l) -> In (k1, v) l -> In (k2, v) l -> k1 = k2.
Proof.
  induction l as [|[k w] t IH]; intros k1 k2 v Hnd H1 H2; [contradiction|].
  cbn in Hnd. inversion Hnd as [|? ? Hn Ht]; subst.
  destruct H1 as [E1|H1], H2 as [E2|H2].
  - congruence.
  - inversion E1; subst. exfalso. apply Hn. apply in_map_iff. exists (k2, v). split; [reflexivity|exact H2].
  - inversion E2; subst. exfalso. apply Hn. apply in_map_iff. exists (k1, v). split; [reflexivity|exact H1].
  - exact (IH k1 k2 v Ht H1 H2).
Qed.

Lemma NoDup_app_one {A} (l : list A) x : NoDup l -> ~ In x l -> NoDup (l ++ [x]).
Proof.
  induction l as [|y t IH]; intros Hn Hx; cbn; [constructor; [intros []|constructor]|].
  inversion Hn as [|? ? Hy Ht]; subst. constructor.
  - intros Hin. apply in_app_or in Hin as [Hin|[E|[]]]; [exact (Hy Hin)|]. subst. apply Hx. left; reflexivity.
  - apply IH; [exact Ht|]. intros Hin. apply Hx. right; exact Hin.
Qed.

Lemma trim_names_distinct_gen : forall objs m short k nn,
  trim_names objs m short k = Some nn ->
  NoDup (map oname objs) -> NoDup (map snd m) -> incl (map snd m) short ->
  length nn = length objs /\ NoDup nn /\
  (forall x, In x nn -> (exists key, In key (map oname objs) /\ lassoc key m = Some x) \/ ~ In x short).
Proof.
  induction objs as [|o t IH]; intros m short k nn H Hnd Hv Hincl.
  - cbn in H. inversion H; subst. split; [reflexivity|]. split; [constructor | intros x []].
  - cbn [trim_names] in H. cbn [map] in Hnd. inversion Hnd as [|? ? Hno Hnt]; subst.
    destruct (lassoc (oname o) m) as [v|] eqn:Hl.
    + destruct (trim_names t m short k) as [nt|] eqn:Ht; [|discriminate]. cbn in H. inversion H; subst.
      destruct (IH m short k nt Ht Hnt Hv Hincl) as [Hlen [Hndt Hcl]].
      split; [cbn; lia|]. split.
      * constructor; [|exact Hndt]. intros Hin. destruct (Hcl v Hin) as [[key [Hk Hlk]]|Hns].
        -- apply lassoc_In in Hl. apply lassoc_In in Hlk.
           pose proof (nodup_values_inj m _ _ _ Hv Hl Hlk) as E. subst key. exact (Hno Hk).
        -- apply Hns. apply Hincl. apply lassoc_In in Hl. apply in_map_iff. exists (oname o, v). split; [reflexivity|exact Hl].
      * intros x [<-|Hx].
        -- left. exists (oname o). split; [left; reflexivity | exact Hl].
        -- destruct (Hcl x Hx) as [[key [Hk Hlk]]|Hns]; [left; exists key; split; [right; exact Hk|exact Hlk] | right; exact Hns].
    + destruct (find_id 100 (short_base (oname o) k) short 1) as [id|] eqn:Hf; [|discriminate].
      set (n0 := short_base (oname o) k ++ padk 2 (N.of_nat id)) in *.
      destruct (trim_names t (m ++ [(oname o, n0)]) (n0 :: short) k) as [nt|] eqn:Ht; [|discriminate].
      cbn in H. inversion H; subst.
      pose proof (find_id_fresh _ _ _ _ _ Hf) as Hfresh. fold n0 in Hfresh.
      assert (Hv' : NoDup (map snd (m ++ [(oname o, n0)]))).
      { rewrite map_app. cbn. apply NoDup_app_one; [exact Hv|]. intros Hin. apply Hfresh. apply Hincl. exact Hin. }
      assert (Hincl' : incl (map snd (m ++ [(oname o, n0)])) (n0 :: short)).
      { rewrite map_app. cbn. intros x Hx. apply in_app_or in Hx as [Hx|[<-|[]]]; [right; apply Hincl; exact Hx | left; reflexivity]. }
      destruct (IH _ _ k nt Ht Hnt Hv' Hincl') as [Hlen [Hndt Hcl]].
      assert (Hkey : forall key x, In key (map oname t) -> lassoc key (m ++ [(oname o, n0)]) = Some x -> lassoc key m = Some x).
      { intros key x Hk Hlk. destruct (lassoc key m) as [w|] eqn:Hm.
        - rewrite (lassoc_app_some _ _ _ _ Hm) in Hlk. exact Hlk.
        - rewrite (lassoc_app_none _ _ _ Hm) in Hlk. cbn in Hlk.
          destruct (bytes_eqb key (oname o)) eqn:E; [|discriminate].
          apply bytes_eqb_eq in E. subst key. contradiction. }
      split; [cbn; lia|]. split.
      * constructor; [|exact Hndt]. intros Hin. destruct (Hcl n0 Hin) as [[key [Hk Hlk]]|Hns].
        -- apply Hkey in Hlk; [|exact Hk]. apply Hfresh. apply Hincl. apply lassoc_In in Hlk.
           apply in_map_iff. exists (key, n0). split; [reflexivity|exact Hlk].
        -- apply Hns. left; reflexivity.
      * intros x [<-|Hx]; [right; exact Hfresh|].
        destruct (Hcl x Hx) as [[key [Hk Hlk]]|Hns].
        -- left. exists key. split; [right; exact Hk | apply Hkey; assumption].
        -- right. intros Hin. apply Hns. right; exact Hin.
Qed.

Theorem trim_names_distinct objs m k nn :
  trim_names objs m (map snd m) k = Some nn ->
  NoDup (map oname objs) -> NoDup (map snd m) ->
  length nn = length objs /\ NoDup nn.
Proof.
  intros H Hn Hv. destruct (trim_names_distinct_gen objs m (map snd m) k nn H Hn Hv (incl_refl _)) as [? [? _]]. auto.
Qed.

Lemma set_names_names : forall objs nn, length nn = length objs -> map oname (set_names objs nn) = nn.
Proof.
  unfold set_names. induction objs as [|o t IH]; intros [|n nn'] H; cbn in *; try reflexivity; try discriminate.
  f_equal. apply IH. lia.
Qed.

(* the step of the container model: a successful TrimNames on distinctly named rows, with a map that hands out
   no short name twice, leaves the same number of rows, pairwise distinctly named *)
Theorem trim_step_distinct st m size st' :
  step st (OpTrim m size) = (st', true) ->
  NoDup (map oname (c_objs st)) -> NoDup (map snd m) ->
  length (c_objs st') = length (c_objs st) /\ NoDup (map oname (c_objs st')).
Proof.
  intros H Hn Hv. cbn [step] in H.
  destruct (if (size - 2 <? 0)%Z then _ else _); [discriminate|].
  destruct (trim_names (c_objs st) m (map snd m) (Z.to_nat (size - 2))) as [nn|] eqn:Ht; [|discriminate].
  inversion H; subst st'. 
  destruct (trim_names_distinct _ _ _ _ Ht Hn Hv) as [Hlen Hnd].
  cbn. rewrite set_names_names by exact Hlen. split; [|exact Hnd].
  rewrite <- (map_length oname), set_names_names by exact Hlen. exact Hlen.
Qed.
