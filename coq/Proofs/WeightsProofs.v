From Coq Require Import Reals List Lra Lia Arith.
Import ListNotations.
From GA.Model Require Import Weights.
Local Open Scope R_scope.

Lemma rsum_map_scale c l : rsum (map (fun x => c * x) l) = c * rsum l.
Proof. induction l as [|a l IH]; cbn [map rsum fold_right]; [lra|]. fold (rsum (map (fun x => c * x) l)). fold (rsum l). rewrite IH. lra. Qed.

Lemma rsum_pos l : (forall x, In x l -> 0 < x) -> l <> [] -> 0 < rsum l.
Proof.
  induction l as [|a l IH]; intros H Hn; [congruence|]. cbn [rsum fold_right]. fold (rsum l).
  assert (0 < a) by (apply H; left; reflexivity).
  destruct l as [|b l]; [cbn; lra|].
  assert (0 < rsum (b :: l)) by (apply IH; [intros x Hx; apply H; right; exact Hx | discriminate]). lra.
Qed.

(* the normalised vector sums to the requested total *)
Theorem normalise_sum factor g : rsum g <> 0 -> rsum (normalise factor g) = factor.
Proof.
  intros Hs. unfold normalise.
  rewrite (map_ext _ (fun x => (factor / rsum g) * x)) by (intros; field; exact Hs).
  rewrite rsum_map_scale. field. exact Hs.
Qed.

Theorem normalise_length factor g : length (normalise factor g) = length g.
Proof. apply map_length. Qed.

(* every weight is strictly positive when every gamma variate is *)
Theorem normalise_pos factor g : 0 < factor -> (forall x, In x g -> 0 < x) ->
  forall w, In w (normalise factor g) -> 0 < w.
Proof.
  intros Hf Hg w Hw. unfold normalise in Hw. apply in_map_iff in Hw. destruct Hw as [x [<- Hx]].
  assert (Hne : g <> []) by (intro E; rewrite E in Hx; exact Hx).
  pose proof (rsum_pos g Hg Hne) as Hs. pose proof (Hg x Hx) as Hxp.
  apply Rdiv_lt_0_compat; [apply Rmult_lt_0_compat; assumption | exact Hs].
Qed.

(* telescoping sum of consecutive differences *)
Lemma diffs_sum a l : rsum (diffs (a :: l)) = last (a :: l) a - a.
Proof.
  revert a; induction l as [|b l IH]; intros a; [cbn; lra|].
  change (diffs (a :: b :: l)) with ((b - a) :: diffs (b :: l)).
  cbn [rsum fold_right]. fold (rsum (diffs (b :: l))). rewrite IH.
  change (last (a :: b :: l) a) with (last (b :: l) a).
  assert (E : forall d1 d2, last (b :: l) d1 = last (b :: l) d2).
  { clear. revert b. induction l as [|c l IH]; intros b d1 d2; [reflexivity|]. apply (IH c). }
  rewrite (E a b). lra.
Qed.

Lemma diffs_nonneg l : sorted l -> forall d, In d (diffs l) -> 0 <= d.
Proof.
  induction l as [|a l IH]; intros Hs d Hd; [contradiction|].
  destruct l as [|b l]; [contradiction|].
  destruct Hs as [Hab Hs]. change (diffs (a :: b :: l)) with ((b - a) :: diffs (b :: l)) in Hd.
  destruct Hd as [<-|Hd]; [lra | exact (IH Hs d Hd)].
Qed.

Lemma diffs_length a l : length (diffs (a :: l)) = length l.
Proof. revert a; induction l as [|b l IH]; intros a; [reflexivity|]. change (diffs (a :: b :: l)) with ((b - a) :: diffs (b :: l)). cbn [length]. rewrite IH. reflexivity. Qed.

(* Dirichlet1: for any sorted cut points from 0 to 1 the sample is non-negative, has one value per
   interval and sums to factor *)
Theorem dirichlet1_sum factor l : rsum (dirichlet1 factor (0 :: l ++ [1])) = factor.
Proof.
  unfold dirichlet1. rewrite rsum_map_scale, diffs_sum.
  replace (last (0 :: l ++ [1]) 0) with 1; [lra|].
  change (0 :: l ++ [1]) with ((0 :: l) ++ [1]). rewrite last_last. reflexivity.
Qed.

Theorem dirichlet1_nonneg factor cuts : 0 <= factor -> sorted cuts -> forall w, In w (dirichlet1 factor cuts) -> 0 <= w.
Proof.
  intros Hf Hs w Hw. unfold dirichlet1 in Hw. apply in_map_iff in Hw. destruct Hw as [d [<- Hd]].
  apply Rmult_le_pos; [exact Hf | exact (diffs_nonneg cuts Hs d Hd)].
Qed.

Theorem dirichlet1_length factor l : length (dirichlet1 factor (0 :: l ++ [1])) = S (length l).
Proof. unfold dirichlet1. rewrite map_length, diffs_length, app_length. cbn. lia. Qed.

(* DiscreteGamma: whatever the incomplete gamma ratios are, the ncat rates average to 1 *)
Theorem discrete_gamma_mean ncat freq : (0 < ncat)%nat ->
  rsum (discrete_gamma ncat freq) / INR ncat = 1.
Proof.
  intros Hn. unfold discrete_gamma.
  rewrite (map_ext _ (fun d => INR ncat * d)) by (intros; lra).
  rewrite rsum_map_scale, diffs_sum.
  replace (last (0 :: freq ++ [1]) 0) with 1.
  - field. apply not_0_INR. lia.
  - change (0 :: freq ++ [1]) with ((0 :: freq) ++ [1]). rewrite last_last. reflexivity.
Qed.

Theorem discrete_gamma_length ncat freq : length (discrete_gamma ncat freq) = S (length freq).
Proof. unfold discrete_gamma. rewrite map_length, diffs_length, app_length. cbn. lia. Qed.

(* non-negative when the ratios are sorted within [0,1] *)
Theorem discrete_gamma_nonneg ncat freq : sorted (0 :: freq ++ [1]) ->
  forall r, In r (discrete_gamma ncat freq) -> 0 <= r.
Proof.
  intros Hs r Hr. unfold discrete_gamma in Hr. apply in_map_iff in Hr. destruct Hr as [d [<- Hd]].
  apply Rmult_le_pos; [exact (diffs_nonneg _ Hs d Hd) | apply pos_INR].
Qed.

(* ---- the gamma samplers return strictly positive values -------------------------------- *)
Theorem cheng_positive alpha u1 : 1 < alpha -> 0 < cheng_x alpha u1.
Proof. intros Ha. unfold cheng_x. apply Rmult_lt_0_compat; [lra | apply exp_pos]. Qed.

Theorem expo_positive u : 0 < u < 1 -> 0 < expo_x u.
Proof.
  intros [H0 H1]. unfold expo_x. assert (ln u < 0); [|lra].
  rewrite <- ln_1. apply ln_increasing; assumption.
Qed.

Lemma small_b_gt1 alpha : 0 < alpha -> 1 < small_b alpha.
Proof.
  intros Ha. unfold small_b. pose proof (exp_pos 1) as He.
  apply Rmult_lt_reg_r with (exp 1); [exact He|]. unfold Rdiv. rewrite Rmult_assoc, Rinv_l by lra. lra.
Qed.

Theorem small_positive alpha u : 0 < alpha < 1 -> 0 < u < 1 -> 0 < small_x alpha u.
Proof.
  intros [Ha0 Ha1] [Hu0 Hu1]. unfold small_x. pose proof (small_b_gt1 alpha Ha0) as Hb.
  destruct (Rle_dec (small_b alpha * u) 1) as [Hp|Hp].
  - unfold Rpower. apply exp_pos.
  - assert (Hp' : 1 < small_b alpha * u) by lra.
    (* (b - p)/alpha < 1  <->  b - p < alpha  <->  b(1-u) < alpha; here b - 1 = alpha/e and p > 1 *)
    assert (Hlt : (small_b alpha - small_b alpha * u) / alpha < 1).
    { apply Rmult_lt_reg_r with alpha; [exact Ha0|]. unfold Rdiv. rewrite Rmult_assoc, Rinv_l by lra.
      assert (small_b alpha - 1 = alpha / exp 1).
      { unfold small_b. pose proof (exp_pos 1). field. lra. }
      assert (alpha / exp 1 < alpha).
      { pose proof (exp_pos 1). apply Rmult_lt_reg_r with (exp 1); [lra|]. unfold Rdiv. rewrite Rmult_assoc, Rinv_l by lra.
        assert (1 < exp 1) by (rewrite <- exp_0 at 1; apply exp_increasing; lra). nra. }
      lra. }
    assert (Hpos : 0 < (small_b alpha - small_b alpha * u) / alpha).
    { apply Rdiv_lt_0_compat; [nra | exact Ha0]. }
    assert (ln ((small_b alpha - small_b alpha * u) / alpha) < 0); [|lra].
    rewrite <- ln_1. apply ln_increasing; assumption.
Qed.

(* NB: the hypothesis 0 < u is needed: the draw u = 0 (probability 2^-53 per call in binary64) makes
   p = 0 and x = math.Pow(0, 1/alpha) = 0, which the sampler accepts (u1 <= exp(-0)). *)

(* ---- IncompleteGamma: series branch ----------------------------------------------------- *)
Lemma series_term_pos x p n : 0 <= x -> 0 < p -> 0 <= series_term x p n.
Proof.
  intros Hx Hp. induction n as [|n IH]; cbn [series_term]; [lra|].
  apply Rmult_le_pos; [exact IH|]. apply Rmult_le_pos; [exact Hx|]. left. apply Rinv_0_lt_compat.
  pose proof (pos_INR (S n)). lra.
Qed.

(* each term, hence each partial sum, is non-decreasing in x *)
Lemma series_term_mono x y p n : 0 <= x <= y -> 0 < p -> series_term x p n <= series_term y p n.
Proof.
  intros [Hx Hxy] Hp. induction n as [|n IH]; cbn [series_term]; [lra|].
  assert (0 < / (p + INR (S n))) by (apply Rinv_0_lt_compat; pose proof (pos_INR (S n)); lra).
  apply Rmult_le_compat; [apply series_term_pos; assumption | | exact IH |].
  - apply Rmult_le_pos; [exact Hx | lra].
  - unfold Rdiv. apply Rmult_le_compat_r; lra.
Qed.

Theorem series_sum_mono x y p n : 0 <= x <= y -> 0 < p -> series_sum x p n <= series_sum y p n.
Proof.
  intros H Hp. induction n as [|n IH]; cbn [series_sum]; [apply series_term_mono; assumption|].
  apply Rplus_le_compat; [exact IH | apply series_term_mono; assumption].
Qed.

Theorem series_sum_increasing_in_n x p n : 0 <= x -> 0 < p -> series_sum x p n <= series_sum x p (S n).
Proof. intros Hx Hp. cbn [series_sum]. pose proof (series_term_pos x p (S n) Hx Hp). lra. Qed.

(* termination of the series loop (l20): in the series branch x <= 1 or x < p, so every ratio
   x/(p+n) is below q = x/(p+1) < 1 and the terms fall below any accuracy after finitely many
   steps: term_n <= q^n *)
Lemma series_term_geometric x p n : 0 <= x -> 0 < p -> series_term x p n <= (x / (p + 1)) ^ n.
Proof.
  intros Hx Hp. induction n as [|n IH]; cbn [series_term pow]; [lra|].
  rewrite (Rmult_comm (x / (p + 1))).
  assert (0 < / (p + 1)) by (apply Rinv_0_lt_compat; lra).
  assert (0 < / (p + INR (S n))) by (apply Rinv_0_lt_compat; pose proof (pos_INR (S n)); lra).
  apply Rmult_le_compat; [apply series_term_pos; assumption | | exact IH |].
  - apply Rmult_le_pos; [exact Hx | lra].
  - unfold Rdiv. apply Rmult_le_compat_l; [exact Hx|].
    apply Rinv_le_contravar; [lra|]. rewrite S_INR. pose proof (pos_INR n). lra.
Qed.

Theorem series_loop_terminates x p acc : 0 <= x -> 0 < p -> (x <= 1 \/ x < p) -> 0 < acc ->
  exists n, series_term x p n <= acc.
Proof.
  intros Hx Hp Hbr Hacc.
  assert (Hq : Rabs (x / (p + 1)) < 1).
  { assert (0 < / (p + 1)) by (apply Rinv_0_lt_compat; lra).
    rewrite Rabs_pos_eq by (apply Rmult_le_pos; lra).
    apply Rmult_lt_reg_r with (p + 1); [lra|]. unfold Rdiv. rewrite Rmult_assoc, Rinv_l by lra. destruct Hbr; lra. }
  destruct (pow_lt_1_zero (x / (p + 1)) Hq acc Hacc) as [N HN].
  exists N. eapply Rle_trans; [apply series_term_geometric; assumption|].
  specialize (HN N (Nat.le_refl N)). apply Rabs_def2 in HN. lra.
Qed.
