From Coq Require Import List Bool NArith ZArith QArith Lia Permutation Setoid Reals Lra.
From Coq.Strings Require Import Byte.
Import ListNotations.
From GA.Base Require Import Bytes Case Align.
From GA.Gen Require Import Alpha.
From GA.Model Require Import ProtDist.
From GA.Proofs Require EigenProofs.

Section Rational.
Local Open Scope Q_scope.

(* ---- column order does not matter -------------------------------------------------------- *)
Lemma cell_perm cols cols' i j : Permutation cols cols' -> cell cols i j == cell cols' i j.
Proof.
  induction 1 as [|x l l' _ IH|x y l|l l' l'' _ IH1 _ IH2]; cbn [cell fold_right]; try reflexivity.
  - fold (cell l i j). fold (cell l' i j). rewrite IH. reflexivity.
  - ring.
  - rewrite IH1. exact IH2.
Qed.

Lemma total_perm cols cols' : Permutation cols cols' -> total cols == total cols'.
Proof.
  induction 1 as [|x l l' _ IH|x y l|l l' l'' _ IH1 _ IH2]; cbn [total fold_right]; try reflexivity.
  - fold (total l). fold (total l'). rewrite IH. reflexivity.
  - ring.
  - rewrite IH1. exact IH2.
Qed.

Theorem F_column_permutation cols cols' i j : Permutation cols cols' -> F cols i j == F cols' i j.
Proof. intros H. unfold F. rewrite (cell_perm _ _ i j H), (total_perm _ _ H). reflexivity. Qed.

(* ---- swapping the two sequences transposes F ---------------------------------------------- *)
Definition swap_col (c : pcol) : pcol := let '(a, b, w) := c in (b, a, w).

Lemma cell_swap cols i j : cell (map swap_col cols) j i == cell cols i j.
Proof.
  induction cols as [|c cols IH]; cbn [map cell fold_right]; [reflexivity|].
  fold (cell (map swap_col cols) j i). fold (cell cols i j). rewrite IH.
  destruct c as [[[a|] [b|]] w]; cbn [swap_col hits cw snd]; try reflexivity.
  rewrite (andb_comm (Nat.eqb b j)). reflexivity.
Qed.

Lemma total_swap cols : total (map swap_col cols) == total cols.
Proof.
  induction cols as [|c cols IH]; cbn [map total fold_right]; [reflexivity|].
  fold (total (map swap_col cols)). fold (total cols). rewrite IH.
  destruct c as [[[a|] [b|]] w]; reflexivity.
Qed.

Theorem F_transpose cols i j : F (map swap_col cols) j i == F cols i j.
Proof. unfold F. rewrite cell_swap, total_swap. reflexivity. Qed.

Lemma pair_cols_swap l s1 s2 sel ws : pair_cols l s2 s1 sel ws = map swap_col (pair_cols l s1 s2 sel ws).
Proof.
  revert l s2. induction s1 as [|a t1 IH]; intros l [|b t2]; cbn [pair_cols map]; try reflexivity.
  rewrite map_app, <- IH. destruct (nth l sel false); cbn [map app swap_col]; [|reflexivity].
  rewrite (orb_comm (is_ambigu b)). reflexivity.
Qed.

(* ---- the cells of F add up to 1 ------------------------------------------------------------- *)
Definition qsum (n : nat) (f : nat -> Q) : Q := fold_right (fun k acc => f k + acc) 0 (seq 0 n).

Lemma qsum_seq_ext a n f g : (forall k, (a <= k < a + n)%nat -> f k == g k) ->
  fold_right (fun k acc => f k + acc) 0 (seq a n) == fold_right (fun k acc => g k + acc) 0 (seq a n).
Proof.
  revert a; induction n as [|n IH]; intros a H; cbn [seq fold_right]; [reflexivity|].
  rewrite (H a) by lia. rewrite IH; [reflexivity|]. intros k Hk. apply H. lia.
Qed.

Lemma qsum_seq_plus a n f g :
  fold_right (fun k acc => (f k + g k) + acc) 0 (seq a n) ==
  fold_right (fun k acc => f k + acc) 0 (seq a n) + fold_right (fun k acc => g k + acc) 0 (seq a n).
Proof. revert a; induction n as [|n IH]; intros a; cbn [seq fold_right]; [ring|]. rewrite IH. ring. Qed.

Lemma qsum_seq_zero a n : fold_right (fun k acc => 0 + acc) 0 (seq a n) == 0.
Proof. revert a; induction n as [|n IH]; intros a; cbn [seq fold_right]; [reflexivity|]. rewrite IH. ring. Qed.

Lemma qsum_seq_delta a n k0 (w : Q) : (a <= k0 < a + n)%nat ->
  fold_right (fun k acc => (if Nat.eqb k0 k then w else 0) + acc) 0 (seq a n) == w.
Proof.
  revert a; induction n as [|n IH]; intros a H; [lia|]. cbn [seq fold_right].
  destruct (Nat.eqb_spec k0 a) as [->|Hne].
  - rewrite (qsum_seq_ext (S a) n _ (fun _ => 0)).
    + rewrite qsum_seq_zero. ring.
    + intros k Hk. destruct (Nat.eqb_spec a k); [lia | reflexivity].
  - rewrite IH by lia. ring.
Qed.

Lemma qsum_seq_delta_out a n k0 (w : Q) : ~ (a <= k0 < a + n)%nat ->
  fold_right (fun k acc => (if Nat.eqb k0 k then w else 0) + acc) 0 (seq a n) == 0.
Proof.
  intros H. rewrite (qsum_seq_ext a n _ (fun _ => 0)); [apply qsum_seq_zero|].
  intros k Hk. destruct (Nat.eqb_spec k0 k); [lia | reflexivity].
Qed.

Lemma qsum_seq_div a n f (c : Q) : ~ c == 0 ->
  fold_right (fun k acc => f k / c + acc) 0 (seq a n) == fold_right (fun k acc => f k + acc) 0 (seq a n) / c.
Proof.
  intros Hc. revert a; induction n as [|n IH]; intros a; cbn [seq fold_right].
  - unfold Qdiv. ring.
  - rewrite IH. field. exact Hc.
Qed.

Definition in_range (n : nat) (c : pcol) : Prop :=
  match c with (Some a, Some b, _) => (a < n)%nat /\ (b < n)%nat | _ => True end.

Lemma col_mass n c : in_range n c ->
  qsum n (fun i => qsum n (fun j => if hits i j c then cw c else 0)) == (if counted c then cw c else 0).
Proof.
  intros H. unfold qsum. destruct c as [[[a|] [b|]] w]; cbn [hits counted cw snd] in *.
  - destruct H as [Ha Hb].
    rewrite (qsum_seq_ext 0 n _ (fun i => if Nat.eqb a i then w else 0)).
    + apply qsum_seq_delta. lia.
    + intros i Hi. rewrite (Nat.eqb_sym a i). destruct (Nat.eqb_spec i a) as [->|Hne]; cbn [andb].
      * rewrite (qsum_seq_ext 0 n _ (fun j => if Nat.eqb b j then w else 0)).
        -- apply qsum_seq_delta. lia.
        -- intros j _. rewrite (Nat.eqb_sym b j). reflexivity.
      * apply qsum_seq_zero.
  - rewrite (qsum_seq_ext 0 n _ (fun _ => 0)); [apply qsum_seq_zero|]. intros; apply qsum_seq_zero.
  - rewrite (qsum_seq_ext 0 n _ (fun _ => 0)); [apply qsum_seq_zero|]. intros; apply qsum_seq_zero.
  - rewrite (qsum_seq_ext 0 n _ (fun _ => 0)); [apply qsum_seq_zero|]. intros; apply qsum_seq_zero.
Qed.

Lemma cells_sum_total n cols : Forall (in_range n) cols ->
  qsum n (fun i => qsum n (fun j => cell cols i j)) == total cols.
Proof.
  induction 1 as [|c cols Hc _ IH]; cbn [cell total fold_right].
  - unfold qsum. rewrite (qsum_seq_ext 0 n _ (fun _ => 0)); [apply qsum_seq_zero|]. intros; apply qsum_seq_zero.
  - fold (total cols). rewrite <- IH, <- (col_mass n c Hc). unfold qsum.
    rewrite <- qsum_seq_plus. apply qsum_seq_ext. intros i _.
    rewrite <- qsum_seq_plus. apply qsum_seq_ext. intros j _. reflexivity.
Qed.

Theorem F_sums_to_one n cols : Forall (in_range n) cols -> ~ total cols == 0 ->
  qsum n (fun i => qsum n (fun j => F cols i j)) == 1.
Proof.
  intros Hr Ht. unfold F.
  assert (E : qsum n (fun i => qsum n (fun j => cell cols i j / total cols)) ==
              qsum n (fun i => qsum n (fun j => cell cols i j)) / total cols).
  { unfold qsum.
    rewrite (qsum_seq_ext 0 n _ (fun i => fold_right (fun j acc => cell cols i j + acc) 0 (seq 0 n) / total cols)).
    - apply qsum_seq_div. exact Ht.
    - intros i _. apply qsum_seq_div. exact Ht. }
  rewrite E, (cells_sum_total n cols Hr). field. exact Ht.
Qed.

(* the amino acid index is below 20 *)
Lemma index_of_lt b l k : index_of b l = Some k -> (k < length l)%nat.
Proof.
  revert k; induction l as [|x t IH]; intros k H; cbn [index_of] in H; [discriminate|].
  destruct (beqb x b).
  - injection H as <-. cbn. lia.
  - destruct (index_of b t) as [k'|]; cbn in H; [|discriminate]. injection H as <-. specialize (IH k' eq_refl). cbn. lia.
Qed.

Lemma pair_cols_in_range l s1 s2 sel ws : Forall (in_range 20) (pair_cols l s1 s2 sel ws).
Proof.
  revert l s2; induction s1 as [|a t1 IH]; intros l [|b t2]; cbn [pair_cols]; try constructor.
  apply Forall_app. split; [|apply IH].
  destruct (nth l sel false); [|constructor]. constructor; [|constructor].
  unfold in_range. destruct (aa_index a) as [x|] eqn:Ea; [|exact I]. destruct (aa_index b) as [y|] eqn:Eb; [|exact I].
  unfold aa_index in *. apply index_of_lt in Ea. apply index_of_lt in Eb. exact (conj Ea Eb).
Qed.

(* ---- "the sequences differ" ------------------------------------------------------------------ *)
Theorem seqs_differ_sym s1 s2 : seqs_differ s1 s2 = seqs_differ s2 s1.
Proof.
  revert s2; induction s1 as [|a t1 IH]; intros [|b t2]; cbn [seqs_differ]; try reflexivity.
  rewrite IH. f_equal. unfold beqb.
  destruct (is_ambigu a), (is_ambigu b); cbn; try reflexivity.
  destruct (Byte.eqb a b) eqn:E1, (Byte.eqb b a) eqn:E2; try reflexivity.
  - apply Byte.byte_dec_bl in E1. subst. rewrite (Byte.byte_dec_lb eq_refl) in E2. discriminate E2.
  - apply Byte.byte_dec_bl in E2. subst. rewrite (Byte.byte_dec_lb eq_refl) in E1. discriminate E1.
Qed.

(* identical rows never differ: their distance is 0 *)
Theorem seqs_differ_refl s : seqs_differ s s = false.
Proof. induction s as [|a t IH]; cbn [seqs_differ]; [reflexivity|]. rewrite beqb_refl, IH. destruct (is_ambigu a); reflexivity. Qed.
End Rational.

(* ---- the pair likelihood is symmetric for a reversible model ----------------------------------- *)
Section Likelihood.
Local Open Scope R_scope.
Import EigenProofs.

(* lk_Dist: lnL(d) = sum_ij F_ij ln (pi_i P_ij(d)) *)
Definition lnL (n : nat) (Fm : nat -> nat -> R) (pi : nat -> R) (Pm : nat -> nat -> R) : R :=
  sum n (fun i => sum n (fun j => Fm i j * ln (pi i * Pm i j))).

Theorem lnL_transpose n Fm pi Pm :
  (forall i j, (i < n)%nat -> (j < n)%nat -> pi i * Pm i j = pi j * Pm j i) ->
  lnL n (fun i j => Fm j i) pi Pm = lnL n Fm pi Pm.
Proof.
  intros Hdb. unfold lnL. rewrite sum_swap. apply sum_ext. intros j Hj. apply sum_ext. intros i Hi.
  rewrite (Hdb i j Hi Hj). reflexivity.
Qed.

(* hence both orders of a pair have the same maximisers *)
Theorem maximiser_symmetric n Fm pi (Pd : R -> nat -> nat -> R) (d : R) (dom : R -> Prop) :
  (forall x i j, (i < n)%nat -> (j < n)%nat -> pi i * Pd x i j = pi j * Pd x j i) ->
  (forall x, dom x -> lnL n Fm pi (Pd x) <= lnL n Fm pi (Pd d)) ->
  (forall x, dom x -> lnL n (fun i j => Fm j i) pi (Pd x) <= lnL n (fun i j => Fm j i) pi (Pd d)).
Proof.
  intros Hdb Hmax x Hx.
  rewrite (lnL_transpose n Fm pi (Pd x) (Hdb x)), (lnL_transpose n Fm pi (Pd d) (Hdb d)). exact (Hmax x Hx).
Qed.
End Likelihood.
