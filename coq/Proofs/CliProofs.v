From Coq Require Import List Bool NArith ZArith QArith Lia.
From Coq.Strings Require Import Byte.
Import ListNotations.
From GA.Base Require Import Bytes Align Tape.
From GA.Model Require Import Random Fasta Cli.
From GA.Proofs Require Import FastaProofs.

(* the matrices of distboot are the matrices of the replicates seqboot draws from the same seed,
   and both leave the stream in the same state *)
Theorem distboot_is_seqboot_then_distance {M} (dist : rows -> M) n frac rs t :
  distboot dist n frac rs t =
  match seqboot n frac false rs t with
  | Some (bs, t') => Some (map dist bs, t')
  | None => None
  end.
Proof.
  revert t. induction n as [|n IH]; intros t; [reflexivity|].
  cbn [distboot seqboot]. unfold bind at 1. unfold bind at 2.
  destruct (build_bootstrap frac rs t) as [[b t1]|]; [|reflexivity].
  unfold bind at 2. unfold ret at 2. unfold bind at 1. rewrite IH. unfold bind.
  destruct (seqboot n frac false rs t1) as [[bs t2]|]; reflexivity.
Qed.

(* the first n replicates do not depend on how many more are requested *)
Theorem seqboot_prefix n m frac shuffle rs t :
  seqboot (n + m) frac shuffle rs t =
  match seqboot n frac shuffle rs t with
  | Some (bs, t') => match seqboot m frac shuffle rs t' with
                     | Some (bs', t'') => Some (bs ++ bs', t'')
                     | None => None
                     end
  | None => None
  end.
Proof.
  revert t. induction n as [|n IH]; intros t.
  - cbn [Nat.add seqboot]. unfold ret. destruct (seqboot m frac shuffle rs t) as [[bs t']|]; reflexivity.
  - cbn [Nat.add seqboot]. unfold bind at 1. unfold bind at 3.
    destruct (build_bootstrap frac rs t) as [[b t1]|]; [|reflexivity].
    unfold bind at 1. unfold bind at 2.
    destruct ((if shuffle then shuffle_sequences (snd b) else ret (snd b)) t1) as [[b' t2]|]; [|reflexivity].
    unfold bind. rewrite IH.
    destruct (seqboot n frac shuffle rs t2) as [[bs t3]|]; [|reflexivity].
    unfold ret. destruct (seqboot m frac shuffle rs t3) as [[bs' t4]|]; reflexivity.
Qed.

(* reformatting a FASTA file written by the writer gives the same bytes back *)
Theorem reformat_fasta_fixpoint w a : (0 < w)%nat -> a <> [] -> representable a = true ->
  reformat_fasta w (write w a) = Some (write w a).
Proof. intros Hw Ha Hr. unfold reformat_fasta. rewrite (fasta_roundtrip w a Hw Ha Hr). reflexivity. Qed.

(* and through any other line width in between *)
Theorem reformat_fasta_chain w w' a : (0 < w)%nat -> (0 < w')%nat -> a <> [] -> representable a = true ->
  match reformat_fasta w' (write w a) with
  | Some f => reformat_fasta w f
  | None => None
  end = Some (write w a).
Proof.
  intros Hw Hw' Ha Hr. unfold reformat_fasta.
  rewrite (fasta_roundtrip w a Hw Ha Hr). rewrite (fasta_roundtrip w' a Hw' Ha Hr). reflexivity.
Qed.
