(* The gamma-corrected distances are never below the uncorrected ones (hence never below the observed
   proportion of differences): a (x^(-1/a) - 1) >= - ln x for every 0 < x and 0 < a. *)
From Coq Require Import Reals Lra.
From GA.Model Require Import DnaDist.
From GA.Proofs Require Import DnaProofs.
Local Open Scope R_scope.

Lemma gamma_term_ge_log a x : 0 < a -> 0 < x -> - ln x <= a * (Rpower x (- 1 / a) - 1).
Proof.
  intros Ha Hx. unfold Rpower.
  pose proof (exp_ineq1_le (- 1 / a * ln x)) as H.
  assert (E : a * (- 1 / a * ln x) = - ln x) by (field; lra).
  assert (a * (1 + - 1 / a * ln x) <= a * exp (- 1 / a * ln x)) by (apply Rmult_le_compat_l; lra).
  lra.
Qed.

Theorem jc_gamma_ge_jc a p : 0 < a -> p < 3/4 -> jc p <= jc_gamma a p.
Proof.
  intros Ha Hp. unfold jc, jc_gamma.
  pose proof (gamma_term_ge_log a (1 - 4 * p / 3) Ha) as H. assert (0 < 1 - 4 * p / 3) by lra. specialize (H H0). lra.
Qed.

Theorem jc_gamma_ge_p a p : 0 < a -> 0 <= p < 3/4 -> p <= jc_gamma a p.
Proof.
  intros Ha Hp. apply Rle_trans with (jc p); [apply jc_ge_p; exact Hp | apply jc_gamma_ge_jc; lra].
Qed.

Theorem f81_gamma_ge_f81 b1 a p : 0 < b1 -> 0 < a -> p < b1 -> f81 b1 p <= f81_gamma b1 a p.
Proof.
  intros Hb Ha Hp. unfold f81, f81_gamma.
  assert (Hpos : 0 < 1 - p / b1).
  { assert (p / b1 < 1); [|lra]. apply (Rmult_lt_reg_r b1); [lra|]. unfold Rdiv. rewrite Rmult_assoc, Rinv_l by lra. lra. }
  pose proof (gamma_term_ge_log a (1 - p / b1) Ha Hpos) as H.
  assert (b1 * - ln (1 - p / b1) <= b1 * (a * (Rpower (1 - p / b1) (- 1 / a) - 1))) by (apply Rmult_le_compat_l; lra).
  lra.
Qed.

Theorem f81_gamma_ge_p b1 a p : 0 < b1 -> 0 < a -> 0 <= p < b1 -> p <= f81_gamma b1 a p.
Proof.
  intros Hb Ha Hp. apply Rle_trans with (f81 b1 p); [apply f81_ge_p; assumption | apply f81_gamma_ge_f81; lra].
Qed.

Theorem k2p_gamma_ge_k2p a P Q : 0 < a -> 0 < 1 - 2 * P - Q -> 0 < 1 - 2 * Q -> k2p P Q <= k2p_gamma a P Q.
Proof.
  intros Ha H1 H2. unfold k2p, k2p_gamma.
  pose proof (gamma_term_ge_log a (1 - 2 * P - Q) Ha H1) as A.
  pose proof (gamma_term_ge_log a (1 - 2 * Q) Ha H2) as B.
  lra.
Qed.

Theorem k2p_gamma_ge_p a P Q :
  0 < a -> 0 <= P -> 0 <= Q -> 0 < 1 - 2 * P - Q -> 0 < 1 - 2 * Q -> P + Q <= k2p_gamma a P Q.
Proof.
  intros Ha HP HQ H1 H2. apply Rle_trans with (k2p P Q); [apply k2p_ge_p; assumption | apply k2p_gamma_ge_k2p; assumption].
Qed.

(* ---- F84 -------------------------------------------------------------------------------------- *)
Lemma ln_le_sub1 e : 0 < e -> ln e <= e - 1.
Proof. intros H. pose proof (ln_le_minus (1 - e)) as A. replace (1 - (1 - e)) with e in A by lra. specialize (A H). lra. Qed.

Theorem f84_ge_p a b c P Q :
  0 < a -> 0 < c -> a - b - c <= 0 ->
  0 < 1 - P / (2 * a) - (a - b) * Q / (2 * a * c) -> 0 < 1 - Q / (2 * c) ->
  P + Q <= f84 a b c P Q.
Proof.
  intros Ha Hc Habc H1 H2. unfold f84.
  set (e1 := 1 - P / (2 * a) - (a - b) * Q / (2 * a * c)) in *. set (e2 := 1 - Q / (2 * c)) in *.
  pose proof (ln_le_sub1 e1 H1) as A. pose proof (ln_le_sub1 e2 H2) as B.
  assert (A' : - 2 * a * (e1 - 1) <= - 2 * a * ln e1).
  { apply Rmult_le_compat_neg_l; [lra | exact A]. }
  assert (B' : 2 * (a - b - c) * (e2 - 1) <= 2 * (a - b - c) * ln e2).
  { apply Rmult_le_compat_neg_l; [lra | exact B]. }
  assert (E : - 2 * a * (e1 - 1) + 2 * (a - b - c) * (e2 - 1) = P + Q).
  { subst e1 e2. field. split; lra. }
  lra.
Qed.

(* the coefficient a - b - c of F84 is never positive for base frequencies *)
Lemma f84_coeff_nonpos pa pc pg pt :
  0 < pa -> 0 < pc -> 0 < pg -> 0 < pt -> pa + pc + pg + pt = 1 ->
  f84_a pa pc pg pt - f84_b pa pc pg pt - f84_c pa pc pg pt <= 0.
Proof.
  intros Ha Hc Hg Ht Hs. unfold f84_a, f84_b, f84_c.
  set (r := pa + pg). set (y := pc + pt). assert (Hr : 0 < r) by (unfold r; lra). assert (Hy : 0 < y) by (unfold y; lra).
  assert (Hry : r + y = 1) by (unfold r, y; lra).
  assert (E1 : pa * pg / r - pa * pg = pa * pg * y / r) by (replace y with (1 - r) by lra; field; lra).
  assert (E2 : pc * pt / y - pc * pt = pc * pt * r / y) by (replace r with (1 - y) by lra; field; lra).
  assert (B1 : pa * pg <= r * r / 4) by (unfold r; pose proof (Rle_0_sqr (pa - pg)) as S; unfold Rsqr in S; lra).
  assert (B2 : pc * pt <= y * y / 4) by (unfold y; pose proof (Rle_0_sqr (pc - pt)) as S; unfold Rsqr in S; lra).
  assert (C1 : pa * pg * y / r <= r * y / 4).
  { unfold Rdiv at 1. apply (Rmult_le_reg_r r); [lra|]. rewrite Rmult_assoc, Rinv_l by lra. nra. }
  assert (C2 : pc * pt * r / y <= r * y / 4).
  { unfold Rdiv at 1. apply (Rmult_le_reg_r y); [lra|]. rewrite Rmult_assoc, Rinv_l by lra. nra. }
  nra.
Qed.

Theorem f84_gamma_ge_f84 al a b c P Q :
  0 < al -> 0 < a -> 0 < c -> a - b - c <= 0 ->
  0 < 1 - P / (2 * a) - (a - b) * Q / (2 * a * c) -> 0 < 1 - Q / (2 * c) ->
  f84 a b c P Q <= f84_gamma al a b c P Q.
Proof.
  intros Hal Ha Hc Habc H1 H2. unfold f84, f84_gamma.
  set (e1 := 1 - P / (2 * a) - (a - b) * Q / (2 * a * c)) in *. set (e2 := 1 - Q / (2 * c)) in *.
  pose proof (gamma_term_ge_log al e1 Hal H1) as A. pose proof (gamma_term_ge_log al e2 Hal H2) as B.
  assert (A' : 2 * a * - ln e1 <= 2 * a * (al * (Rpower e1 (- 1 / al) - 1))) by (apply Rmult_le_compat_l; lra).
  assert (B' : 2 * (b + c - a) * - ln e2 <= 2 * (b + c - a) * (al * (Rpower e2 (- 1 / al) - 1))) by (apply Rmult_le_compat_l; lra).
  lra.
Qed.

Theorem f84_gamma_ge_p al a b c P Q :
  0 < al -> 0 < a -> 0 < c -> a - b - c <= 0 ->
  0 < 1 - P / (2 * a) - (a - b) * Q / (2 * a * c) -> 0 < 1 - Q / (2 * c) ->
  P + Q <= f84_gamma al a b c P Q.
Proof.
  intros. apply Rle_trans with (f84 a b c P Q); [apply f84_ge_p; assumption | apply f84_gamma_ge_f84; assumption].
Qed.

(* ---- TN93 ------------------------------------------------------------------------------------- *)
Section TN93.
  Variables pa pc pg pt Q p1 p2 : R.
  Hypothesis Hpa : 0 < pa. Hypothesis Hpc : 0 < pc. Hypothesis Hpg : 0 < pg. Hypothesis Hpt : 0 < pt.
  Hypothesis Hsum : pa + pc + pg + pt = 1.
  Let piy := pc + pt.
  Let pir := pa + pg.
  Let e1 := 1 - Q / (2 * piy * pir).
  Let e2 := 1 - Q / (2 * pir) - pir * p1 / (2 * (pa * pg)).
  Let e3 := 1 - Q / (2 * piy) - piy * p2 / (2 * (pc * pt)).
  Hypothesis H1 : 0 < e1. Hypothesis H2 : 0 < e2. Hypothesis H3 : 0 < e3.

  Let k := 2 * (pa * pg * piy / pir + pc * pt * pir / piy - pir * piy).

  Lemma tn93_k_nonpos : k <= 0.
  Proof.
    pose proof (f84_coeff_nonpos pa pc pg pt Hpa Hpc Hpg Hpt Hsum) as F. unfold f84_a, f84_b, f84_c in F.
    fold pir piy in F. subst k.
    assert (Hr : 0 < pir) by (unfold pir; lra). assert (Hy : 0 < piy) by (unfold piy; lra).
    assert (Hry : pir + piy = 1) by (unfold pir, piy; lra).
    assert (E1 : pa * pg / pir - pa * pg = pa * pg * piy / pir) by (replace piy with (1 - pir) by lra; field; lra).
    assert (E2 : pc * pt / piy - pc * pt = pc * pt * pir / piy) by (replace pir with (1 - piy) by lra; field; lra).
    lra.
  Qed.

  (* the estimator as a combination of three logarithms *)
  Lemma tn93_linear :
    tn93 pa pc pg pt Q p1 p2 =
    - (2 * (pa * pg) / pir) * ln e2 - (2 * (pc * pt) / piy) * ln e3 + k * ln e1.
  Proof.
    unfold tn93. cbv zeta. fold piy pir. fold e1 e2 e3. subst k.
    assert (Hr : 0 < pir) by (unfold pir; lra). assert (Hy : 0 < piy) by (unfold piy; lra).
    assert (Hs : 0 < pa * pg + pc * pt) by nra.
    field. repeat split; lra.
  Qed.

  Theorem tn93_ge_p : Q + p1 + p2 <= tn93 pa pc pg pt Q p1 p2.
  Proof.
    rewrite tn93_linear.
    assert (Hr : 0 < pir) by (unfold pir; lra). assert (Hy : 0 < piy) by (unfold piy; lra).
    assert (Hag : 0 < pa * pg) by nra. assert (Hct : 0 < pc * pt) by nra.
    pose proof (ln_le_sub1 e1 H1) as A1. pose proof (ln_le_sub1 e2 H2) as A2. pose proof (ln_le_sub1 e3 H3) as A3.
    pose proof tn93_k_nonpos as Hk.
    assert (C2 : 0 < 2 * (pa * pg) / pir) by (apply Rdiv_lt_0_compat; lra).
    assert (C3 : 0 < 2 * (pc * pt) / piy) by (apply Rdiv_lt_0_compat; lra).
    assert (B2 : (2 * (pa * pg) / pir) * (1 - e2) <= - (2 * (pa * pg) / pir) * ln e2).
    { assert (2 * (pa * pg) / pir * ln e2 <= 2 * (pa * pg) / pir * (e2 - 1)) by (apply Rmult_le_compat_l; lra). lra. }
    assert (B3 : (2 * (pc * pt) / piy) * (1 - e3) <= - (2 * (pc * pt) / piy) * ln e3).
    { assert (2 * (pc * pt) / piy * ln e3 <= 2 * (pc * pt) / piy * (e3 - 1)) by (apply Rmult_le_compat_l; lra). lra. }
    assert (B1 : k * (e1 - 1) <= k * ln e1) by (apply Rmult_le_compat_neg_l; lra).
    assert (E : (2 * (pa * pg) / pir) * (1 - e2) + (2 * (pc * pt) / piy) * (1 - e3) + k * (e1 - 1) = Q + p1 + p2).
    { subst k e1 e2 e3. field. repeat split; lra. }
    lra.
  Qed.
  Variable al : R.
  Hypothesis Hal : 0 < al.
  Let g (e : R) : R := al * (1 - Rpower e (- 1 / al)).

  Lemma tn93_gamma_linear :
    tn93_gamma al pa pc pg pt Q p1 p2 =
    - (2 * (pa * pg) / pir) * g e2 - (2 * (pc * pt) / piy) * g e3 + k * g e1.
  Proof.
    unfold tn93_gamma. cbv zeta. fold piy pir. fold e1 e2 e3. subst k g. cbv beta.
    assert (Hr : 0 < pir) by (unfold pir; lra). assert (Hy : 0 < piy) by (unfold piy; lra).
    assert (Hs : 0 < pa * pg + pc * pt) by nra.
    field. repeat split; lra.
  Qed.

  Theorem tn93_gamma_ge_tn93 : tn93 pa pc pg pt Q p1 p2 <= tn93_gamma al pa pc pg pt Q p1 p2.
  Proof.
    rewrite tn93_linear, tn93_gamma_linear.
    assert (Hr : 0 < pir) by (unfold pir; lra). assert (Hy : 0 < piy) by (unfold piy; lra).
    assert (Hag : 0 < pa * pg) by nra. assert (Hct : 0 < pc * pt) by nra.
    assert (G : forall e, 0 < e -> g e <= ln e).
    { intros e He. pose proof (gamma_term_ge_log al e Hal He). subst g. cbv beta. lra. }
    pose proof (G e1 H1) as G1. pose proof (G e2 H2) as G2. pose proof (G e3 H3) as G3.
    pose proof tn93_k_nonpos as Hk.
    assert (C2 : 0 < 2 * (pa * pg) / pir) by (apply Rdiv_lt_0_compat; lra).
    assert (C3 : 0 < 2 * (pc * pt) / piy) by (apply Rdiv_lt_0_compat; lra).
    assert (B2 : 2 * (pa * pg) / pir * g e2 <= 2 * (pa * pg) / pir * ln e2) by (apply Rmult_le_compat_l; lra).
    assert (B3 : 2 * (pc * pt) / piy * g e3 <= 2 * (pc * pt) / piy * ln e3) by (apply Rmult_le_compat_l; lra).
    assert (B1 : k * ln e1 <= k * g e1) by (apply Rmult_le_compat_neg_l; lra).
    lra.
  Qed.

  Theorem tn93_gamma_ge_p : Q + p1 + p2 <= tn93_gamma al pa pc pg pt Q p1 p2.
  Proof. apply Rle_trans with (tn93 pa pc pg pt Q p1 p2); [apply tn93_ge_p | apply tn93_gamma_ge_tn93]. Qed.
End TN93.
