From Coq Require Import List Arith Lia Bool.
From Coq.Strings Require Import Byte.
From GA.Model Require Import Fasta.
Import ListNotations.

(* ---------- byte classes ---------- *)
Definition plain (b : byte) : bool := negb (is_eol b) && negb (beqb b NUL).
Definition resid (b : byte) : bool := plain b && negb (beqb b SP) && negb (beqb b GT).

Definition good_name (n : list byte) : bool :=
  match n with
  | [] => false
  | b :: _ => negb (beqb b SP) && negb (beqb b GT) && forallb plain n
  end.
Definition good_seq (s : list byte) : bool :=
  match s with [] => false | _ => forallb resid s end.
Definition representable (a : list row) : bool :=
  forallb (fun r => good_name (fst r) && good_seq (snd r)) a.

(* ---------- chunks ---------- *)
Fixpoint chunks_aux (w k : nat) (s : list byte) (cur : list byte) : list (list byte) :=
  match s with
  | [] => [rev cur]
  | b :: t => match k with
              | O => rev cur :: chunks_aux w (w - 1) t [b]
              | S k' => chunks_aux w k' t (b :: cur)
              end
  end.

Lemma wrap_chunks_aux w k s cur :
  rev cur ++ wrap_aux w k s ++ [NL] = flat_map (fun c => c ++ [NL]) (chunks_aux w k s cur).
Proof.
  revert k cur; induction s as [|b t IH]; intros k cur; simpl.
  - rewrite app_nil_r. reflexivity.
  - destruct k as [|k'].
    + simpl. rewrite <- (IH (w-1) [b]). simpl. rewrite <- app_assoc. reflexivity.
    + rewrite <- (IH k' (b :: cur)). simpl. rewrite <- app_assoc. reflexivity.
Qed.

Lemma chunks_concat w k s cur : concat (chunks_aux w k s cur) = rev cur ++ s.
Proof.
  revert k cur; induction s as [|b t IH]; intros k cur; simpl.
  - rewrite !app_nil_r. reflexivity.
  - destruct k; simpl; rewrite IH; simpl; rewrite <- ?app_assoc; reflexivity.
Qed.

(* every chunk produced from a good sequence (with k < w or first) is a non-empty residue run,
   provided the current chunk is non-empty or we are at the start with non-empty s *)
Lemma chunks_good w k s cur :
  0 < w -> forallb resid s = true -> forallb resid cur = true ->
  (cur <> [] \/ (s <> [] /\ k <> 0)) ->
  Forall (fun c => c <> [] /\ forallb resid c = true) (chunks_aux w k s cur).
Proof.
  intros Hw; revert k cur; induction s as [|b t IH]; intros k cur Hs Hc Hne; simpl.
  - constructor; [|constructor]. split.
    + destruct Hne as [H|[H _]]; [|congruence]. destruct cur; [congruence|]. simpl. intro E. apply app_eq_nil in E. destruct E; discriminate.
    + rewrite forallb_forall in *. intros x Hx. apply Hc. apply in_rev. exact Hx.
  - simpl in Hs. apply andb_true_iff in Hs as [Hb Ht].
    destruct k as [|k'].
    + constructor.
      * split.
        -- destruct Hne as [H|[_ H]]; [|congruence]. destruct cur; [congruence|]. simpl. intro E. apply app_eq_nil in E. destruct E; discriminate.
        -- rewrite forallb_forall in *. intros x Hx. apply Hc. apply in_rev. exact Hx.
      * apply IH; auto. simpl. rewrite Hb. reflexivity. left. discriminate.
    + apply IH; auto. simpl. rewrite Hb, Hc. reflexivity. left. discriminate.
Qed.

(* ---------- lexer lemmas ---------- *)
Lemma eol_not_nul b : is_eol b = true -> beqb b NUL = false.
Proof. destruct b; try discriminate; reflexivity. Qed.
Lemma resid_plain b : resid b = true -> plain b = true.
Proof. unfold resid. intro H. apply andb_true_iff in H as [H _]. apply andb_true_iff in H as [H _]. exact H. Qed.
Lemma plain_not_eol b : plain b = true -> is_eol b = false.
Proof. unfold plain. intro H. apply andb_true_iff in H as [H _]. now apply negb_true_iff in H. Qed.
Lemma plain_not_nul b : plain b = true -> beqb b NUL = false.
Proof. unfold plain. intro H. apply andb_true_iff in H as [_ H]. now apply negb_true_iff in H. Qed.

Definition eol_start (rest : list byte) : Prop :=
  rest = [] \/ exists b t, rest = b :: t /\ is_eol b = true.

Lemma ident_run_plain s rest :
  forallb plain s = true -> eol_start rest -> ident_run (s ++ rest) = (s, rest).
Proof.
  induction s as [|b t IH]; intros Hs Hr; simpl.
  - destruct Hr as [->|(b & t & -> & Hb)]; simpl; [reflexivity|].
    rewrite (eol_not_nul _ Hb), Hb. reflexivity.
  - simpl in Hs. apply andb_true_iff in Hs as [Hb Ht].
    rewrite (plain_not_nul _ Hb), (plain_not_eol _ Hb), (IH Ht Hr). reflexivity.
Qed.

(* scanning an identifier line: first byte is plain and not '>' *)
Lemma scan_ident b s rest :
  plain b = true -> beqb b GT = false -> forallb plain s = true -> eol_start rest ->
  scan (b :: s ++ rest) = (TIdent (b :: s), rest).
Proof.
  intros Hb Hg Hs Hr. unfold scan.
  rewrite (plain_not_eol _ Hb), (plain_not_nul _ Hb), Hg, (ident_run_plain s rest Hs Hr). reflexivity.
Qed.

Definition noeol_start (rest : list byte) : Prop :=
  match rest with [] => True | b :: _ => is_eol b = false /\ beqb b NUL = false end.

Lemma scan_nl rest : noeol_start rest -> scan (NL :: rest) = (TEol, rest).
Proof.
  intros H. unfold scan. simpl. destruct rest as [|b t]; simpl; [reflexivity|].
  simpl in H. destruct H as [H1 H2]. rewrite H1. simpl. rewrite H2. reflexivity.
Qed.

Lemma drop_nul_len l : length (drop_nul l) <= length l.
Proof. destruct l as [|b t]; simpl; [lia|]. destruct (beqb b NUL); simpl; lia. Qed.

Lemma scan_shrinks l t r : scan l = (t, r) -> t <> TEof -> length r < length l.
Proof.
  intros E Ht. destruct l as [|b t0]; [simpl in E; inversion E; subst; congruence|].
  unfold scan in E. destruct (is_eol b).
  { inversion E; subst. pose proof (span_len is_eol t0). pose proof (drop_nul_len (snd (span is_eol t0))). simpl. lia. }
  destruct (beqb b NUL). { inversion E; subst; congruence. }
  destruct (beqb b GT). { inversion E; subst. simpl. lia. }
  pose proof (ident_run_len t0). destruct (ident_run t0). inversion E; subst. simpl in *. lia.
Qed.

Lemma lex_fuel2 : forall f1 f2 l, length l < f1 -> length l < f2 -> lex f1 l = lex f2 l.
Proof.
  induction f1 as [|f1 IH]; intros f2 l H1 H2; [lia|].
  destruct f2 as [|f2]; [lia|]. cbn [lex].
  destruct (scan l) as [t r] eqn:E.
  destruct t; try reflexivity; f_equal; apply IH;
    pose proof (scan_shrinks l _ r E ltac:(discriminate)); lia.
Qed.

Lemma lex_all_step l t r : scan l = (t, r) -> t <> TEof -> lex_all l = t :: lex_all r.
Proof.
  intros E Ht. unfold lex_all at 1. cbn [lex]. rewrite E.
  pose proof (scan_shrinks l t r E Ht).
  destruct t; try congruence; f_equal; unfold lex_all; apply lex_fuel2; lia.
Qed.

(* tokens of a written file *)
Definition toks_line (c : list byte) : list tok := [TIdent c; TEol].
Definition toks_row (w : nat) (r : row) : list tok :=
  TStart :: TIdent (fst r) :: TEol :: flat_map toks_line (chunks_aux w w (snd r) []).

Definition good_line (c : list byte) : Prop := c <> [] /\ forallb resid c = true.

Lemma noeol_start_row w r rest : noeol_start (write_row w r ++ rest).
Proof. simpl. split; reflexivity. Qed.

Lemma lex_lines cs rest :
  Forall good_line cs -> noeol_start rest ->
  lex_all (flat_map (fun c => c ++ [NL]) cs ++ rest) = flat_map toks_line cs ++ lex_all rest.
Proof.
  induction cs as [|c cs IH]; intros Hc Hr; simpl; [reflexivity|].
  inversion Hc as [|? ? [Hne Hres] Hcs]; subst.
  destruct c as [|b s]; [congruence|]. simpl in Hres. apply andb_true_iff in Hres as [Hb Hs].
  assert (Hpl : forallb plain s = true).
  { rewrite forallb_forall in *. intros x Hx. apply resid_plain. auto. }
  assert (Hg : beqb b GT = false).
  { unfold resid in Hb. apply andb_true_iff in Hb as [_ Hb]. now apply negb_true_iff in Hb. }
  set (tail := flat_map (fun c => c ++ [NL]) cs ++ rest).
  assert (Htail : noeol_start tail).
  { unfold tail. destruct cs as [|c2 cs2]; simpl; [exact Hr|].
    inversion Hcs as [|? ? [Hne2 Hres2] _]; subst. destruct c2 as [|b2 s2]; [congruence|]. simpl.
    simpl in Hres2. apply andb_true_iff in Hres2 as [Hb2 _]. split; [apply plain_not_eol | apply plain_not_nul]; now apply resid_plain. }
  replace ((((b :: s) ++ [NL]) ++ flat_map (fun c => c ++ [NL]) cs) ++ rest) with (b :: s ++ NL :: tail)
    by (unfold tail; simpl; rewrite <- !app_assoc; reflexivity).
  rewrite (lex_all_step _ _ _ (scan_ident b s (NL :: tail) (resid_plain _ Hb) Hg Hpl
              (or_intror (ex_intro _ NL (ex_intro _ tail (conj eq_refl eq_refl)))))) by discriminate.
  rewrite (lex_all_step _ _ _ (scan_nl tail Htail)) by discriminate.
  unfold tail. rewrite IH by assumption. reflexivity.
Qed.

Lemma lex_row w r rest :
  0 < w -> good_name (fst r) = true -> good_seq (snd r) = true -> noeol_start rest ->
  lex_all (write_row w r ++ rest) = toks_row w r ++ lex_all rest.
Proof.
  intros Hw Hn Hs Hr. destruct r as [n s]. simpl fst in *; simpl snd in *.
  unfold write_row, toks_row. simpl fst; simpl snd.
  destruct n as [|b n']; [discriminate|]. simpl in Hn.
  apply andb_true_iff in Hn as [Hn Hpl]. apply andb_true_iff in Hn as [Hsp Hg].
  apply negb_true_iff in Hg. apply andb_true_iff in Hpl as [Hb Hpl].
  destruct s as [|c s']; [discriminate|]. unfold good_seq in Hs.
  pose proof (wrap_chunks_aux w w (c :: s') []) as Hwc. cbn [rev app] in Hwc.
  assert (Hgood : Forall good_line (chunks_aux w w (c :: s') [])).
  { apply chunks_good; auto. right. split; [discriminate|lia]. }
  set (body := flat_map (fun c0 => c0 ++ [NL]) (chunks_aux w w (c :: s') [])) in *.
  assert (Htl : noeol_start (body ++ rest)).
  { unfold body. destruct (chunks_aux w w (c :: s') []) as [|c2 cs2]; simpl; [exact Hr|].
    inversion Hgood as [|? ? [Hne2 Hres2] _]; subst. destruct c2 as [|b2 s2]; [congruence|]. simpl.
    simpl in Hres2. apply andb_true_iff in Hres2 as [Hb2 _]. split; [apply plain_not_eol | apply plain_not_nul]; now apply resid_plain. }
  replace ((GT :: (b :: n') ++ NL :: wrap w (c :: s') ++ [NL]) ++ rest)
     with (GT :: (b :: n' ++ NL :: (body ++ rest))).
  2:{ unfold wrap. subst body. rewrite <- Hwc. cbn [app]. rewrite <- !app_assoc. cbn [app]. rewrite <- !app_assoc. cbn [app]. reflexivity. }
  rewrite (lex_all_step (GT :: _) TStart _ eq_refl) by discriminate.
  rewrite (lex_all_step _ _ _ (scan_ident b n' (NL :: _) Hb Hg Hpl
              (or_intror (ex_intro _ NL (ex_intro _ _ (conj eq_refl eq_refl)))))) by discriminate.
  rewrite (lex_all_step _ _ _ (scan_nl _ Htl)) by discriminate.
  unfold body. rewrite lex_lines by assumption. simpl. reflexivity.
Qed.

Lemma write_cons w r a : write w (r :: a) = write_row w r ++ write w a.
Proof. reflexivity. Qed.

Lemma lex_file w a :
  0 < w -> representable a = true ->
  lex_all (write w a) = flat_map (toks_row w) a ++ [TEof].
Proof.
  intros Hw. induction a as [|r a IH]; intros Hrep.
  - reflexivity.
  - rewrite write_cons. cbn [representable forallb] in Hrep.
    apply andb_true_iff in Hrep as [Hr Ha]. apply andb_true_iff in Hr as [Hn Hs].
    rewrite lex_row; auto.
    + rewrite (IH Ha). cbn [flat_map]. rewrite <- app_assoc. reflexivity.
    + destruct a as [|r2 a2]; [exact I|]. rewrite write_cons. apply noeol_start_row.
Qed.

(* ---------- parser loop on the token stream of a written file ---------- *)
Lemma strip_sp_id n : good_name n = true -> strip_sp n = n.
Proof.
  destruct n as [|b t]; [discriminate|]. simpl. intro H.
  apply andb_true_iff in H as [H _]. apply andb_true_iff in H as [H _].
  apply negb_true_iff in H. unfold strip_sp. simpl. rewrite H. reflexivity.
Qed.

Lemma rm_sp_id c : forallb resid c = true -> rm_sp c = c.
Proof.
  induction c as [|b t IH]; simpl; intros H; [reflexivity|].
  apply andb_true_iff in H as [Hb Ht]. unfold resid in Hb.
  apply andb_true_iff in Hb as [Hb _]. apply andb_true_iff in Hb as [_ Hb].
  rewrite Hb, (IH Ht). reflexivity.
Qed.

Definition no_eol_tok (ts : list tok) : Prop := match ts with TEol :: _ => False | _ => True end.

Lemma ploop_line c rest cn cseq acc :
  good_line c -> no_eol_tok rest ->
  ploop (TIdent c :: TEol :: rest) cn cseq acc = ploop rest cn (cseq ++ c) acc.
Proof.
  intros [_ Hres] Hn. cbn [ploop skip_eol]. rewrite (rm_sp_id _ Hres).
  destruct rest as [|t r]; [reflexivity|]. destruct t; simpl in Hn; try contradiction; reflexivity.
Qed.

Lemma ploop_lines cs rest cn cseq acc :
  Forall good_line cs -> no_eol_tok rest ->
  ploop (flat_map toks_line cs ++ rest) cn cseq acc = ploop rest cn (cseq ++ concat cs) acc.
Proof.
  revert cseq; induction cs as [|c cs IH]; intros cseq Hc Hn; cbn [flat_map concat app].
  - rewrite app_nil_r. reflexivity.
  - inversion Hc as [|? ? Hg Hcs]; subst. unfold toks_line at 1. cbn [app].
    rewrite ploop_line; auto.
    + rewrite IH by assumption. rewrite app_assoc. reflexivity.
    + destruct cs; [exact Hn|exact I].
Qed.

Lemma chunks_ne w k s cur : chunks_aux w k s cur <> [].
Proof. revert k cur; induction s as [|b t IH]; intros k cur; simpl; [discriminate|]. destruct k; [discriminate|apply IH]. Qed.

Lemma concat_chunks w s : concat (chunks_aux w w s []) = s.
Proof. rewrite chunks_concat. reflexivity. Qed.

Lemma ploop_start n r' cn cseq acc :
  ploop (TStart :: TIdent n :: r') cn cseq acc =
  match cseq with
  | _ :: _ => ploop r' (strip_sp n) [] ((cn, cseq) :: acc)
  | [] => match cn with _ :: _ => RErr | [] => ploop r' (strip_sp n) [] acc end
  end.
Proof. reflexivity. Qed.

Lemma ploop_eol_lines cs rest cn acc :
  cs <> [] -> ploop (TEol :: flat_map toks_line cs ++ rest) cn [] acc = ploop (flat_map toks_line cs ++ rest) cn [] acc.
Proof. destruct cs as [|c cs]; [congruence|]. reflexivity. Qed.

Lemma ploop_row w r rest cn cseq acc :
  0 < w -> good_name (fst r) = true -> good_seq (snd r) = true -> no_eol_tok rest ->
  (cseq <> [] \/ cn = []) ->
  ploop (toks_row w r ++ rest) cn cseq acc =
  ploop rest (fst r) (snd r) (match cseq with [] => acc | _ => (cn, cseq) :: acc end).
Proof.
  intros Hw Hn Hs Hr Hst. destruct r as [n s]. cbn [fst snd] in *.
  unfold toks_row. cbn [fst snd app].
  assert (Hgood : Forall good_line (chunks_aux w w s [])).
  { destruct s as [|c s']; [discriminate|]. apply chunks_good; auto. right. split; [discriminate|lia]. }
  rewrite ploop_start, (strip_sp_id _ Hn).
  destruct cseq as [|x xs].
  - destruct Hst as [H|Hcn]; [congruence|]. subst cn.
    rewrite ploop_eol_lines by apply chunks_ne.
    rewrite ploop_lines by assumption. rewrite concat_chunks. reflexivity.
  - rewrite ploop_eol_lines by apply chunks_ne.
    rewrite ploop_lines by assumption. rewrite concat_chunks. reflexivity.
Qed.

Lemma ploop_file w a cn cseq acc :
  0 < w -> representable a = true -> (cseq <> [] \/ cn = []) ->
  ploop (flat_map (toks_row w) a ++ [TEof]) cn cseq acc =
  ROk (rev acc ++ (match cseq with [] => [] | _ => [(cn, cseq)] end) ++ a).
Proof.
  intros Hw. revert cn cseq acc. induction a as [|r a IH]; intros cn cseq acc Hrep Hst.
  - cbn [flat_map app]. destruct cseq; cbn [ploop skip_eol].
    + destruct Hst as [Hst|Hst]; [congruence|]. subst cn. rewrite app_nil_r. reflexivity.
    + cbn [rev]. rewrite app_nil_r. reflexivity.
  - cbn [representable forallb] in Hrep.
    apply andb_true_iff in Hrep as [Hr Ha]. apply andb_true_iff in Hr as [Hn Hs].
    cbn [flat_map]. rewrite <- app_assoc. rewrite ploop_row; auto.
    + rewrite IH; auto.
      * destruct r as [n s]. cbn [fst snd] in *. destruct s as [|c s']; [discriminate|].
        destruct cseq; cbn [rev]; rewrite <- ?app_assoc; reflexivity.
      * left. destruct (snd r); [discriminate|discriminate].
    + destruct a as [|r2 a2]; cbn; exact I.
Qed.

Theorem fasta_roundtrip w a :
  0 < w -> a <> [] -> representable a = true -> parse (write w a) = ROk a.
Proof.
  intros Hw Hne Hrep. unfold parse. rewrite lex_file by assumption.
  destruct a as [|r a]; [congruence|].
  cbn [flat_map toks_row app skip_eol].
  change (TStart :: TIdent (fst r) :: TEol :: (flat_map toks_line (chunks_aux w w (snd r) []) ++ flat_map (toks_row w) a) ++ [TEof])
    with (flat_map (toks_row w) (r :: a) ++ [TEof]).
  rewrite ploop_file; auto.
Qed.
Print Assumptions fasta_roundtrip.

(* ---------- totality and well-formedness (C03) ---------- *)
Lemma skip_eol_len ts : length (skip_eol ts) <= length ts.
Proof. destruct ts as [|[| | |] t]; simpl; lia. Qed.

Lemma ploop_rows_nonempty : forall n ts cn cs acc rows,
  length ts <= n ->
  (forall r, In r acc -> snd r <> []) ->
  ploop ts cn cs acc = ROk rows -> forall r, In r rows -> snd r <> [].
Proof.
  induction n as [|n IH]; intros ts cn cs acc rows Hl Hacc H.
  - destruct ts; [|simpl in Hl; lia]. simpl in H. discriminate.
  - destruct ts as [|t0 ts0]; [simpl in H; discriminate|].
    pose proof (skip_eol_len (t0 :: ts0)) as Hs.
    destruct t0; cbn [ploop skip_eol] in H.
    + (* TStart *)
      destruct ts0 as [|[| m | |] r']; try discriminate.
      destruct cs as [|c cs'].
      * destruct cn; [|discriminate]. apply (IH r' (strip_sp m) [] acc rows); [simpl in Hl; lia | exact Hacc | exact H].
      * apply (IH r' (strip_sp m) [] ((cn, c :: cs') :: acc) rows); [simpl in Hl; lia | | exact H].
        intros r [<-|Hr]; [simpl; discriminate | apply Hacc; exact Hr].
    + (* TIdent *)
      apply (IH ts0 cn (cs ++ rm_sp l) acc rows); [simpl in Hl; lia | exact Hacc | exact H].
    + (* TEol: skipped, then the next token is examined *)
      destruct ts0 as [|t1 ts1]; [discriminate|].
      destruct t1.
      * destruct ts1 as [|[| m | |] r']; try discriminate.
        destruct cs as [|c cs'].
        -- destruct cn; [|discriminate]. apply (IH r' (strip_sp m) [] acc rows); [simpl in Hl; lia | exact Hacc | exact H].
        -- apply (IH r' (strip_sp m) [] ((cn, c :: cs') :: acc) rows); [simpl in Hl; lia | | exact H].
           intros r [<-|Hr]; [simpl; discriminate | apply Hacc; exact Hr].
      * apply (IH ts1 cn (cs ++ rm_sp l) acc rows); [simpl in Hl; lia | exact Hacc | exact H].
      * apply (IH ts1 cn cs acc rows); [simpl in Hl; lia | exact Hacc | exact H].
      * destruct cs as [|c cs'].
        -- destruct cn; [|discriminate]. inversion H; subst. intros r Hr. apply Hacc. apply (proj2 (in_rev acc r)). exact Hr.
        -- inversion H; subst. intros r Hr. apply (proj2 (in_rev ((cn, c :: cs') :: acc) r)) in Hr. destruct Hr as [<-|Hr]; [simpl; discriminate | apply Hacc; exact Hr].
    + (* TEof *)
      destruct cs as [|c cs'].
      * destruct cn; [|discriminate]. inversion H; subst. intros r Hr. apply Hacc. apply (proj2 (in_rev acc r)). exact Hr.
      * inversion H; subst. intros r Hr. apply (proj2 (in_rev ((cn, c :: cs') :: acc) r)) in Hr. destruct Hr as [<-|Hr]; [simpl; discriminate | apply Hacc; exact Hr].
Qed.

(* a successful parse returns at least one row and no row with an empty sequence *)
Theorem fasta_parse_wellformed inp rows :
  parse inp = ROk rows -> rows <> [] /\ forall r, In r rows -> snd r <> [].
Proof.
  unfold parse. destruct (skip_eol (lex_all inp)) as [|[| | |] ?]; try discriminate.
  destruct (ploop (lex_all inp) [] [] []) as [rs|] eqn:E; [|discriminate].
  destruct rs as [|r0 rs]; [discriminate|]. intros H. inversion H; subst. split; [discriminate|].
  apply (ploop_rows_nonempty (length (lex_all inp)) (lex_all inp) [] [] [] (r0 :: rs)); auto; try (intros ? []).
Qed.

(* the lexer's loop always terminates: any fuel above the input length gives the
   same token stream (each Scan consumes at least one byte or reports EOF) *)
Theorem fasta_lex_terminates inp f : length inp < f -> lex f inp = lex_all inp.
Proof. intros H. unfold lex_all. apply lex_fuel2; lia. Qed.
