(* Concat on the container model (Model/Container.v concat_op): a successful concatenation keeps the
   invariant; histories of covered operations and successful concatenations keep it. *)
From Coq Require Import List Bool NArith ZArith Lia Permutation.
From Coq.Strings Require Import Byte.
Import ListNotations.
From GA.Base Require Import Bytes Case Align Dec Sort.
From GA.Gen Require Import Alpha.
From GA.Model Require Import Container.
From GA.Proofs Require Import ContainerProofs.

(* the part of the invariant that does not speak of lengths *)
Definition WInv (st : cstate) : Prop := index_ok (c_objs st) (c_index st) /\ ids_ok st.

Lemma Inv_WInv st : Inv st -> WInv st.
Proof. intros [H1 [H2 _]]. split; assumption. Qed.

Definition ext_seq (id : nat) (add : list byte) (o : obj) : obj :=
  if Nat.eqb (oid o) id then (oid o, (oname o, oseq o ++ add)) else o.

Lemma ext_seq_id id add o : oid (ext_seq id add o) = oid o.
Proof. unfold ext_seq. destruct (Nat.eqb (oid o) id); reflexivity. Qed.
Lemma ext_seq_name id add o : oname (ext_seq id add o) = oname o.
Proof. unfold ext_seq. destruct (Nat.eqb (oid o) id); reflexivity. Qed.

Lemma append_by_name_winv st n add st' :
  WInv st -> append_by_name st n add = Some st' ->
  WInv st' /\ c_kind st' = c_kind st /\ c_next st' = c_next st /\ c_len st' = c_len st /\ c_index st' = c_index st /\
  map oname (c_objs st') = map oname (c_objs st) /\ c_alpha st' = c_alpha st /\ c_policy st' = c_policy st.
Proof.
  intros [[Hs Hn] [Hnd Hlt]] H. unfold append_by_name in H.
  destruct (idx_lookup n (c_index st)) as [id|]; [|discriminate]. injection H as <-.
  unfold set_objs. cbn [c_objs c_index c_kind c_next c_len c_alpha c_policy].
  fold (ext_seq id add).
  assert (Hids : map oid (map (ext_seq id add) (c_objs st)) = map oid (c_objs st)).
  { rewrite map_map. apply map_ext. intros o. apply ext_seq_id. }
  assert (Hnames : map oname (map (ext_seq id add) (c_objs st)) = map oname (c_objs st)).
  { rewrite map_map. apply map_ext. intros o. apply ext_seq_name. }
  repeat split; auto.
  - intros m i Hm. destruct (Hs m i Hm) as [o [Hin [Hid Hnm]]].
    exists (ext_seq id add o). split; [apply in_map; exact Hin|]. split; [rewrite ext_seq_id | rewrite ext_seq_name]; assumption.
  - intros m Hm o Hin. apply in_map_iff in Hin as [o0 [<- Hin]]. change (oname (ext_seq id add o0) <> m). rewrite ext_seq_name. apply (Hn m Hm o0 Hin).
  - cbn [c_objs]. change (NoDup (map oid (map (ext_seq id add) (c_objs st)))). rewrite Hids. exact Hnd.
  - intros o Hin. cbn [c_objs] in Hin. apply in_map_iff in Hin as [o0 [<- Hin]]. change (oid (ext_seq id add o0) < c_next st). rewrite ext_seq_id. apply Hlt. exact Hin.
Qed.

Lemma concat_a_winv crows clen : forall anames st st' ok,
  WInv st -> concat_a st anames crows clen = (st', ok) ->
  WInv st' /\ c_kind st' = c_kind st /\ c_len st' = c_len st.
Proof.
  induction anames as [|n t IH]; intros st st' ok Hw H; cbn [concat_a] in H.
  - injection H as <- <-. auto.
  - destruct (lassoc n crows); [apply (IH st st' ok Hw H)|].
    destruct (append_by_name st n (repeat GAP clen)) as [st1|] eqn:E.
    + destruct (append_by_name_winv st n _ st1 Hw E) as [Hw1 [Hk [_ [Hl _]]]].
      destruct (IH st1 st' ok Hw1 H) as [Hw' [Hk' Hl']]. split; [exact Hw'|]. split; congruence.
    + injection H as <- <-. auto.
Qed.

(* a fresh name is pushed at the end: the length-free part of add_seq's effect *)
Lemma push_winv st nm s newlen :
  WInv st -> idx_lookup nm (c_index st) = None ->
  WInv (mkst (c_kind st) (c_policy st) (c_alpha st) newlen (S (c_next st))
             (c_objs st ++ [(c_next st, (nm, s))]) (idx_set nm (c_next st) (c_index st))).
Proof.
  intros [[Hs Hn] [Hnd Hlt]] Hnone. split; [split|split]; cbn [c_objs c_index c_next].
  - intros m id Hm. rewrite idx_set_lookup in Hm. destruct (bytes_eqb m nm) eqn:E.
    + injection Hm as <-. apply bytes_eqb_eq in E. subst m.
      exists (c_next st, (nm, s)). split; [apply in_or_app; right; left; reflexivity | auto].
    + destruct (Hs m id Hm) as [o [Hin [Hid Hnm]]]. exists o. split; [apply in_or_app; left; exact Hin | auto].
  - intros m Hm o Hin. rewrite idx_set_lookup in Hm. destruct (bytes_eqb m nm) eqn:E; [discriminate|].
    apply in_app_or in Hin as [Hin|[<-|[]]]; [apply (Hn m Hm o Hin)|].
    unfold oname. simpl. intros ->. rewrite bytes_eqb_refl in E. discriminate.
  - rewrite map_app. simpl. eapply Permutation_NoDup; [apply Permutation_cons_append|]. constructor; [|exact Hnd].
    intros Hin. apply in_map_iff in Hin as [o [Hid Hin]]. specialize (Hlt o Hin). unfold oid in *. lia.
  - intros o Hin. apply in_app_or in Hin as [Hin|[<-|[]]].
    + specialize (Hlt o Hin). lia.
    + unfold oid. simpl. lia.
Qed.

Lemma add_fresh_winv st n s :
  WInv st -> idx_lookup n (c_index st) = None ->
  let st1 := match add_seq true st n s with Added st' => st' | _ => st end in
  WInv st1 /\ c_kind st1 = c_kind st.
Proof.
  intros Hw Hnone. unfold add_seq. rewrite Hnone.
  destruct (true && negb (Z.eqb (c_len st) (-1)) && negb (Z.eqb (c_len st) (Z.of_nat (length s)))); cbn zeta.
  - auto.
  - split; [apply push_winv; assumption | reflexivity].
Qed.

Lemma concat_c_winv alen : forall crows st st' ok,
  WInv st -> concat_c st crows alen = (st', ok) -> WInv st' /\ c_kind st' = c_kind st.
Proof.
  induction crows as [|[n s] t IH]; intros st st' ok Hw H; cbn [concat_c] in H.
  - injection H as <- <-. auto.
  - set (st1 := match idx_lookup n (c_index st) with
                | Some _ => st
                | None => match add_seq true st n (repeat GAP alen) with Added st0 => st0 | _ => st end
                end) in *.
    assert (H1 : WInv st1 /\ c_kind st1 = c_kind st).
    { subst st1. destruct (idx_lookup n (c_index st)) eqn:E; [auto|]. apply add_fresh_winv; assumption. }
    destruct H1 as [Hw1 Hk1].
    destruct (append_by_name st1 n s) as [st2|] eqn:E2.
    + destruct (append_by_name_winv st1 n s st2 Hw1 E2) as [Hw2 [Hk2 _]].
      destruct (IH st2 st' ok Hw2 H) as [Hw' Hk']. split; [exact Hw' | congruence].
    + injection H as E1 _. rewrite <- E1. auto.
Qed.

(* a successful concatenation leaves a rectangular, index-consistent alignment *)
Theorem concat_inv st calpha crows :
  Inv st -> snd (concat_op st calpha crows) = true -> Inv (fst (concat_op st calpha crows)).
Proof.
  intros Hinv Hok. unfold concat_op in *.
  destruct (negb (Z.eqb (c_alpha st) calpha)); [exact Hinv|].
  destruct (concat_a st (map oname (c_objs st)) crows
              match crows with [] => 0%nat | r :: _ => length (snd r) end) as [st1 ok1] eqn:Ea.
  destruct (concat_a_winv _ _ _ _ _ _ (Inv_WInv st Hinv) Ea) as [Hw1 _].
  destruct ok1; cbn [negb] in *; [|discriminate Hok].
  destruct (concat_c st1 crows (Z.to_nat (Z.max 0 (c_len st)))) as [st2 ok2] eqn:Ec.
  destruct (concat_c_winv _ _ _ _ _ Hw1 Ec) as [[Hi2 [Hnd2 Hlt2]] _].
  destruct ok2; cbn [negb] in *; [|discriminate Hok].
  destruct (c_objs st2) as [|o t] eqn:Eo; cbn [fst snd] in *.
  - unfold Inv, set_len. cbn [c_objs c_index]. rewrite Eo in *.
    split; [exact Hi2|]. split.
    + unfold ids_ok. cbn [c_objs c_next]. split; assumption.
    + unfold rect_ok. cbn [c_objs c_kind c_len]. intros Hk o' Hin. destruct Hin.
  - unfold Inv, set_len. cbn [c_objs c_index]. rewrite Eo in *.
    split; [exact Hi2|]. split.
    + unfold ids_ok. cbn [c_objs c_next]. split; assumption.
    + unfold rect_ok. cbn [c_objs c_kind c_len]. intros Hk o' [<-|Hin]; [reflexivity|].
      rewrite forallb_forall in Hok. specialize (Hok o' Hin). apply Nat.eqb_eq in Hok. congruence.
Qed.

(* histories of covered operations and successful concatenations *)
Definition step_allowed (st : cstate) (op : cop) : bool :=
  covered op || match op with OpConcat _ _ => snd (step st op) | _ => false end.

Fixpoint all_allowed (h : list cop) (st : cstate) : bool :=
  match h with
  | [] => true
  | op :: t => step_allowed st op && all_allowed t (fst (step st op))
  end.

Theorem run_inv_with_concat h : forall st, all_allowed h st = true -> Inv st -> Inv (run h st).
Proof.
  induction h as [|op t IH]; intros st Ha Hinv; [exact Hinv|].
  cbn [all_allowed] in Ha. apply andb_true_iff in Ha as [Ha1 Ha2].
  unfold run. cbn [fold_left]. apply IH; [exact Ha2|].
  unfold step_allowed in Ha1. apply orb_true_iff in Ha1 as [Hc|Hc].
  - apply step_inv; assumption.
  - destruct op; try discriminate. cbn [step] in *. apply concat_inv; assumption.
Qed.

Example concat_nonvacuous :
  let h := [OpAdd [x61] [x41; x43]; OpAdd [x62] [x47; x47];
            OpConcat NUCLEOTIDS [([x62], [x54]); ([x63], [x41])]; OpSort] in
  all_allowed h (empty_state true NUCLEOTIDS) = true /\
  abs (run h (empty_state true NUCLEOTIDS)) =
    [([x61], [x41; x43; x2d]); ([x62], [x47; x47; x54]); ([x63], [x2d; x2d; x41])].
Proof. split; vm_compute; reflexivity. Qed.
