From Coq Require Import List Bool NArith ZArith Lia Permutation.
From Coq.Strings Require Import Byte.
Import ListNotations.
From GA.Base Require Import Bytes Case.
From GA.Model Require Import Orf.

(* invariant of the scan: [best] is an ORF of the whole sequence at its recorded start, and it is at
   least as long as every ORF starting before position i *)
Definition good (whole : list byte) (best : option (nat * nat)) : Prop :=
  match best with Some (st, l) => orf_at (skipn st whole) = Some l | None => True end.
Definition dominates (whole : list byte) (i : nat) (best : option (nat * nat)) : Prop :=
  forall k l, (k < i)%nat -> orf_at (skipn k whole) = Some l ->
              exists st bl, best = Some (st, bl) /\ (l <= bl)%nat.

Lemma skipn_S_cons {A} (whole : list A) i x t : skipn i whole = x :: t -> skipn (S i) whole = t.
Proof.
  revert whole; induction i as [|i IH]; intros whole H.
  - cbn in H. subst. reflexivity.
  - destruct whole as [|y w]; [discriminate H|]. cbn in H. cbn. apply IH. exact H.
Qed.

Lemma longest_from_inv whole s i best :
  skipn i whole = s -> good whole best -> dominates whole i best ->
  good whole (longest_from s i best) /\
  dominates whole (i + length s) (longest_from s i best).
Proof.
  revert i best. induction s as [|x t IH]; intros i best Hs Hg Hd; cbn [longest_from].
  - split; [exact Hg|]. cbn [length]. rewrite Nat.add_0_r. exact Hd.
  - set (best' := match orf_at (x :: t) with
                  | Some l => match best with
                              | Some (_, bl) => if Nat.ltb bl l then Some (i, l) else best
                              | None => Some (i, l) end
                  | None => best end).
    assert (Hg' : good whole best').
    { unfold best'. destruct (orf_at (x :: t)) as [l|] eqn:E; [|exact Hg].
      destruct best as [[st bl]|]; [destruct (Nat.ltb bl l)|]; try exact Hg; unfold good; rewrite Hs; exact E. }
    assert (Hd' : dominates whole (S i) best').
    { intros k l Hk Hl. destruct (Nat.eq_dec k i) as [->|Hne].
      - rewrite Hs in Hl. unfold best'. rewrite Hl.
        destruct best as [[st bl]|]; [|exists i, l; split; [reflexivity | lia]].
        destruct (Nat.ltb_spec bl l); [exists i, l | exists st, bl]; split; try reflexivity; lia.
      - destruct (Hd k l ltac:(lia) Hl) as [st [bl [-> Hle]]]. unfold best'.
        destruct (orf_at (x :: t)) as [l2|]; [|exists st, bl; split; [reflexivity | exact Hle]].
        destruct (Nat.ltb_spec bl l2); [exists i, l2 | exists st, bl]; split; try reflexivity; lia. }
    specialize (IH (S i) best' (skipn_S_cons whole i x t Hs) Hg' Hd').
    cbn [length]. replace (i + S (length t))%nat with (S i + length t)%nat by lia. exact IH.
Qed.

(* the result is an ORF: ATG at its start, the first in-frame stop at its end *)
Theorem longest_is_orf s st l : longest_orf s = Some (st, l) -> orf_at (skipn st s) = Some l.
Proof.
  intros H. unfold longest_orf in H.
  destruct (longest_from_inv s s 0 None eq_refl I) as [Hg _].
  - intros k l' Hk. lia.
  - rewrite H in Hg. exact Hg.
Qed.

(* no ORF of the sequence is longer *)
Theorem longest_maximal s k l : orf_at (skipn k s) = Some l ->
  exists st bl, longest_orf s = Some (st, bl) /\ (l <= bl)%nat.
Proof.
  intros H. unfold longest_orf.
  destruct (longest_from_inv s s 0 None eq_refl I) as [_ Hd].
  - intros k' l' Hk. lia.
  - apply (Hd k l); [|exact H]. cbn [Nat.add].
    destruct (Nat.lt_ge_cases k (length s)) as [Hlt|Hge]; [exact Hlt|].
    rewrite skipn_all2 in H by exact Hge. discriminate H.
Qed.

(* the search by non-overlapping regular-expression matches is not maximal: an ORF overlapping an
   earlier one in another frame is missed *)
Definition witness : list byte := [x54; x41; x54; x47; x41; x54; x41; x54; x47; x41; x54; x47; x43; x47; x43; x41; x41; x41; x54; x47; x41].
Theorem regex_longest_refuted :
  exists s k l bl st, orf_at (skipn k s) = Some l /\ regex_longest s = Some (st, bl) /\ (bl < l)%nat.
Proof. exists witness, 6%nat, 15%nat, 9%nat, 1%nat. vm_compute. repeat split; lia. Qed.

Example longest_on_witness : longest_orf witness = Some (6%nat, 15%nat).
Proof. vm_compute. reflexivity. Qed.

(* the worker pool: whatever the order in which the sequences are taken, the results are the same
   collection *)
Theorem pool_results_permutation {A B} (f : A -> B) (seqs order : list A) :
  Permutation seqs order -> Permutation (map f seqs) (map f order).
Proof. apply Permutation_map. Qed.

(* aa -> nt coordinates (alignAgainstRefsAA: beststart = phase + 3 * seqstart): dropping k residues of
   the translation is translating after dropping 3k nucleotides *)
From GA.Model Require Import Translate.
Theorem frame_shift code k s : translate_from code (skipn (3 * k) s) = skipn k (translate_from code s).
Proof.
  revert s. induction k as [|k IH]; intros s; [reflexivity|].
  replace (3 * S k)%nat with (S (S (S (3 * k)))) by lia.
  destruct s as [|a [|b [|c t]]]; [reflexivity | reflexivity | reflexivity |].
  change (translate_from code (a :: b :: c :: t)) with (translate_codon code a b c :: translate_from code t).
  cbn [skipn]. apply IH.
Qed.

Lemma skipn_add {A} (a b : nat) (l : list A) : skipn (a + b) l = skipn b (skipn a l).
Proof.
  revert l; induction a as [|a IH]; intros l; [reflexivity|].
  destruct l as [|x t]; [cbn; destruct b; reflexivity|]. cbn [Nat.add skipn]. apply IH.
Qed.

Corollary phased_codons_translate code phase k s :
  translate_from code (skipn (phase + 3 * k) s) = skipn k (translate_from code (skipn phase s)).
Proof. rewrite <- frame_shift, skipn_add. reflexivity. Qed.
