From Coq Require Import List Bool ZArith QArith Arith Lia.
Import ListNotations.
From GA.Model Require Import RateMatrix.
Local Open Scope Q_scope.

Lemma r_sym e i j : r_of e i j = r_of e j i.
Proof. destruct i as [|[|[|[|i]]]], j as [|[|[|[|j]]]]; reflexivity. Qed.

Lemma in_st i : In i st -> (i = 0 \/ i = 1 \/ i = 2 \/ i = 3)%nat.
Proof. unfold st; simpl; intuition. Qed.

(* rows of the rate matrix sum to zero *)
Lemma rate_row_sum e pi i : In i st -> ~ norm e pi == 0 ->
  rate e pi i 0 + rate e pi i 1 + rate e pi i 2 + rate e pi i 3 == 0.
Proof.
  intros Hi Hn. apply in_st in Hi.
  destruct Hi as [-> | [-> | [-> | ->]]]; unfold rate, rowout, offdiag; cbn [Nat.eqb r_of]; field; exact Hn.
Qed.

(* detailed balance of the rates *)
Lemma rate_reversible e pi i j : In i st -> In j st -> ~ norm e pi == 0 ->
  qnth pi i * rate e pi i j == qnth pi j * rate e pi j i.
Proof.
  intros Hi Hj Hn. apply in_st in Hi. apply in_st in Hj.
  destruct Hi as [-> | [-> | [-> | ->]]], Hj as [-> | [-> | [-> | ->]]];
    unfold rate, offdiag; cbn [Nat.eqb r_of]; try reflexivity; field; exact Hn.
Qed.

(* one expected substitution per unit time *)
Lemma rate_normalised e pi : ~ norm e pi == 0 ->
  - (qnth pi 0 * rate e pi 0 0 + qnth pi 1 * rate e pi 1 1 + qnth pi 2 * rate e pi 2 2 + qnth pi 3 * rate e pi 3 3) == 1.
Proof.
  intros Hn. unfold rate; cbn [Nat.eqb].
  set (n := norm e pi) in *.
  assert (E : qnth pi 0 * rowout e pi 0 + qnth pi 1 * rowout e pi 1 + qnth pi 2 * rowout e pi 2 + qnth pi 3 * rowout e pi 3 == n) by reflexivity.
  set (a := qnth pi 0 * rowout e pi 0) in *. set (b := qnth pi 1 * rowout e pi 1) in *.
  set (c := qnth pi 2 * rowout e pi 2) in *. set (d := qnth pi 3 * rowout e pi 3) in *.
  transitivity ((a + b + c + d) / n).
  - unfold a, b, c, d. field. exact Hn.
  - rewrite E. field. exact Hn.
Qed.

(* off-diagonal rates are non-negative when frequencies and exchangeabilities are *)
Lemma offdiag_nonneg e pi i j :
  0 <= rAC e -> 0 <= rAG e -> 0 <= rAT e -> 0 <= rCG e -> 0 <= rCT e -> 0 <= rGT e ->
  0 <= qnth pi j -> 0 <= offdiag e pi i j.
Proof.
  intros. unfold offdiag. apply Qmult_le_0_compat; [|assumption].
  destruct i as [|[|[|[|i]]]], j as [|[|[|[|j]]]]; cbn [r_of]; try assumption; apply Qle_refl.
Qed.

(* JC and K2P instances: the familiar constants *)
Lemma jc_rate i j : In i st -> In j st -> rate ex_jc uniform i j == if Nat.eqb i j then -1 else 1#3.
Proof.
  intros Hi Hj. apply in_st in Hi. apply in_st in Hj.
  destruct Hi as [-> | [-> | [-> | ->]]], Hj as [-> | [-> | [-> | ->]]]; reflexivity.
Qed.

Lemma k2p_norm kappa : norm (ex_k2p kappa) uniform == (kappa + 2) / 4.
Proof. unfold norm, rowout, offdiag, uniform, qnth; cbn [nth r_of ex_k2p rAC rAG rAT rCG rCT rGT]. field. Qed.

Lemma k2p_rate_ts kappa : ~ kappa + 2 == 0 -> rate (ex_k2p kappa) uniform 0 2 == kappa / (kappa + 2).
Proof.
  intros H. unfold rate. cbn [Nat.eqb]. rewrite k2p_norm.
  unfold offdiag, uniform, qnth; cbn [nth r_of ex_k2p rAG]. field. exact H.
Qed.

Lemma k2p_rate_tv kappa : ~ kappa + 2 == 0 -> rate (ex_k2p kappa) uniform 0 1 == 1 / (kappa + 2).
Proof.
  intros H. unfold rate. cbn [Nat.eqb]. rewrite k2p_norm.
  unfold offdiag, uniform, qnth; cbn [nth r_of ex_k2p rAC]. field. exact H.
Qed.
