(* The two models of Concat agree: the container model (Model/Container.v concat_op: appends through the
   name index, rows added with AddSequence) computes, on uniquely named rows, exactly the row-level
   definition used by C04 (Model/Sites.v concat). *)
From Coq Require Import List Bool NArith ZArith Lia Permutation.
From Coq.Strings Require Import Byte.
Import ListNotations.
From GA.Base Require Import Bytes Case Align Dec Sort.
From GA.Gen Require Import Alpha.
From GA.Model Require Import Container Sites.
From GA.Proofs Require Import ContainerProofs ConcatProofs.

Definition ext_row (n add : list byte) (r : list byte * list byte) : list byte * list byte :=
  if bytes_eqb (fst r) n then (fst r, snd r ++ add) else r.

Lemma map_ext_row_id n add rs : ~ In n (map fst rs) -> map (ext_row n add) rs = rs.
Proof.
  induction rs as [|[k s] t IH]; intros H; [reflexivity|]. cbn [map]. unfold ext_row at 1. cbn [fst snd].
  destruct (bytes_eqb k n) eqn:E.
  - apply bytes_eqb_eq in E. subst k. exfalso. apply H. left. reflexivity.
  - f_equal. apply IH. intros Hin. apply H. right. exact Hin.
Qed.

Lemma append_to_map n add rs : NoDup (map fst rs) -> Sites.append_to n add rs = map (ext_row n add) rs.
Proof.
  induction rs as [|[k s] t IH]; intros H; [reflexivity|]. inversion H as [|? ? Hk Ht]; subst.
  cbn [Sites.append_to map]. unfold ext_row at 1. cbn [fst snd]. destruct (bytes_eqb k n) eqn:E.
  - apply bytes_eqb_eq in E. subst k. f_equal. symmetry. apply map_ext_row_id. exact Hk.
  - f_equal. apply IH. exact Ht.
Qed.

Lemma ext_seq_other id add (t : list obj) : ~ In id (map oid t) -> map (ext_seq id add) t = t.
Proof.
  induction t as [|y t IH]; intros H; [reflexivity|]. cbn [map]. unfold ext_seq at 1.
  destruct (Nat.eqb_spec (oid y) id) as [E|E].
  - exfalso. apply H. left. exact E.
  - f_equal. apply IH. intros Hin. apply H. right. exact Hin.
Qed.

(* extending the object the index designates = extending the row carrying the name *)
Lemma ext_append id n add : forall objs,
  NoDup (map oid objs) -> NoDup (map oname objs) ->
  (exists o, In o objs /\ oid o = id /\ oname o = n) ->
  map snd (map (ext_seq id add) objs) = map (ext_row n add) (map snd objs).
Proof.
  induction objs as [|x t IH]; intros Hid Hnm [o [Hin [Ho1 Ho2]]]; [destruct Hin|].
  inversion Hid as [|? ? Hx1 Hid']; subst. inversion Hnm as [|? ? Hx2 Hnm']; subst.
  cbn [map]. destruct Hin as [->|Hin].
  - unfold ext_seq at 1. rewrite Nat.eqb_refl. unfold ext_row at 1.
    change (fst (snd o)) with (oname o). rewrite bytes_eqb_refl. cbn [snd]. f_equal.
    rewrite (ext_seq_other (oid o) add t Hx1). symmetry. apply map_ext_row_id.
    replace (map fst (map snd t)) with (map oname t) by (rewrite map_map; reflexivity). exact Hx2.
  - assert (N1 : oid x <> oid o). { intros E. apply Hx1. rewrite E. apply in_map. exact Hin. }
    assert (N2 : oname x <> oname o). { intros E. apply Hx2. rewrite E. apply in_map. exact Hin. }
    unfold ext_seq at 1. destruct (Nat.eqb_spec (oid x) (oid o)) as [E|_]; [contradiction|].
    unfold ext_row at 1. change (fst (snd x)) with (oname x).
    destruct (bytes_eqb (oname x) (oname o)) eqn:E; [apply bytes_eqb_eq in E; contradiction|].
    f_equal. apply IH; [exact Hid' | exact Hnm' | exists o; auto].
Qed.

Lemma names_abs st : map fst (abs st) = map oname (c_objs st).
Proof. unfold abs. rewrite map_map. reflexivity. Qed.

Lemma lassoc_none_objs n : forall objs : list obj,
  (forall o, In o objs -> oname o <> n) -> lassoc n (map snd objs) = None.
Proof.
  induction objs as [|o t IH]; intros H; [reflexivity|]. cbn [map lassoc].
  destruct (snd o) as [k s] eqn:Eo. destruct (bytes_eqb n k) eqn:E.
  - apply bytes_eqb_eq in E. subst k. exfalso. apply (H o); [left; reflexivity|]. unfold oname. rewrite Eo. reflexivity.
  - apply IH. intros o' Hin. apply H. right. exact Hin.
Qed.

Lemma lassoc_some_objs n : forall (objs : list obj) o,
  In o objs -> oname o = n -> lassoc n (map snd objs) <> None.
Proof.
  induction objs as [|x t IH]; intros o Hin Hnm; [destruct Hin|]. cbn [map lassoc].
  destruct (snd x) as [k s] eqn:Ex. destruct (bytes_eqb n k) eqn:E2; [discriminate|].
  destruct Hin as [->|Hin]; [|apply (IH o); assumption].
  unfold oname in Hnm. rewrite Ex in Hnm. cbn in Hnm. subst k. rewrite bytes_eqb_refl in E2. discriminate.
Qed.

Lemma idx_has_name st n :
  WInv st -> (idx_lookup n (c_index st) = None <-> lassoc n (abs st) = None).
Proof.
  intros [[Hs Hn] _]. split.
  - intros H. apply lassoc_none_objs. apply Hn. exact H.
  - intros H. destruct (idx_lookup n (c_index st)) as [id|] eqn:E; [|reflexivity].
    destruct (Hs n id E) as [o [Hin [_ Hnm]]]. exfalso. apply (lassoc_some_objs n (c_objs st) o Hin Hnm). exact H.
Qed.

Lemma append_by_name_abs st n add :
  WInv st -> NoDup (map oname (c_objs st)) -> In n (map oname (c_objs st)) ->
  exists st', append_by_name st n add = Some st' /\ abs st' = map (ext_row n add) (abs st).
Proof.
  intros Hw Hnd Hin. destruct Hw as [[Hs Hn] [Hid Hlt]]. unfold append_by_name.
  destruct (idx_lookup n (c_index st)) as [id|] eqn:E.
  - eexists. split; [reflexivity|]. unfold set_objs, abs. cbn [c_objs].
    apply (ext_append id n add (c_objs st) Hid Hnd). destruct (Hs n id E) as [o H]. exists o. exact H.
  - exfalso. apply in_map_iff in Hin as [o [Ho Hin]]. apply (Hn n E o Hin). exact Ho.
Qed.

(* ---- first loop ------------------------------------------------------------------------------ *)
Definition step_a (anames : list (list byte)) (crows : rows) (clen : nat) (r : list byte * list byte) :=
  if existsb (bytes_eqb (fst r)) anames && negb (Sites.has_name (fst r) crows)
  then (fst r, snd r ++ repeat GAP clen) else r.

Lemma existsb_bytes_in x l : existsb (bytes_eqb x) l = true <-> In x l.
Proof.
  rewrite existsb_exists. split.
  - intros [y [Hy E]]. apply bytes_eqb_eq in E. subst y. exact Hy.
  - intros H. exists x. split; [exact H | apply bytes_eqb_refl].
Qed.

Lemma concat_a_abs crows clen : forall anames st,
  WInv st -> NoDup (map oname (c_objs st)) -> NoDup anames -> incl anames (map oname (c_objs st)) ->
  exists st', concat_a st anames crows clen = (st', true) /\
    abs st' = map (step_a anames crows clen) (abs st) /\
    WInv st' /\ map oname (c_objs st') = map oname (c_objs st) /\
    c_len st' = c_len st /\ c_kind st' = c_kind st /\ c_alpha st' = c_alpha st /\ c_policy st' = c_policy st.
Proof.
  induction anames as [|n t IH]; intros st Hw Hnd Han Hincl; cbn [concat_a].
  - exists st. split; [reflexivity|]. split; [|auto 10].
    symmetry. erewrite map_ext; [apply map_id|]. intros r. unfold step_a. reflexivity.
  - inversion Han as [|? ? Hnt Han']; subst.
    assert (Hincl' : incl t (map oname (c_objs st))) by (intros x Hx; apply Hincl; right; exact Hx).
    destruct (lassoc n crows) as [v|] eqn:El.
    + destruct (IH st Hw Hnd Han' Hincl') as [st' [H1 [H2 H3]]]. exists st'. split; [exact H1|]. split; [|exact H3].
      rewrite H2. apply map_ext. intros r. unfold step_a. cbn [existsb].
      destruct (bytes_eqb (fst r) n) eqn:E; [|reflexivity]. apply bytes_eqb_eq in E. cbn [orb].
      unfold Sites.has_name, get_seq. rewrite E, El. cbn [negb]. rewrite andb_false_r.
      destruct (existsb (bytes_eqb n) t); reflexivity.
    + assert (Hin : In n (map oname (c_objs st))) by (apply Hincl; left; reflexivity).
      destruct (append_by_name_abs st n (repeat GAP clen) Hw Hnd Hin) as [st1 [E1 A1]]. rewrite E1.
      destruct (append_by_name_winv st n _ st1 Hw E1) as [Hw1 [Hk1 [_ [Hl1 [_ [Hn1 [Ha1 Hp1]]]]]]].
      assert (Hnd1 : NoDup (map oname (c_objs st1))) by (rewrite Hn1; exact Hnd).
      assert (Hincl1 : incl t (map oname (c_objs st1))) by (rewrite Hn1; exact Hincl').
      destruct (IH st1 Hw1 Hnd1 Han' Hincl1) as [st' [H1 [H2 [H3 [H4 [H5 [H6 [H7 H8]]]]]]]].
      exists st'. split; [exact H1|]. split; [|split; [exact H3|]; repeat split; congruence].
      rewrite H2, A1, map_map. apply map_ext. intros r. unfold step_a, ext_row. cbn [existsb].
      destruct (bytes_eqb (fst r) n) eqn:E.
      * apply bytes_eqb_eq in E. cbn [orb fst snd]. rewrite E.
        assert (existsb (bytes_eqb n) t = false) as ->.
        { destruct (existsb (bytes_eqb n) t) eqn:Ex; [|reflexivity]. apply existsb_bytes_in in Ex. contradiction. }
        cbn [andb]. unfold Sites.has_name, get_seq. rewrite El. reflexivity.
      * cbn [orb]. reflexivity.
Qed.

(* ---- second loop ----------------------------------------------------------------------------- *)
Lemma concat_c_abs alen : forall crows st,
  WInv st -> NoDup (map oname (c_objs st)) ->
  (c_len st = (-1)%Z \/ c_len st = Z.of_nat alen) ->
  exists st', concat_c st crows alen = (st', true) /\
    abs st' = Sites.concat_step2 (abs st) (Z.of_nat alen) crows /\ c_alpha st' = c_alpha st.
Proof.
  induction crows as [|[n s] t IH]; intros st Hw Hnd Hlen; cbn [concat_c Sites.concat_step2].
  - exists st. auto.
  - unfold Sites.has_name, get_seq.
    pose proof (idx_has_name st n Hw) as Hiff.
    set (st1 := match idx_lookup n (c_index st) with
                | Some _ => st
                | None => match add_seq true st n (repeat GAP alen) with Added st0 => st0 | _ => st end
                end).
    assert (H1 : WInv st1 /\ NoDup (map oname (c_objs st1)) /\ In n (map oname (c_objs st1)) /\
                 (c_len st1 = (-1)%Z \/ c_len st1 = Z.of_nat alen) /\ c_alpha st1 = c_alpha st /\
                 abs st1 = (if match lassoc n (abs st) with Some _ => true | None => false end
                            then abs st else abs st ++ [(n, Sites.gaps (Z.of_nat alen))])).
    { subst st1. destruct (idx_lookup n (c_index st)) as [id|] eqn:E.
      - assert (Hl : lassoc n (abs st) <> None) by (intros Hl; apply Hiff in Hl; discriminate).
        destruct (lassoc n (abs st)) eqn:El; [|contradiction].
        split; [exact Hw|]. split; [exact Hnd|]. split; [|split; [exact Hlen|]; split; reflexivity].
        destruct Hw as [[Hs _] _]. destruct (Hs n id E) as [o [Hin [_ Hnm]]].
        rewrite <- Hnm. apply in_map. exact Hin.
      - assert (Hl : lassoc n (abs st) = None) by (apply Hiff; reflexivity). rewrite Hl.
        unfold add_seq. rewrite E.
        assert (Hchk : (true && negb (Z.eqb (c_len st) (-1)) && negb (Z.eqb (c_len st) (Z.of_nat (length (repeat GAP alen))))) = false).
        { rewrite repeat_length. destruct Hlen as [-> | ->]; [reflexivity|]. rewrite Z.eqb_refl. cbn. apply andb_false_r. }
        rewrite Hchk. cbn zeta.
        split; [apply push_winv; assumption|]. cbn [c_objs c_len c_alpha].
        split.
        { rewrite map_app. cbn [map]. change (oname (c_next st, (n, repeat GAP alen))) with n.
          eapply Permutation_NoDup; [apply Permutation_cons_append|]. constructor; [|exact Hnd].
          intros Hin. destruct Hw as [[_ Hn] _]. apply in_map_iff in Hin as [o [Ho Hin]]. apply (Hn n E o Hin Ho). }
        split; [rewrite map_app; apply in_or_app; right; left; reflexivity|].
        split; [right; rewrite repeat_length; reflexivity|]. split; [reflexivity|].
        unfold abs. cbn [c_objs]. rewrite map_app. cbn [map snd]. unfold Sites.gaps. rewrite Nat2Z.id. reflexivity. }
    destruct H1 as [Hw1 [Hnd1 [Hin1 [Hlen1 [Ha1 Habs1]]]]].
    destruct (append_by_name_abs st1 n s Hw1 Hnd1 Hin1) as [st2 [E2 A2]]. rewrite E2.
    destruct (append_by_name_winv st1 n s st2 Hw1 E2) as [Hw2 [_ [_ [Hl2 [_ [Hn2 [Ha2 _]]]]]]].
    destruct (IH st2 Hw2) as [st' [H1 [H2 H3]]]; [rewrite Hn2; exact Hnd1 | rewrite Hl2; exact Hlen1|].
    exists st'. split; [exact H1|]. split; [|congruence].
    rewrite H2, A2, Habs1. f_equal. symmetry. apply append_to_map.
    rewrite <- Habs1, names_abs. exact Hnd1.
Qed.

(* ---- the whole operation --------------------------------------------------------------------- *)
Lemma clen_gaps (crows : rows) :
  repeat GAP (match crows with [] => O | r :: _ => length (snd r) end) = Sites.gaps (Z.max 0 (alen crows)).
Proof.
  unfold Sites.gaps. destruct crows as [|r t]; cbn [alen]; [reflexivity|].
  rewrite Z.max_r by lia. rewrite Nat2Z.id. reflexivity.
Qed.

Lemma forallb_map_comp {A B} (f : A -> B) (p : B -> bool) (l : list A) :
  forallb p (map f l) = forallb (fun x => p (f x)) l.
Proof. induction l as [|x t IH]; [reflexivity|]. cbn [map forallb]. rewrite IH. reflexivity. Qed.

Theorem concat_refines st calpha crows :
  Inv st -> NoDup (map oname (c_objs st)) -> c_len st = alen (abs st) ->
  abs (fst (concat_op st calpha crows)) = fst (Sites.concat (c_alpha st) calpha (abs st) crows) /\
  snd (concat_op st calpha crows) = snd (Sites.concat (c_alpha st) calpha (abs st) crows).
Proof.
  intros Hinv Hnd Hlen. unfold concat_op, Sites.concat.
  destruct (negb (Z.eqb (c_alpha st) calpha)); [split; reflexivity|].
  pose proof (Inv_WInv st Hinv) as Hw.
  destruct (concat_a_abs crows (match crows with [] => O | r :: _ => length (snd r) end)
              (map oname (c_objs st)) st Hw Hnd Hnd (fun x H => H))
    as [st1 [E1 [A1 [Hw1 [Hn1 [Hl1 _]]]]]].
  rewrite E1. cbn [negb].
  assert (Hlen1 : c_len st1 = (-1)%Z \/ c_len st1 = Z.of_nat (Z.to_nat (Z.max 0 (c_len st)))).
  { rewrite Hl1. destruct (Z.eq_dec (c_len st) (-1)) as [E|E]; [left; exact E|]. right.
    rewrite Hlen in *. unfold alen in *. destruct (abs st); [contradiction|]. lia. }
  destruct (concat_c_abs (Z.to_nat (Z.max 0 (c_len st))) crows st1 Hw1) as [st2 [E2 [A2 _]]];
    [rewrite Hn1; exact Hnd | exact Hlen1|].
  rewrite E2. cbn [negb].
  assert (Habs : abs st2 =
    Sites.concat_step2
      (map (fun r => if Sites.has_name (fst r) crows then r else (fst r, snd r ++ Sites.gaps (Z.max 0 (alen crows)))) (abs st))
      (Z.max 0 (alen (abs st))) crows).
  { rewrite A2, A1. rewrite Z2Nat.id by lia. rewrite Hlen. f_equal.
    apply map_ext_in. intros r Hr. unfold step_a.
    assert (existsb (bytes_eqb (fst r)) (map oname (c_objs st)) = true) as ->.
    { apply existsb_bytes_in. rewrite <- names_abs. apply in_map. exact Hr. }
    cbn [andb]. rewrite clen_gaps. destruct (Sites.has_name (fst r) crows); reflexivity. }
  rewrite <- Habs. unfold abs at 2 3. destruct (c_objs st2) as [|o t] eqn:Eo; cbn [fst snd map rectangularb].
  - unfold abs, set_len. cbn [c_objs]. rewrite Eo. split; reflexivity.
  - unfold abs, set_len. cbn [c_objs]. rewrite Eo. split; [reflexivity|].
    cbn [map rectangularb]. rewrite forallb_map_comp. reflexivity.
Qed.
