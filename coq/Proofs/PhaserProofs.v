(* The amino-acid mode of the phaser's code model reports nucleotides, codons and amino acids that are
   in frame with each other, whatever the alignment found (Model/Phaser.v phase_aa). *)
From Coq Require Import List Bool NArith ZArith QArith Lia.
From Coq.Strings Require Import Byte.
Import ListNotations.
From GA.Base Require Import Bytes Case Align.
From GA.Gen Require Import Alpha.
From GA.Model Require Import Strand Translate SW Orf Phaser.
From GA.Proofs Require Import OrfProofs.
Local Open Scope Z_scope.

(* translating a whole number of codons of a prefix *)
Lemma translate_firstn code m : forall x, translate_from code (firstn (3 * m) x) = firstn m (translate_from code x).
Proof.
  induction m as [|m IH]; intros x; [reflexivity|].
  replace (3 * S m)%nat with (S (S (S (3 * m)))) by lia.
  destruct x as [|a [|b [|c t]]]; try reflexivity.
  change (translate_from code (a :: b :: c :: t)) with (translate_codon code a b c :: translate_from code t).
  cbn [firstn]. change (translate_from code (a :: b :: c :: firstn (3 * m) t))
    with (translate_codon code a b c :: translate_from code (firstn (3 * m) t)).
  f_equal. apply IH.
Qed.

(* what every candidate kept by the search satisfies *)
Definition in_frame (code : code_table) (s rc : list byte) (b : best) : Prop :=
  exists ph : Z,
    0 <= ph < 3 /\ (b_seq b = s \/ b_seq b = rc) /\
    b_seqaa b = translate_from code (skipn (Z.to_nat ph) (b_seq b)) /\
    b_start b = ph + 3 * b_startaa b /\
    ((b_end b = Z.of_nat (length (b_seq b)) /\ b_endaa b = Z.of_nat (length (b_seqaa b))) \/
     (b_end b = ph + b_endaa b * 3)).

Lemma seq_translate_some gc code ph s aa :
  genetic_code gc = Some code -> seq_translate gc ph s = Some aa -> aa = translate_from code (skipn ph s).
Proof.
  intros Hg H. unfold seq_translate in H. rewrite Hg in H. unfold buffer_translate in H.
  destruct (negb _ && negb _); [discriminate|]. destruct (Nat.ltb _ _); [discriminate|]. congruence.
Qed.

Lemma try_aa_keeps gc code cutend s rc orfaa phase cur res :
  genetic_code gc = Some code -> 0 <= phase < 6 ->
  (forall b, cur = Some b -> in_frame code s rc b) ->
  try_aa gc cutend s rc orfaa phase cur = Some res ->
  forall b, res = Some b -> in_frame code s rc b.
Proof.
  intros Hg Hph Hcur H b Hb. unfold try_aa in H.
  destruct (seq_translate gc (Z.to_nat (phase mod 3)) (if phase <? 3 then s else rc)) as [seqaa|] eqn:Et; [|discriminate].
  destruct (align_pair_with 0 true phaser_scheme orfaa seqaa) as [r|]; [|discriminate].
  apply (seq_translate_some gc code _ _ _ Hg) in Et.
  destruct (match cur with Some b0 => b_score b0 <? r_score r | None => 0 <? r_score r end).
  - injection H as <-. injection Hb as <-.
    exists (phase mod 3). cbn [b_seq b_seqaa b_start b_startaa b_end b_endaa].
    split; [apply Z.mod_pos_bound; lia|]. split; [destruct (phase <? 3); auto|].
    split; [exact Et|]. split; [reflexivity|].
    destruct cutend; [right; reflexivity | left; split; reflexivity].
  - injection H as <-. apply Hcur. exact Hb.
Qed.

Lemma fold_try_keeps gc code cutend s rc :
  genetic_code gc = Some code ->
  forall l cur res,
  (forall op, In op l -> 0 <= snd op < 6) ->
  (forall b, cur = Some b -> in_frame code s rc b) ->
  fold_try (fun (op : list byte * Z) c => try_aa gc cutend s rc (fst op) (snd op) c) l cur = Some res ->
  forall b, res = Some b -> in_frame code s rc b.
Proof.
  intros Hg. induction l as [|op t IH]; intros cur res Hl Hcur H b Hb; cbn [fold_try] in H.
  - injection H as <-. apply Hcur. exact Hb.
  - destruct (try_aa gc cutend s rc (fst op) (snd op) cur) as [c|] eqn:E; [|discriminate].
    apply (IH c res); auto.
    + intros op' Hop'. apply Hl. right. exact Hop'.
    + intros b' Hb'. apply (try_aa_keeps gc code cutend s rc (fst op) (snd op) cur c Hg); auto.
      apply Hl. left. reflexivity.
Qed.

(* the codons reported translate to the amino acids reported *)
Lemma in_frame_translates code s rc b :
  in_frame code s rc b -> 0 <= b_startaa b <= b_endaa b ->
  translate_from code (sub (b_seq b) (b_start b) (b_end b)) = sub (b_seqaa b) (b_startaa b) (b_endaa b).
Proof.
  intros [ph [Hph [_ [Haa [Hst Hend]]]]] Hk. unfold sub. rewrite Hst.
  replace (Z.to_nat (ph + 3 * b_startaa b)) with (Z.to_nat ph + 3 * Z.to_nat (b_startaa b))%nat by lia.
  destruct Hend as [[He Hea] | He].
  - (* no cut: everything up to the end *)
    rewrite He, Hea, Haa.
    rewrite firstn_all2 by (rewrite skipn_length; lia).
    rewrite firstn_all2 by (rewrite skipn_length; lia).
    apply phased_codons_translate.
  - rewrite He.
    replace (Z.to_nat (ph + b_endaa b * 3 - (ph + 3 * b_startaa b))) with (3 * Z.to_nat (b_endaa b - b_startaa b))%nat by lia.
    rewrite translate_firstn, phased_codons_translate, Haa. reflexivity.
Qed.

Theorem phase_aa_in_frame (gc : Z) (code : code_table) (rev_too cutend : bool) (orfsaa : list (list byte)) (s : list byte) (r : pres) (b : best) :
  genetic_code gc = Some code ->
  fold_try (fun (op : list byte * Z) c => try_aa gc cutend s (fst (revcomp_seq s)) (fst op) (snd op) c)
           (list_prod orfsaa (if rev_too then [0; 1; 2; 3; 4; 5] else [0; 1; 2])) None = Some (Some b) ->
  phase_aa gc rev_too cutend orfsaa s = ORes r ->
  0 <= b_startaa b <= b_endaa b ->
  (* the strand, the position, and the frame *)
  (b_seq b = s \/ b_seq b = fst (revcomp_seq s)) /\
  p_pos r = b_start b /\ p_nt r = sub (b_seq b) (b_start b) (b_end b) /\ p_codon r = p_nt r /\
  translate_from code (p_codon r) = p_aa r.
Proof.
  intros Hg Hf Hp Hk. unfold phase_aa in Hp. rewrite Hf in Hp. inversion Hp; subst r. clear Hp.
  cbn [p_pos p_nt p_codon p_aa].
  assert (Hin : in_frame code s (fst (revcomp_seq s)) b).
  { apply (fold_try_keeps gc code cutend s (fst (revcomp_seq s)) Hg
             (list_prod orfsaa (if rev_too then [0; 1; 2; 3; 4; 5] else [0; 1; 2])) None (Some b)); auto.
    - intros [o ph] Hop. apply in_prod_iff in Hop as [_ Hop]. cbn [snd]. destruct rev_too; cbn in Hop; intuition lia.
    - intros b' Hb'. discriminate Hb'. }
  split; [destruct Hin as [ph [_ [Hs _]]]; exact Hs|].
  repeat split. apply (in_frame_translates code s (fst (revcomp_seq s))); assumption.
Qed.

(* ---- a verbatim copy of the reference is trimmed at its start: exhaustively, in the kernel, on a finite
   domain (three reference ORFs, every left and right flank of length 0..2 over {A,C,G,T}, both modes,
   one or both strands, standard code), whenever the flanked sequence holds the ORF exactly once *)
From GA.Spec Require Import LocalEnum.
Local Open Scope bs_scope.
Fixpoint is_prefix (p s : list byte) : bool :=
  match p, s with [], _ => true | a :: p', b :: s' => Byte.eqb a b && is_prefix p' s' | _ :: _, [] => false end.
Fixpoint occ (fuel : nat) (p s : list byte) : nat :=
  match fuel with O => O | S f => ((if is_prefix p s then 1 else 0) + match s with [] => O | _ :: t => occ f p t end)%nat end.
Definition occurrences (p s : list byte) : nat := occ (S (length s)) p s.
Definition flanks : list (list byte) := [] :: upto 2 [x41; x43; x47; x54].
Definition small_orfs : list (list byte) := [unbs "ATGGCTTAA"; unbs "ATGAAATGA"; unbs "ATGTGGCATTAG"].
Definition verbatim_ok (translate rev_too : bool) (orf : list byte) : bool :=
  forallb (fun l => forallb (fun r =>
    let s := l ++ orf ++ r in
    if negb (Nat.eqb (occurrences orf s) 1) || (rev_too && negb (Nat.eqb (occurrences orf (fst (revcomp_seq s))) 0)) then true
    else match phase_all translate rev_too false 0 (Some [orf]) [s] with
         | Some [ORes p] => Z.eqb (p_pos p) (Z.of_nat (length l))
         | _ => false end) flanks) flanks.

Lemma verbatim_all : forallb (fun o => forallb (fun tr => forallb (fun rv => verbatim_ok tr rv o) [false; true]) [true; false]) small_orfs = true.
Proof. vm_compute. reflexivity. Qed.

Theorem verbatim_copy_trimmed_at_orf_start_small :
  forall orf translate rev_too l r, In orf small_orfs -> In l flanks -> In r flanks ->
  let s := l ++ orf ++ r in
  occurrences orf s = 1%nat -> (rev_too = true -> occurrences orf (fst (revcomp_seq s)) = 0%nat) ->
  exists p, phase_all translate rev_too false 0 (Some [orf]) [s] = Some [ORes p] /\ p_pos p = Z.of_nat (length l).
Proof.
  intros orf translate rev_too l r Ho Hl Hr s H1 H2.
  pose proof verbatim_all as H. rewrite forallb_forall in H. specialize (H orf Ho).
  rewrite forallb_forall in H. assert (Ht : In translate [true; false]) by (destruct translate; cbn; auto). specialize (H translate Ht).
  rewrite forallb_forall in H. assert (Hv : In rev_too [false; true]) by (destruct rev_too; cbn; auto). specialize (H rev_too Hv).
  unfold verbatim_ok in H. rewrite forallb_forall in H. specialize (H l Hl). rewrite forallb_forall in H. specialize (H r Hr).
  fold s in H. rewrite H1 in H. cbn [Nat.eqb negb orb] in H.
  assert (E : (rev_too && negb (Nat.eqb (occurrences orf (fst (revcomp_seq s))) 0)) = false).
  { destruct rev_too; [|reflexivity]. rewrite (H2 eq_refl). reflexivity. }
  rewrite E in H.
  destruct (phase_all translate rev_too false 0 (Some [orf]) [s]) as [[|[|p] [|? ?]]|]; try discriminate.
  exists p. split; [reflexivity | apply Z.eqb_eq; exact H].
Qed.
