From Coq Require Import List Bool NArith ZArith Lia Sorted.
From Coq.Strings Require Import Byte.
Import ListNotations.
From GA.Base Require Import Bytes Align Dec.
From GA.Gen Require Import Alpha.
From GA.Model Require Import Sites.

Local Open Scope Z_scope.

Lemma window_ok_iff L s l : window_ok L s l = true <-> (0 <= s /\ 0 <= l /\ s + l <= L).
Proof.
  unfold window_ok.
  rewrite !andb_true_iff, !negb_true_iff, !orb_false_iff.
  rewrite !Z.ltb_ge, !Z.gtb_ltb, !Z.ltb_ge. lia.
Qed.

Lemma site_ok_iff L s : site_ok L s = true <-> (0 <= s < L).
Proof.
  unfold site_ok. rewrite negb_true_iff, orb_false_iff, Z.ltb_ge.
  rewrite Z.geb_leb, Z.leb_gt. lia.
Qed.

(* ---- SubAlign ---------------------------------------------------------------------- *)
Lemma sub_align_spec rs s l :
  (forall b, sub_align rs s l = Some b ->
     (0 <= s /\ 0 <= l /\ s + l <= alen rs) /\
     b = map (fun r => (fst r, firstn (Z.to_nat l) (skipn (Z.to_nat s) (snd r)))) rs) /\
  (sub_align rs s l = None <-> ~ (0 <= s /\ 0 <= l /\ s + l <= alen rs)).
Proof.
  unfold sub_align. destruct (window_ok (alen rs) s l) eqn:E.
  - apply window_ok_iff in E. split.
    + intros b H. inversion H. auto.
    + split; [discriminate | tauto].
  - split; [discriminate|]. split; [|reflexivity].
    intros _ H. apply window_ok_iff in H. congruence.
Qed.

Lemma sub_align_frame rs s l b :
  sub_align rs s l = Some b ->
  map fst b = map fst rs /\
  (rectangular rs -> forall r, In r b -> length (snd r) = Z.to_nat l).
Proof.
  intros H. destruct (sub_align_spec rs s l) as [H1 _]. destruct (H1 b H) as [[Hs [Hl Hsl]] ->].
  split.
  - rewrite map_map. reflexivity.
  - intros Hrect r Hr. apply in_map_iff in Hr as [r0 [<- Hr0]]. simpl.
    rewrite firstn_length, skipn_length.
    assert (Z.of_nat (length (snd r0)) = alen rs).
    { destruct rs as [|r1 t]; [contradiction|]. simpl. f_equal. apply Hrect; simpl; auto. }
    lia.
Qed.

(* ---- SelectSites --------------------------------------------------------------------- *)
Lemma forallb_site_ok L sites : forallb (site_ok L) sites = true <-> Forall (fun s => 0 <= s < L) sites.
Proof.
  rewrite forallb_forall, Forall_forall. split; intros H x Hx; apply site_ok_iff; auto.
Qed.

Lemma select_sites_spec rs sites :
  (forall b, select_sites rs sites = Some b ->
     Forall (fun s => 0 <= s < alen rs) sites /\
     map fst b = map fst rs /\
     length b = length rs /\
     forall k r d, nth_error rs k = Some r ->
       exists r', nth_error b k = Some r' /\ fst r' = fst r /\ length (snd r') = length sites /\
       forall j s, nth_error sites j = Some s -> nth j (snd r') d = nth (Z.to_nat s) (snd r) x2d) /\
  (select_sites rs sites = None <-> ~ Forall (fun s => 0 <= s < alen rs) sites).
Proof.
  unfold select_sites. destruct (forallb (site_ok (alen rs)) sites) eqn:E.
  - apply forallb_site_ok in E. split.
    + intros b H. inversion H; subst. split; [exact E|]. split; [rewrite map_map; reflexivity|].
      split; [apply map_length|].
      intros k r d Hk. eexists. split.
      * rewrite nth_error_map, Hk. reflexivity.
      * simpl. split; [reflexivity|]. split; [apply map_length|].
        intros j s Hj. apply nth_error_nth.
        apply (map_nth_error (fun s0 : Z => nth (Z.to_nat s0) (snd r) x2d) j sites Hj).
    + split; [discriminate | tauto].
  - split; [discriminate|]. split; [|reflexivity]. intros _ H. apply forallb_site_ok in H. congruence.
Qed.

(* ---- complement of a site list ------------------------------------------------------------ *)
Lemma in_zrange n i : In i (zrange n) <-> 0 <= i < n.
Proof.
  unfold zrange. rewrite in_map_iff. split.
  - intros [k [<- Hk]]. apply in_seq in Hk. lia.
  - intros H. exists (Z.to_nat i). split; [lia|]. apply in_seq. lia.
Qed.

Lemma zrange_sorted n : StronglySorted Z.lt (zrange n).
Proof.
  unfold zrange. generalize 0%nat as st. induction (Z.to_nat n) as [|k IH]; intros st; simpl.
  - constructor.
  - constructor; [apply IH|]. apply Forall_forall. intros x Hx.
    apply in_map_iff in Hx as [j [<- Hj]]. apply in_seq in Hj. lia.
Qed.

Lemma filter_sorted {A} (R : A -> A -> Prop) f l : StronglySorted R l -> StronglySorted R (filter f l).
Proof.
  induction 1 as [|a l Hs IH Hf]; simpl; [constructor|].
  destruct (f a); [|exact IH]. constructor; [exact IH|].
  apply Forall_forall. intros x Hx. apply filter_In in Hx as [Hx _].
  rewrite Forall_forall in Hf. auto.
Qed.

Lemma Zmem_In x l : Zmem x l = true <-> In x l.
Proof.
  unfold Zmem. rewrite existsb_exists. split.
  - intros [y [Hy E]]. apply Z.eqb_eq in E. subst. exact Hy.
  - intros H. exists x. split; [exact H | apply Z.eqb_refl].
Qed.

Lemma inverse_positions_spec rs sites :
  (forall inv, inverse_positions rs sites = Some inv ->
     Forall (fun s => 0 <= s < alen rs) sites /\
     StronglySorted Z.lt inv /\
     forall i, In i inv <-> (0 <= i < alen rs /\ ~ In i sites)) /\
  (inverse_positions rs sites = None <-> ~ Forall (fun s => 0 <= s < alen rs) sites).
Proof.
  unfold inverse_positions. destruct (forallb (site_ok (alen rs)) sites) eqn:E.
  - apply forallb_site_ok in E. split.
    + intros inv H. inversion H; subst. split; [exact E|]. split.
      * apply filter_sorted, zrange_sorted.
      * intros i. rewrite filter_In, in_zrange, negb_true_iff.
        split; intros [H1 H2]; split; auto.
        -- intros Hin. apply Zmem_In in Hin. congruence.
        -- destruct (Zmem i sites) eqn:M; [|reflexivity]. apply Zmem_In in M. contradiction.
    + split; [discriminate | tauto].
  - split; [discriminate|]. split; [|reflexivity]. intros _ H. apply forallb_site_ok in H. congruence.
Qed.

(* ---- complement of a window ------------------------------------------------------------------ *)
Lemma inverse_coordinates_spec rs s l :
  (forall st ln, inverse_coordinates rs s l = Some (st, ln) ->
     (0 <= s /\ 0 <= l /\ s + l <= alen rs) /\
     st = (if s >? 0 then [0] else []) ++ (if s + l <? alen rs then [s + l] else []) /\
     ln = (if s >? 0 then [s] else []) ++ (if s + l <? alen rs then [alen rs - (s + l)] else [])) /\
  (inverse_coordinates rs s l = None <-> ~ (0 <= s /\ 0 <= l /\ s + l <= alen rs)).
Proof.
  unfold inverse_coordinates. destruct (window_ok (alen rs) s l) eqn:E.
  - apply window_ok_iff in E. split.
    + intros st ln H. destruct (s >? 0); destruct (s + l <? alen rs); inversion H; subst; auto.
    + split; [|tauto]. destruct (s >? 0); destruct (s + l <? alen rs); discriminate.
  - split; [discriminate|]. split; [|reflexivity]. intros _ H. apply window_ok_iff in H. congruence.
Qed.

(* the window and its two complementary windows tile every row *)
Lemma skipn_add {A} (m n : nat) (l : list A) : skipn n (skipn m l) = skipn (m + n) l.
Proof.
  revert l. induction m as [|m IH]; intros l; [reflexivity|].
  destruct l as [|x t]; [destruct n; reflexivity|]. simpl. apply IH.
Qed.

Lemma window_tiles {A} (r : list A) (s l : nat) :
  (s + l <= length r)%nat ->
  firstn s r ++ firstn l (skipn s r) ++ skipn (s + l) r = r.
Proof.
  intros H. rewrite <- (firstn_skipn s r) at 4. f_equal.
  rewrite <- (firstn_skipn l (skipn s r)) at 2. f_equal.
  rewrite skipn_add. reflexivity.
Qed.

(* ---- TrimSequences ------------------------------------------------------------------------------ *)
Lemma trim_sequences_spec rs n from_start :
  (forall b, trim_sequences rs n from_start = Some b ->
     0 <= n < alen rs /\
     b = map (fun r => (fst r, if from_start then skipn (Z.to_nat n) (snd r)
                               else firstn (length (snd r) - Z.to_nat n) (snd r))) rs) /\
  (trim_sequences rs n from_start = None <-> ~ (0 <= n < alen rs)).
Proof.
  unfold trim_sequences. destruct (Z.ltb_spec n 0).
  - split; [discriminate|]. split; [lia | reflexivity].
  - destruct (n >=? alen rs) eqn:E; rewrite Z.geb_leb in E.
    + apply Z.leb_le in E. split; [discriminate|]. split; [lia | reflexivity].
    + apply Z.leb_gt in E. split.
      * intros b Hb. inversion Hb. split; [lia | reflexivity].
      * split; [discriminate | lia].
Qed.

(* ---- DiffWithFirst / ReplaceMatchChars -------------------------------------------------------------- *)
Lemma replace_diff_row f o :
  ~ In POINT o -> replace_match_row f (diff_row f o) = o.
Proof.
  revert o. induction f as [|x ft IH]; intros o Hn.
  - destruct o; reflexivity.
  - destruct o as [|y ot]; [reflexivity|]. cbn [diff_row replace_match_row].
    assert (Hy : y <> POINT) by (intros ->; apply Hn; left; reflexivity).
    assert (Hot : ~ In POINT ot) by (intros Hin; apply Hn; right; exact Hin).
    rewrite (IH ot Hot). f_equal.
    destruct (beqb x y) eqn:E.
    + apply beqb_eq in E. subst y. rewrite beqb_refl.
      assert (beqb x POINT = false) as -> by (apply beqb_neq; exact Hy). reflexivity.
    + assert (beqb y POINT = false) as -> by (apply beqb_neq; exact Hy).
      rewrite andb_false_r. reflexivity.
Qed.

Lemma replace_diff_rows rs :
  (forall r, In r rs -> ~ In POINT (snd r)) ->
  replace_match_chars (diff_with_first rs) = rs.
Proof.
  destruct rs as [|r0 t]; [reflexivity|]. intros H. cbn [diff_with_first replace_match_chars].
  f_equal. rewrite map_map. cbn [fst snd].
  rewrite <- (map_id t) at 2. apply map_ext_in. intros r Hr.
  rewrite replace_diff_row by (apply H; right; exact Hr). destruct r; reflexivity.
Qed.

Lemma diff_row_spec f o : length f = length o ->
  forall i d, (i < length o)%nat ->
  nth i (diff_row f o) d = if beqb (nth i f d) (nth i o d) then POINT else nth i o d.
Proof.
  revert o. induction f as [|x ft IH]; intros [|y ot] Hl i d Hi; simpl in *; try lia.
  destruct i; [reflexivity|]. apply IH; lia.
Qed.

(* ---- partition positions ----------------------------------------------------------------------------- *)
Lemma positions_of_spec parts pi i :
  In i (positions_of parts pi) <-> (0 <= i < Z.of_nat (length parts) /\ nth (Z.to_nat i) parts (-1) = pi).
Proof.
  unfold positions_of. rewrite filter_In, in_zrange, Z.eqb_eq. tauto.
Qed.

Lemma positions_of_sorted parts pi : StronglySorted Z.lt (positions_of parts pi).
Proof. apply filter_sorted, zrange_sorted. Qed.

(* every assigned site belongs to exactly one block *)
Lemma positions_partition parts i :
  0 <= i < Z.of_nat (length parts) ->
  forall pi, In i (positions_of parts pi) <-> pi = nth (Z.to_nat i) parts (-1).
Proof. intros Hi pi. rewrite positions_of_spec. intuition. Qed.

Lemma split_spec rs ps :
  (forall als, split rs ps = Some als ->
     (2 <= length (ps_names ps))%nat /\ ps_len ps = alen rs /\
     length als = length (ps_names ps) /\
     forall k, (k < length (ps_names ps))%nat ->
       nth k als [] =
         match positions_of (ps_parts ps) (Z.of_nat k) with
         | [] => []
         | pos => map (fun r => (fst r, map (fun s => nth (Z.to_nat s) (snd r) x2d) pos)) rs
         end) /\
  (split rs ps = None <-> ((length (ps_names ps) <= 1)%nat \/ ps_len ps <> alen rs)).
Proof.
  unfold split. destruct (Z.leb_spec (Z.of_nat (length (ps_names ps))) 1) as [H1|H1].
  - split; [discriminate|]. split; [lia | reflexivity].
  - destruct (Z.eqb_spec (ps_len ps) (alen rs)) as [E|E]; simpl.
    + split.
      * intros als H. inversion H; subst. split; [lia|]. split; [exact E|].
        split; [unfold zrange; rewrite !map_length, seq_length; lia|].
        intros k Hk. apply nth_error_nth. unfold zrange. rewrite map_map.
        erewrite map_nth_error.
        2:{ rewrite nth_error_nth' with (d := 0%nat) by (rewrite seq_length; lia).
            rewrite seq_nth by lia. reflexivity. }
        cbn [Nat.add]. destruct (positions_of (ps_parts ps) (Z.of_nat k)); reflexivity.
      * split; [discriminate|]. intros [H|H]; [lia | contradiction].
    + split; [discriminate|]. split; [right; exact E | reflexivity].
Qed.

(* ---- transposing twice gives the residues back ---------------------------------------------------------- *)
Lemma nth_map_lt {A B} (f : A -> B) (l : list A) k (d : A) (d' : B) : (k < length l)%nat -> nth k (map f l) d' = f (nth k l d).
Proof.
  revert k; induction l as [|x t IH]; intros k H; [cbn in H; lia|]. destruct k; [reflexivity|].
  cbn [map nth]. apply IH. cbn in H. lia.
Qed.

Lemma as_nth_seq {A} (l : list A) (d : A) : map (fun k => nth k l d) (seq 0 (length l)) = l.
Proof.
  induction l as [|x t IH]; [reflexivity|]. cbn [length seq map nth]. f_equal.
  rewrite <- seq_shift, map_map. exact IH.
Qed.

Theorem transpose_twice rs : rectangular rs -> (0 < alen rs)%Z -> map snd (transpose (transpose rs)) = map snd rs.
Proof.
  intros Hrect HL. destruct rs as [|r0 t] eqn:Ers; [cbn in HL; lia|]. rewrite <- Ers in *.
  assert (HLn : alen rs = Z.of_nat (length (snd r0))) by (rewrite Ers; reflexivity).
  set (L := length (snd r0)) in *.
  assert (Hw : forall r, In r rs -> length (snd r) = L).
  { intros r Hr. apply (Hrect r r0 Hr). rewrite Ers. left. reflexivity. }
  unfold transpose at 1.
  (* the transposed alignment has one row per column and its rows have one residue per original row *)
  assert (Ht : transpose rs = map (fun i => (Dec.dec_of_nat i, column rs i)) (seq 0 L)).
  { unfold transpose. rewrite HLn, Nat2Z.id. reflexivity. }
  assert (HL0 : (0 < L)%nat) by lia.
  assert (Hal : alen (transpose rs) = Z.of_nat (length rs)).
  { rewrite Ht. destruct L as [|L']; [lia|]. cbn [seq map alen snd]. unfold column. rewrite map_length. reflexivity. }
  rewrite Hal, Nat2Z.id, map_map. cbn [snd].
  transitivity (map (fun k => snd (nth k rs ([], []))) (seq 0 (length rs))).
  - apply map_ext_in. intros k Hk. apply in_seq in Hk.
    unfold column at 1. rewrite Ht, map_map. cbn [snd].
    transitivity (map (fun i => nth i (snd (nth k rs ([], []))) x2d) (seq 0 L)).
    + apply map_ext_in. intros i Hi. unfold column. rewrite (nth_map_lt _ rs k ([], []) x2d) by lia. reflexivity.
    + rewrite <- (Hw (nth k rs ([], []))) by (apply nth_In; lia). apply as_nth_seq.
  - rewrite <- (map_map (fun k => nth k rs ([], [])) snd). rewrite as_nth_seq. reflexivity.
Qed.

(* ---- cutting an alignment in two and concatenating the parts gives it back --------------------------------- *)
Lemma get_seq_none_notin n (rs : rows) : ~ In n (names rs) -> get_seq n rs = None.
Proof.
  unfold get_seq, names. induction rs as [|[m s] t IH]; intros H; [reflexivity|]. cbn [lassoc].
  destruct (bytes_eqb n m) eqn:E.
  - apply bytes_eqb_eq in E. subst. exfalso. apply H. left. reflexivity.
  - apply IH. intros Hin. apply H. right. exact Hin.
Qed.

Lemma has_name_mid n s (done ta : rows) : has_name n (done ++ (n, s) :: ta) = true.
Proof.
  unfold has_name, get_seq. induction done as [|[m x] d IH]; cbn [app lassoc].
  - rewrite bytes_eqb_refl. reflexivity.
  - destruct (bytes_eqb n m); [reflexivity | exact IH].
Qed.

Lemma append_to_mid n s add (done ta : rows) : ~ In n (names done) ->
  append_to n add (done ++ (n, s) :: ta) = done ++ (n, s ++ add) :: ta.
Proof.
  induction done as [|[m x] d IH]; intros H; cbn [app append_to].
  - rewrite bytes_eqb_refl. reflexivity.
  - destruct (bytes_eqb m n) eqn:E.
    + apply bytes_eqb_eq in E. subst. exfalso. apply H. left. reflexivity.
    + f_equal. apply IH. intros Hin. apply H. right. exact Hin.
Qed.

Fixpoint zip_append (a c : rows) : rows :=
  match a, c with
  | (n, s) :: ta, (_, s') :: tc => (n, s ++ s') :: zip_append ta tc
  | _, _ => a
  end.

Lemma concat_step2_zip al : forall (c todo done : rows),
  names todo = names c -> NoDup (names (done ++ todo)) ->
  concat_step2 (done ++ todo) al c = done ++ zip_append todo c.
Proof.
  induction c as [|[n s'] tc IH]; intros todo done Hn Hnd.
  - destruct todo; [|discriminate Hn]. reflexivity.
  - destruct todo as [|[m s] ta]; [discriminate Hn|]. cbn [names map fst] in Hn. injection Hn as Hm Hn. subst m.
    cbn [concat_step2]. rewrite has_name_mid.
    assert (Hnot : ~ In n (names done)).
    { unfold names in *. rewrite map_app in Hnd. cbn [map fst] in Hnd. apply NoDup_remove_2 in Hnd.
      intros Hin. apply Hnd. apply in_or_app. left. exact Hin. }
    rewrite (append_to_mid n s s' done ta Hnot).
    replace (done ++ (n, s ++ s') :: ta) with ((done ++ [(n, s ++ s')]) ++ ta) by (rewrite <- app_assoc; reflexivity).
    rewrite IH.
    + rewrite <- app_assoc. reflexivity.
    + exact Hn.
    + unfold names in *. rewrite <- app_assoc. cbn [app]. rewrite !map_app in *. cbn [map fst] in *. exact Hnd.
Qed.

Theorem prefix_suffix_concat alpha rs k p q :
  rectangular rs -> NoDup (names rs) -> (0 <= k <= alen rs)%Z ->
  sub_align rs 0 k = Some p -> sub_align rs k (alen rs - k) = Some q ->
  concat alpha alpha p q = (rs, true).
Proof.
  intros Hrect Hnd Hk Hp Hq. unfold sub_align in Hp, Hq.
  destruct (window_ok (alen rs) 0 k); [|discriminate]. destruct (window_ok (alen rs) k (alen rs - k)); [|discriminate].
  injection Hp as <-. injection Hq as <-. cbn [skipn Z.to_nat].
  unfold concat. rewrite Z.eqb_refl. cbn [negb].
  set (p := map (fun r : list byte * list byte => (fst r, firstn (Z.to_nat k) (snd r))) rs).
  set (q := map (fun r : list byte * list byte => (fst r, firstn (Z.to_nat (alen rs - k)) (skipn (Z.to_nat k) (snd r)))) rs).
  assert (Hnp : names p = names rs) by (unfold p, names; rewrite map_map; reflexivity).
  assert (Hnq : names q = names rs) by (unfold q, names; rewrite map_map; reflexivity).
  (* every row of p has its name in q: nothing is padded *)
  assert (Ha1 : map (fun r : list byte * list byte => if has_name (fst r) q then r else (fst r, snd r ++ gaps (Z.max 0 (alen q)))) p = p).
  { rewrite <- (map_id p) at 2. apply map_ext_in. intros r Hr.
    assert (Hin : In (fst r) (names q)) by (rewrite Hnq, <- Hnp; apply in_map; exact Hr).
    unfold has_name. destruct (get_seq (fst r) q) eqn:E; [reflexivity|].
    exfalso. unfold get_seq in E. clear -E Hin. unfold names in Hin. induction q as [|[m s] t IH]; [contradiction|].
    cbn [lassoc] in E. destruct (bytes_eqb (fst r) m) eqn:Eb; [discriminate|].
    destruct Hin as [Hin|Hin]; [cbn in Hin; subst; rewrite bytes_eqb_refl in Eb; discriminate | exact (IH Hin E)]. }
  rewrite Ha1.
  pose proof (concat_step2_zip (Z.max 0 (alen p)) q p []) as Hzip. cbn [app] in Hzip.
  rewrite Hzip; [| rewrite Hnp, Hnq; reflexivity | rewrite Hnp; exact Hnd].
  assert (Hz : zip_append p q = rs).
  { unfold p, q. clear -Hrect Hk. assert (Hw : forall r, In r rs -> Z.of_nat (length (snd r)) = alen rs).
    { destruct rs as [|r0 t]; [intros r []|]. intros r Hr. cbn [alen]. f_equal. apply (Hrect r r0 Hr). left. reflexivity. }
    clear Hrect. revert Hk Hw. generalize (alen rs) as L. intros L Hk' Hw.
    induction rs as [|[n s] t IH]; [reflexivity|]. cbn [map zip_append fst snd].
    assert (Hs : Z.of_nat (length s) = L) by (apply (Hw (n, s)); left; reflexivity).
    rewrite (firstn_all2 (skipn (Z.to_nat k) s)) by (rewrite skipn_length; lia).
    rewrite firstn_skipn. f_equal. apply IH. intros r Hr. apply Hw. right. exact Hr. }
  rewrite Hz. f_equal.
  destruct rs as [|r0 t]; [reflexivity|]. cbn [rectangularb]. apply forallb_forall. intros r Hr.
  apply Nat.eqb_eq. apply Hrect; [right; exact Hr | left; reflexivity].
Qed.

(* ---- reference coordinates: exhaustively, in the kernel, on a finite domain (every reference row of
   length 1..7 over {A, C, gap}, every window of its ungapped residues) ----------------------------------- *)
Lemma filter_length_le_all {A} (f : A -> bool) l : (length (filter f l) <= length l)%nat.
Proof. induction l as [|x t IH]; [cbn; lia|]. cbn [filter]. destruct (f x); cbn; lia. Qed.

Fixpoint bwords (n : nat) (alpha : list byte) : list (list byte) :=
  match n with O => [[]] | S k => flat_map (fun w => map (fun c => c :: w) alpha) (bwords k alpha) end.
Definition refcoord_ok (ref : list byte) (s l : Z) : bool :=
  match ref_coordinates [([x72], ref)] [x72] s l with
  | Some (st, ln, false) =>
      bytes_eqb (ungapb (firstn (Z.to_nat ln) (skipn (Z.to_nat st) ref)))
                (firstn (Z.to_nat l) (skipn (Z.to_nat s) (ungapb ref))) &&
      negb (beqb (nth (Z.to_nat st) ref x2d) x2d) && negb (beqb (nth (Z.to_nat (st + ln - 1)) ref x2d) x2d)
  | _ => false
  end.
Definition refcoord_all (n : nat) : bool :=
  forallb (fun ref =>
     let u := Z.of_nat (length (ungapb ref)) in
     forallb (fun s => forallb (fun l => negb ((0 <=? s) && (0 <? l) && (s + l <=? u)) || refcoord_ok ref s l)
                               (map Z.of_nat (seq 0 (n + 2)))) (map Z.of_nat (seq 0 (n + 1))))
          (bwords n [x41; x43; x2d]).

Lemma refcoord_all_small : forallb refcoord_all [1; 2; 3; 4; 5; 6; 7]%nat = true.
Proof. vm_compute. reflexivity. Qed.

Theorem refcoordinates_small n ref s l :
  In n [1; 2; 3; 4; 5; 6; 7]%nat -> In ref (bwords n [x41; x43; x2d]) ->
  (0 <= s)%Z -> (0 < l)%Z -> (s + l <= Z.of_nat (length (ungapb ref)))%Z ->
  refcoord_ok ref s l = true.
Proof.
  intros Hn Hr Hs Hl Hsl. pose proof refcoord_all_small as H. rewrite forallb_forall in H. specialize (H n Hn).
  unfold refcoord_all in H. rewrite forallb_forall in H. specialize (H ref Hr). cbn zeta in H.
  assert (Hlen : (length (ungapb ref) <= n)%nat).
  { assert (G : forall k w, In w (bwords k [x41; x43; x2d]) -> length w = k).
    { induction k as [|k IH]; intros w Hw; cbn [bwords] in Hw; [destruct Hw as [<-|[]]; reflexivity|].
      apply in_flat_map in Hw as [w' [Hw' Hc]]. apply in_map_iff in Hc as [c [<- _]]. cbn. f_equal. apply IH. exact Hw'. }
    rewrite <- (G n ref Hr). unfold ungapb. apply filter_length_le_all. }
  rewrite forallb_forall in H. specialize (H s).
  assert (Hin_s : In s (map Z.of_nat (seq 0 (n + 1)))).
  { apply in_map_iff. exists (Z.to_nat s). split; [lia|]. apply in_seq. lia. }
  specialize (H Hin_s). rewrite forallb_forall in H. specialize (H l).
  assert (Hin_l : In l (map Z.of_nat (seq 0 (n + 2)))).
  { apply in_map_iff. exists (Z.to_nat l). split; [lia|]. apply in_seq. lia. }
  specialize (H Hin_l).
  replace ((0 <=? s)%Z && (0 <? l)%Z && (s + l <=? Z.of_nat (length (ungapb ref)))%Z) with true in H.
  - exact H.
  - symmetry. rewrite !andb_true_iff. repeat split; [apply Z.leb_le | apply Z.ltb_lt | apply Z.leb_le]; lia.
Qed.
