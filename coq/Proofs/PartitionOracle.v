(* the correspondence oracle's reading of a range (Corr/C04.v covers) is the `addressed` of PartitionProofs *)
From Coq Require Import List Bool NArith ZArith Lia.
Import ListNotations.
From GA.Model Require Import Sites.
From GA.Proofs Require Import PartitionProofs.
From GA.Corr Require C04.
Local Open Scope Z_scope.

Lemma covers_addressed s e m i : 0 < m -> (GA.Corr.C04.covers (s, e, m) i = true <-> addressed s e m i).
Proof.
  intros Hm. unfold GA.Corr.C04.covers, addressed.
  rewrite !andb_true_iff, !Z.leb_le, Z.eqb_eq, Z.mod_divide by lia. tauto.
Qed.

