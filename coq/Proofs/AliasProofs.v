From Coq Require Import List Bool NArith ZArith Lia.
From Coq.Strings Require Import Byte.
Import ListNotations.
From GA.Base Require Import Bytes Align Dec.
From GA.Model Require Import Alias.

Lemma set_nth_length {A} k (x : A) l : length (set_nth k x l) = length l.
Proof. revert k. induction l as [|y t IH]; intros [|k]; simpl; auto. Qed.

Lemma nth_set_nth_other {A} k j (x d : A) l : k <> j -> nth j (set_nth k x l) d = nth j l d.
Proof.
  revert k j. induction l as [|y t IH]; intros [|k] [|j] H; simpl; auto; try lia.
Qed.

Lemma write_length h s i b : length (write h s i b) = length h.
Proof. unfold write. destruct (Nat.ltb i (s_len s)); [apply set_nth_length | reflexivity]. Qed.

(* frame: a write through one view does not change a view on another buffer *)
Lemma write_other h y i b x : s_buf y <> s_buf x -> content (write h y i b) x = content h x.
Proof.
  intros H. unfold content, write. destruct (Nat.ltb i (s_len y)); [|reflexivity].
  rewrite nth_set_nth_other by exact H. reflexivity.
Qed.

Lemma write_all_other h y b x : s_buf y <> s_buf x -> content (write_all h y b) x = content h x.
Proof.
  intros H. unfold write_all. generalize (seq 0 (s_len y)) as l. intros l. revert h.
  induction l as [|i t IH]; intros h; simpl; [reflexivity|]. rewrite IH. apply write_other. exact H.
Qed.

Lemma write_all_objs_other h ys b x :
  (forall y, In y ys -> s_buf y <> s_buf x) -> content (write_all_objs h ys b) x = content h x.
Proof.
  unfold write_all_objs. revert h. induction ys as [|y t IH]; intros h H; simpl; [reflexivity|].
  rewrite IH by (intros y' Hy'; apply H; right; exact Hy'). apply write_all_other. apply H. left. reflexivity.
Qed.

Theorem frame h xs ys b :
  (forall x y, In x xs -> In y ys -> s_buf y <> s_buf x) ->
  view (write_all_objs h ys b) xs = view h xs.
Proof.
  intros H. unfold view. apply map_ext_in. intros x Hx. f_equal.
  apply write_all_objs_other. intros y Hy. apply (H x y Hx Hy).
Qed.

(* allocation: new buffers are new, old buffers are untouched *)
Lemma nth_app_old {A} (l1 l2 : list A) k d : k < length l1 -> nth k (l1 ++ l2) d = nth k l1 d.
Proof. intros H. apply app_nth1. exact H. Qed.

Lemma fresh_all_spec l : forall h h' os,
  fresh_all h l = (h', os) ->
  length h <= length h' /\
  (forall k, k < length h -> nth k h' [] = nth k h []) /\
  (forall o, In o os -> length h <= s_buf o < length h') /\
  view h' os = l.
Proof.
  induction l as [|[n d] t IH]; intros h h' os H; simpl in H.
  - inversion H; subst. repeat split; auto; try (intros ? []); try contradiction.
  - unfold fresh, alloc in H. destruct (fresh_all (h ++ [d]) t) as [h2 os2] eqn:E. inversion H; subst. clear H.
    destruct (IH _ _ _ E) as [H1 [H2 [H3 H4]]]. rewrite app_length in *. simpl in *.
    split; [lia|]. split; [|split].
    + intros k Hk. rewrite H2 by lia. apply nth_app_old. exact Hk.
    + intros o [<-|Ho]; [simpl; lia | specialize (H3 o Ho); lia].
    + unfold view in *. simpl. f_equal; [|exact H4]. f_equal. unfold content. simpl.
      rewrite H2 by lia. rewrite app_nth2 by lia. rewrite Nat.sub_diag. simpl. apply firstn_all.
Qed.

Definition valid (h : heap) (s : sobj) : Prop := s_buf s < length h.

Lemma content_stable h h' s :
  valid h s -> (forall k, k < length h -> nth k h' [] = nth k h []) -> content h' s = content h s.
Proof. intros Hv H. unfold content. rewrite H by exact Hv. reflexivity. Qed.

Definition copying (op : aop) : bool :=
  match op with AClone | ASubAlign _ _ | ASelectSites _ | ATranspose | AFreshRows _ => true | _ => false end.

Lemma apply_copying h objs op :
  copying op = true -> exists l, apply_op h objs op = fresh_all h l.
Proof. destruct op; simpl; try discriminate; intros _; eexists; reflexivity. Qed.

(* Copy-producing operations: the source reads the same after the call; after
   every residue of the result has been overwritten; and the result reads the
   same after every residue of the source has been overwritten. *)
Theorem copies_own_their_data h src op h1 res b :
  copying op = true -> (forall s, In s src -> valid h s) ->
  apply_op h src op = (h1, res) ->
  view h1 src = view h src /\
  view (write_all_objs h1 res b) src = view h src /\
  view (write_all_objs h1 src b) res = view h1 res.
Proof.
  intros Hc Hv Ha. destruct (apply_copying h src op Hc) as [l El]. rewrite El in Ha.
  destruct (fresh_all_spec l h h1 res Ha) as [H1 [H2 [H3 _]]].
  assert (S0 : view h1 src = view h src).
  { unfold view. apply map_ext_in. intros s Hs. f_equal. apply content_stable; [apply Hv; exact Hs | exact H2]. }
  split; [exact S0|]. split.
  - rewrite <- S0. apply frame. intros x y Hx Hy. specialize (H3 y Hy). specialize (Hv x Hx). unfold valid in Hv. lia.
  - apply frame. intros x y Hx Hy. specialize (H3 x Hx). specialize (Hv y Hy). unfold valid in Hv. lia.
Qed.

(* Queries return no object and leave the heap as it is *)
Theorem queries_are_pure h src : apply_op h src AQuery = (h, []).
Proof. reflexivity. Qed.

(* every object built by [load] is valid in the resulting heap *)
Lemma load_valid rs : forall h h' objs, load h rs = (h', objs) ->
  length h <= length h' /\ (forall s, In s objs -> valid h' s) /\ view h' objs = rs.
Proof.
  induction rs as [|[n d] t IH]; intros h h' objs H; simpl in H.
  - inversion H; subst. repeat split; auto; try (intros ? []); try contradiction.
  - unfold alloc in H. destruct (load (h ++ [d]) t) as [h2 os] eqn:E. inversion H; subst. clear H.
    destruct (IH _ _ _ E) as [H1 [H2 H3]]. rewrite app_length in H1. simpl in H1. split; [lia|]. split.
    + intros s [<-|Hs]; [unfold valid; simpl; lia | apply H2; exact Hs].
    + unfold view in *. simpl. f_equal; [|exact H3]. f_equal. unfold content. simpl.
      (* the buffer at index (length h) still holds d: later allocations only append *)
      assert (P : forall rs' h0 h0' o0, load h0 rs' = (h0', o0) -> forall k, k < length h0 -> nth k h0' [] = nth k h0 []).
      { induction rs' as [|[n' d'] t' IH']; intros h0 h0' o0 Hl k Hk; simpl in Hl.
        - inversion Hl; subst. reflexivity.
        - unfold alloc in Hl. destruct (load (h0 ++ [d']) t') as [h3 o3] eqn:E3. inversion Hl; subst.
          rewrite (IH' _ _ _ E3) by (rewrite app_length; simpl; lia). apply nth_app_old. exact Hk. }
      rewrite (P _ _ _ _ E) by (rewrite app_length; simpl; lia).
      rewrite app_nth2 by lia. rewrite Nat.sub_diag. simpl. apply firstn_all.
Qed.

(* the whole experiment, from rows: copies never interfere with their source *)
Theorem experiment_copy rs op :
  copying op = true ->
  let e := run_experiment rs op in
  e_src_after_call e = rs /\ e_src_after_result_mutated e = rs /\ e_result_after_src_mutated e = e_result e.
Proof.
  intros Hc. unfold run_experiment. destruct (load [] rs) as [h0 src] eqn:El.
  destruct (load_valid rs [] h0 src El) as [_ [Hv Hview]].
  destruct (apply_op h0 src op) as [h1 res] eqn:Ea. cbn [e_src_after_call e_src_after_result_mutated e_result_after_src_mutated e_result].
  destruct (copies_own_their_data h0 src op h1 res x23 Hc Hv Ea) as [A [B _]].
  destruct (copies_own_their_data h0 src op h1 res x40 Hc Hv Ea) as [_ [_ C]].
  rewrite A, B, C, Hview. auto.
Qed.
