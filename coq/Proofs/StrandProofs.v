From Coq Require Import List Bool NArith ZArith Lia.
From Coq.Strings Require Import Byte.
Import ListNotations.
From GA.Base Require Import Bytes Case.
From GA.Gen Require Import Compl Alpha CaseTables.
From GA.Spec Require Import IupacSets.
From GA.Model Require Import Strand.

(* ---- the table is the semantic complement, on all 256 bytes --------------- *)

Definition opt_byte_eqb (a b : option byte) : bool :=
  match a, b with
  | Some x, Some y => beqb x y
  | None, None => true
  | _, _ => false
  end.

Lemma opt_byte_eqb_eq a b : opt_byte_eqb a b = true -> a = b.
Proof.
  destruct a, b; simpl; try congruence; intros H.
  apply beqb_eq in H. congruence.
Qed.

Lemma complement_table_semantic : forall b, complement_b b = spec_complement b.
Proof.
  intros b. apply opt_byte_eqb_eq. revert b.
  apply (forall_bytes (fun b => opt_byte_eqb (complement_b b) (spec_complement b))).
  vm_compute. reflexivity.
Qed.

(* complement is an involution on the DNA alphabet (U excluded: U -> A -> T) *)
Lemma complement_b_involutive :
  forall b, is_dna_byte b = true ->
            exists c, complement_b b = Some c /\ complement_b c = Some b /\ is_dna_byte c = true.
Proof.
  intros b H.
  assert (G : match complement_b b with
              | Some c => opt_byte_eqb (complement_b c) (Some b) && is_dna_byte c
              | None => false end = true).
  { revert b H.
    assert (A : forall b, (negb (is_dna_byte b) || match complement_b b with
              | Some c => opt_byte_eqb (complement_b c) (Some b) && is_dna_byte c
              | None => false end) = true).
    { apply forall_bytes. vm_compute. reflexivity. }
    intros b H. specialize (A b). rewrite H in A. simpl in A. exact A. }
  destruct (complement_b b) as [c|]; [|discriminate].
  apply andb_true_iff in G as [G1 G2]. apply opt_byte_eqb_eq in G1.
  exists c; auto.
Qed.

Lemma complement_preserves_gap b : beqb b GAP = true -> complement_b b = Some b.
Proof. intros H. apply beqb_eq in H. subst. vm_compute. reflexivity. Qed.

Lemma complement_gap_only :
  forall b c, complement_b b = Some c -> beqb c GAP = beqb b GAP.
Proof.
  intros b c H.
  assert (A : forall b, match complement_b b with Some c => Bool.eqb (beqb c GAP) (beqb b GAP) | None => true end = true).
  { apply forall_bytes. vm_compute. reflexivity. }
  specialize (A b). rewrite H in A. apply Bool.eqb_prop in A. exact A.
Qed.

(* case is preserved by the table *)
Lemma complement_preserves_case :
  forall b c, complement_b b = Some c ->
              is_lower_letter c = is_lower_letter b /\ is_upper_letter c = is_upper_letter b.
Proof.
  intros b c H.
  assert (A : forall b, match complement_b b with
                        | Some c => Bool.eqb (is_lower_letter c) (is_lower_letter b) &&
                                    Bool.eqb (is_upper_letter c) (is_upper_letter b)
                        | None => true end = true).
  { apply forall_bytes. vm_compute. reflexivity. }
  specialize (A b). rewrite H in A. apply andb_true_iff in A as [A1 A2].
  apply Bool.eqb_prop in A1, A2. auto.
Qed.

(* ---- sequences ------------------------------------------------------------- *)



Lemma complement_ok_dna s : all_dna s = true -> complement s = (map spec_c s, true).
Proof.
  induction s as [|b t IH]; simpl; intros H; [reflexivity|].
  apply andb_true_iff in H as [Hb Ht].
  destruct (complement_b_involutive b Hb) as (c & Hc & _ & _).
  rewrite Hc. rewrite (IH Ht).
  assert (E : spec_c b = c) by (unfold spec_c; rewrite <- complement_table_semantic, Hc; reflexivity).
  rewrite E. reflexivity.
Qed.

Lemma complement_length s : length (fst (complement s)) = length s.
Proof.
  induction s as [|b t IH]; simpl; [reflexivity|].
  destruct (complement_b b); [|reflexivity].
  destruct (complement t) as [t' ok]. simpl in *. congruence.
Qed.

Lemma spec_c_involutive b : is_dna_byte b = true -> spec_c (spec_c b) = b /\ is_dna_byte (spec_c b) = true.
Proof.
  intros H. destruct (complement_b_involutive b H) as (c & Hc & Hb & Hd).
  assert (E1 : spec_c b = c) by (unfold spec_c; rewrite <- complement_table_semantic, Hc; reflexivity).
  assert (E2 : spec_c c = b) by (unfold spec_c; rewrite <- complement_table_semantic, Hb; reflexivity).
  rewrite E1, E2. auto.
Qed.

Lemma all_dna_map_spec_c s : all_dna s = true -> all_dna (map spec_c s) = true.
Proof.
  induction s as [|b t IH]; simpl; intros H; [reflexivity|].
  apply andb_true_iff in H as [Hb Ht]. apply andb_true_iff; split; [apply spec_c_involutive; exact Hb | apply IH; exact Ht].
Qed.

Lemma map_spec_c_involutive s : all_dna s = true -> map spec_c (map spec_c s) = s.
Proof.
  induction s as [|b t IH]; simpl; intros H; [reflexivity|].
  apply andb_true_iff in H as [Hb Ht]. f_equal; [apply spec_c_involutive; exact Hb | apply IH; exact Ht].
Qed.

Lemma all_dna_rev s : all_dna (rev s) = all_dna s.
Proof.
  unfold all_dna. induction s as [|b t IH]; simpl; [reflexivity|].
  rewrite forallb_app. simpl. rewrite IH. rewrite andb_true_r. apply andb_comm.
Qed.

Lemma revcomp_seq_dna s : all_dna s = true -> revcomp_seq s = (rev (map spec_c s), true).
Proof. intros H. unfold revcomp_seq. rewrite (complement_ok_dna s H). reflexivity. Qed.

Lemma revcomp_seq_involutive s :
  all_dna s = true -> revcomp_seq (fst (revcomp_seq s)) = (s, true).
Proof.
  intros H. rewrite (revcomp_seq_dna s H). simpl.
  rewrite revcomp_seq_dna.
  - rewrite <- map_rev, rev_involutive. rewrite map_spec_c_involutive; auto.
  - rewrite all_dna_rev. apply all_dna_map_spec_c; exact H.
Qed.

Lemma revcomp_seq_length s : length (fst (revcomp_seq s)) = length s.
Proof.
  unfold revcomp_seq. pose proof (complement_length s) as L.
  destruct (complement s) as [c ok]; simpl in *. destruct ok; simpl; [unfold reverse; rewrite rev_length|]; exact L.
Qed.

(* ---- rows ------------------------------------------------------------------ *)



Lemma revcomp_rows_dna rs :
  rows_dna rs = true -> revcomp_rows rs = (map (fun r => (fst r, spec_rc (snd r))) rs, true).
Proof.
  induction rs as [|[n s] t IH]; simpl; intros H; [reflexivity|].
  apply andb_true_iff in H as [Hs Ht]. simpl in Hs.
  rewrite (revcomp_seq_dna s Hs). rewrite (IH Ht). reflexivity.
Qed.

Lemma spec_rc_dna s : all_dna s = true -> all_dna (spec_rc s) = true.
Proof. intros H. unfold spec_rc. rewrite all_dna_rev. apply all_dna_map_spec_c; exact H. Qed.

Lemma spec_rc_involutive s : all_dna s = true -> spec_rc (spec_rc s) = s.
Proof.
  intros H. unfold spec_rc. rewrite <- map_rev, rev_involutive. apply map_spec_c_involutive; exact H.
Qed.

Lemma rows_dna_rc rs : rows_dna rs = true -> rows_dna (map (fun r => (fst r, spec_rc (snd r))) rs) = true.
Proof.
  induction rs as [|[n s] t IH]; simpl; intros H; [reflexivity|].
  apply andb_true_iff in H as [Hs Ht]. apply andb_true_iff; split; [apply spec_rc_dna; exact Hs | apply IH; exact Ht].
Qed.

Lemma revcomp_rows_involutive rs :
  rows_dna rs = true -> revcomp_rows (fst (revcomp_rows rs)) = (rs, true).
Proof.
  intros H. rewrite (revcomp_rows_dna rs H). simpl.
  rewrite revcomp_rows_dna by (apply rows_dna_rc; exact H).
  f_equal. rewrite map_map. simpl.
  induction rs as [|[n s] t IH]; simpl; [reflexivity|].
  simpl in H. apply andb_true_iff in H as [Hs Ht]. simpl in Hs.
  rewrite (spec_rc_involutive s Hs). f_equal. apply IH; exact Ht.
Qed.

(* named subset: exactly the rows whose name is requested change *)


Lemma revcomp_named_spec name rs :
  rows_dna rs = true -> names_unique rs ->
  revcomp_named name rs =
    (map (fun r => if bytes_eqb (fst r) name then (fst r, spec_rc (snd r)) else r) rs, true).
Proof.
  induction rs as [|[n s] t IH]; simpl; intros H U; [reflexivity|].
  apply andb_true_iff in H as [Hs Ht]. simpl in Hs.
  inversion U as [|? ? Hnin Ut]; subst.
  destruct (bytes_eqb n name) eqn:E.
  - rewrite (revcomp_seq_dna s Hs). f_equal. f_equal.
    apply bytes_eqb_eq in E. subst n.
    clear IH Ht Ut U. induction t as [|[n' s'] t' IHt]; simpl; [reflexivity|].
    simpl in Hnin. destruct (bytes_eqb n' name) eqn:E'.
    + apply bytes_eqb_eq in E'. subst. exfalso. apply Hnin. left; reflexivity.
    + f_equal. apply IHt. intros X. apply Hnin. right; exact X.
  - rewrite (IH Ht Ut). reflexivity.
Qed.

Lemma revcomp_named_keeps rs name :
  rows_dna rs = true -> names_unique rs ->
  rows_dna (fst (revcomp_named name rs)) = true /\ names_unique (fst (revcomp_named name rs)) /\
  map fst (fst (revcomp_named name rs)) = map fst rs.
Proof.
  intros H U. rewrite (revcomp_named_spec name rs H U). cbn [fst].
  match goal with |- context [map ?f rs] => set (g := f) in * end.
  assert (M : map fst (map g rs) = map fst rs).
  { rewrite map_map. apply map_ext. intros [n s]; unfold g; simpl. destruct (bytes_eqb n name); reflexivity. }
  split; [|split; [unfold names_unique; rewrite M; exact U | exact M]].
  clear U M. unfold g. clear g. induction rs as [|[n s] t IH]; simpl; [reflexivity|].
  simpl in H. apply andb_true_iff in H as [Hs Ht]. simpl in Hs.
  apply andb_true_iff; split; [|apply IH; exact Ht].
  destruct (bytes_eqb n name); simpl; [apply spec_rc_dna|]; exact Hs.
Qed.

(* rows whose name is not requested are untouched, whatever the request list *)
Lemma revcomp_names_frame names : forall rs,
  rows_dna rs = true -> names_unique rs ->
  snd (revcomp_names names rs) = true /\
  map fst (fst (revcomp_names names rs)) = map fst rs /\
  (forall n s, In (n, s) rs -> mem_name n names = false -> In (n, s) (fst (revcomp_names names rs))) /\
  length (fst (revcomp_names names rs)) = length rs.
Proof.
  induction names as [|nm more IH]; intros rs H U.
  - simpl. repeat split; auto.
  - pose proof (revcomp_named_spec nm rs H U) as S.
    destruct (revcomp_named_keeps rs nm H U) as (H' & U' & N').
    cbn [revcomp_names]. rewrite S in *.
    set (rs1 := map (fun r : row => if bytes_eqb (fst r) nm then (fst r, spec_rc (snd r)) else r) rs) in *.
    cbv beta iota. cbn [fst snd] in *.
    destruct (IH rs1 H' U') as (I1 & I2 & I3 & I4).
    split; [exact I1|]. split; [rewrite I2; exact N'|]. split.
    + intros n s Hin Hm. cbn [mem_name] in Hm. apply orb_false_iff in Hm as [Hm1 Hm2].
      apply I3; [|exact Hm2].
      unfold rs1. apply in_map_iff. exists (n, s). split; [|exact Hin]. cbn [fst snd].
      destruct (bytes_eqb n nm) eqn:E; [|reflexivity].
      apply bytes_eqb_eq in E. subst. rewrite bytes_eqb_refl in Hm1. discriminate.
    + rewrite I4. unfold rs1. apply map_length.
Qed.

(* once-requested names: full characterisation *)
Lemma revcomp_names_spec names : forall rs,
  rows_dna rs = true -> names_unique rs -> NoDup names ->
  revcomp_names names rs =
    (map (fun r => if mem_name (fst r) names then (fst r, spec_rc (snd r)) else r) rs, true).
Proof.
  induction names as [|nm more IH]; intros rs H U ND.
  - simpl. f_equal. symmetry. apply map_id.
  - pose proof (revcomp_named_spec nm rs H U) as S.
    destruct (revcomp_named_keeps rs nm H U) as (H' & U' & N').
    cbn [revcomp_names]. rewrite S in *.
    set (rs1 := map (fun r : row => if bytes_eqb (fst r) nm then (fst r, spec_rc (snd r)) else r) rs) in *.
    cbv beta iota. cbn [fst snd] in *.
    inversion ND as [|? ? Hnin ND']; subst.
    rewrite (IH rs1 H' U' ND'). f_equal. unfold rs1. rewrite map_map. apply map_ext_in.
    intros [n s] Hin. cbn [fst snd mem_name].
    destruct (bytes_eqb n nm) eqn:E; cbn [fst snd].
    + apply bytes_eqb_eq in E. subst n.
      assert (M : mem_name nm more = false).
      { clear -Hnin. induction more as [|x t IHm]; simpl; [reflexivity|].
        destruct (bytes_eqb x nm) eqn:E; simpl.
        - apply bytes_eqb_eq in E. subst. exfalso. apply Hnin. left; reflexivity.
        - apply IHm. intros X. apply Hnin. right; exact X. }
      rewrite M. rewrite bytes_eqb_refl. reflexivity.
    + assert (E' : bytes_eqb nm n = false).
      { destruct (bytes_eqb nm n) eqn:X; [|reflexivity]. apply bytes_eqb_eq in X. subst. rewrite bytes_eqb_refl in E. discriminate. }
      rewrite E'. reflexivity.
Qed.

(* ---- case ------------------------------------------------------------------ *)

Lemma to_upper_ascii : forall b, is_ascii b = true -> to_upper b = ascii_upper b.
Proof.
  assert (A : forall b, (negb (is_ascii b) || beqb (to_upper b) (ascii_upper b)) = true).
  { apply forall_bytes. vm_compute. reflexivity. }
  intros b H. specialize (A b). rewrite H in A. simpl in A. apply beqb_eq in A. exact A.
Qed.

Lemma to_lower_ascii : forall b, is_ascii b = true -> to_lower b = ascii_lower b.
Proof.
  assert (A : forall b, (negb (is_ascii b) || beqb (to_lower b) (ascii_lower b)) = true).
  { apply forall_bytes. vm_compute. reflexivity. }
  intros b H. specialize (A b). rewrite H in A. simpl in A. apply beqb_eq in A. exact A.
Qed.

Lemma to_upper_idem : forall b, is_ascii b = true -> to_upper (to_upper b) = to_upper b /\ is_ascii (to_upper b) = true.
Proof.
  assert (A : forall b, (negb (is_ascii b) || (beqb (to_upper (to_upper b)) (to_upper b) && is_ascii (to_upper b))) = true).
  { apply forall_bytes. vm_compute. reflexivity. }
  intros b H. specialize (A b). rewrite H in A. simpl in A. apply andb_true_iff in A as [A1 A2]. apply beqb_eq in A1. auto.
Qed.

Lemma to_lower_idem : forall b, is_ascii b = true -> to_lower (to_lower b) = to_lower b /\ is_ascii (to_lower b) = true.
Proof.
  assert (A : forall b, (negb (is_ascii b) || (beqb (to_lower (to_lower b)) (to_lower b) && is_ascii (to_lower b))) = true).
  { apply forall_bytes. vm_compute. reflexivity. }
  intros b H. specialize (A b). rewrite H in A. simpl in A. apply andb_true_iff in A as [A1 A2]. apply beqb_eq in A1. auto.
Qed.

(* only letters change, and only their case *)
Lemma to_upper_only_case : forall b, is_ascii b = true ->
  (is_lower_letter b = false -> to_upper b = b) /\ to_lower (to_upper b) = to_lower b.
Proof.
  assert (A : forall b, (negb (is_ascii b) ||
     ((is_lower_letter b || beqb (to_upper b) b) && beqb (to_lower (to_upper b)) (to_lower b))) = true).
  { apply forall_bytes. vm_compute. reflexivity. }
  intros b H. specialize (A b). rewrite H in A. simpl in A. apply andb_true_iff in A as [A1 A2].
  split.
  - intros L. rewrite L in A1. simpl in A1. apply beqb_eq in A1. exact A1.
  - apply beqb_eq in A2. exact A2.
Qed.

Lemma to_lower_only_case : forall b, is_ascii b = true ->
  (is_upper_letter b = false -> to_lower b = b) /\ to_upper (to_lower b) = to_upper b.
Proof.
  assert (A : forall b, (negb (is_ascii b) ||
     ((is_upper_letter b || beqb (to_lower b) b) && beqb (to_upper (to_lower b)) (to_upper b))) = true).
  { apply forall_bytes. vm_compute. reflexivity. }
  intros b H. specialize (A b). rewrite H in A. simpl in A. apply andb_true_iff in A as [A1 A2].
  split.
  - intros L. rewrite L in A1. simpl in A1. apply beqb_eq in A1. exact A1.
  - apply beqb_eq in A2. exact A2.
Qed.

(* the gap is never created nor destroyed by case folding (all 256 bytes) *)
Lemma to_upper_gap : forall b, beqb (to_upper b) GAP = beqb b GAP.
Proof.
  assert (A : forall b, Bool.eqb (beqb (to_upper b) GAP) (beqb b GAP) = true).
  { apply forall_bytes. vm_compute. reflexivity. }
  intros b. apply Bool.eqb_prop. apply A.
Qed.
Lemma to_lower_gap : forall b, beqb (to_lower b) GAP = beqb b GAP.
Proof.
  assert (A : forall b, Bool.eqb (beqb (to_lower b) GAP) (beqb b GAP) = true).
  { apply forall_bytes. vm_compute. reflexivity. }
  intros b. apply Bool.eqb_prop. apply A.
Qed.


Lemma map_to_upper_idem s : all_ascii s = true -> map to_upper (map to_upper s) = map to_upper s.
Proof.
  induction s as [|b t IH]; simpl; intros H; [reflexivity|].
  apply andb_true_iff in H as [Hb Ht]. f_equal; [apply to_upper_idem; exact Hb | apply IH; exact Ht].
Qed.
Lemma map_to_lower_idem s : all_ascii s = true -> map to_lower (map to_lower s) = map to_lower s.
Proof.
  induction s as [|b t IH]; simpl; intros H; [reflexivity|].
  apply andb_true_iff in H as [Hb Ht]. f_equal; [apply to_lower_idem; exact Hb | apply IH; exact Ht].
Qed.

(* ---- un-align -------------------------------------------------------------- *)

Lemma ungap_no_gap s : forallb (fun b => negb (beqb b GAP)) (ungap s) = true.
Proof.
  unfold ungap. induction s as [|b t IH]; simpl; [reflexivity|].
  destruct (beqb b GAP) eqn:E; simpl; [exact IH | rewrite E; simpl; exact IH].
Qed.

Lemma ungap_idem s : ungap (ungap s) = ungap s.
Proof.
  unfold ungap. induction s as [|b t IH]; simpl; [reflexivity|].
  destruct (beqb b GAP) eqn:E; simpl; [exact IH | rewrite E; simpl; f_equal; exact IH].
Qed.

Lemma ungap_app a b : ungap (a ++ b) = ungap a ++ ungap b.
Proof. unfold ungap. apply filter_app. Qed.

Lemma ungap_rev s : ungap (rev s) = rev (ungap s).
Proof.
  induction s as [|b t IH]; simpl; [reflexivity|].
  rewrite ungap_app, IH. unfold ungap at 2 3. simpl.
  destruct (beqb b GAP); simpl; [rewrite app_nil_r|]; reflexivity.
Qed.

Lemma ungap_map_upper s : ungap (map to_upper s) = map to_upper (ungap s).
Proof.
  unfold ungap. induction s as [|b t IH]; simpl; [reflexivity|].
  rewrite to_upper_gap. destruct (beqb b GAP); simpl; [|f_equal]; exact IH.
Qed.
Lemma ungap_map_lower s : ungap (map to_lower s) = map to_lower (ungap s).
Proof.
  unfold ungap. induction s as [|b t IH]; simpl; [reflexivity|].
  rewrite to_lower_gap. destruct (beqb b GAP); simpl; [|f_equal]; exact IH.
Qed.

Lemma spec_c_gap b : is_dna_byte b = true -> beqb (spec_c b) GAP = beqb b GAP.
Proof.
  intros H. destruct (complement_b_involutive b H) as (c & Hc & _ & _).
  unfold spec_c. rewrite <- complement_table_semantic, Hc. apply (complement_gap_only b c Hc).
Qed.

Lemma ungap_map_spec_c s : all_dna s = true -> ungap (map spec_c s) = map spec_c (ungap s).
Proof.
  unfold ungap. induction s as [|b t IH]; simpl; intros H; [reflexivity|].
  apply andb_true_iff in H as [Hb Ht].
  rewrite (spec_c_gap b Hb). destruct (beqb b GAP); simpl; [|f_equal]; apply IH; exact Ht.
Qed.

Lemma ungap_spec_rc s : all_dna s = true -> ungap (spec_rc s) = spec_rc (ungap s).
Proof.
  intros H. unfold spec_rc. rewrite ungap_rev. rewrite (ungap_map_spec_c s H). reflexivity.
Qed.

(* gaps stay where they are, mirrored: position i of the result is a gap iff
   position (len-1-i) of the input is *)
Lemma spec_rc_length s : length (spec_rc s) = length s.
Proof. unfold spec_rc. rewrite rev_length, map_length. reflexivity. Qed.

Lemma spec_rc_nth s i d : all_dna s = true -> i < length s ->
  nth i (spec_rc s) d = spec_c (nth (length s - 1 - i) s d).
Proof.
  intros H L. unfold spec_rc.
  rewrite rev_nth by (rewrite map_length; exact L). rewrite map_length.
  replace (length s - S i) with (length s - 1 - i) by lia.
  rewrite (nth_indep _ d (spec_c d)) by (rewrite map_length; lia).
  apply map_nth.
Qed.

(* ---- packaged statements used by Props/C06.v -------------------------------- *)

Lemma reverse_complement_spec alphabet rs :
  alphabet = NUCLEOTIDS -> rows_dna rs = true ->
  reverse_complement alphabet rs = (map (fun r => (fst r, rev (map spec_c (snd r)))) rs, true).
Proof.
  intros -> H. unfold reverse_complement. rewrite Z.eqb_refl. apply revcomp_rows_dna; exact H.
Qed.

Lemma reverse_complement_involutive alphabet rs :
  alphabet = NUCLEOTIDS -> rows_dna rs = true ->
  reverse_complement alphabet (fst (reverse_complement alphabet rs)) = (rs, true).
Proof.
  intros -> H. unfold reverse_complement. rewrite Z.eqb_refl. apply revcomp_rows_involutive; exact H.
Qed.

Lemma reverse_complement_wrong_alphabet alphabet rs :
  alphabet <> NUCLEOTIDS -> reverse_complement alphabet rs = (rs, false).
Proof.
  intros H. unfold reverse_complement. destruct (Z.eqb alphabet NUCLEOTIDS) eqn:E; [|reflexivity].
  apply Z.eqb_eq in E. contradiction.
Qed.

Lemma reverse_complement_sequences_spec alphabet names rs :
  alphabet = NUCLEOTIDS -> rows_dna rs = true -> names_unique rs -> NoDup names ->
  reverse_complement_sequences alphabet names rs =
    (map (fun r => if mem_name (fst r) names then (fst r, spec_rc (snd r)) else r) rs, true).
Proof.
  intros -> H U ND. unfold reverse_complement_sequences. rewrite Z.eqb_refl. apply revcomp_names_spec; assumption.
Qed.

Lemma reverse_complement_sequences_frame alphabet names rs :
  alphabet = NUCLEOTIDS -> rows_dna rs = true -> names_unique rs ->
  snd (reverse_complement_sequences alphabet names rs) = true /\
  map fst (fst (reverse_complement_sequences alphabet names rs)) = map fst rs /\
  (forall n s, In (n, s) rs -> mem_name n names = false ->
               In (n, s) (fst (reverse_complement_sequences alphabet names rs))) /\
  length (fst (reverse_complement_sequences alphabet names rs)) = length rs.
Proof.
  intros -> H U. unfold reverse_complement_sequences. rewrite Z.eqb_refl. apply revcomp_names_frame; assumption.
Qed.

Lemma spec_rc_shape s :
  all_dna s = true ->
  length (spec_rc s) = length s /\
  (forall i d, i < length s ->
     nth i (spec_rc s) d = spec_c (nth (length s - 1 - i) s d)) /\
  (forall b, is_dna_byte b = true ->
     beqb (spec_c b) GAP = beqb b GAP /\
     is_lower_letter (spec_c b) = is_lower_letter b /\
     is_upper_letter (spec_c b) = is_upper_letter b /\
     spec_complement b = Some (spec_c b)).
Proof.
  intros H. split; [apply spec_rc_length|]. split.
  - intros i d L. apply spec_rc_nth; assumption.
  - intros b Hb. destruct (complement_b_involutive b Hb) as (c & Hc & _ & _).
    assert (E : spec_c b = c) by (unfold spec_c; rewrite <- complement_table_semantic, Hc; reflexivity).
    rewrite E. split; [apply (complement_gap_only b c Hc)|].
    destruct (complement_preserves_case b c Hc) as [L U]. split; [exact L|]. split; [exact U|].
    rewrite <- complement_table_semantic. exact Hc.
Qed.

Lemma case_transforms_spec :
  (forall b, is_ascii b = true ->
     to_upper b = ascii_upper b /\ to_lower b = ascii_lower b /\
     to_upper (to_upper b) = to_upper b /\ to_lower (to_lower b) = to_lower b /\
     (is_lower_letter b = false -> to_upper b = b) /\
     (is_upper_letter b = false -> to_lower b = b) /\
     to_lower (to_upper b) = to_lower b /\ to_upper (to_lower b) = to_upper b) /\
  (forall rs, forallb (fun r => all_ascii (snd r)) rs = true ->
     to_upper_rows (to_upper_rows rs) = to_upper_rows rs /\
     to_lower_rows (to_lower_rows rs) = to_lower_rows rs) /\
  (forall rs, map fst (to_upper_rows rs) = map fst rs /\ map fst (to_lower_rows rs) = map fst rs /\
              map (fun r => length (snd r)) (to_upper_rows rs) = map (fun r => length (snd r)) rs /\
              map (fun r => length (snd r)) (to_lower_rows rs) = map (fun r => length (snd r)) rs).
Proof.
  split; [|split].
  - intros b H. repeat split.
    + apply to_upper_ascii; exact H.
    + apply to_lower_ascii; exact H.
    + apply to_upper_idem; exact H.
    + apply to_lower_idem; exact H.
    + apply to_upper_only_case; exact H.
    + apply to_lower_only_case; exact H.
    + apply to_upper_only_case; exact H.
    + apply to_lower_only_case; exact H.
  - intros rs H. unfold to_upper_rows, to_lower_rows. rewrite !map_map. cbn [fst snd]. split.
    + apply map_ext_in. intros [n s] Hin. cbn [fst snd]. f_equal. apply map_to_upper_idem.
      rewrite forallb_forall in H. apply (H (n, s) Hin).
    + apply map_ext_in. intros [n s] Hin. cbn [fst snd]. f_equal. apply map_to_lower_idem.
      rewrite forallb_forall in H. apply (H (n, s) Hin).
  - intros rs. unfold to_upper_rows, to_lower_rows. rewrite !map_map. cbn [fst snd].
    repeat split; try reflexivity; apply map_ext; intros [n s]; cbn [fst snd]; apply map_length.
Qed.

Lemma unalign_spec :
  (forall rs, unalign_rows rs = map (fun r => (fst r, filter (fun b => negb (beqb b GAP)) (snd r))) rs) /\
  (forall s, forallb (fun b => negb (beqb b GAP)) (ungap s) = true) /\
  (forall s, ungap (ungap s) = ungap s) /\
  (forall s, forallb (fun b => negb (beqb b GAP)) s = true -> ungap s = s).
Proof.
  split; [reflexivity|]. split; [apply ungap_no_gap|]. split; [apply ungap_idem|].
  intros s. unfold ungap. induction s as [|b t IH]; simpl; intros H; [reflexivity|].
  apply andb_true_iff in H as [Hb Ht]. rewrite Hb. f_equal. apply IH; exact Ht.
Qed.

Lemma ungapped_content_preserved :
  (forall s, ungap (map to_upper s) = map to_upper (ungap s)) /\
  (forall s, ungap (map to_lower s) = map to_lower (ungap s)) /\
  (forall s, all_dna s = true -> ungap (spec_rc s) = spec_rc (ungap s)) /\
  (forall s, ungap (ungap s) = ungap s).
Proof.
  split; [apply ungap_map_upper|]. split; [apply ungap_map_lower|]. split; [apply ungap_spec_rc|apply ungap_idem].
Qed.
