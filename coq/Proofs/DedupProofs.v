From Coq Require Import List Bool NArith ZArith Lia Sorted Permutation.
From Coq.Strings Require Import Byte.
Import ListNotations.
From GA.Base Require Import Bytes Align Sort.
From GA.Gen Require Import Alpha.
From GA.Model Require Import Dedup.

(* ================= Compress ================= *)
Lemma cols_fast_spec : forall w ss,
  cols_fast ss w = map (fun i => map (fun s => nth i s x2d) ss) (seq 0 w).
Proof.
  induction w as [|w IH]; intros ss; [reflexivity|].
  cbn [cols_fast]. rewrite IH. rewrite <- cons_seq, <- seq_shift. cbn [map]. f_equal.
  - apply map_ext. intros [|b t]; reflexivity.
  - rewrite map_map. apply map_ext. intros i. rewrite map_map. apply map_ext. intros [|b t]; [destruct i|]; reflexivity.
Qed.

Lemma columns_spec rs : columns rs = map (column rs) (seq 0 (width rs)).
Proof.
  unfold columns. rewrite cols_fast_spec. apply map_ext. intros i. unfold column. rewrite map_map. reflexivity.
Qed.

Lemma existsb_bytes x seen : existsb (bytes_eqb x) seen = true <-> In x seen.
Proof.
  rewrite existsb_exists. split.
  - intros [y [Hy E]]. apply bytes_eqb_eq in E. subst y. exact Hy.
  - intros H. exists x. split; [exact H | apply bytes_eqb_refl].
Qed.

Lemma distinct_acc_in : forall l seen p, In p (distinct_acc seen l) <-> In p l /\ ~ In p seen.
Proof.
  induction l as [|x t IH]; intros seen p; cbn [distinct_acc].
  - split; [intros [] | intros [[] _]].
  - destruct (existsb (bytes_eqb x) seen) eqn:E.
    + apply existsb_bytes in E. rewrite IH. split.
      * intros [H1 H2]. split; [right; exact H1 | exact H2].
      * intros [[->|H1] H2]; [contradiction | split; assumption].
    + assert (Hx : ~ In x seen) by (intros H; apply existsb_bytes in H; congruence).
      cbn [In]. rewrite IH. cbn [In]. split.
      * intros [<-|[H1 H2]]; [split; [left; reflexivity | exact Hx]|].
        split; [right; exact H1 | intros H; apply H2; right; exact H].
      * intros [[->|H1] H2]; [left; reflexivity|].
        destruct (bytes_dec x p) as [->|Hne]; [left; reflexivity|].
        right. split; [exact H1 | intros [H|H]; [congruence | contradiction]].
Qed.

Lemma distinct_acc_nodup : forall l seen, NoDup (distinct_acc seen l).
Proof.
  induction l as [|x t IH]; intros seen; cbn [distinct_acc]; [constructor|].
  destruct (existsb (bytes_eqb x) seen); [apply IH|].
  constructor; [|apply IH]. intros H. apply distinct_acc_in in H as [_ H]. apply H. left. reflexivity.
Qed.

Lemma distinct_cols_in l p : In p (distinct_cols l) <-> In p l.
Proof. unfold distinct_cols. rewrite distinct_acc_in. split; [intros [H _]; exact H | intros H; split; [exact H | intros []]]. Qed.

Lemma patterns_nodup cols : NoDup (patterns cols).
Proof.
  unfold patterns. eapply Permutation_NoDup; [apply isort_perm|]. apply distinct_acc_nodup.
Qed.

Lemma patterns_in cols p : In p (patterns cols) <-> In p cols.
Proof.
  unfold patterns. split; intros H.
  - apply distinct_cols_in. eapply Permutation_in; [apply Permutation_sym, isort_perm | exact H].
  - eapply Permutation_in; [apply isort_perm|]. apply distinct_cols_in. exact H.
Qed.

Lemma patterns_sorted cols : Sorted lex_le (patterns cols).
Proof. apply isort_sorted. Qed.

Section Additive.
  Variable f : list byte -> Z.
  Local Open Scope Z_scope.

  Definition sumf (l : list (list byte)) : Z := fold_right (fun c acc => f c + acc) 0 l.
  Definition wsum (cols pats : list (list byte)) : Z :=
    fold_right (fun p acc => Z.of_nat (count_occ bytes_dec cols p) * f p + acc) 0 pats.

  Lemma wsum_step cols p t :
    wsum cols (p :: t) = Z.of_nat (count_occ bytes_dec cols p) * f p + wsum cols t.
  Proof. reflexivity. Qed.

  Lemma wsum_nil pats : wsum [] pats = 0.
  Proof. induction pats as [|p t IH]; [reflexivity|]. rewrite wsum_step, IH. cbn [count_occ]. lia. Qed.

  Lemma wsum_cons_notin a cols pats : ~ In a pats -> wsum (a :: cols) pats = wsum cols pats.
  Proof.
    induction pats as [|p t IH]; intros H; [reflexivity|]. rewrite !wsum_step.
    rewrite IH by (intros Hin; apply H; right; exact Hin).
    rewrite count_occ_cons_neq; [reflexivity|]. intros E. apply H. left. auto.
  Qed.

  Lemma wsum_cons_in a cols pats : NoDup pats -> In a pats -> wsum (a :: cols) pats = f a + wsum cols pats.
  Proof.
    induction pats as [|p t IH]; intros Hnd Hin; [contradiction|]. inversion Hnd as [|? ? Hnotin Hnd']; subst.
    rewrite !wsum_step. destruct (bytes_dec a p) as [E|E].
    - subst p. rewrite wsum_cons_notin by exact Hnotin. rewrite count_occ_cons_eq by reflexivity. lia.
    - destruct Hin as [Hin|Hin]; [congruence|]. rewrite (IH Hnd' Hin).
      rewrite count_occ_cons_neq by exact E. lia.
  Qed.

  (* any column-additive statistic is preserved by (pattern, weight) *)
  Lemma additive_preserved cols pats :
    NoDup pats -> (forall c, In c cols -> In c pats) -> sumf cols = wsum cols pats.
  Proof.
    intros Hnd. induction cols as [|a t IH]; intros Hincl.
    - rewrite wsum_nil. reflexivity.
    - cbn [sumf fold_right]. rewrite wsum_cons_in; [|exact Hnd | apply Hincl; left; reflexivity].
      fold (sumf t). rewrite IH; [reflexivity|]. intros c Hc. apply Hincl. right. exact Hc.
  Qed.
End Additive.

Lemma compress_additive f cols :
  sumf f cols = wsum f cols (patterns cols).
Proof. apply additive_preserved; [apply patterns_nodup | intros c Hc; apply patterns_in; exact Hc]. Qed.

Lemma sum_weights cols :
  fold_right (fun p acc => count_occ bytes_dec cols p + acc) 0 (patterns cols) = length cols.
Proof.
  pose proof (compress_additive (fun _ => 1%Z) cols) as H.
  assert (A : forall l, sumf (fun _ => 1%Z) l = Z.of_nat (length l)).
  { induction l as [|x t IH]; [reflexivity|]. cbn [sumf fold_right length]. fold (sumf (fun _ => 1%Z) t).
    rewrite IH. lia. }
  assert (B : forall pats, wsum (fun _ => 1%Z) cols pats =
                           Z.of_nat (fold_right (fun p acc => count_occ bytes_dec cols p + acc) 0 pats)).
  { induction pats as [|p t IH]; [reflexivity|]. rewrite wsum_step, IH. cbn [fold_right]. lia. }
  rewrite A, B in H. lia.
Qed.

Lemma compress_spec rs :
  let '(weights, out) := compress rs in
  let cols := columns rs in
  let pats := patterns cols in
  NoDup pats /\ (forall p, In p pats <-> In p cols) /\ Sorted lex_le pats /\
  weights = map (count_occ bytes_dec cols) pats /\
  fold_right Nat.add 0 weights = length cols /\
  map fst out = map fst rs /\
  (forall r, In r out -> length (snd r) = length pats).
Proof.
  unfold compress. cbv zeta. split; [apply patterns_nodup|]. split; [apply patterns_in|].
  split; [apply patterns_sorted|]. split; [reflexivity|]. split.
  - rewrite <- sum_weights. induction (patterns (columns rs)) as [|p t IH]; [reflexivity|]. simpl. rewrite IH. reflexivity.
  - split.
    + rewrite map_map. cbn [fst].
      assert (G : forall (l : rows) k, map (fun x : nat * (list byte * list byte) => fst (snd x)) (combine (seq k (length l)) l) = map fst l).
      { induction l as [|r t IH]; intros k; [reflexivity|]. simpl. f_equal. apply IH. }
      apply G.
    + intros r Hr. apply in_map_iff in Hr as [kr [<- _]]. simpl. apply map_length.
Qed.

(* ================= Deduplicate ================= *)
Definition mem_key (k : list byte) (keys : list (list byte)) : bool := existsb (fun x => bytes_eqb x k) keys.

Lemma key_index_none k keys i : key_index k keys i = None <-> mem_key k keys = false.
Proof.
  revert i. induction keys as [|x t IH]; intros i; simpl; [tauto|].
  destruct (bytes_eqb x k); simpl; [split; discriminate | apply IH].
Qed.

Lemma mem_key_In k keys : mem_key k keys = true <-> In k keys.
Proof.
  unfold mem_key. rewrite existsb_exists. split.
  - intros [x [Hx E]]. apply bytes_eqb_eq in E. subst. exact Hx.
  - intros H. exists k. split; [exact H | apply bytes_eqb_refl].
Qed.

Lemma key_index_some k keys i j : key_index k keys i = Some j -> i <= j < i + length keys /\ nth (j - i) keys [] = k.
Proof.
  revert i. induction keys as [|x t IH]; intros i H; simpl in H; [discriminate|].
  destruct (bytes_eqb x k) eqn:E.
  - inversion H; subst. apply bytes_eqb_eq in E. simpl. rewrite Nat.sub_diag. split; [lia | exact E].
  - apply IH in H as [H1 H2]. simpl. split; [lia|].
    replace (j - i) with (S (j - S i)) by lia. exact H2.
Qed.

Section Dedup.
  Variable alphabet : Z.
  Variable nag : bool.
  Notation key := (fun r : list byte * list byte => compare_key alphabet nag (snd r)).
  Notation step := (dedup_step alphabet nag).

  (* rows kept = first occurrence of every distinct key, in order *)
  Fixpoint firsts (seen : list (list byte)) (rs : rows) : rows :=
    match rs with
    | [] => []
    | r :: t => if mem_key (key r) seen then firsts seen t else r :: firsts (seen ++ [key r]) t
    end.

  Lemma add_to_group_length i n g : length (add_to_group i n g) = length g.
  Proof. revert i. induction g as [|x t IH]; intros [|i]; simpl; auto. Qed.

  Lemma add_to_group_heads i n g :
    (forall x, In x g -> x <> []) -> map (hd []) (add_to_group i n g) = map (hd []) g.
  Proof.
    revert i. induction g as [|x t IH]; intros [|i] H; simpl; auto.
    - f_equal. destruct x; [exfalso; apply (H []); [left; reflexivity | reflexivity] | reflexivity].
    - f_equal. apply IH. intros y Hy. apply H. right. exact Hy.
  Qed.

  Lemma add_to_group_nonempty i n g :
    (forall x, In x g -> x <> []) -> forall x, In x (add_to_group i n g) -> x <> [].
  Proof.
    revert i. induction g as [|y t IH]; intros [|i] H x Hx; simpl in Hx; try contradiction.
    - destruct Hx as [<-|Hx]; [destruct y; discriminate | apply H; right; exact Hx].
    - destruct Hx as [<-|Hx]; [apply H; left; reflexivity|].
      apply (IH i); [intros z Hz; apply H; right; exact Hz | exact Hx].
  Qed.

  Lemma add_to_group_concat i n g :
    i < length g -> Permutation (concat (add_to_group i n g)) (n :: concat g).
  Proof.
    revert i. induction g as [|x t IH]; intros [|i] H; simpl in *; try lia.
    - rewrite <- app_assoc. simpl. apply Permutation_sym. apply Permutation_middle.
    - eapply perm_trans; [apply Permutation_app_head; apply IH; lia|].
      apply Permutation_sym. apply Permutation_middle.
  Qed.

  Definition Inv (done : rows) (st : dd_state) : Prop :=
    let '(keys, kept, groups) := st in
    keys = map key kept /\ NoDup keys /\ length groups = length kept /\
    map (hd []) groups = map fst kept /\ (forall g, In g groups -> g <> []) /\
    Permutation (concat groups) (map fst done) /\
    kept = firsts [] done.

  Lemma firsts_app seen a b :
    firsts seen (a ++ b) = firsts seen a ++ firsts (seen ++ map key (firsts seen a)) b.
  Proof.
    revert seen. induction a as [|r t IH]; intros seen; simpl.
    - rewrite app_nil_r. reflexivity.
    - destruct (mem_key (key r) seen); [apply IH|].
      simpl. f_equal. rewrite IH. rewrite <- app_assoc. reflexivity.
  Qed.

  Lemma Inv_step done st r : Inv done st -> Inv (done ++ [r]) (step st r).
  Proof.
    destruct st as [[keys kept] groups]. intros [Hk [Hnd [Hl [Hh [Hne [Hp Hf]]]]]].
    unfold dedup_step. destruct (key_index (key r) keys 0) as [i|] eqn:E.
    - apply key_index_some in E as [Hi Hn]. unfold Inv. repeat split; auto.
      + rewrite add_to_group_length. exact Hl.
      + rewrite add_to_group_heads by exact Hne. exact Hh.
      + apply add_to_group_nonempty. exact Hne.
      + rewrite map_app. simpl. eapply perm_trans; [apply add_to_group_concat|].
        * rewrite Hl. rewrite Hk, map_length in Hi. lia.
        * eapply perm_trans; [apply perm_skip; exact Hp|]. apply Permutation_cons_append.
      + rewrite firsts_app. simpl. rewrite <- Hf, <- Hk.
        assert (M : mem_key (key r) keys = true).
        { apply mem_key_In. rewrite <- Hn. apply nth_In. lia. }
        simpl in M. rewrite M. rewrite app_nil_r. reflexivity.
    - apply key_index_none in E. unfold Inv. repeat split.
      + rewrite map_app, Hk. reflexivity.
      + eapply Permutation_NoDup; [apply Permutation_cons_append|].
        constructor; [|exact Hnd]. intros Hin. apply mem_key_In in Hin. simpl in *. congruence.
      + rewrite !app_length, Hl. reflexivity.
      + rewrite !map_app, Hh. reflexivity.
      + intros g Hg. apply in_app_or in Hg as [Hg|[<-|[]]]; [apply Hne; exact Hg | discriminate].
      + rewrite concat_app, map_app. simpl. apply Permutation_app; [exact Hp | apply Permutation_refl].
      + rewrite firsts_app. simpl. rewrite <- Hf, <- Hk. simpl in E. rewrite E. reflexivity.
  Qed.

  Lemma Inv_fold rs done st : Inv done st -> Inv (done ++ rs) (fold_left step rs st).
  Proof.
    revert done st. induction rs as [|r t IH]; intros done st H; simpl.
    - rewrite app_nil_r. exact H.
    - replace (done ++ r :: t) with ((done ++ [r]) ++ t) by (rewrite <- app_assoc; reflexivity).
      apply IH. apply Inv_step. exact H.
  Qed.

  Lemma Inv_init : Inv [] ([], [], []).
  Proof. unfold Inv. simpl. repeat split; auto; try constructor; try (intros g []). Qed.

  Theorem deduplicate_spec rs :
    let '(kept, groups) := deduplicate alphabet nag rs in
    kept = firsts [] rs /\
    NoDup (map key kept) /\
    length groups = length kept /\
    map (hd []) groups = map fst kept /\
    Permutation (concat groups) (map fst rs).
  Proof.
    unfold deduplicate. pose proof (Inv_fold rs [] _ Inv_init) as H. simpl in H.
    destruct (fold_left step rs ([], [], [])) as [[keys kept] groups].
    destruct H as [Hk [Hnd [Hl [Hh [Hne [Hp Hf]]]]]]. rewrite <- Hk. auto.
  Qed.

  (* first occurrences: every row of the input has its key represented, by the
     earliest row carrying it; nothing else is kept *)
  Lemma firsts_In seen rs r : In r (firsts seen rs) -> In r rs /\ mem_key (key r) seen = false.
  Proof.
    revert seen. induction rs as [|x t IH]; intros seen H; simpl in H; [contradiction|].
    destruct (mem_key (key x) seen) eqn:E.
    - apply IH in H as [H1 H2]. split; [right; exact H1 | exact H2].
    - destruct H as [<-|H]; [split; [left; reflexivity | exact E]|].
      apply IH in H as [H1 H2]. split; [right; exact H1|].
      unfold mem_key in *. rewrite existsb_app in H2. apply orb_false_iff in H2 as [H2 _]. exact H2.
  Qed.

  Lemma firsts_covers seen rs r :
    In r rs -> mem_key (key r) seen = true \/ exists r', In r' (firsts seen rs) /\ key r' = key r.
  Proof.
    revert seen. induction rs as [|x t IH]; intros seen H; [contradiction|]. simpl.
    destruct H as [->|H].
    - destruct (mem_key (key r) seen) eqn:E; [left; reflexivity|]. right. exists r. split; [left|]; reflexivity.
    - destruct (mem_key (key x) seen) eqn:E.
      + apply IH. exact H.
      + destruct (IH (seen ++ [key x]) H) as [M|[r' [H1 H2]]].
        * unfold mem_key in M. rewrite existsb_app in M. apply orb_true_iff in M as [M|M]; [left; exact M|].
          simpl in M. rewrite orb_false_r in M. apply bytes_eqb_eq in M.
          right. exists x. split; [left; reflexivity | exact M].
        * right. exists r'. split; [right; exact H1 | exact H2].
  Qed.

  (* idempotence *)
  Lemma firsts_nodup seen rs :
    NoDup (map key rs) -> (forall r, In r rs -> mem_key (key r) seen = false) -> firsts seen rs = rs.
  Proof.
    revert seen. induction rs as [|x t IH]; intros seen Hnd Hs; [reflexivity|]. simpl.
    rewrite (Hs x (or_introl eq_refl)). f_equal. inversion Hnd as [|? ? Hx Hnd']; subst. apply IH; [exact Hnd'|].
    intros r Hr. unfold mem_key. rewrite existsb_app. apply orb_false_iff. split; [apply Hs; right; exact Hr|].
    simpl. rewrite orb_false_r. apply not_true_is_false. intros E. apply bytes_eqb_eq in E.
    apply Hx. rewrite E. apply in_map with (f := key). exact Hr.
  Qed.

  Theorem deduplicate_idempotent rs :
    fst (deduplicate alphabet nag (fst (deduplicate alphabet nag rs))) = fst (deduplicate alphabet nag rs).
  Proof.
    pose proof (deduplicate_spec rs) as H. destruct (deduplicate alphabet nag rs) as [kept groups] eqn:E1.
    destruct H as [Hf [Hnd _]]. simpl.
    pose proof (deduplicate_spec kept) as H2. destruct (deduplicate alphabet nag kept) as [kept2 groups2].
    destruct H2 as [Hf2 _]. simpl. rewrite Hf2. apply firsts_nodup; [exact Hnd|]. intros r _. reflexivity.
  Qed.
End Dedup.
