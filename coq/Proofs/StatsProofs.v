From Coq Require Import List Bool NArith ZArith Lia.
From Coq.Strings Require Import Byte.
Import ListNotations.
From GA.Base Require Import Bytes Case Align.
From GA.Gen Require Import Alpha Iupac.
From GA.Model Require Import Stats.

(* ---- case-folded counts ------------------------------------------------------------------- *)
Lemma upper_counts_spec l k n :
  In (k, n) (upper_counts l) <-> (In k ascii130 /\ n = countb k (map to_upper l) /\ 0 < n).
Proof.
  unfold upper_counts. rewrite filter_In, in_map_iff. simpl. rewrite Nat.ltb_lt. split.
  - intros [[k' [E Hk]] Hn]. inversion E; subst. auto.
  - intros [Hk [-> Hn]]. split; [exists k; auto | exact Hn].
Qed.

Lemma upper_counts_keys_nodup l : NoDup (map fst (upper_counts l)).
Proof.
  unfold upper_counts.
  assert (N : NoDup ascii130).
  { unfold ascii130. assert (B : forallb (fun _ => true) ascii130 = true) by reflexivity.
    clear B. vm_compute. repeat (constructor; [simpl; intuition discriminate|]). constructor. }
  revert N. generalize ascii130 as keys. induction keys as [|k t IH]; intros N; simpl; [constructor|].
  inversion N as [|? ? Hk Nt]; subst.
  destruct (Nat.ltb 0 (countb k (map to_upper l))); simpl; [|apply IH; exact Nt].
  constructor; [|apply IH; exact Nt].
  intros Hin. apply in_map_iff in Hin as [[k' n'] [E Hin]]. simpl in E. subst k'.
  apply filter_In in Hin as [Hin _]. apply in_map_iff in Hin as [k'' [E' Hin']]. inversion E'; subst. contradiction.
Qed.

(* ---- site range --------------------------------------------------------------------------------- *)
Lemma site_in_range_iff rs site : site_in_range rs site = true <-> (0 <= site < alen rs)%Z.
Proof. unfold site_in_range. rewrite andb_true_iff, Z.leb_le, Z.ltb_lt. tauto. Qed.

Lemma char_stats_site_error rs site :
  char_stats_site rs site = None <-> ~ (0 <= site < alen rs)%Z.
Proof.
  unfold char_stats_site. destruct (site_in_range rs site) eqn:E.
  - apply site_in_range_iff in E. split; [discriminate | tauto].
  - split; [|reflexivity]. intros _ H. apply site_in_range_iff in H. congruence.
Qed.

Lemma entropy_error rs site rg :
  entropy_counts rs site rg = None <-> ~ (0 <= site < alen rs)%Z.
Proof.
  unfold entropy_counts. destruct (site_in_range rs site) eqn:E.
  - apply site_in_range_iff in E. split; [discriminate | tauto].
  - split; [|reflexivity]. intros _ H. apply site_in_range_iff in H. congruence.
Qed.

(* ---- the majority search ------------------------------------------------------------------------- *)
Section MaxChar.
  Variable alphabet : Z.
  Variables ig ins : bool.
  Notation excl := (mc_excluded alphabet ig ins).
  Notation step := (mc_step alphabet ig ins).

  Definition sum_kept (l : list (byte * nat)) : nat :=
    fold_right (fun kv acc => if excl (fst kv) then acc else snd kv + acc) 0 l.

  Lemma mc_fold_spec l : forall out occ tot mx,
    let '(out', occ', tot', mx') := fold_left step l (out, occ, tot, mx) in
    tot' = tot + sum_kept l /\ mx <= mx' /\
    (forall kv, In kv l -> excl (fst kv) = false -> snd kv <= mx') /\
    ((out', occ', mx') = (out, occ, mx) \/
     (In (out', occ') l /\ excl out' = false /\ occ' = mx' /\ mx < mx')).
  Proof.
    induction l as [|kv t IH]; intros out occ tot mx; cbn [fold_left].
    - simpl. repeat split; auto. intros kv [].
    - unfold mc_step at 2. destruct (excl (fst kv)) eqn:E.
      + specialize (IH out occ tot mx). destruct (fold_left step t (out, occ, tot, mx)) as [[[o' c'] t'] m'].
        destruct IH as [H1 [H2 [H3 H4]]]. split; [simpl; rewrite E; exact H1|]. split; [exact H2|]. split.
        * intros kv' [<-|Hin] Hex; [congruence | apply H3; assumption].
        * destruct H4 as [H4|[Ha [Hb [Hc Hd]]]]; [left; exact H4 | right; split; [right; exact Ha | auto]].
      + destruct (Nat.ltb_spec mx (snd kv)) as [Hlt|Hge].
        * specialize (IH (fst kv) (snd kv) (tot + snd kv) (snd kv)).
          destruct (fold_left step t (fst kv, snd kv, tot + snd kv, snd kv)) as [[[o' c'] t'] m'].
          destruct IH as [H1 [H2 [H3 H4]]]. split; [simpl; rewrite E; lia|]. split; [lia|]. split.
          -- intros kv' [<-|Hin] Hex; [exact H2 | apply H3; assumption].
          -- right. destruct H4 as [H4|[Ha [Hb [Hc Hd]]]].
             ++ inversion H4; subst. split; [left; destruct kv; reflexivity|]. auto.
             ++ split; [right; exact Ha|]. split; [exact Hb|]. split; [exact Hc | lia].
        * specialize (IH out occ (tot + snd kv) mx).
          destruct (fold_left step t (out, occ, tot + snd kv, mx)) as [[[o' c'] t'] m'].
          destruct IH as [H1 [H2 [H3 H4]]]. split; [simpl; rewrite E; lia|]. split; [exact H2|]. split.
          -- intros kv' [<-|Hin] Hex; [lia | apply H3; assumption].
          -- destruct H4 as [H4|[Ha [Hb [Hc Hd]]]]; [left; exact H4 | right; split; [right; exact Ha | auto]].
  Qed.

  (* MaxCharStats at one site: a most frequent non-excluded (case-folded)
     character with its count, the total over non-excluded characters; when
     every character is excluded: the first row's character and the row count *)
  Theorem max_char_site_spec col :
    let '(out, occ, tot) := max_char_site alphabet ig ins col in
    tot = sum_kept (upper_counts col) /\
    ((forall kv, In kv (upper_counts col) -> excl (fst kv) = true) /\
       out = match col with b :: _ => to_upper b | [] => x00 end /\ occ = length col
     \/
     (In (out, occ) (upper_counts col) /\ excl out = false /\
      forall kv, In kv (upper_counts col) -> excl (fst kv) = false -> snd kv <= occ)).
  Proof.
    unfold max_char_site.
    pose proof (mc_fold_spec (upper_counts col) (match col with b :: _ => to_upper b | [] => x00 end) (length col) 0 0) as H.
    destruct (fold_left step (upper_counts col) _) as [[[out occ] tot] mx].
    destruct H as [H1 [H2 [H3 H4]]]. split; [lia|].
    destruct H4 as [H4|[Ha [Hb [Hc Hd]]]].
    - inversion H4; subst. left. split; [|auto].
      intros kv Hin. destruct (excl (fst kv)) eqn:E; [reflexivity|].
      specialize (H3 kv Hin E). destruct kv as [k n]. apply upper_counts_spec in Hin. simpl in *. lia.
    - right. split; [exact Ha|]. split; [exact Hb|]. intros kv Hin Hex. rewrite Hc. apply H3; assumption.
  Qed.
End MaxChar.

(* ---- IUPAC compatibility ----------------------------------------------------------------------------- *)
Lemma equal_or_compatible_sym a b : equal_or_compatible a b = equal_or_compatible b a.
Proof.
  unfold equal_or_compatible. rewrite (orb_comm (15 <? a)%Z). rewrite Z.land_comm, (Z.eqb_sym a b). reflexivity.
Qed.

Lemma equal_or_compatible_sem a b :
  (0 <= a <= 15)%Z -> (0 <= b <= 15)%Z ->
  equal_or_compatible a b = Some true <-> (a = b \/ Z.land a b <> 0%Z).
Proof.
  intros Ha Hb. unfold equal_or_compatible.
  destruct (Z.ltb_spec 15 a); [lia|]. destruct (Z.ltb_spec 15 b); [lia|]. simpl.
  assert (L : (0 <= Z.land a b)%Z) by (apply Z.land_nonneg; lia).
  destruct (Z.eqb_spec a b); simpl; [split; auto|].
  destruct (Z.ltb_spec 0 (Z.land a b)); split; intros H'; try discriminate; auto; try (right; lia).
  destruct H' as [?|?]; [contradiction | lia].
Qed.


(* ---- lists of mutations relative to a reference (list_mut_loop) ------------------------------- *)
Definition m_ref (m : mutation) : byte := fst (fst m).
Definition m_pos (m : mutation) : Z := snd (fst m).
Definition m_alt (m : mutation) : list byte := snd m.
Definition is_insertion (m : mutation) : bool := beqb (m_ref m) GAP.

Lemma flush_alts cur refi : flat_map m_alt (filter is_insertion (flush cur refi)) = cur.
Proof. destruct cur as [|b t]; [reflexivity|]. unfold flush, is_insertion, m_ref, m_alt. cbn. rewrite ?beqb_refl. cbn. rewrite ?app_nil_r. reflexivity. Qed.

Lemma flush_no_subst cur refi : filter (fun m => negb (is_insertion m)) (flush cur refi) = [].
Proof. destruct cur as [|b t]; [reflexivity|]. unfold flush, is_insertion, m_ref. cbn. rewrite ?beqb_refl. reflexivity. Qed.

(* the residues standing in front of the gaps of the reference are exactly the residues reported as
   insertions, in order: nothing lost, nothing invented, whatever the grouping *)
Theorem insertions_conserve_residues all : forall cols cur refi,
  flat_map m_alt (filter is_insertion (list_mut_loop all cols cur refi)) =
  cur ++ map (fun c => fst (fst c)) (filter (fun c => beqb (snd (fst c)) GAP && negb (beqb (fst (fst c)) GAP)) cols).
Proof.
  induction cols as [|[[b rb] eq] t IH]; intros cur refi; cbn [list_mut_loop].
  - rewrite flush_alts. cbn. rewrite app_nil_r. reflexivity.
  - cbn [filter map fst snd]. destruct (beqb rb GAP) eqn:Er.
    + rewrite IH. cbn [andb]. destruct (beqb b GAP); cbn [negb]; [reflexivity|].
      cbn [map fst]. rewrite <- app_assoc. reflexivity.
    + cbn [andb]. rewrite !filter_app, !flat_map_app, flush_alts, IH. cbn [app].
      destruct (negb (beqb b all) && negb eq); [|reflexivity].
      cbn [filter]. unfold is_insertion at 1, m_ref. cbn [fst]. rewrite Er. reflexivity.
Qed.

(* the substitution / deletion entries are exactly the reference residues whose opposite character is
   neither the wildcard nor compatible, each at its ungapped reference coordinate *)
Fixpoint subst_spec (all : byte) (cols : list (byte * byte * bool)) (refi : Z) : list mutation :=
  match cols with
  | [] => []
  | (b, rb, eq) :: t =>
      if beqb rb GAP then subst_spec all t refi
      else (if negb (beqb b all) && negb eq then [(rb, refi, [b])] else []) ++ subst_spec all t (refi + 1)
  end.

Theorem substitutions_are_the_incompatible_residues all : forall cols cur refi,
  filter (fun m => negb (is_insertion m)) (list_mut_loop all cols cur refi) = subst_spec all cols refi.
Proof.
  induction cols as [|[[b rb] eq] t IH]; intros cur refi; cbn [list_mut_loop subst_spec].
  - apply flush_no_subst.
  - destruct (beqb rb GAP) eqn:Er; [apply IH|].
    rewrite !filter_app, flush_no_subst, IH. cbn [app]. f_equal.
    destruct (negb (beqb b all) && negb eq); [|reflexivity].
    cbn [filter]. unfold is_insertion, m_ref. cbn [fst]. rewrite Er. reflexivity.
Qed.

(* positions never decrease, and an insertion is reported at most once per reference coordinate *)
Fixpoint pos_sorted (lo : Z) (l : list mutation) : bool :=
  match l with
  | [] => true
  | m :: t => (lo <=? m_pos m)%Z && pos_sorted (m_pos m) t
  end.

Lemma pos_sorted_weaken lo lo' l : (lo' <= lo)%Z -> pos_sorted lo l = true -> pos_sorted lo' l = true.
Proof.
  destruct l as [|m t]; [reflexivity|]. cbn [pos_sorted]. intros H. rewrite !andb_true_iff, !Z.leb_le. intros [H1 H2].
  split; [lia | exact H2].
Qed.

Theorem positions_non_decreasing all : forall cols cur refi,
  pos_sorted refi (list_mut_loop all cols cur refi) = true.
Proof.
  induction cols as [|[[b rb] eq] t IH]; intros cur refi; cbn [list_mut_loop].
  - destruct cur; unfold flush; cbn; [reflexivity|]. unfold m_pos. cbn. rewrite Z.leb_refl. reflexivity.
  - destruct (beqb rb GAP); [apply IH|].
    assert (T : pos_sorted refi (list_mut_loop all t [] (refi + 1)) = true).
    { apply (pos_sorted_weaken (refi + 1)); [lia | apply IH]. }
    destruct cur as [|c cs]; destruct (negb (beqb b all) && negb eq); unfold flush; cbn [app pos_sorted]; unfold m_pos; cbn [fst snd];
      rewrite ?Z.leb_refl; cbn [andb]; exact T.
Qed.

(* the count of NumMutationsComparedToReferenceSequence (protein / unknown alphabets) is the number of
   listed substitutions whose alternative is a residue (deletions are listed, not counted) *)
Lemma subst_spec_count_aa : forall (s ref : list byte) refi,
  length (filter (fun m => negb (bytes_eqb (m_alt m) [GAP]))
                 (subst_spec ALL_AMINO (map (fun x => (fst x, snd x, beqb (fst x) (snd x))) (combine s ref)) refi)) =
  length (filter (fun x => let '(b, r) := x in negb (beqb r GAP) && negb (beqb b GAP) && negb (beqb b ALL_AMINO) && negb (beqb b r))
                 (combine s ref)).
Proof.
  induction s as [|b s IH]; intros ref refi; [reflexivity|]. destruct ref as [|r ref]; [reflexivity|].
  cbn [combine map fst snd subst_spec filter]. destruct (beqb r GAP) eqn:Er; cbn [negb andb]; [apply IH|].
  rewrite filter_app, app_length, IH. f_equal.
  destruct (beqb b ALL_AMINO); cbn [negb andb]; [rewrite andb_false_r; reflexivity|].
  destruct (beqb b r); cbn [negb andb]; [rewrite andb_false_r; reflexivity|].
  cbn [filter]. unfold m_alt. cbn [snd].
  assert (E : bytes_eqb [b] [GAP] = beqb b GAP).
  { destruct (beqb b GAP) eqn:Eb.
    - apply beqb_eq in Eb. subst b. reflexivity.
    - destruct (bytes_eqb [b] [GAP]) eqn:E; [|reflexivity]. apply bytes_eqb_eq in E. injection E as ->.
      rewrite beqb_refl in Eb. discriminate. }
  rewrite E. destruct (beqb b GAP); reflexivity.
Qed.

Lemma filter_split_length {A} (P Q : A -> bool) (l : list A) :
  length (filter P l) = length (filter (fun x => Q x && P x) l) + length (filter (fun x => negb (Q x) && P x) l).
Proof.
  induction l as [|x t IH]; [reflexivity|]. cbn [filter]. destruct (Q x), (P x); cbn [andb negb length]; lia.
Qed.

Lemma filter_and {A} (P Q : A -> bool) (l : list A) :
  filter (fun x => P x && Q x) l = filter Q (filter P l).
Proof.
  induction l as [|x t IH]; [reflexivity|]. cbn [filter]. destruct (P x); cbn [andb filter]; [|exact IH].
  destruct (Q x); [f_equal|]; exact IH.
Qed.

(* count and list agree (protein / unknown alphabets): the count is the number of listed substitutions by
   a residue plus the number of inserted residues other than the wildcard *)
Theorem count_is_list_aa alphabet ref s :
  Z.eqb alphabet NUCLEOTIDS = false -> length ref = length s ->
  exists l, list_mutations_vs_ref alphabet ref s = Some l /\
    num_mutations_vs_ref alphabet ref s =
      Some (length (filter (fun m => negb (is_insertion m) && negb (bytes_eqb (m_alt m) [GAP])) l) +
            length (filter (fun b => negb (beqb b ALL_AMINO)) (flat_map m_alt (filter is_insertion l)))).
Proof.
  intros Ha Hl. unfold list_mutations_vs_ref, num_mutations_vs_ref. rewrite Hl, Nat.eqb_refl, Ha. cbn [negb].
  eexists. split; [reflexivity|]. f_equal.
  set (cols := map (fun x : byte * byte => (fst x, snd x, beqb (fst x) (snd x))) (combine s ref)).
  rewrite insertions_conserve_residues. cbn [app].
  rewrite (filter_and (fun m => negb (is_insertion m)) (fun m => negb (bytes_eqb (m_alt m) [GAP]))).
  rewrite substitutions_are_the_incompatible_residues. subst cols. rewrite subst_spec_count_aa.
  rewrite (filter_split_length _ (fun x : byte * byte => negb (beqb (snd x) GAP)) (combine s ref)). f_equal.
  - f_equal. apply filter_ext. intros [b r]. cbn [fst snd]. rewrite <- !andb_assoc. reflexivity.
  - clear Hl. generalize (combine s ref) as l. induction l as [|[b r] t IH]; [reflexivity|].
    cbn [filter map fst snd]. rewrite negb_involutive.
    destruct (beqb r GAP) eqn:Er; cbn [andb]; [|exact IH].
    destruct (beqb b GAP) eqn:Eb; cbn [negb andb]; [exact IH|].
    cbn [filter map fst]. destruct (beqb b ALL_AMINO) eqn:Ex; cbn [negb andb]; [exact IH|].
    assert (beqb b r = false) as ->.
    { destruct (beqb b r) eqn:E; [|reflexivity]. apply beqb_eq in E. subst r. congruence. }
    cbn [negb length]. f_equal. exact IH.
Qed.
