From Coq Require Import List Bool NArith ZArith Lia.
From Coq.Strings Require Import Byte.
Import ListNotations.
From GA.Base Require Import Bytes Case Align.
From GA.Gen Require Import Alpha Iupac.
From GA.Model Require Import Stats.

(* ---- case-folded counts ------------------------------------------------------------------- *)
Lemma upper_counts_spec l k n :
  In (k, n) (upper_counts l) <-> (In k ascii130 /\ n = countb k (map to_upper l) /\ 0 < n).
Proof.
  unfold upper_counts. rewrite filter_In, in_map_iff. simpl. rewrite Nat.ltb_lt. split.
  - intros [[k' [E Hk]] Hn]. inversion E; subst. auto.
  - intros [Hk [-> Hn]]. split; [exists k; auto | exact Hn].
Qed.

Lemma upper_counts_keys_nodup l : NoDup (map fst (upper_counts l)).
Proof.
  unfold upper_counts.
  assert (N : NoDup ascii130).
  { unfold ascii130. assert (B : forallb (fun _ => true) ascii130 = true) by reflexivity.
    clear B. vm_compute. repeat (constructor; [simpl; intuition discriminate|]). constructor. }
  revert N. generalize ascii130 as keys. induction keys as [|k t IH]; intros N; simpl; [constructor|].
  inversion N as [|? ? Hk Nt]; subst.
  destruct (Nat.ltb 0 (countb k (map to_upper l))); simpl; [|apply IH; exact Nt].
  constructor; [|apply IH; exact Nt].
  intros Hin. apply in_map_iff in Hin as [[k' n'] [E Hin]]. simpl in E. subst k'.
  apply filter_In in Hin as [Hin _]. apply in_map_iff in Hin as [k'' [E' Hin']]. inversion E'; subst. contradiction.
Qed.

(* ---- site range --------------------------------------------------------------------------------- *)
Lemma site_in_range_iff rs site : site_in_range rs site = true <-> (0 <= site < alen rs)%Z.
Proof. unfold site_in_range. rewrite andb_true_iff, Z.leb_le, Z.ltb_lt. tauto. Qed.

Lemma char_stats_site_error rs site :
  char_stats_site rs site = None <-> ~ (0 <= site < alen rs)%Z.
Proof.
  unfold char_stats_site. destruct (site_in_range rs site) eqn:E.
  - apply site_in_range_iff in E. split; [discriminate | tauto].
  - split; [|reflexivity]. intros _ H. apply site_in_range_iff in H. congruence.
Qed.

Lemma entropy_error rs site rg :
  entropy_counts rs site rg = None <-> ~ (0 <= site < alen rs)%Z.
Proof.
  unfold entropy_counts. destruct (site_in_range rs site) eqn:E.
  - apply site_in_range_iff in E. split; [discriminate | tauto].
  - split; [|reflexivity]. intros _ H. apply site_in_range_iff in H. congruence.
Qed.

(* ---- the majority search ------------------------------------------------------------------------- *)
Section MaxChar.
  Variable alphabet : Z.
  Variables ig ins : bool.
  Notation excl := (mc_excluded alphabet ig ins).
  Notation step := (mc_step alphabet ig ins).

  Definition sum_kept (l : list (byte * nat)) : nat :=
    fold_right (fun kv acc => if excl (fst kv) then acc else snd kv + acc) 0 l.

  Lemma mc_fold_spec l : forall out occ tot mx,
    let '(out', occ', tot', mx') := fold_left step l (out, occ, tot, mx) in
    tot' = tot + sum_kept l /\ mx <= mx' /\
    (forall kv, In kv l -> excl (fst kv) = false -> snd kv <= mx') /\
    ((out', occ', mx') = (out, occ, mx) \/
     (In (out', occ') l /\ excl out' = false /\ occ' = mx' /\ mx < mx')).
  Proof.
    induction l as [|kv t IH]; intros out occ tot mx; cbn [fold_left].
    - simpl. repeat split; auto. intros kv [].
    - unfold mc_step at 2. destruct (excl (fst kv)) eqn:E.
      + specialize (IH out occ tot mx). destruct (fold_left step t (out, occ, tot, mx)) as [[[o' c'] t'] m'].
        destruct IH as [H1 [H2 [H3 H4]]]. split; [simpl; rewrite E; exact H1|]. split; [exact H2|]. split.
        * intros kv' [<-|Hin] Hex; [congruence | apply H3; assumption].
        * destruct H4 as [H4|[Ha [Hb [Hc Hd]]]]; [left; exact H4 | right; split; [right; exact Ha | auto]].
      + destruct (Nat.ltb_spec mx (snd kv)) as [Hlt|Hge].
        * specialize (IH (fst kv) (snd kv) (tot + snd kv) (snd kv)).
          destruct (fold_left step t (fst kv, snd kv, tot + snd kv, snd kv)) as [[[o' c'] t'] m'].
          destruct IH as [H1 [H2 [H3 H4]]]. split; [simpl; rewrite E; lia|]. split; [lia|]. split.
          -- intros kv' [<-|Hin] Hex; [exact H2 | apply H3; assumption].
          -- right. destruct H4 as [H4|[Ha [Hb [Hc Hd]]]].
             ++ inversion H4; subst. split; [left; destruct kv; reflexivity|]. auto.
             ++ split; [right; exact Ha|]. split; [exact Hb|]. split; [exact Hc | lia].
        * specialize (IH out occ (tot + snd kv) mx).
          destruct (fold_left step t (out, occ, tot + snd kv, mx)) as [[[o' c'] t'] m'].
          destruct IH as [H1 [H2 [H3 H4]]]. split; [simpl; rewrite E; lia|]. split; [exact H2|]. split.
          -- intros kv' [<-|Hin] Hex; [lia | apply H3; assumption].
          -- destruct H4 as [H4|[Ha [Hb [Hc Hd]]]]; [left; exact H4 | right; split; [right; exact Ha | auto]].
  Qed.

  (* MaxCharStats at one site: a most frequent non-excluded (case-folded)
     character with its count, the total over non-excluded characters; when
     every character is excluded: the first row's character and the row count *)
  Theorem max_char_site_spec col :
    let '(out, occ, tot) := max_char_site alphabet ig ins col in
    tot = sum_kept (upper_counts col) /\
    ((forall kv, In kv (upper_counts col) -> excl (fst kv) = true) /\
       out = match col with b :: _ => to_upper b | [] => x00 end /\ occ = length col
     \/
     (In (out, occ) (upper_counts col) /\ excl out = false /\
      forall kv, In kv (upper_counts col) -> excl (fst kv) = false -> snd kv <= occ)).
  Proof.
    unfold max_char_site.
    pose proof (mc_fold_spec (upper_counts col) (match col with b :: _ => to_upper b | [] => x00 end) (length col) 0 0) as H.
    destruct (fold_left step (upper_counts col) _) as [[[out occ] tot] mx].
    destruct H as [H1 [H2 [H3 H4]]]. split; [lia|].
    destruct H4 as [H4|[Ha [Hb [Hc Hd]]]].
    - inversion H4; subst. left. split; [|auto].
      intros kv Hin. destruct (excl (fst kv)) eqn:E; [reflexivity|].
      specialize (H3 kv Hin E). destruct kv as [k n]. apply upper_counts_spec in Hin. simpl in *. lia.
    - right. split; [exact Ha|]. split; [exact Hb|]. intros kv Hin Hex. rewrite Hc. apply H3; assumption.
  Qed.
End MaxChar.

(* ---- IUPAC compatibility ----------------------------------------------------------------------------- *)
Lemma equal_or_compatible_sym a b : equal_or_compatible a b = equal_or_compatible b a.
Proof.
  unfold equal_or_compatible. rewrite (orb_comm (15 <? a)%Z). rewrite Z.land_comm, (Z.eqb_sym a b). reflexivity.
Qed.

Lemma equal_or_compatible_sem a b :
  (0 <= a <= 15)%Z -> (0 <= b <= 15)%Z ->
  equal_or_compatible a b = Some true <-> (a = b \/ Z.land a b <> 0%Z).
Proof.
  intros Ha Hb. unfold equal_or_compatible.
  destruct (Z.ltb_spec 15 a); [lia|]. destruct (Z.ltb_spec 15 b); [lia|]. simpl.
  assert (L : (0 <= Z.land a b)%Z) by (apply Z.land_nonneg; lia).
  destruct (Z.eqb_spec a b); simpl; [split; auto|].
  destruct (Z.ltb_spec 0 (Z.land a b)); split; intros H'; try discriminate; auto; try (right; lia).
  destruct H' as [?|?]; [contradiction | lia].
Qed.

