(* FilterLength and Sample keep the container invariant too: with them every modelled operation is inside
   the history theorem (Concat whenever it succeeds). *)
From Coq Require Import List Bool NArith ZArith Lia Permutation.
From Coq.Strings Require Import Byte.
Import ListNotations.
From GA.Base Require Import Bytes Case Align Dec Sort.
From GA.Gen Require Import Alpha.
From GA.Model Require Import Container.
From GA.Proofs Require Import ContainerProofs ConcatProofs.

Lemma rename_loop_fresh n index : forall fuel i tmp,
  rename_loop fuel n index i = Some tmp -> idx_lookup tmp index = None.
Proof.
  induction fuel as [|f IH]; intros i tmp Er; simpl in Er; [discriminate|].
  destruct (idx_lookup (name_idx n (S i)) index) eqn:El; [apply (IH (S i)); exact Er|].
  inversion Er; subst. exact El.
Qed.

(* the length-free effect of an insertion, whatever the kind of container and of method *)
Lemma add_seq_winv as_align st n s st' :
  WInv st -> add_seq as_align st n s = Added st' ->
  WInv st' /\ (exists nm, c_objs st' = c_objs st ++ [(c_next st, (nm, s))]) /\
  c_kind st' = c_kind st /\ c_policy st' = c_policy st /\ c_alpha st' = c_alpha st /\
  c_len st' = (if as_align then Z.of_nat (length s) else c_len st).
Proof.
  intros Hw. unfold add_seq.
  destruct (match idx_lookup n (c_index st) with
            | Some id => match obj_by_id id (c_objs st) with Some o => Some (oseq o) | None => Some [] end
            | None => None end) as [ex|] eqn:Eex.
  - destruct (Z.eqb (c_policy st) IGNORE_NAME); [discriminate|].
    destruct (Z.eqb (c_policy st) IGNORE_SEQUENCE && bytes_eqb ex s); [discriminate|].
    destruct (rename_loop (S (length (c_index st))) n (c_index st) 0) as [tmp|] eqn:Er; [|discriminate].
    pose proof (rename_loop_fresh _ _ _ _ _ Er) as Hnone.
    destruct (as_align && negb (Z.eqb (c_len st) (-1)) && negb (Z.eqb (c_len st) (Z.of_nat (length s)))); [discriminate|].
    intros H. injection H as <-. split; [apply push_winv; assumption|]. cbn [c_objs c_kind c_policy c_alpha c_len].
    split; [exists tmp; reflexivity|]. auto.
  - assert (Hnone : idx_lookup n (c_index st) = None).
    { destruct (idx_lookup n (c_index st)); [destruct (obj_by_id n0 (c_objs st)); discriminate | reflexivity]. }
    destruct (as_align && negb (Z.eqb (c_len st) (-1)) && negb (Z.eqb (c_len st) (Z.of_nat (length s)))); [discriminate|].
    intros H. injection H as <-. split; [apply push_winv; assumption|]. cbn [c_objs c_kind c_policy c_alpha c_len].
    split; [exists n; reflexivity|]. auto.
Qed.

(* rows added through the sequence bag's method: the cached length is untouched and every row of the
   result is an old row or one of the given sequences *)
Lemma add_all_false_winv (P : list byte -> Prop) : forall rs st,
  WInv st -> (forall r, In r rs -> P (snd r)) -> (forall o, In o (c_objs st) -> P (oseq o)) ->
  let st' := fst (add_all false st rs) in
  WInv st' /\ (forall o, In o (c_objs st') -> P (oseq o)) /\
  c_kind st' = c_kind st /\ c_len st' = c_len st.
Proof.
  induction rs as [|[n s] t IH]; intros st Hw Hrs Hobjs; cbn [add_all]; [cbn; auto|].
  assert (Ht : forall r, In r t -> P (snd r)) by (intros r Hr; apply Hrs; right; exact Hr).
  destruct (add_seq false st n s) as [st1| |] eqn:E.
  - destruct (add_seq_winv false st n s st1 Hw E) as [Hw1 [[nm Ho] [Hk [_ [_ Hl]]]]].
    destruct (IH st1 Hw1 Ht) as [H1 [H2 [H3 H4]]].
    + intros o Hin. rewrite Ho in Hin. apply in_app_or in Hin as [Hin|[<-|[]]]; [apply Hobjs; exact Hin|].
      apply (Hrs (n, s)). left. reflexivity.
    + cbn zeta. split; [exact H1|]. split; [exact H2|]. split; congruence.
  - apply IH; assumption.
  - cbn. auto.
Qed.

Lemma WInv_fresh kind pol alpha len next : WInv (mkst kind pol alpha len next [] []).
Proof.
  split; [split|split]; cbn [c_objs c_index c_next].
  - intros n id H. discriminate.
  - intros n _ o [].
  - constructor.
  - intros o [].
Qed.

Lemma set_len_empty_inv s l : Inv s -> c_objs s = [] -> Inv (set_len s l).
Proof.
  intros [H1 [H2 H3]] E. unfold set_len. split; [exact H1|]. split; [exact H2|].
  intros _ o Hin. cbn [c_objs] in Hin. rewrite E in Hin. destruct Hin.
Qed.

Lemma filter_length_inv st mn mx : Inv st -> Inv (fst (step st (OpFilterLength mn mx))).
Proof.
  intros [Hi [Hids Hrect]]. cbn [step].
  pose (P := fun s : list byte => c_kind st = true -> Z.of_nat (length s) = c_len st).
  destruct (add_all_false_winv P (map snd (filter (fun o => keep_len mn mx (oseq o)) (c_objs st))) (clear false st))
    as [Hw [HP [Hk Hl]]].
  - apply WInv_fresh.
  - intros r Hr. apply in_map_iff in Hr as [o [<- Ho]]. apply filter_In in Ho as [Ho _]. intros Hkind.
    apply (Hrect Hkind o Ho).
  - intros o [].
  - destruct (add_all false (clear false st) (map snd (filter (fun o => keep_len mn mx (oseq o)) (c_objs st)))) as [s ok] eqn:E.
    cbn [fst] in *. cbn [clear c_kind c_len] in Hk, Hl.
    assert (G : Inv s).
    { destruct Hw as [Hw1 Hw2]. split; [exact Hw1|]. split; [exact Hw2|]. intros Hkind o' Hin. rewrite Hl.
      apply HP; [exact Hin | congruence]. }
    destruct (c_kind st); cbn [fst]; [|exact G].
    destruct (c_objs s) as [|o t] eqn:Eo; [|exact G]. apply set_len_empty_inv; assumption.
Qed.

Lemma sample_inv st nb perm : Inv st -> Inv (fst (step st (OpSample nb perm))).
Proof.
  intros Hinv. pose proof Hinv as [Hi [Hids Hrect]]. cbn [step].
  destruct ((Z.of_nat (length (c_objs st)) <? nb)%Z || (nb <? 1)%Z); [exact Hinv|].
  set (picked := flat_map (fun k => match nth_error (c_objs st) k with Some o => [o] | None => [] end)
                          (firstn (Z.to_nat nb) perm)).
  pose (P := fun s : list byte => c_kind st = true -> Z.of_nat (length s) = c_len st).
  destruct (add_all_false_winv P (map snd picked) (mkst (c_kind st) IGNORE_NONE (c_alpha st) (-1) 0 [] []))
    as [Hw [HP [Hk Hl]]].
  - apply WInv_fresh.
  - intros r Hr. apply in_map_iff in Hr as [o [<- Ho]]. subst picked. apply in_flat_map in Ho as [k [_ Ho]].
    destruct (nth_error (c_objs st) k) as [o'|] eqn:En; [|destruct Ho]. destruct Ho as [<-|[]].
    intros Hkind. apply (Hrect Hkind o'). eapply nth_error_In. exact En.
  - intros o [].
  - destruct (add_all false (mkst (c_kind st) IGNORE_NONE (c_alpha st) (-1) 0 [] []) (map snd picked)) as [s ok] eqn:E.
    cbn [fst] in *. cbn [c_kind c_len] in Hk, Hl. destruct Hw as [Hw1 Hw2].
    destruct (c_kind st) eqn:Ekind; cbn [fst].
    + unfold set_len, auto_len. split; [exact Hw1|]. split; [exact Hw2|].
      intros _ o Hin. cbn [c_objs c_len] in *. destruct (c_objs s) as [|o0 t] eqn:Eo; [destruct Hin|].
      rewrite (HP o Hin eq_refl). rewrite (HP o0 (or_introl eq_refl) eq_refl). reflexivity.
    + split; [exact Hw1|]. split; [exact Hw2|]. intros Hkind. congruence.
Qed.

(* ---- every operation ------------------------------------------------------------------------- *)
Definition covered_all (op : cop) : bool :=
  covered op || match op with OpFilterLength _ _ | OpSample _ _ => true | _ => false end.

Theorem step_inv_all st op : covered_all op = true -> Inv st -> Inv (fst (step st op)).
Proof.
  intros Hc Hinv. unfold covered_all in Hc. apply orb_true_iff in Hc as [Hc|Hc]; [apply step_inv; assumption|].
  destruct op; try discriminate; [apply filter_length_inv | apply sample_inv]; exact Hinv.
Qed.

(* every operation of the model is either covered or a concatenation *)
Lemma every_op_classified op : covered_all op = true \/ exists a c, op = OpConcat a c.
Proof. destruct op; try (left; reflexivity). right. eauto. Qed.

Definition step_allowed_all (st : cstate) (op : cop) : bool :=
  covered_all op || match op with OpConcat _ _ => snd (step st op) | _ => false end.

Fixpoint all_allowed_all (h : list cop) (st : cstate) : bool :=
  match h with
  | [] => true
  | op :: t => step_allowed_all st op && all_allowed_all t (fst (step st op))
  end.

(* the invariant after every history of modelled operations whose concatenations succeeded *)
Theorem run_inv_all h : forall st, all_allowed_all h st = true -> Inv st -> Inv (run h st).
Proof.
  induction h as [|op t IH]; intros st Ha Hinv; [exact Hinv|].
  cbn [all_allowed_all] in Ha. apply andb_true_iff in Ha as [Ha1 Ha2].
  unfold run. cbn [fold_left]. apply IH; [exact Ha2|].
  unfold step_allowed_all in Ha1. apply orb_true_iff in Ha1 as [Hc|Hc].
  - apply step_inv_all; assumption.
  - destruct op; try discriminate. cbn [step] in *. apply concat_inv; assumption.
Qed.

(* ... which is every history in which no concatenation failed *)
Lemma all_allowed_all_iff h : forall st,
  all_allowed_all h st = true <->
  (forall pre op post, h = pre ++ op :: post -> (exists a c, op = OpConcat a c) -> snd (step (run pre st) op) = true).
Proof.
  induction h as [|op t IH]; intros st.
  - split; [intros _ pre op post H; destruct pre; discriminate | reflexivity].
  - cbn [all_allowed_all]. rewrite andb_true_iff, IH. split.
    + intros [H1 H2] pre op' post Heq Hcc. destruct pre as [|p pre'].
      * cbn in Heq. injection Heq as -> ->. cbn [run fold_left].
        unfold step_allowed_all in H1. destruct Hcc as [a [c ->]]. cbn in H1. exact H1.
      * cbn in Heq. injection Heq as -> ->. unfold run. cbn [fold_left]. apply (H2 pre' op' post eq_refl Hcc).
    + intros H. split.
      * unfold step_allowed_all. destruct (every_op_classified op) as [Hc|[a [c ->]]]; [rewrite Hc; reflexivity|].
        cbn [covered_all covered orb]. apply (H [] (OpConcat a c) t eq_refl). eauto.
      * intros pre op' post Heq Hcc. apply (H (op :: pre) op' post); [rewrite Heq; reflexivity | exact Hcc].
Qed.
