From Coq Require Import Reals Lra Lia List.
From Coquelicot Require Import Coquelicot.
Import ListNotations.
From GA.Model Require Import Markov.
Local Open Scope R_scope.

Lemma exp_le_1 x : x <= 0 -> exp x <= 1.
Proof.
  intros H. destruct (Req_dec x 0) as [->|N]; [rewrite exp_0; lra|].
  rewrite <- exp_0. left. apply exp_increasing. lra.
Qed.

Definition four (i : nat) : Prop := (i < 4)%nat.

Ltac cases4 i H := unfold four in H; destruct i as [|[|[|[|?]]]]; [| | | |lia].

(* ================= JC69 ================= *)
Lemma jc_row_sum i l : four i -> jc_pij i 0 l + jc_pij i 1 l + jc_pij i 2 l + jc_pij i 3 l = 1.
Proof. intros H. cases4 i H; unfold jc_pij; simpl; lra. Qed.

Lemma jc_entries i j l : 0 <= l -> 0 <= jc_pij i j l <= 1.
Proof.
  intros Hl. unfold jc_pij. pose proof (exp_pos (- (4/3) * l)) as P.
  pose proof (exp_le_1 (- (4/3) * l)) as Q. assert (- (4/3) * l <= 0) by lra. specialize (Q H).
  destruct (Nat.eqb i j); lra.
Qed.

Lemma jc_P0 i j : jc_pij i j 0 = if Nat.eqb i j then 1 else 0.
Proof. unfold jc_pij. replace (- (4/3) * 0) with 0 by lra. rewrite exp_0. destruct (Nat.eqb i j); lra. Qed.

Lemma jc_symmetric i j l : jc_pij i j l = jc_pij j i l.
Proof. unfold jc_pij. rewrite (Nat.eqb_sym i j). reflexivity. Qed.

(* Chapman-Kolmogorov *)
Lemma jc_semigroup i j s t : four i -> four j ->
  jc_pij i j (s + t) = jc_pij i 0 s * jc_pij 0 j t + jc_pij i 1 s * jc_pij 1 j t +
                       jc_pij i 2 s * jc_pij 2 j t + jc_pij i 3 s * jc_pij 3 j t.
Proof.
  intros Hi Hj. unfold jc_pij.
  replace (- (4/3) * (s + t)) with (- (4/3) * s + - (4/3) * t) by lra. rewrite exp_plus.
  cases4 i Hi; cases4 j Hj; simpl; field.
Qed.

(* convergence to the stationary distribution 1/4 *)
Lemma jc_distance_to_stationary i j l : 0 <= l -> Rabs (jc_pij i j l - 1/4) <= (3/4) * exp (- (4/3) * l).
Proof.
  intros Hl. unfold jc_pij. pose proof (exp_pos (- (4/3) * l)) as P.
  destruct (Nat.eqb i j).
  - replace (1/4 * (1 - exp (- (4/3) * l)) + exp (- (4/3) * l) - 1/4) with ((3/4) * exp (- (4/3) * l)) by lra.
    rewrite Rabs_right; lra.
  - replace (1/4 * (1 - exp (- (4/3) * l)) - 1/4) with (- ((1/4) * exp (- (4/3) * l))) by lra.
    rewrite Rabs_Ropp, Rabs_right; lra.
Qed.

Theorem jc_converges i j eps : 0 < eps -> exists T, forall l, T < l -> 0 <= l -> Rabs (jc_pij i j l - 1/4) < eps.
Proof.
  intros He. exists (- (3/4) * ln eps). intros l Hl H0.
  eapply Rle_lt_trans; [apply jc_distance_to_stationary; exact H0|].
  assert (exp (- (4/3) * l) < eps).
  { apply Rlt_le_trans with (exp (ln eps)); [apply exp_increasing; lra | rewrite (exp_ln eps He); lra]. }
  lra.
Qed.

(* analytical formula = eigen-decomposition based value (SetLength) *)
Lemma jc_eigen_agree i j l : four i -> four j -> eig_pij jc_val jc_left jc_right l i j = jc_pij i j l.
Proof.
  intros Hi Hj. unfold eig_pij, jc_pij, at_, jc_val, jc_left, jc_right.
  cases4 i Hi; cases4 j Hj; simpl; replace (0 * l) with 0 by lra; rewrite exp_0; lra.
Qed.

(* generator: the derivative at 0 is the JC rate matrix scaled to one substitution per unit time
   (off-diagonal 1/3, diagonal -1) *)
Lemma jc_generator i j : four i -> four j ->
  is_derive (fun l => jc_pij i j l) 0 (if Nat.eqb i j then -1 else 1/3).
Proof.
  intros Hi Hj. unfold jc_pij. destruct (Nat.eqb i j).
  - auto_derive; [exact I|]. rewrite Rmult_0_r, exp_0. lra.
  - auto_derive; [exact I|]. rewrite Rmult_0_r, exp_0. lra.
Qed.

(* ================= K80 ================= *)
Lemma k2p_row_sum kappa i l : four i ->
  k2p_pij kappa i 0 l + k2p_pij kappa i 1 l + k2p_pij kappa i 2 l + k2p_pij kappa i 3 l = 1.
Proof. intros H. cases4 i H; unfold k2p_pij; simpl; lra. Qed.

Lemma k2p_P0 kappa i j : 0 <= kappa -> four i -> four j -> k2p_pij kappa i j 0 = if Nat.eqb i j then 1 else 0.
Proof.
  intros Hk Hi Hj. unfold k2p_pij, k2p_pts, k2p_ptr.
  rewrite !Rmult_0_r, exp_0. cases4 i Hi; cases4 j Hj; simpl; lra.
Qed.

Lemma k2p_symmetric kappa i j l : four i -> four j -> k2p_pij kappa i j l = k2p_pij kappa j i l.
Proof. intros Hi Hj. unfold k2p_pij. cases4 i Hi; cases4 j Hj; simpl; reflexivity. Qed.

Lemma k2p_ptr_range kappa l : 0 <= kappa -> 0 <= l -> 0 <= k2p_ptr kappa l <= 1/4.
Proof.
  intros Hk Hl. unfold k2p_ptr. set (b := 2 / (1/2 * kappa + 1)).
  assert (Hb : 0 < b) by (unfold b; apply Rdiv_lt_0_compat; lra).
  pose proof (exp_pos (- b * l)) as P. pose proof (exp_le_1 (- b * l)) as Q.
  assert (- b * l <= 0) by (assert (0 <= b * l) by (apply Rmult_le_pos; lra); lra). specialize (Q H). lra.
Qed.

(* AM-GM step: e^{-a l} <= (1 + e^{-b l})/2 whenever a >= b/2 *)
Lemma k2p_pts_nonneg kappa l : 0 <= kappa -> 0 <= l -> 0 <= k2p_pts kappa l.
Proof.
  intros Hk Hl. unfold k2p_pts. set (k := 1/2 * kappa).
  set (a := (2 * k + 1) / (k + 1)). set (b := 2 / (k + 1)).
  assert (Hk1 : 0 < k + 1) by (unfold k; lra).
  assert (Hab : b / 2 <= a).
  { unfold a, b. unfold Rdiv. rewrite Rmult_assoc, (Rmult_comm (/ (k + 1))), <- Rmult_assoc.
    apply Rmult_le_compat_r; [left; apply Rinv_0_lt_compat; exact Hk1 | unfold k; lra]. }
  set (x := exp (- (b / 2) * l)).
  assert (Hx : 0 < x) by apply exp_pos.
  assert (E1 : exp (- a * l) <= x).
  { unfold x. destruct (Rle_lt_or_eq_dec _ _ Hab) as [Hlt|Heq].
    - destruct (Req_dec l 0) as [->|Nl]; [rewrite !Rmult_0_r; lra|].
      left. apply exp_increasing. assert (0 < l) by lra. nra.
    - rewrite Heq. lra. }
  assert (E2 : exp (- b * l) = x * x).
  { unfold x. rewrite <- exp_plus. f_equal. lra. }
  rewrite E2. clearbody x. pose proof (Rle_0_sqr (x - 1)) as Sq. unfold Rsqr in Sq.
  remember (exp (- a * l)) as e. clear Heqe. nra.
Qed.

Lemma k2p_entries kappa i j l : 0 <= kappa -> 0 <= l -> four i -> four j -> 0 <= k2p_pij kappa i j l <= 1.
Proof.
  intros Hk Hl Hi Hj. pose proof (k2p_ptr_range kappa l Hk Hl) as R. pose proof (k2p_pts_nonneg kappa l Hk Hl) as S.
  assert (D : 0 <= 1 - (k2p_pts kappa l + 2 * k2p_ptr kappa l)).
  { unfold k2p_pts, k2p_ptr. set (k := 1/2 * kappa).
    pose proof (exp_pos (- ((2 * k + 1) / (k + 1)) * l)). pose proof (exp_pos (- (2 / (k + 1)) * l)). lra. }
  unfold k2p_pij. cases4 i Hi; cases4 j Hj; simpl; lra.
Qed.

Lemma k2p_eigen_agree kappa i j l : 0 <= kappa -> four i -> four j ->
  eig_pij (k2p_val kappa) k2p_left k2p_right l i j = k2p_pij kappa i j l.
Proof.
  intros Hk Hi Hj. unfold eig_pij, k2p_pij, k2p_pts, k2p_ptr, at_, k2p_val, k2p_left, k2p_right.
  assert (A : - 2 * (1 + kappa) / (kappa + 2) = - ((2 * (1/2 * kappa) + 1) / (1/2 * kappa + 1))) by (field; lra).
  assert (B : - 4 / (kappa + 2) = - (2 / (1/2 * kappa + 1))) by (field; lra).
  cases4 i Hi; cases4 j Hj; simpl; rewrite ?A, ?B; replace (0 * l) with 0 by lra; rewrite exp_0; lra.
Qed.

Lemma k2p_semigroup kappa i j s t : 0 <= kappa -> four i -> four j ->
  k2p_pij kappa i j (s + t) =
    k2p_pij kappa i 0 s * k2p_pij kappa 0 j t + k2p_pij kappa i 1 s * k2p_pij kappa 1 j t +
    k2p_pij kappa i 2 s * k2p_pij kappa 2 j t + k2p_pij kappa i 3 s * k2p_pij kappa 3 j t.
Proof.
  intros Hk Hi Hj. unfold k2p_pij, k2p_pts, k2p_ptr.
  set (a := (2 * (1/2 * kappa) + 1) / (1/2 * kappa + 1)). set (b := 2 / (1/2 * kappa + 1)).
  replace (- a * (s + t)) with (- a * s + - a * t) by lra. replace (- b * (s + t)) with (- b * s + - b * t) by lra.
  rewrite !exp_plus.
  cases4 i Hi; cases4 j Hj; simpl; field.
Qed.
