(* Sanity of the built-in substitution tables regenerated from the code (Gen/Subst.v) against
   independent knowledge: the DNA matrix, read through the character index of the code, respects the
   IUPAC base sets of Spec/IupacSets.v (a base belonging to an ambiguity code never scores below a base that
   does not belong to it), both matrices are symmetric, and an identical pair never scores below a
   different pair of the same row.  Finite statements, evaluated in the kernel. *)
From Coq Require Import List Bool NArith ZArith Lia.
From Coq.Strings Require Import Byte.
Import ListNotations.
From GA.Base Require Import Bytes Case.
From GA.Gen Require Import Alpha Subst.
From GA.Spec Require Import IupacSets.
From GA.Model Require Import SW.
Local Open Scope Z_scope.

Definition dna_score (a b : byte) : option Z :=
  match char_pos 1 a, char_pos 1 b with
  | Some i, Some j => Some (sub_entry 1 i j)
  | _, _ => None
  end.
Definition prot_score (a b : byte) : option Z :=
  match char_pos 0 a, char_pos 0 b with
  | Some i, Some j => Some (sub_entry 0 i j)
  | _, _ => None
  end.

Definition bases : list byte := [x41; x43; x47; x54].
Definition iupac_codes : list byte := [x41; x43; x47; x54; x52; x59; x53; x57; x4b; x4d; x42; x44; x48; x56; x4e].
Definition std_aa : list byte :=
  [x41; x52; x4e; x44; x43; x51; x45; x47; x48; x49; x4c; x4b; x4d; x46; x50; x53; x54; x57; x59; x56].

Definition member (base code : byte) : bool :=
  match iupac_mask_upper base, iupac_mask_upper code with
  | Some mb, Some mc => negb (Z.eqb (Z.land mb mc) 0)
  | _, _ => false
  end.

(* a member base scores strictly above a non-member base, against every ambiguity code *)
Definition dna_respects_sets : bool :=
  forallb (fun code =>
    forallb (fun a => forallb (fun b =>
      if member a code && negb (member b code) then
        match dna_score code a, dna_score code b, dna_score a code, dna_score b code with
        | Some sa, Some sb, Some sa', Some sb' => (sb <? sa) && (sb' <? sa')
        | _, _, _, _ => false
        end
      else true) bases) bases) iupac_codes.

Definition symmetric_on (score : byte -> byte -> option Z) (l : list byte) : bool :=
  forallb (fun a => forallb (fun b =>
    match score a b, score b a with Some x, Some y => Z.eqb x y | _, _ => false end) l) l.

Definition diagonal_dominates (score : byte -> byte -> option Z) (l : list byte) : bool :=
  forallb (fun a => forallb (fun b =>
    match score a a, score a b with Some x, Some y => (y <=? x) && (beqb a b || (y <? x)) | _, _ => false end) l) l.

Lemma dna_respects_sets_true : dna_respects_sets = true. Proof. vm_compute. reflexivity. Qed.
Lemma dna_symmetric : symmetric_on dna_score iupac_codes = true. Proof. vm_compute. reflexivity. Qed.
Lemma prot_symmetric : symmetric_on prot_score std_aa = true. Proof. vm_compute. reflexivity. Qed.
Lemma dna_diagonal : diagonal_dominates dna_score bases = true. Proof. vm_compute. reflexivity. Qed.
Lemma prot_diagonal : diagonal_dominates prot_score std_aa = true. Proof. vm_compute. reflexivity. Qed.

Theorem dnafull_respects_iupac_sets code a b :
  In code iupac_codes -> In a bases -> In b bases -> member a code = true -> member b code = false ->
  exists sa sb, dna_score code a = Some sa /\ dna_score code b = Some sb /\ sb < sa.
Proof.
  intros Hc Ha Hb Ma Mb. pose proof dna_respects_sets_true as H. unfold dna_respects_sets in H.
  rewrite forallb_forall in H. specialize (H code Hc). rewrite forallb_forall in H. specialize (H a Ha).
  rewrite forallb_forall in H. specialize (H b Hb). rewrite Ma, Mb in H. cbn [negb andb] in H.
  destruct (dna_score code a) as [sa|]; [|discriminate]. destruct (dna_score code b) as [sb|]; [|discriminate].
  destruct (dna_score a code); [|discriminate]. destruct (dna_score b code); [|discriminate].
  apply andb_true_iff in H as [H _]. exists sa, sb. repeat split. apply Z.ltb_lt. exact H.
Qed.

(* the table of the code, read through the code's own character index, is EDNAFULL (scores are doubled in
   the model, as in the code's integer arithmetic of half points) *)
From GA.Spec Require Import EDNAFULL.
Definition dna_is_ednafull : bool :=
  forallb (fun a => forallb (fun b =>
    match dna_score a b, ednafull a b with Some x, Some y => Z.eqb x (2 * y) | _, _ => false end) iupac_codes) iupac_codes.
Lemma dna_is_ednafull_true : dna_is_ednafull = true. Proof. vm_compute. reflexivity. Qed.

Theorem dnafull_is_ednafull a b : In a iupac_codes -> In b iupac_codes ->
  exists y, ednafull a b = Some y /\ dna_score a b = Some (2 * y).
Proof.
  intros Ha Hb. pose proof dna_is_ednafull_true as H. unfold dna_is_ednafull in H.
  rewrite forallb_forall in H. specialize (H a Ha). rewrite forallb_forall in H. specialize (H b Hb).
  destruct (dna_score a b) as [x|]; [|discriminate]. destruct (ednafull a b) as [y|]; [|discriminate].
  apply Z.eqb_eq in H. subst x. exists y. split; reflexivity.
Qed.
