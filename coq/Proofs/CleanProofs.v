From Coq Require Import List Bool NArith ZArith QArith Lia Sorted Permutation Arith.
From Coq.Strings Require Import Byte.
Import ListNotations.
From GA.Base Require Import Bytes Case Align.
From GA.Gen Require Import Alpha.
From GA.Model Require Import Clean.

Local Open Scope nat_scope.

(* ---- the cut-off rule ------------------------------------------------------------------ *)
Lemma qualifies_iff c nb total :
  qualifies c nb total = true <->
  ((0 < c)%Q /\ (c * inject_Z (Z.of_nat total) <= inject_Z (Z.of_nat nb))%Q) \/
  ((c <= 0)%Q /\ (c == 0)%Q /\ 0 < nb).
Proof.
  unfold qualifies. destruct (Qlt_le_dec 0 c) as [Hp|Hn].
  - rewrite Qle_bool_iff. split.
    + intros H. left. split; assumption.
    + intros [[_ H]|[H _]]; [exact H|]. exfalso. apply (Qlt_not_le _ _ Hp H).
  - rewrite andb_true_iff, Qeq_bool_iff, Nat.ltb_lt. split.
    + intros [H1 H2]. right. auto.
    + intros [[H _]|[_ [H1 H2]]]; [exfalso; apply (Qlt_not_le _ _ H Hn) | auto].
Qed.

Lemma norm_cutoff_range c : (0 <= norm_cutoff c <= 1)%Q.
Proof.
  unfold norm_cutoff. destruct (Qlt_le_dec c 0); [split; [apply Qle_refl | discriminate]|].
  destruct (Qlt_le_dec 1 c); [split; [apply Qle_refl | discriminate]|]. split; assumption.
Qed.

Lemma norm_cutoff_id c : (0 <= c <= 1)%Q -> norm_cutoff c = c.
Proof.
  intros [H0 H1]. unfold norm_cutoff.
  destruct (Qlt_le_dec c 0) as [H|_]; [exfalso; apply (Qlt_not_le _ _ H H0)|].
  destruct (Qlt_le_dec 1 c) as [H|_]; [exfalso; apply (Qlt_not_le _ _ H H1)|]. reflexivity.
Qed.

(* ---- prefix / suffix runs ----------------------------------------------------------------- *)
Lemma take_while_le l : take_while l <= length l.
Proof. induction l as [|[|] t IH]; simpl; lia. Qed.

Lemma take_while_true l i : i < take_while l -> nth i l false = true.
Proof.
  revert i. induction l as [|[|] t IH]; intros i H; simpl in *; try lia.
  destruct i; [reflexivity|]. apply IH. lia.
Qed.

Lemma take_while_maximal l : take_while l < length l -> nth (take_while l) l false = false.
Proof.
  induction l as [|[|] t IH]; simpl; intros H; try lia; try reflexivity. apply IH. lia.
Qed.

Lemma nth_rev_bool (l : list bool) i : i < length l -> nth i (rev l) false = nth (length l - 1 - i) l false.
Proof. intros H. rewrite rev_nth by exact H. f_equal. lia. Qed.

Lemma suffix_run_true l i :
  length l - take_while (rev l) <= i -> i < length l -> nth i l false = true.
Proof.
  intros H1 H2. pose proof (take_while_le (rev l)) as Hle. rewrite rev_length in Hle.
  replace i with (length l - 1 - (length l - 1 - i)) by lia.
  rewrite <- nth_rev_bool by lia. apply take_while_true. lia.
Qed.

Lemma suffix_run_maximal l :
  take_while (rev l) < length l -> nth (length l - 1 - take_while (rev l)) l false = false.
Proof.
  intros H. rewrite <- nth_rev_bool by lia. apply take_while_maximal. rewrite rev_length. exact H.
Qed.

(* ---- kept / removed partition the columns ---------------------------------------------------- *)
Lemma filter_partition_perm {A} (f : A -> bool) l :
  Permutation (filter (fun x => negb (f x)) l ++ filter f l) l.
Proof.
  induction l as [|x t IH]; simpl; [constructor|].
  destruct (f x); simpl.
  - apply Permutation_sym. apply Permutation_cons_app. apply Permutation_sym. exact IH.
  - constructor. exact IH.
Qed.

Lemma seq_sorted st n : StronglySorted lt (seq st n).
Proof.
  revert st. induction n as [|n IH]; intros st; simpl; constructor; [apply IH|].
  apply Forall_forall. intros x Hx. apply in_seq in Hx. lia.
Qed.

Lemma filter_sorted_nat f l : StronglySorted lt l -> StronglySorted lt (filter f l).
Proof.
  induction 1 as [|a l Hs IH Hf]; simpl; [constructor|].
  destruct (f a); [|exact IH]. constructor; [exact IH|].
  apply Forall_forall. intros x Hx. apply filter_In in Hx as [Hx _].
  rewrite Forall_forall in Hf. auto.
Qed.

Definition removed_at (ends : bool) (quals : list bool) (i : nat) : bool :=
  nth i quals false &&
  (negb ends || Nat.leb (length quals - take_while (rev quals)) i || Nat.ltb i (take_while quals)).

Lemma clean_with_spec r0 rs ends quals :
  let '(first, last, kept, rm, out) := clean_with (r0 :: rs) ends quals in
  first = take_while quals /\ last = take_while (rev quals) /\
  kept = filter (fun i => negb (removed_at ends quals i)) (seq 0 (length quals)) /\
  rm = filter (removed_at ends quals) (seq 0 (length quals)) /\
  out = map (fun r => (fst r, map (fun i => nth i (snd r) x2d) kept)) (r0 :: rs).
Proof. unfold clean_with, removed_at. repeat split; reflexivity. Qed.

Lemma removed_nonends quals i :
  In i (filter (removed_at false quals) (seq 0 (length quals))) <->
  (i < length quals /\ nth i quals false = true).
Proof.
  rewrite filter_In, in_seq. unfold removed_at. simpl. rewrite andb_true_r. intuition lia.
Qed.

Lemma removed_ends quals i :
  In i (filter (removed_at true quals) (seq 0 (length quals))) <->
  (i < length quals /\ (i < take_while quals \/ length quals - take_while (rev quals) <= i)).
Proof.
  rewrite filter_In, in_seq. unfold removed_at. simpl.
  rewrite andb_true_iff, orb_true_iff, Nat.leb_le, Nat.ltb_lt. split.
  - intros [H1 [H2 [H3|H3]]]; split; auto; lia.
  - intros [H1 H2]. split; [lia|]. split; [|tauto].
    destruct H2 as [H2|H2]; [apply take_while_true; exact H2 | apply suffix_run_true; assumption].
Qed.

Lemma kept_rm_partition ends quals :
  let kept := filter (fun i => negb (removed_at ends quals i)) (seq 0 (length quals)) in
  let rm := filter (removed_at ends quals) (seq 0 (length quals)) in
  Permutation (kept ++ rm) (seq 0 (length quals)) /\
  StronglySorted lt kept /\ StronglySorted lt rm /\
  (forall i, In i kept -> ~ In i rm).
Proof.
  cbv zeta. split; [apply filter_partition_perm|]. split; [apply filter_sorted_nat, seq_sorted|].
  split; [apply filter_sorted_nat, seq_sorted|].
  intros i H1 H2. apply filter_In in H1 as [_ H1]. apply filter_In in H2 as [_ H2].
  rewrite H2 in H1. discriminate.
Qed.

Lemma filter_len_le {A} (f : A -> bool) l : length (filter f l) <= length l.
Proof. induction l as [|x t IH]; simpl; [lia|]. destruct (f x); simpl; lia. Qed.

(* ---- per-sequence variant ------------------------------------------------------------------------- *)
Lemma remove_character_seqs_spec alphabet rs c cutoff ic ig ins :
  let '(n, keep) := remove_character_seqs alphabet rs c cutoff ic ig ins in
  keep = filter (fun r => negb (seq_qualifies alphabet c (norm_cutoff cutoff) ic ig ins (snd r))) rs /\
  n + length keep = length rs /\
  (forall r, In r keep <-> In r rs /\ seq_qualifies alphabet c (norm_cutoff cutoff) ic ig ins (snd r) = false).
Proof.
  unfold remove_character_seqs. split; [reflexivity|]. split.
  - pose proof (filter_len_le (fun r => negb (seq_qualifies alphabet c (norm_cutoff cutoff) ic ig ins (snd r))) rs). lia.
  - intros r. rewrite filter_In, negb_true_iff. tauto.
Qed.
