(* align/partition.go AddRange: the range (start, end, modulo) of a partition file is assigned to
   exactly the sites start, start+modulo, ... <= end; it fails exactly when the bounds are wrong or
   one of those sites already belongs to a partition; every other site keeps its partition. *)
From Coq Require Import List Bool NArith ZArith Lia.
From Coq.Strings Require Import Byte.
Import ListNotations.
From GA.Base Require Import Bytes Align Dec.
From GA.Model Require Import Sites.
Local Open Scope Z_scope.

(* site j is addressed by the range start i, end e, stride m *)
Definition addressed (i e m j : Z) : Prop := i <= j <= e /\ (m | j - i).

Lemma addressed_step i e m j : 0 < m ->
  (addressed i e m j <-> (j = i /\ i <= e) \/ addressed (i + m) e m j).
Proof.
  intros Hm. unfold addressed. split.
  - intros [[H1 H2] [q Hq]].
    destruct (Z.eq_dec q 0) as [->|Hq0]; [left; lia|].
    right. assert (1 <= q) by nia. split; [nia|]. exists (q - 1). lia.
  - intros [[-> Hle] | [[H1 H2] [q Hq]]].
    + split; [lia|]. exists 0. lia.
    + split; [lia|]. exists (q + 1). lia.
Qed.

Lemma set_nth_length {A} (v : A) : forall l i, length (set_nth i v l) = length l.
Proof. induction l as [|x t IH]; intros [|i]; cbn; auto. Qed.

Lemma set_nth_nth {A} (v d : A) : forall l i j,
  nth j (set_nth i v l) d = if andb (Nat.eqb i j) (Nat.ltb i (length l)) then v else nth j l d.
Proof.
  induction l as [|x t IH]; intros i j.
  - cbn. destruct i, j; cbn; try reflexivity; rewrite ?andb_false_r; reflexivity.
  - destruct i as [|i], j as [|j]; cbn [set_nth nth length]; try reflexivity.
    rewrite IH. cbn [Nat.eqb]. 
    replace (Nat.ltb (S i) (S (length t))) with (Nat.ltb i (length t)); [reflexivity|].
    destruct (Nat.ltb_spec i (length t)), (Nat.ltb_spec (S i) (S (length t))); auto; lia.
Qed.

Lemma addrange_loop_spec m idx e : 0 < m ->
  forall fuel parts i parts' ok,
  0 <= i -> e < Z.of_nat (length parts) -> e - i < Z.of_nat fuel ->
  addrange_loop fuel parts i e m idx = (parts', ok) ->
  length parts' = length parts /\
  (ok = true ->
     (forall j, 0 <= j -> addressed i e m j -> nth (Z.to_nat j) parts (-1) = -1 /\ nth (Z.to_nat j) parts' (-1) = idx) /\
     (forall j, 0 <= j -> ~ addressed i e m j -> nth (Z.to_nat j) parts' (-1) = nth (Z.to_nat j) parts (-1))) /\
  (ok = false -> parts' = parts \/ True) /\
  (ok = false -> exists j, addressed i e m j /\ nth (Z.to_nat j) parts (-1) <> -1).
Proof.
  intros Hm. induction fuel as [|f IH]; intros parts i parts' ok Hi He Hf H.
  - cbn in H. inversion H; subst. split; [reflexivity|]. split; [|split; [auto|discriminate]].
    intros _. split.
    + intros j Hj [[Ha Hb] _]. lia.
    + intros; reflexivity.
  - cbn [addrange_loop] in H.
    destruct (i >? e) eqn:Hie.
    + inversion H; subst. split; [reflexivity|]. split; [|split; [auto|discriminate]].
      intros _. split.
      * intros j Hj [[Ha Hb] _]. lia.
      * intros; reflexivity.
    + destruct (Z.eqb (nth (Z.to_nat i) parts (-1)) (-1)) eqn:Hn; cbn [negb] in H.
      * apply Z.eqb_eq in Hn.
        apply IH in H; [| lia | rewrite set_nth_length; lia | lia].
        rewrite set_nth_length in H. destruct H as [HL [Ht [_ Hfalse]]].
        assert (Hnth : forall j, 0 <= j -> nth (Z.to_nat j) (set_nth (Z.to_nat i) idx parts) (-1) =
                         if Z.eqb i j then idx else nth (Z.to_nat j) parts (-1)).
        { intros j Hj. rewrite set_nth_nth.
          destruct (Z.eqb_spec i j) as [->|Hne].
          - rewrite Nat.eqb_refl. cbn [andb].
            destruct (Nat.ltb_spec (Z.to_nat j) (length parts)); [reflexivity|lia].
          - destruct (Nat.eqb_spec (Z.to_nat i) (Z.to_nat j)); [lia|reflexivity]. }
        split; [exact HL|]. split; [|split; [auto|]].
        -- intros Hok. destruct (Ht Hok) as [Ht1 Ht2]. split.
           ++ intros j Hj Ha. apply addressed_step in Ha; [|exact Hm].
              destruct Ha as [[-> _] | Ha].
              ** split; [exact Hn|].
                 rewrite Ht2; [| lia |].
                 --- rewrite Hnth by lia. rewrite Z.eqb_refl. reflexivity.
                 --- intros [[Hx _] _]. lia.
              ** destruct (Ht1 j Hj Ha) as [Hp Hq]. split; [|exact Hq].
                 rewrite Hnth in Hp by lia.
                 destruct (Z.eqb_spec i j) as [->|_]; [destruct Ha as [[? ?] _]; lia | exact Hp].
           ++ intros j Hj Hna.
              assert (Hna' : ~ addressed (i + m) e m j).
              { intros Ha. apply Hna. apply addressed_step; [exact Hm|]. right; exact Ha. }
              rewrite (Ht2 j Hj Hna'). rewrite Hnth by lia.
              destruct (Z.eqb_spec i j) as [->|_]; [|reflexivity].
              exfalso. apply Hna. apply addressed_step; [exact Hm|]. left. lia.
        -- intros Hok. destruct (Hfalse Hok) as [j [Ha Hp]].
           exists j. split; [apply addressed_step; [exact Hm|]; right; exact Ha|].
           assert (0 <= j) by (destruct Ha as [[? ?] _]; lia).
           rewrite Hnth in Hp by lia.
           destruct (Z.eqb_spec i j) as [->|_]; [destruct Ha as [[? ?] _]; lia | exact Hp].
      * apply Z.eqb_neq in Hn. inversion H; subst.
        split; [reflexivity|]. split; [discriminate|]. split; [auto|].
        intros _. exists i. split; [|exact Hn].
        apply addressed_step; [exact Hm|]. left. lia.
Qed.

Definition ps_wf (ps : pset) : Prop := Z.of_nat (length (ps_parts ps)) = ps_len ps.

Lemma new_pset_wf L : 0 <= L -> ps_wf (new_pset L).
Proof. intros HL. unfold ps_wf, new_pset; cbn. rewrite repeat_length. lia. Qed.

(* index the name receives: its first occurrence, or a new last index *)
Definition range_index (ps : pset) (pname : list byte) : Z :=
  match name_index pname (ps_names ps) 0 with
  | Some k => k
  | None => Z.of_nat (length (ps_names ps))
  end.

Theorem add_range_spec ps pname s e m ps' ok :
  ps_wf ps -> add_range ps pname s e m = (ps', ok) ->
  (* bounds: refused, nothing changes *)
  ((s < 0 \/ ps_len ps <= e \/ m <= 0) -> ok = false /\ ps' = ps) /\
  ((0 <= s /\ e < ps_len ps /\ 0 < m) ->
     ps_wf ps' /\ ps_len ps' = ps_len ps /\
     (* success: exactly the addressed sites, all free before, now carry the name's index; all others keep theirs *)
     (ok = true ->
        (forall j, 0 <= j -> addressed s e m j ->
           nth (Z.to_nat j) (ps_parts ps) (-1) = -1 /\ nth (Z.to_nat j) (ps_parts ps') (-1) = range_index ps pname) /\
        (forall j, 0 <= j -> ~ addressed s e m j ->
           nth (Z.to_nat j) (ps_parts ps') (-1) = nth (Z.to_nat j) (ps_parts ps) (-1))) /\
     (* failure: some addressed site already belongs to a partition *)
     (ok = false -> exists j, addressed s e m j /\ nth (Z.to_nat j) (ps_parts ps) (-1) <> -1)).
Proof.
  intros Hwf H. unfold add_range in H. unfold ps_wf in Hwf.
  destruct (s <? 0) eqn:H1.
  { inversion H; subst. split; [auto|]. intros; lia. }
  destruct (e >=? ps_len ps) eqn:H2.
  { inversion H; subst. split; [auto|]. intros; lia. }
  destruct (m <=? 0) eqn:H3.
  { inversion H; subst. split; [auto|]. intros; lia. }
  split; [intros; lia|]. intros [Hs [He Hm]].
  set (ni := match name_index pname (ps_names ps) 0 with
             | Some k => (ps_names ps, k)
             | None => (ps_names ps ++ [pname], Z.of_nat (length (ps_names ps))) end) in H.
  assert (Hidx : snd ni = range_index ps pname).
  { unfold ni, range_index. destruct (name_index pname (ps_names ps) 0); reflexivity. }
  destruct ni as [names' idx]. cbn [snd] in Hidx. subst idx.
  destruct (addrange_loop (S (Z.to_nat (e - s))) (ps_parts ps) s e m (range_index ps pname)) as [parts' ok'] eqn:HL.
  inversion H; subst ps' ok'. cbn [ps_parts ps_len].
  apply addrange_loop_spec in HL; [| exact Hm | lia | lia | lia].
  destruct HL as [Hlen [Ht [_ Hf]]].
  split; [unfold ps_wf; cbn; lia|]. split; [reflexivity|]. split; [exact Ht | exact Hf].
Qed.

From Coq Require Import Znumtheory.
From GA.Proofs Require Import SitesProofs.

Lemma addressed_dec i e m j : {addressed i e m j} + {~ addressed i e m j}.
Proof.
  unfold addressed.
  destruct (Z_le_dec i j); [|right; intros [[? ?] _]; lia].
  destruct (Z_le_dec j e); [|right; intros [[? ?] _]; lia].
  destruct (Zdivide_dec m (j - i)); [left; auto | right; intros [_ ?]; auto].
Qed.

(* the block Split cuts for the range's partition: the sites it held before plus exactly the addressed ones *)
Theorem add_range_block ps pname s e m ps' :
  ps_wf ps -> add_range ps pname s e m = (ps', true) ->
  forall i, 0 <= i < ps_len ps ->
    (In i (positions_of (ps_parts ps') (range_index ps pname)) <->
     addressed s e m i \/ In i (positions_of (ps_parts ps) (range_index ps pname))).
Proof.
  intros Hwf H i Hi.
  destruct (add_range_spec _ _ _ _ _ _ _ Hwf H) as [Hbad Hgood].
  assert (Hb : 0 <= s /\ e < ps_len ps /\ 0 < m).
  { destruct (Z_lt_dec s 0); [destruct Hbad as [? _]; [lia|discriminate]|].
    destruct (Z_le_dec (ps_len ps) e); [destruct Hbad as [? _]; [lia|discriminate]|].
    destruct (Z_le_dec m 0); [destruct Hbad as [? _]; [lia|discriminate]|]. lia. }
  destruct (Hgood Hb) as [Hwf' [Hlen [Hok _]]]. destruct (Hok eq_refl) as [Ha Hna].
  unfold ps_wf in Hwf, Hwf'.
  rewrite (positions_partition (ps_parts ps') i) by lia.
  rewrite (positions_partition (ps_parts ps) i) by lia.
  destruct (addressed_dec s e m i) as [Hd|Hd].
  - destruct (Ha i (proj1 Hi) Hd) as [_ Hq]. rewrite Hq. split; auto.
  - rewrite (Hna i (proj1 Hi) Hd). split; [auto|]. intros [?|?]; [contradiction|assumption].
Qed.

(* non-vacuity: the range 1-9\3 on a fresh 10-site partition set addresses sites 1, 4, 7 *)
Example add_range_example :
  let r := add_range (new_pset 10) [x70] 1 9 3 in
  snd r = true /\ ps_parts (fst r) = [-1; 0; -1; -1; 0; -1; -1; 0; -1; -1] /\
  snd (add_range (fst r) [x71] 4 4 1) = false.
Proof. vm_compute. auto. Qed.

(* ---- a whole partition file ---- *)
Definition addressed_by (x : list byte * (Z * Z * Z)) (j : Z) : Prop :=
  let '(s, e, m) := snd x in addressed s e m j.

Lemma name_index_app_some n ext : forall l k r, name_index n l k = Some r -> name_index n (l ++ ext) k = Some r.
Proof.
  induction l as [|x t IH]; intros k r H; cbn in *; [discriminate|].
  destruct (bytes_eqb x n); [exact H | apply IH; exact H].
Qed.

Lemma name_index_app_none n : forall l k, name_index n l k = None ->
  name_index n (l ++ [n]) k = Some (k + Z.of_nat (length l)).
Proof.
  induction l as [|x t IH]; intros k H; cbn [app name_index length] in *.
  - rewrite bytes_eqb_refl. f_equal. lia.
  - destruct (bytes_eqb x n); [discriminate|]. rewrite IH by exact H. f_equal. lia.
Qed.

Lemma name_index_ge n : forall l k r, name_index n l k = Some r -> k <= r.
Proof.
  induction l as [|x t IH]; intros k r H; cbn in H; [discriminate|].
  destruct (bytes_eqb x n); [inversion H; lia | apply IH in H; lia].
Qed.

Lemma range_index_nonneg ps n : 0 <= range_index ps n.
Proof.
  unfold range_index. destruct (name_index n (ps_names ps) 0) eqn:H; [apply name_index_ge in H; lia | lia].
Qed.

(* the names only grow, and the range's name is then found at the index its sites received *)
Lemma add_range_names ps n s e m ps' ok :
  add_range ps n s e m = (ps', ok) ->
  (exists ext, ps_names ps' = ps_names ps ++ ext) /\
  ((0 <= s /\ e < ps_len ps /\ 0 < m) -> name_index n (ps_names ps') 0 = Some (range_index ps n)).
Proof.
  intros H. unfold add_range in H.
  destruct (s <? 0) eqn:H1. { inversion H; subst. split; [exists []; rewrite app_nil_r; reflexivity | intros; lia]. }
  destruct (e >=? ps_len ps) eqn:H2. { inversion H; subst. split; [exists []; rewrite app_nil_r; reflexivity | intros; lia]. }
  destruct (m <=? 0) eqn:H3. { inversion H; subst. split; [exists []; rewrite app_nil_r; reflexivity | intros; lia]. }
  unfold range_index.
  destruct (name_index n (ps_names ps) 0) as [k|] eqn:Hn.
  - destruct (addrange_loop _ _ _ _ _ _) as [p' o']. inversion H; subst; cbn [ps_names].
    split; [exists []; rewrite app_nil_r; reflexivity | intros _; exact Hn].
  - destruct (addrange_loop _ _ _ _ _ _) as [p' o']. inversion H; subst; cbn [ps_names].
    split; [exists [n]; reflexivity|]. intros _. rewrite name_index_app_none by exact Hn. f_equal.
Qed.

(* a whole partition file: the ranges are applied in order; when all succeed, every range was inside the
   alignment, every addressed site was free before and is addressed by exactly one range of the file, it
   carries the index under which that range's name is found in the final name list, and a site no range
   addresses keeps what it had *)
Theorem add_ranges_spec : forall l ps ps',
  ps_wf ps -> add_ranges ps l = (ps', true) ->
  ps_wf ps' /\ ps_len ps' = ps_len ps /\
  (exists ext, ps_names ps' = ps_names ps ++ ext) /\
  (forall x, In x l -> let '(s, e, m) := snd x in 0 <= s /\ e < ps_len ps /\ 0 < m) /\
  (forall j, 0 <= j -> (forall x, In x l -> ~ addressed_by x j) ->
     nth (Z.to_nat j) (ps_parts ps') (-1) = nth (Z.to_nat j) (ps_parts ps) (-1)) /\
  (forall j x, 0 <= j -> In x l -> addressed_by x j ->
     nth (Z.to_nat j) (ps_parts ps) (-1) = -1 /\
     name_index (fst x) (ps_names ps') 0 = Some (nth (Z.to_nat j) (ps_parts ps') (-1))) /\
  ForallOrdPairs (fun x y => forall j, 0 <= j -> ~ (addressed_by x j /\ addressed_by y j)) l.
Proof.
  induction l as [|[n [[s e] m]] t IH]; intros ps ps' Hwf H.
  - cbn in H. inversion H; subst. split; [exact Hwf|]. split; [reflexivity|].
    split; [exists []; rewrite app_nil_r; reflexivity|].
    split; [intros x []|]. split; [reflexivity|]. split; [intros j x _ []|constructor].
  - cbn [add_ranges] in H.
    destruct (add_range ps n s e m) as [ps1 ok] eqn:HA.
    destruct ok; [|discriminate].
    destruct (add_range_spec _ _ _ _ _ _ _ Hwf HA) as [Hbad Hgood].
    destruct (add_range_names _ _ _ _ _ _ _ HA) as [[ext1 Hext1] Hname].
    assert (Hb : 0 <= s /\ e < ps_len ps /\ 0 < m).
    { destruct (Z_lt_dec s 0); [destruct Hbad as [? _]; [lia|discriminate]|].
      destruct (Z_le_dec (ps_len ps) e); [destruct Hbad as [? _]; [lia|discriminate]|].
      destruct (Z_le_dec m 0); [destruct Hbad as [? _]; [lia|discriminate]|]. lia. }
    destruct (Hgood Hb) as [Hwf1 [Hlen1 [Hok _]]]. destruct (Hok eq_refl) as [Ha Hna].
    specialize (Hname Hb).
    destruct (IH ps1 ps' Hwf1 H) as [Hwf' [Hlen' [[ext Hext] [Hbounds [Hkeep [Haddr Hpairs]]]]]].
    split; [exact Hwf'|]. split; [lia|].
    split; [exists (ext1 ++ ext); rewrite Hext, Hext1, app_assoc; reflexivity|].
    split.
    { intros x [<-|Hx]; [cbn; exact Hb|]. specialize (Hbounds x Hx). destruct (snd x) as [[? ?] ?]. lia. }
    split.
    { intros j Hj Hno. rewrite Hkeep; [| exact Hj | intros x Hx; apply Hno; right; exact Hx].
      apply Hna; [exact Hj|]. exact (Hno (n, (s, e, m)) (or_introl eq_refl)). }
    assert (Hhead : forall j, 0 <= j -> addressed s e m j -> forall y, In y t -> ~ addressed_by y j).
    { intros j Hj Hd y Hy Hyj. destruct (Haddr j y Hj Hy Hyj) as [Hfree _].
      destruct (Ha j Hj Hd) as [_ Hset]. pose proof (range_index_nonneg ps n). lia. }
    split.
    { intros j x Hj [<-|Hx] Hd.
      - cbn in Hd. destruct (Ha j Hj Hd) as [Hfree Hset]. split; [exact Hfree|].
        cbn [fst]. rewrite (Hkeep j Hj (Hhead j Hj Hd)). rewrite Hset.
        rewrite Hext. apply name_index_app_some. exact Hname.
      - destruct (Haddr j x Hj Hx Hd) as [Hfree Hidx]. split; [|exact Hidx].
        destruct (addressed_dec s e m j) as [Hd0|Hd0].
        + exfalso. exact (Hhead j Hj Hd0 x Hx Hd).
        + rewrite <- (Hna j Hj Hd0). exact Hfree. }
    constructor; [|exact Hpairs].
    apply Forall_forall. intros y Hy j Hj [Hd Hyj]. exact (Hhead j Hj Hd y Hy Hyj).
Qed.

(* the converse of add_ranges_spec: a file whose ranges lie inside the alignment, address only free sites and
   are pairwise disjoint is accepted *)
Theorem add_ranges_complete : forall l ps,
  ps_wf ps ->
  (forall x, In x l -> let '(s, e, m) := snd x in 0 <= s /\ e < ps_len ps /\ 0 < m) ->
  (forall x j, In x l -> 0 <= j -> addressed_by x j -> nth (Z.to_nat j) (ps_parts ps) (-1) = -1) ->
  ForallOrdPairs (fun x y => forall j, 0 <= j -> ~ (addressed_by x j /\ addressed_by y j)) l ->
  snd (add_ranges ps l) = true.
Proof.
  induction l as [|[n [[s e] m]] t IH]; intros ps Hwf Hb Hfree Hpairs; [reflexivity|].
  cbn [add_ranges].
  destruct (add_range ps n s e m) as [ps1 ok] eqn:HA.
  destruct (add_range_spec _ _ _ _ _ _ _ Hwf HA) as [_ Hgood].
  pose proof (Hb (n, (s, e, m)) (or_introl eq_refl)) as Hb0. cbn in Hb0.
  destruct (Hgood Hb0) as [Hwf1 [Hlen1 [Hok Hfail]]].
  destruct ok.
  - destruct (Hok eq_refl) as [_ Hna].
    inversion Hpairs as [|? ? Hhead Htail]; subst.
    apply IH; [exact Hwf1 | | | exact Htail].
    + intros x Hx. rewrite Hlen1. apply Hb. right; exact Hx.
    + intros x j Hx Hj Hd. rewrite Hna; [apply (Hfree x j (or_intror Hx) Hj Hd) | exact Hj |].
      intros Hd0. rewrite Forall_forall in Hhead. exact (Hhead x Hx j Hj (conj Hd0 Hd)).
  - exfalso. destruct (Hfail eq_refl) as [j [Hd Hocc]]. apply Hocc.
    apply (Hfree (n, (s, e, m)) j (or_introl eq_refl)); [destruct Hd as [[? ?] _]; lia | exact Hd].
Qed.
