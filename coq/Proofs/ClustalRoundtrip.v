(* Round trip through the CODE MODELS of the Clustal writer (Model/Clustal.v) and of the Clustal lexer + parser
   (Model/ClustalParse.v): parse (write alphabet a) = a for every alignment of rows of one positive length whose names
   and residues are plain bytes (no blank, tab, line end or NUL; residues are not digits), any number of blocks. *)
From Coq Require Import List Arith Lia Bool NArith ZArith.
From Coq.Strings Require Import Byte.
Import ListNotations.
From GA.Base Require Import Bytes Case Dec Align.
From GA.Gen Require Import Alpha IOConst Groups.
From GA.Model Require Import Phylip Clustal ClustalParse.
From GA.Proofs Require Import ClustalParseProofs.

(* ---- words and lines ------------------------------------------------------------------------------------------- *)
Definition wordb (b : byte) : bool :=
  negb (beqb b ClustalParse.NL || beqb b CR || beqb b ClustalParse.SP || beqb b NUL || beqb b TAB).
Definition word (l : list byte) : Prop := l <> [] /\ forallb wordb l = true.

Lemma wordb_facts b : wordb b = true ->
  is_ws b = false /\ beqb b ClustalParse.NL = false /\ beqb b CR = false /\ beqb b NUL = false /\ is_identch b = true.
Proof.
  unfold wordb, is_ws, is_identch. intros H. apply negb_true_iff in H.
  repeat (apply orb_false_iff in H; destruct H as [H ?]).
  repeat split; try assumption.
  - apply orb_false_iff. split; assumption.
  - apply negb_true_iff. repeat (apply orb_false_iff; split); assumption.
Qed.

Lemma run_word t d rest : forallb wordb t = true -> is_identch d = false -> beqb d NUL = false ->
  run is_identch (t ++ d :: rest) = (t, d :: rest).
Proof.
  intros Ht Hd Hn. induction t as [|b t IH]; cbn [app run].
  - rewrite Hn, Hd. reflexivity.
  - cbn [forallb] in Ht. apply andb_true_iff in Ht as [Hb Ht]. destruct (wordb_facts b Hb) as [_ [_ [_ [N I]]]].
    rewrite N, I, (IH Ht). reflexivity.
Qed.

Lemma scan_word w d rest : word w -> is_identch d = false -> beqb d NUL = false ->
  scan (w ++ d :: rest) = (classify w, d :: rest).
Proof.
  intros [Hne Hw] Hd Hn. destruct w as [|b t]; [congruence|]. cbn [forallb] in Hw. apply andb_true_iff in Hw as [Hb Ht].
  destruct (wordb_facts b Hb) as [W [N1 [C [N I]]]]. cbn [app]. unfold scan. rewrite W, N1, C, N.
  rewrite (run_word t d rest Ht Hd Hn). reflexivity.
Qed.

Lemma run_ws_spaces k x rest : is_ws x = false -> beqb x NUL = false ->
  run is_ws (repeat ClustalParse.SP k ++ x :: rest) = (repeat ClustalParse.SP k, x :: rest).
Proof.
  intros Hx Hn. induction k as [|k IH]; cbn [repeat app run].
  - rewrite Hn, Hx. reflexivity.
  - change (beqb ClustalParse.SP NUL) with false. change (is_ws ClustalParse.SP) with true. cbv iota. rewrite IH. reflexivity.
Qed.

Lemma scan_spaces k x rest : is_ws x = false -> beqb x NUL = false ->
  scan (repeat ClustalParse.SP (S k) ++ x :: rest) = (TWs, x :: rest).
Proof.
  intros Hx Hn. cbn [repeat app]. unfold scan. change (is_ws ClustalParse.SP) with true. cbv iota.
  rewrite (run_ws_spaces k x rest Hx Hn). reflexivity.
Qed.

Lemma lex_all_cons l t r : scan l = (t, r) -> t <> TEof -> lex_all l = t :: lex_all r.
Proof.
  intros E Ht. unfold lex_all at 1. cbn [lex]. rewrite E.
  pose proof (scan_shrinks l t r E Ht).
  destruct t; try congruence; f_equal; unfold lex_all; apply lex_fuel2; lia.
Qed.

Lemma scan_nl rest : scan (ClustalParse.NL :: rest) = (TEol, rest).
Proof. reflexivity. Qed.

(* the decimal counter is a number below 2^63 *)
Lemma fold_num acc l : fold_left (fun a b => a * 10 + (Z.of_N (Byte.to_N b) - 48))%Z l acc =
  (acc * 10 ^ Z.of_nat (length l) + num_of l)%Z.
Proof.
  revert acc. induction l as [|b t IH]; intros acc; cbn [fold_left length].
  - unfold num_of. cbn. lia.
  - rewrite IH. unfold num_of. cbn [fold_left]. rewrite (IH (0 * 10 + _)%Z).
    rewrite Nat2Z.inj_succ, Z.pow_succ_r by lia. fold (num_of t). lia.
Qed.
Lemma num_of_cons b t : num_of (b :: t) = ((Z.of_N (Byte.to_N b) - 48) * 10 ^ Z.of_nat (length t) + num_of t)%Z.
Proof. unfold num_of. cbn [fold_left]. rewrite fold_num. fold (num_of t). lia. Qed.

Lemma digit_val d : (d < 10)%N -> is_digit (digit_of_N d) = true /\ (Z.of_N (Byte.to_N (digit_of_N d)) - 48 = Z.of_N d)%Z.
Proof.
  intros H. assert (C : (d = 0 \/ d = 1 \/ d = 2 \/ d = 3 \/ d = 4 \/ d = 5 \/ d = 6 \/ d = 7 \/ d = 8 \/ d = 9)%N) by lia.
  repeat (destruct C as [-> | C]; [split; reflexivity|]). subst. split; reflexivity.
Qed.

Lemma dec_digits_spec fuel : forall n acc, forallb is_digit acc = true ->
  forallb is_digit (dec_digits fuel n acc) = true /\
  (num_of (dec_digits fuel n acc) <= Z.of_N n * 10 ^ Z.of_nat (length acc) + num_of acc)%Z /\
  (0 <= num_of acc)%Z /\ (fuel <> 0 -> dec_digits fuel n acc <> []).
Proof.
  assert (Hpos : forall l, forallb is_digit l = true -> (0 <= num_of l)%Z).
  { induction l as [|b t IH]; intros H; [unfold num_of; cbn; lia|]. cbn [forallb] in H. apply andb_true_iff in H as [Hb Ht].
    rewrite num_of_cons. specialize (IH Ht). unfold is_digit in Hb. apply andb_true_iff in Hb as [H1 H2].
    apply N.leb_le in H1, H2. assert (0 <= 10 ^ Z.of_nat (length t))%Z by (apply Z.pow_nonneg; lia). nia. }
  induction fuel as [|f IH]; intros n acc Ha; cbn [dec_digits].
  - repeat split; [exact Ha | | apply Hpos; exact Ha | congruence].
    assert (0 <= Z.of_N n * 10 ^ Z.of_nat (length acc))%Z by (apply Z.mul_nonneg_nonneg; [lia | apply Z.pow_nonneg; lia]). lia.
  - assert (Hd : (n mod 10 < 10)%N) by (apply N.mod_lt; lia). destruct (digit_val _ Hd) as [D1 D2].
    assert (Ha' : forallb is_digit (digit_of_N (n mod 10) :: acc) = true) by (cbn [forallb]; rewrite D1, Ha; reflexivity).
    assert (Hn : n = (10 * (n / 10) + n mod 10)%N) by (apply N.div_mod; lia).
    assert (Hp : (0 <= 10 ^ Z.of_nat (length acc))%Z) by (apply Z.pow_nonneg; lia).
    destruct (N.eqb_spec (n / 10) 0) as [Eq|Eq].
    + repeat split; [exact Ha' | | apply Hpos; exact Ha | discriminate].
      rewrite num_of_cons, D2. rewrite Eq in Hn. replace (Z.of_N n) with (Z.of_N (n mod 10)) by lia. lia.
    + destruct (IH (n / 10)%N _ Ha') as [I1 [I2 [I3 I4]]]. repeat split; [exact I1 | | apply Hpos; exact Ha |].
      * eapply Z.le_trans; [exact I2|]. rewrite num_of_cons, D2. cbn [length]. rewrite Nat2Z.inj_succ, Z.pow_succ_r by lia.
        assert (Z.of_N n = 10 * Z.of_N (n / 10) + Z.of_N (n mod 10))%Z by lia. nia.
      * intros _. destruct f as [|f']; [cbn [dec_digits]; discriminate|]. apply I4. discriminate.
Qed.

Lemma digit_props b : is_digit b = true ->
  wordb b = true /\ beqb (to_upper b) x43 = false /\ beqb b x2b = false /\ beqb b x2d = false.
Proof.
  assert (G : forall c, (negb (is_digit c) || (wordb c && negb (beqb (to_upper c) x43) && negb (beqb c x2b) && negb (beqb c x2d))) = true)
    by (apply forall_bytes; vm_compute; reflexivity).
  intros H. specialize (G b). rewrite H in G. cbn [negb orb] in G.
  repeat (apply andb_true_iff in G; destruct G as [G ?]).
  repeat split; try assumption; apply negb_true_iff; assumption.
Qed.

Lemma dec_is_numeric k : (Z.of_nat k < 9223372036854775808)%Z -> classify (dec_of_nat k) = TNumeric (dec_of_nat k) /\ word (dec_of_nat k).
Proof.
  intros Hk. unfold dec_of_nat, dec_of_N.
  destruct (dec_digits_spec (S (N.to_nat (N.log2 (N.of_nat k)))) (N.of_nat k) [] eq_refl) as [D1 [D2 [_ D4]]].
  set (ds := dec_digits (S (N.to_nat (N.log2 (N.of_nat k)))) (N.of_nat k) []) in *.
  specialize (D4 ltac:(discriminate)).
  assert (Hdig : forall b, In b ds -> is_digit b = true) by (apply forallb_forall; exact D1).
  assert (Hw : forallb wordb ds = true).
  { apply forallb_forall. intros b Hb. apply digit_props. apply Hdig. exact Hb. }
  split; [|split; assumption].
  destruct ds as [|b t]; [congruence|].
  destruct (digit_props b (Hdig b (or_introl eq_refl))) as [_ [U [S1 S2]]].
  unfold classify.
  assert (Hk1 : bytes_eqb (map to_upper (b :: t)) KW1 = false) by (cbn [map KW1 bytes_eqb]; rewrite U; reflexivity).
  assert (Hk2 : bytes_eqb (map to_upper (b :: t)) KW2 = false) by (cbn [map KW2 KW1 app bytes_eqb]; rewrite U; reflexivity).
  rewrite Hk1, Hk2. cbn [orb].
  assert (Hint : is_int64 (b :: t) = true).
  { unfold is_int64. rewrite S1, S2, D1. cbn [andb]. apply Z.ltb_lt.
    change (length (@nil byte)) with 0%nat in D2. change (num_of []) with 0%Z in D2.
    change (Z.of_nat 0) with 0%Z in D2. rewrite Z.pow_0_r, nat_N_Z in D2. lia. }
  rewrite Hint. reflexivity.
Qed.

(* ---- a whole line: bytes without line end or NUL ---------------------------------------------------------------- *)
Definition lineb (b : byte) : bool := negb (beqb b ClustalParse.NL || beqb b CR || beqb b NUL).
Definition ntok (t : tok) : Prop := t <> TEol /\ t <> TEof.

Lemma lineb_facts b : lineb b = true -> beqb b ClustalParse.NL = false /\ beqb b CR = false /\ beqb b NUL = false.
Proof.
  unfold lineb. intros H. apply negb_true_iff in H. repeat (apply orb_false_iff in H; destruct H as [H ?]). auto.
Qed.

Lemma run_app p t rest : forallb lineb t = true -> p ClustalParse.NL = false ->
  run p (t ++ ClustalParse.NL :: rest) = (fst (run p t), snd (run p t) ++ ClustalParse.NL :: rest).
Proof.
  intros Ht Hp. induction t as [|b t IH]; cbn [app run].
  - change (beqb ClustalParse.NL NUL) with false. cbv iota. rewrite Hp. reflexivity.
  - cbn [forallb] in Ht. apply andb_true_iff in Ht as [Hb Ht]. destruct (lineb_facts b Hb) as [_ [_ N]]. rewrite N.
    destruct (p b); [|reflexivity]. rewrite (IH Ht). destruct (run p t) as [a r]. reflexivity.
Qed.

Lemma run_lineb p t : forallb lineb t = true -> forallb lineb (snd (run p t)) = true.
Proof.
  induction t as [|b t IH]; intros Ht; [reflexivity|]. cbn [run]. cbn [forallb] in Ht. apply andb_true_iff in Ht as [Hb Ht].
  destruct (lineb_facts b Hb) as [_ [_ N]]. rewrite N. destruct (p b).
  - specialize (IH Ht). destruct (run p t) as [a r]. exact IH.
  - cbn [snd forallb]. rewrite Hb, Ht. reflexivity.
Qed.

Lemma scan_app b t rest : forallb lineb (b :: t) = true ->
  scan ((b :: t) ++ ClustalParse.NL :: rest) = (fst (scan (b :: t)), snd (scan (b :: t)) ++ ClustalParse.NL :: rest) /\
  ntok (fst (scan (b :: t))) /\ forallb lineb (snd (scan (b :: t))) = true.
Proof.
  intros H. cbn [forallb] in H. apply andb_true_iff in H as [Hb Ht]. destruct (lineb_facts b Hb) as [N1 [C N]].
  cbn [app]. unfold scan. destruct (is_ws b).
  - rewrite (run_app is_ws t rest Ht eq_refl). cbn [fst snd]. split; [reflexivity|]. split; [split; discriminate | apply run_lineb; exact Ht].
  - rewrite N1, C, N. rewrite (run_app is_identch t rest Ht eq_refl). pose proof (run_lineb is_identch t Ht) as Hl.
    destruct (run is_identch t) as [a r]. cbn [fst snd] in *. split; [reflexivity|]. split; [|exact Hl].
    pose proof (classify_ok b a) as _. unfold classify.
    destruct (bytes_eqb (map to_upper (b :: a)) KW1 || bytes_eqb (map to_upper (b :: a)) KW2); [split; discriminate|].
    destruct (is_int64 (b :: a)); split; discriminate.
Qed.

(* the tokens of a line, computed on the line alone *)
Fixpoint ltoks_f (fuel : nat) (l : list byte) : list tok :=
  match fuel with
  | O => []
  | S f => match l with [] => [] | _ => let '(t, r) := scan l in t :: ltoks_f f r end
  end.
Definition ltoks (l : list byte) : list tok := ltoks_f (length l) l.

Lemma lex_line_f : forall fuel l rest, length l <= fuel -> forallb lineb l = true ->
  lex_all (l ++ ClustalParse.NL :: rest) = ltoks_f fuel l ++ TEol :: lex_all rest /\ Forall ntok (ltoks_f fuel l).
Proof.
  induction fuel as [|f IH]; intros l rest Hlen Hl.
  - destruct l; [|cbn in Hlen; lia]. cbn [app ltoks_f]. split; [apply lex_all_cons; [apply scan_nl | discriminate] | constructor].
  - destruct l as [|b t].
    + cbn [app ltoks_f]. split; [apply lex_all_cons; [apply scan_nl | discriminate] | constructor].
    + destruct (scan_app b t rest Hl) as [E [Nt Hr]]. cbn [ltoks_f]. destruct (scan (b :: t)) as [tk r] eqn:Es. cbn [fst snd] in *.
      assert (Hsh : length r < length (b :: t)) by (apply (scan_shrinks (b :: t) tk r Es); apply Nt).
      destruct (IH r rest ltac:(cbn [length] in *; lia) Hr) as [I1 I2].
      split; [|constructor; assumption].
      rewrite (lex_all_cons _ _ _ E (proj2 Nt)). rewrite I1. reflexivity.
Qed.

Lemma lex_line l rest : forallb lineb l = true ->
  lex_all (l ++ ClustalParse.NL :: rest) = ltoks l ++ TEol :: lex_all rest /\ Forall ntok (ltoks l).
Proof. intros H. apply lex_line_f; [lia | exact H]. Qed.

Lemma ltoks_space k t : exists cts, ltoks (repeat ClustalParse.SP (S k) ++ t) = TWs :: cts.
Proof.
  unfold ltoks. cbn [repeat app length ltoks_f].
  assert (E : scan (ClustalParse.SP :: repeat ClustalParse.SP k ++ t) = (TWs, snd (run is_ws (repeat ClustalParse.SP k ++ t)))) by reflexivity.
  rewrite E. eexists. reflexivity.
Qed.

(* ---- a sequence line ----------------------------------------------------------------------------------------------- *)
Definition resb (b : byte) : bool := wordb b && negb (is_digit b).
Definition seqword (l : list byte) : Prop := l <> [] /\ forallb resb l = true.

Lemma seqword_word l : seqword l -> word l.
Proof.
  intros [H1 H2]. split; [exact H1|]. apply forallb_forall. intros b Hb. rewrite forallb_forall in H2. specialize (H2 b Hb).
  unfold resb in H2. apply andb_true_iff in H2 as [H2 _]. exact H2.
Qed.

Lemma classify_cases w : classify w = TIdent w \/ classify w = TNumeric w \/ classify w = TClustal w.
Proof.
  unfold classify. destruct (bytes_eqb (map to_upper w) KW1 || bytes_eqb (map to_upper w) KW2); [right; right; reflexivity|].
  destruct (is_int64 w); [right; left; reflexivity | left; reflexivity].
Qed.

Lemma seqword_not_int l : seqword l -> is_int64 l = false.
Proof.
  intros [Hne Hl]. destruct l as [|b t]; [congruence|]. cbn [forallb] in Hl. apply andb_true_iff in Hl as [Hb Ht].
  assert (Hnd : forall x, resb x = true -> is_digit x = false).
  { intros x Hx. unfold resb in Hx. apply andb_true_iff in Hx as [_ Hx]. apply negb_true_iff in Hx. exact Hx. }
  assert (Htail : forall u, u <> [] -> forallb resb u = true -> forallb is_digit u = false).
  { intros u Hu Hf. destruct u as [|x u']; [congruence|]. cbn [forallb] in *. apply andb_true_iff in Hf as [Hx _]. rewrite (Hnd x Hx). reflexivity. }
  unfold is_int64. destruct (beqb b x2b).
  - destruct t as [|x t']; [reflexivity|]. rewrite (Htail (x :: t') ltac:(discriminate) Ht). reflexivity.
  - destruct (beqb b x2d).
    + destruct t as [|x t']; [reflexivity|]. rewrite (Htail (x :: t') ltac:(discriminate) Ht). reflexivity.
    + cbn [forallb]. rewrite (Hnd b Hb). reflexivity.
Qed.

Lemma classify_seqword l : seqword l -> classify l = TIdent l \/ classify l = TClustal l.
Proof.
  intros H. unfold classify. destruct (bytes_eqb (map to_upper l) KW1 || bytes_eqb (map to_upper l) KW2); [right; reflexivity|].
  rewrite (seqword_not_int l H). left. reflexivity.
Qed.

Lemma word_head w : word w -> exists x t, w = x :: t /\ is_ws x = false /\ beqb x NUL = false.
Proof.
  intros [Hne Hw]. destruct w as [|x t]; [congruence|]. exists x, t. split; [reflexivity|].
  cbn [forallb] in Hw. apply andb_true_iff in Hw as [Hx _]. destruct (wordb_facts x Hx) as [W [_ [_ [N _]]]]. auto.
Qed.

Lemma classify_not_eof w : classify w <> TEof.
Proof. destruct (classify_cases w) as [E|[E|E]]; rewrite E; discriminate. Qed.

Lemma lex_rowline nm ch k m rest : word nm -> seqword ch -> (Z.of_nat k < 9223372036854775808)%Z ->
  lex_all (nm ++ repeat ClustalParse.SP (S m) ++ ch ++ ClustalParse.SP :: dec_of_nat k ++ ClustalParse.NL :: rest) =
  classify nm :: TWs :: classify ch :: TWs :: TNumeric (dec_of_nat k) :: TEol :: lex_all rest.
Proof.
  intros Hn Hc Hk. destruct (dec_is_numeric k Hk) as [Dc Dw]. pose proof (seqword_word ch Hc) as Hcw.
  destruct (word_head ch Hcw) as [x [ct [-> [Wx Nx]]]]. destruct (word_head _ Dw) as [d0 [dt [Ed [Wd Nd]]]].
  pose (r5 := ClustalParse.NL :: rest).
  pose (r4 := dec_of_nat k ++ r5).
  pose (r3 := ClustalParse.SP :: r4).
  pose (r2 := (x :: ct) ++ r3).
  pose (r1 := ClustalParse.SP :: repeat ClustalParse.SP m ++ r2).
  assert (S1 : scan (nm ++ r1) = (classify nm, r1)) by (apply (scan_word nm ClustalParse.SP); [exact Hn | reflexivity | reflexivity]).
  assert (S2 : scan r1 = (TWs, r2)).
  { unfold r1, r2. change (ClustalParse.SP :: repeat ClustalParse.SP m ++ (x :: ct) ++ r3) with (repeat ClustalParse.SP (S m) ++ x :: (ct ++ r3)).
    apply scan_spaces; assumption. }
  assert (S3 : scan r2 = (classify (x :: ct), r3)) by (apply (scan_word (x :: ct) ClustalParse.SP); [exact Hcw | reflexivity | reflexivity]).
  assert (S4 : scan r3 = (TWs, r4)).
  { unfold r3, r4. rewrite Ed. change (ClustalParse.SP :: (d0 :: dt) ++ r5) with (repeat ClustalParse.SP 1 ++ d0 :: (dt ++ r5)).
    apply scan_spaces; assumption. }
  assert (S5 : scan r4 = (TNumeric (dec_of_nat k), r5)).
  { unfold r4, r5. rewrite <- Dc. apply (scan_word (dec_of_nat k) ClustalParse.NL); [exact Dw | reflexivity | reflexivity]. }
  change (lex_all (nm ++ r1) = classify nm :: TWs :: classify (x :: ct) :: TWs :: TNumeric (dec_of_nat k) :: TEol :: lex_all rest).
  rewrite (lex_all_cons _ _ _ S1 (classify_not_eof nm)).
  rewrite (lex_all_cons _ _ _ S2 ltac:(discriminate)).
  rewrite (lex_all_cons _ _ _ S3 (classify_not_eof _)).
  rewrite (lex_all_cons _ _ _ S4 ltac:(discriminate)).
  rewrite (lex_all_cons _ _ _ S5 ltac:(discriminate)).
  unfold r5. rewrite (lex_all_cons _ _ _ (scan_nl rest) ltac:(discriminate)). reflexivity.
Qed.

(* ---- the parser on the tokens of a sequence line --------------------------------------------------------------------- *)
Definition PL (ts : list tok) (rows : list ClustalParse.row) (nb cur nbk : nat) : res := ploop (S (length ts)) ts rows nb cur nbk.

Definition rtoks (nm ch d : list byte) : list tok := [classify nm; TWs; classify ch; TWs; TNumeric d; TEol].

Lemma ploop_nonws f t r rows nb cur nbk : t <> TWs ->
  ploop (S f) (t :: r) rows nb cur nbk =
  match seq_line t r rows cur nbk with Some (r', rows') => ploop f r' rows' nb (S cur) nbk | None => RErr end.
Proof. intros H. cbn [ploop next]. destruct t; try reflexivity. congruence. Qed.

Lemma seq_line_row nm ch d rest rows cur nbk : word nm -> seqword ch ->
  seq_line (classify nm) (TWs :: classify ch :: TWs :: TNumeric d :: TEol :: rest) rows cur nbk =
  if Nat.eqb nbk 0 then Some (rest, rows ++ [(nm, ch)])
  else match upd_row rows cur nm ch with Some rows' => Some (rest, rows') | None => None end.
Proof.
  intros Hn Hc. unfold seq_line.
  destruct (classify_cases nm) as [E|[E|E]]; rewrite E; cbn [next];
    destruct (classify_seqword ch Hc) as [F|F]; rewrite F; reflexivity.
Qed.

Lemma PL_row nm ch d rest rows nb cur nbk : word nm -> seqword ch ->
  PL (rtoks nm ch d ++ rest) rows nb cur nbk =
  match (if Nat.eqb nbk 0 then Some (rows ++ [(nm, ch)]) else upd_row rows cur nm ch) with
  | Some rows' => PL rest rows' nb (S cur) nbk
  | None => RErr
  end.
Proof.
  intros Hn Hc. unfold PL, rtoks. cbn [app length].
  rewrite ploop_nonws by (destruct (classify_cases nm) as [E|[E|E]]; rewrite E; discriminate).
  rewrite (seq_line_row nm ch d rest rows cur nbk Hn Hc).
  destruct (Nat.eqb nbk 0).
  - apply ploop_fuel; lia.
  - destruct (upd_row rows cur nm ch); [apply ploop_fuel; lia | reflexivity].
Qed.

Lemma upd_row_mid (pre : list ClustalParse.row) nm s ch post :
  upd_row (pre ++ (nm, s) :: post) (length pre) nm ch = Some (pre ++ (nm, s ++ ch) :: post).
Proof.
  unfold upd_row. rewrite nth_error_app2 by lia. rewrite Nat.sub_diag. cbn [nth_error]. rewrite bytes_eqb_refl.
  rewrite firstn_app, Nat.sub_diag, firstn_all. cbn [firstn]. rewrite app_nil_r.
  replace (S (length pre)) with (length pre + 1)%nat by lia. rewrite skipn_app.
  rewrite skipn_all2 by lia. replace (length pre + 1 - length pre)%nat with 1%nat by lia. reflexivity.
Qed.

Section Rows.
Variables (c e : nat) (dof : list byte -> list byte).
Definition chunk (s : list byte) : list byte := firstn (e - c) (skipn c s).
Definition oldf (r : ClustalParse.row) : ClustalParse.row := (fst r, firstn c (snd r)).
Definition newf (r : ClustalParse.row) : ClustalParse.row := (fst r, firstn e (snd r)).
Definition rtoks_of (r : ClustalParse.row) : list tok := rtoks (fst r) (chunk (snd r)) (dof (snd r)).
Definition goodrow (r : ClustalParse.row) : Prop := word (fst r) /\ seqword (chunk (snd r)).

Lemma firstn_chunk s : c <= e -> firstn c s ++ chunk s = firstn e s.
Proof.
  intros H. unfold chunk. rewrite firstn_skipn_comm. replace (c + (e - c))%nat with e by lia.
  transitivity (firstn c (firstn e s) ++ skipn c (firstn e s)); [|apply firstn_skipn].
  f_equal. rewrite firstn_firstn. f_equal. lia.
Qed.

Lemma run_rows_later nb nbk rest : nbk <> O -> c <= e -> forall todo pre, Forall goodrow todo ->
  PL (flat_map rtoks_of todo ++ rest) (pre ++ map oldf todo) nb (length pre) nbk =
  PL rest (pre ++ map newf todo) nb (length pre + length todo) nbk.
Proof.
  intros Hk Hce. induction todo as [|r t IH]; intros pre Hg.
  - cbn [flat_map map app length]. rewrite Nat.add_0_r. reflexivity.
  - inversion Hg as [|? ? [Hn Hc] Hg']; subst. cbn [flat_map map]. unfold rtoks_of at 1. rewrite <- app_assoc.
    rewrite (PL_row _ _ _ _ _ _ _ _ Hn Hc). destruct (Nat.eqb_spec nbk 0) as [->|_]; [congruence|].
    unfold oldf at 1. rewrite upd_row_mid. rewrite (firstn_chunk (snd r) Hce).
    specialize (IH (pre ++ [newf r]) Hg'). rewrite <- !app_assoc in IH. cbn [app] in IH. rewrite app_length in IH. cbn [length] in IH.
    change (fst r, firstn e (snd r)) with (newf r).
    replace (S (length pre)) with (length pre + 1)%nat by lia.
    etransitivity; [exact IH|]. cbn [length map]. f_equal. lia.
Qed.
End Rows.

Lemma run_rows_first e dof nb rest : forall todo pre, Forall (goodrow 0 e) todo ->
  PL (flat_map (rtoks_of 0 e dof) todo ++ rest) pre nb (length pre) 0 =
  PL rest (pre ++ map (newf e) todo) nb (length pre + length todo) 0.
Proof.
  induction todo as [|r t IH]; intros pre Hg.
  - cbn [flat_map map app length]. rewrite app_nil_r, Nat.add_0_r. reflexivity.
  - inversion Hg as [|? ? [Hn Hc] Hg']; subst. cbn [flat_map map]. unfold rtoks_of at 1. rewrite <- app_assoc.
    rewrite (PL_row _ _ _ _ _ _ _ _ Hn Hc). cbn [Nat.eqb].
    assert (Ech : chunk 0 e (snd r) = firstn e (snd r)) by (unfold chunk; rewrite Nat.sub_0_r; reflexivity).
    rewrite Ech. specialize (IH (pre ++ [(fst r, firstn e (snd r))]) Hg'). rewrite app_length in IH. cbn [length] in IH.
    replace (S (length pre)) with (length pre + 1)%nat by lia.
    etransitivity; [exact IH|]. rewrite <- app_assoc. cbn [app length]. unfold newf at 2. f_equal. lia.
Qed.

(* ---- the conservation line and the header in the parser ------------------------------------------------------------ *)
Lemma skip_line_app cts R : Forall ntok cts -> skip_line (cts ++ TEol :: R) = Some R.
Proof.
  induction cts as [|t ts IH]; intros H; [reflexivity|]. inversion H as [|? ? [N1 N2] H']; subst.
  cbn [app skip_line]. destruct t; try congruence; apply IH; exact H'.
Qed.

Lemma hdr_app hts R : Forall ntok hts -> hdr (hts ++ TEol :: R) = Some (drop_eols R).
Proof.
  induction hts as [|t ts IH]; intros H; [reflexivity|]. inversion H as [|? ? [N1 N2] H']; subst.
  cbn [app hdr]. destruct t; try congruence; apply IH; exact H'.
Qed.

Lemma ploop_ws f r (rows : list ClustalParse.row) nb cur nbk :
  ploop (S f) (TWs :: r) rows nb cur nbk =
  if Nat.eqb cur 0 then RErr
  else if negb (Nat.eqb nb 0) && negb (Nat.eqb cur nb) then RErr
  else match skip_line r with
       | None => RErr
       | Some r1 =>
           let '(t2, r2) := next r1 in
           match t2 with
           | TEof => finish rows
           | TEol =>
               let '(t3, r3) := next (drop_eols r2) in
               match t3 with
               | TEof => finish rows
               | _ => match seq_line t3 r3 rows 0 (S nbk) with
                      | Some (r', rows') => ploop f r' rows' cur 1 (S nbk)
                      | None => RErr
                      end
               end
           | _ => RErr
           end
       end.
Proof. reflexivity. Qed.

Lemma PL_cons_end cts (rows : list ClustalParse.row) nb cur nbk : Forall ntok cts -> cur <> O -> (nb = O \/ cur = nb) -> rows <> [] ->
  PL (TWs :: cts ++ [TEol; TEof]) rows nb cur nbk = ROk rows.
Proof.
  intros Hc Hcur Hnb Hr. unfold PL. rewrite ploop_ws.
  destruct (Nat.eqb_spec cur 0) as [E|_]; [congruence|].
  assert (G : negb (Nat.eqb nb 0) && negb (Nat.eqb cur nb) = false).
  { destruct Hnb as [->| ->]; [reflexivity|]. rewrite Nat.eqb_refl. apply andb_false_r. }
  rewrite G. rewrite (skip_line_app cts [TEof] Hc). cbn [next]. unfold finish. destruct rows; [congruence | reflexivity].
Qed.

Lemma PL_cons_next cts nm ch d R (rows : list ClustalParse.row) nb cur nbk :
  Forall ntok cts -> cur <> O -> (nb = O \/ cur = nb) -> word nm -> seqword ch ->
  PL (TWs :: cts ++ TEol :: TEol :: rtoks nm ch d ++ R) rows nb cur nbk =
  match upd_row rows 0 nm ch with Some rows' => PL R rows' cur 1 (S nbk) | None => RErr end.
Proof.
  intros Hc Hcur Hnb Hn Hs. unfold PL. rewrite ploop_ws.
  destruct (Nat.eqb_spec cur 0) as [E|_]; [congruence|].
  assert (G : negb (Nat.eqb nb 0) && negb (Nat.eqb cur nb) = false).
  { destruct Hnb as [->| ->]; [reflexivity|]. rewrite Nat.eqb_refl. apply andb_false_r. }
  rewrite G. rewrite (skip_line_app cts _ Hc). cbn [next]. unfold rtoks. cbn [app].
  assert (Ed : drop_eols (classify nm :: TWs :: classify ch :: TWs :: TNumeric d :: TEol :: R) =
               classify nm :: TWs :: classify ch :: TWs :: TNumeric d :: TEol :: R).
  { destruct (classify_cases nm) as [E|[E|E]]; rewrite E; reflexivity. }
  rewrite Ed. cbn [next].
  rewrite (seq_line_row nm ch d R rows 0 (S nbk) Hn Hs). cbn [Nat.eqb].
  assert (Hm : forall X Y : res, match classify nm with TEof => X | _ => Y end = Y).
  { intros X Y. destruct (classify_cases nm) as [E|[E|E]]; rewrite E; reflexivity. }
  rewrite Hm. destruct (upd_row rows 0 nm ch) as [rows'|]; [|reflexivity].
  apply ploop_fuel; cbn [length]; rewrite ?app_length; cbn [length]; lia.
Qed.

(* ---- the written file ------------------------------------------------------------------------------------------------- *)
Lemma join_lines_app (x y : list (list byte)) : join_lines (x ++ y) = join_lines x ++ join_lines y.
Proof. unfold join_lines. apply flat_map_app. Qed.

Lemma spaces_line_toks k syms : forallb lineb syms = true -> exists cts,
  Forall ntok cts /\ forall rest, lex_all ((repeat ClustalParse.SP (S k) ++ syms) ++ ClustalParse.NL :: rest) = TWs :: cts ++ TEol :: lex_all rest.
Proof.
  intros Hs. assert (Hl : forallb lineb (repeat ClustalParse.SP (S k) ++ syms) = true).
  { rewrite forallb_app. apply andb_true_iff. split; [|exact Hs].
    apply forallb_forall. intros b Hb. apply repeat_spec in Hb. subst b. reflexivity. }
  destruct (ltoks_space k syms) as [cts Ect]. exists cts.
  pose proof (lex_line _ [] Hl) as [_ Hnt]. rewrite Ect in Hnt. inversion Hnt; subst. split; [assumption|].
  intros rest. destruct (lex_line _ rest Hl) as [E _]. rewrite Ect in E. exact E.
Qed.

Section File.
Variables (alphabet : Z) (w L namew : nat) (a : list ClustalParse.row).
Hypothesis Hw : 0 < w.
Hypothesis Ha : a <> [].
Hypothesis HL : (Z.of_nat L < 9223372036854775808)%Z.
Hypothesis Hrows : forall r, In r a ->
  word (fst r) /\ length (fst r) + 3 <= namew /\ length (snd r) = L /\ forallb resb (snd r) = true.

Definition dof (c : nat) (s : list byte) : list byte := dec_of_nat (Nat.min (c + w) (length s)).
Definition rowline (c e : nat) (r : ClustalParse.row) : list byte :=
  pad_to namew (fst r) ++ firstn (e - c) (skipn c (snd r)) ++ Phylip.SP :: dec_of_nat (Nat.min (c + w) (length (snd r))).
Definition consline (c e : nat) : list byte :=
  repeat Phylip.SP namew ++
  map (fun pos => cons_symbol (site_conservation alphabet (map (fun r : Phylip.row => nth pos (snd r) x00) a)))
      (seq c (match a with [] => 0 | _ => e - c end)).

Lemma chunk_good c e r : In r a -> c < e -> e <= L -> goodrow c e r.
Proof.
  intros Hin Hce HeL. destruct (Hrows r Hin) as [Hn [_ [Hlen Hres]]]. split; [exact Hn|]. unfold chunk. split.
  - intros E. assert (Hl : length (firstn (e - c) (skipn c (snd r))) = 0) by (rewrite E; reflexivity).
    rewrite firstn_length, skipn_length in Hl. lia.
  - apply forallb_forall. intros b Hb. rewrite forallb_forall in Hres. apply Hres.
    apply (in_skipn b c). apply (in_firstn b (e - c)). exact Hb.
Qed.

Lemma lex_rows c e rest : c < e -> e <= L -> forall todo, (forall r, In r todo -> In r a) ->
  lex_all (join_lines (map (rowline c e) todo) ++ rest) = flat_map (rtoks_of c e (dof c)) todo ++ lex_all rest.
Proof.
  intros Hce HeL. induction todo as [|r t IH]; intros Hsub; [reflexivity|].
  cbn [map flat_map]. unfold join_lines in *. cbn [flat_map]. rewrite <- !app_assoc.
  destruct (Hrows r (Hsub r (or_introl eq_refl))) as [Hn [Hnw [Hlen _]]].
  destruct (chunk_good c e r (Hsub r (or_introl eq_refl)) Hce HeL) as [_ Hc].
  unfold rowline at 1. unfold pad_to. rewrite <- !app_assoc. cbn [app].
  replace (namew - length (fst r)) with (S (namew - length (fst r) - 1)) by lia.
  assert (Hk : (Z.of_nat (Nat.min (c + w) (length (snd r))) < 9223372036854775808)%Z) by lia.
  change Phylip.SP with ClustalParse.SP. change Phylip.NL with ClustalParse.NL.
  change (firstn (e - c) (skipn c (snd r))) with (chunk c e (snd r)).
  rewrite (lex_rowline (fst r) (chunk c e (snd r)) _ _ _ Hn Hc Hk).
  unfold rtoks_of at 1. unfold rtoks, dof. cbn [app]. repeat f_equal.
  apply IH. intros x Hx. apply Hsub. right. exact Hx.
Qed.

Lemma cons_symbol_lineb z : lineb (cons_symbol z) = true.
Proof. unfold cons_symbol. destruct (Z.eqb z 0); [reflexivity|]. destruct (Z.eqb z 1); [reflexivity|]. destruct (Z.eqb z 2); reflexivity. Qed.

Lemma consline_toks c e : 3 <= namew -> exists cts,
  Forall ntok cts /\ forall rest, lex_all (consline c e ++ ClustalParse.NL :: rest) = TWs :: cts ++ TEol :: lex_all rest.
Proof.
  intros Hn. unfold consline. change Phylip.SP with ClustalParse.SP. replace namew with (S (namew - 1)) by lia.
  apply spaces_line_toks. apply forallb_forall. intros b Hb. apply in_map_iff in Hb as [pos [<- _]]. apply cons_symbol_lineb.
Qed.
Hypothesis Hnamew : 3 <= namew.

Lemma newf_full : map (newf L) a = a.
Proof.
  rewrite <- (map_id a) at 2. apply map_ext_in. intros r Hr. destruct (Hrows r Hr) as [_ [_ [Hlen _]]].
  unfold newf. rewrite firstn_all2 by lia. destruct r; reflexivity.
Qed.

Lemma lex_nil : lex_all [] = [TEof].
Proof. reflexivity. Qed.

Lemma lex_block f c : c < L -> 0 < c -> exists cts', Forall ntok cts' /\
  lex_all (join_lines (clustal_blocks (S f) alphabet w c L namew a)) =
  TEol :: flat_map (rtoks_of c (Nat.min (c + w) L) (dof c)) a ++ TWs :: cts' ++ TEol :: lex_all (join_lines (clustal_blocks f alphabet w (c + w) L namew a)).
Proof.
  intros Hlt Hc0. cbn [clustal_blocks]. destruct (Nat.ltb_spec c L) as [_|Hge]; [|lia].
  destruct (Nat.eqb_spec c 0) as [E0|_]; [lia|].
  set (e := Nat.min (c + w) L).
  assert (Hce : c < e) by (unfold e; lia). assert (HeL : e <= L) by (unfold e; lia).
  destruct (consline_toks c e Hnamew) as [cts' [Hcts' Elex']]. exists cts'. split; [exact Hcts'|].
  rewrite !join_lines_app. change (join_lines [[]]) with [ClustalParse.NL]. cbn [app].
  rewrite (lex_all_cons _ _ _ (scan_nl _) ltac:(discriminate)). f_equal.
  change (map (fun r : Phylip.row => pad_to namew (fst r) ++ firstn (e - c) (skipn c (snd r)) ++ Phylip.SP :: dec_of_nat (Nat.min (c + w) (length (snd r)))) a)
    with (map (rowline c e) a).
  rewrite (lex_rows c e _ Hce HeL a (fun r H => H)). f_equal.
  unfold join_lines at 1. cbn [flat_map]. rewrite app_nil_r, <- app_assoc. cbn [app].
  apply (Elex' (join_lines (clustal_blocks f alphabet w (c + w) L namew a))).
Qed.

Lemma lex_block0 f : 0 < L -> exists cts', Forall ntok cts' /\
  lex_all (join_lines (clustal_blocks (S f) alphabet w 0 L namew a)) =
  flat_map (rtoks_of 0 (Nat.min w L) (dof 0)) a ++ TWs :: cts' ++ TEol :: lex_all (join_lines (clustal_blocks f alphabet w w L namew a)).
Proof.
  intros HL0. cbn [clustal_blocks]. destruct (Nat.ltb_spec 0 L) as [_|Hge]; [|lia]. cbn [Nat.eqb Nat.add app].
  set (e := Nat.min w L).
  assert (Hce : 0 < e) by (unfold e; lia). assert (HeL : e <= L) by (unfold e; lia).
  destruct (consline_toks 0 e Hnamew) as [cts' [Hcts' Elex']]. exists cts'. split; [exact Hcts'|].
  rewrite !join_lines_app.
  change (map (fun r : Phylip.row => pad_to namew (fst r) ++ firstn (e - 0) (skipn 0 (snd r)) ++ Phylip.SP :: dec_of_nat (Nat.min w (length (snd r)))) a)
    with (map (rowline 0 e) a).
  rewrite (lex_rows 0 e _ Hce HeL a (fun r H => H)). f_equal.
  unfold join_lines at 1. cbn [flat_map]. rewrite <- app_assoc. cbn [app].
  exact (Elex' (join_lines (clustal_blocks f alphabet w w L namew a))).
Qed.

(* from the conservation line of a block on: the remaining blocks are appended row by row *)
Lemma tail_run : forall fuel c nbk cts nb, Forall ntok cts -> 0 < c -> L <= c + fuel * w -> (nb = O \/ length a = nb) ->
  PL (TWs :: cts ++ TEol :: lex_all (join_lines (clustal_blocks fuel alphabet w c L namew a)))
     (map (newf (Nat.min c L)) a) nb (length a) nbk = ROk a.
Proof.
  induction fuel as [|f IH]; intros c nbk cts nb Hc Hc0 Hfuel Hnb.
  - cbn [clustal_blocks]. change (join_lines []) with (@nil byte). rewrite lex_nil.
    replace (Nat.min c L) with L by lia. rewrite newf_full.
    apply PL_cons_end; try assumption; destruct a; [congruence | discriminate].
  - destruct (Nat.lt_ge_cases c L) as [Hlt|Hge].
    2:{ cbn [clustal_blocks]. destruct (Nat.ltb_spec c L) as [?|_]; [lia|].
        change (join_lines []) with (@nil byte). rewrite lex_nil. replace (Nat.min c L) with L by lia. rewrite newf_full.
        apply PL_cons_end; try assumption; destruct a; [congruence | discriminate]. }
    destruct (lex_block f c Hlt Hc0) as [cts' [Hcts' Etoks]]. rewrite Etoks. clear Etoks.
    set (e := Nat.min (c + w) L).
    assert (Hce : c < e) by (unfold e; lia). assert (HeL : e <= L) by (unfold e; lia).
    replace (Nat.min c L) with c by lia.
    assert (Ea : exists r0 a', a = r0 :: a') by (destruct a as [|r0 a']; [congruence | eauto]).
    destruct Ea as [r0 [a' Ea]].
    assert (Hin0 : In r0 a) by (rewrite Ea; left; reflexivity).
    assert (Hsub : forall r, In r a' -> In r a) by (intros r Hr; rewrite Ea; right; exact Hr).
    destruct (chunk_good c e r0 Hin0 Hce HeL) as [Hn0 Hc0'].
    rewrite Ea. cbn [flat_map map]. unfold rtoks_of at 1. rewrite <- app_assoc.
    assert (Hlen : length (r0 :: a') <> O) by discriminate.
    assert (Hnb' : nb = O \/ length (r0 :: a') = nb) by (rewrite <- Ea; exact Hnb).
    rewrite (PL_cons_next cts (fst r0) (chunk c e (snd r0)) (dof c (snd r0)) _ _ nb (length (r0 :: a')) nbk Hc Hlen Hnb' Hn0 Hc0').
    unfold newf at 1. cbn [fst snd].
    assert (Eu : upd_row ((fst r0, firstn c (snd r0)) :: map (newf c) a') 0 (fst r0) (chunk c e (snd r0)) =
                 Some ((fst r0, firstn c (snd r0) ++ chunk c e (snd r0)) :: map (newf c) a'))
      by exact (upd_row_mid [] (fst r0) (firstn c (snd r0)) (chunk c e (snd r0)) (map (newf c) a')).
    rewrite (firstn_chunk c e (snd r0) ltac:(lia)) in Eu.
    match goal with |- match ?u with _ => _ end = _ => destruct u as [rows'|] eqn:Eu' end.
    2:{ pose proof (eq_trans (eq_sym Eu') Eu) as Q. discriminate Q. }
    assert (Er : rows' = (fst r0, firstn e (snd r0)) :: map (newf c) a')
      by (pose proof (eq_trans (eq_sym Eu') Eu) as Q; injection Q; auto).
    rewrite Er. clear Eu Eu' Er rows'.
    change ((fst r0, firstn e (snd r0)) :: map (newf c) a') with ([newf e r0] ++ map (oldf c) a').
    change 1 with (length [newf e r0]).
    rewrite (run_rows_later c e (dof c) (length (r0 :: a')) (S nbk) _ ltac:(discriminate) ltac:(lia) a' [newf e r0]).
    2:{ apply Forall_forall. intros r Hr. apply chunk_good; [apply Hsub; exact Hr | exact Hce | exact HeL]. }
    cbn [app length].
    change (newf e r0 :: map (newf e) a') with (map (newf e) (r0 :: a')).
    change (1 + length a') with (length (r0 :: a')). rewrite <- Ea.
    apply IH; [exact Hcts' | lia | lia | right; rewrite Ea; reflexivity].
Qed.
End File.

(* ---- the round trip ---------------------------------------------------------------------------------------------------- *)
Definition hdrline : list byte := unbs "CLUSTAL W (goalign version "%bs ++ GOALIGN_VERSION ++ unbs ")"%bs.

Lemma hdr_toks : exists hts, Forall ntok hts /\
  forall rest, lex_all (hdrline ++ ClustalParse.NL :: rest) = TClustal KW1 :: hts ++ TEol :: lex_all rest.
Proof.
  assert (Hl : forallb lineb hdrline = true) by (vm_compute; reflexivity).
  assert (E : ltoks hdrline = TClustal KW1 :: List.tl (ltoks hdrline)) by (vm_compute; reflexivity).
  exists (List.tl (ltoks hdrline)). destruct (lex_line hdrline [] Hl) as [_ Hn]. rewrite E in Hn. inversion Hn; subst.
  split; [assumption|]. intros rest. destruct (lex_line hdrline rest Hl) as [Er _]. rewrite E in Er. exact Er.
Qed.

Lemma max_name_ge (a : list ClustalParse.row) r : In r a -> length (fst r) <= fold_right (fun (r : Phylip.row) acc => Nat.max (length (fst r)) acc) 0 a.
Proof. induction a as [|x t IH]; intros H; [destruct H|]. cbn [fold_right]. destruct H as [->|H]; [lia | specialize (IH H); lia]. Qed.

Theorem clustal_roundtrip alphabet (a : list ClustalParse.row) L :
  a <> [] -> 0 < L -> (Z.of_nat L < 9223372036854775808)%Z ->
  (forall r, In r a -> word (fst r) /\ length (snd r) = L /\ forallb resb (snd r) = true) ->
  parse (Clustal.write alphabet a) = ROk a.
Proof.
  intros Ha HL0 HL Hrows.
  set (namew := fold_right (fun (r : Phylip.row) acc => Nat.max (length (fst r)) acc) 0 a + 3).
  assert (Hrows' : forall r, In r a -> word (fst r) /\ length (fst r) + 3 <= namew /\ length (snd r) = L /\ forallb resb (snd r) = true).
  { intros r Hr. destruct (Hrows r Hr) as [H1 [H2 H3]]. pose proof (max_name_ge a r Hr) as Hm. unfold namew.
    split; [exact H1|]. split; [apply Nat.add_le_mono_r; exact Hm|]. split; assumption. }
  assert (Hnamew : 3 <= namew) by (unfold namew; lia).
  assert (Hw : 0 < CLUSTAL_LINE) by (unfold CLUSTAL_LINE; lia).
  assert (Ew : Clustal.write alphabet a =
               hdrline ++ ClustalParse.NL :: ClustalParse.NL :: join_lines (clustal_blocks (S L) alphabet CLUSTAL_LINE 0 L namew a)).
  { unfold namew. destruct a as [|r0 a']; [congruence|].
    assert (EL : length (snd r0) = L) by (apply (Hrows r0); left; reflexivity).
    unfold Clustal.write. cbv zeta. cbv iota. rewrite EL. reflexivity. }
  rewrite Ew. clear Ew.
  unfold parse. destruct hdr_toks as [hts [Hh Eh]]. rewrite Eh.
  rewrite (lex_all_cons _ _ _ (scan_nl _) ltac:(discriminate)).
  rewrite (hdr_app hts _ Hh). cbn [drop_eols].
  destruct (lex_block0 alphabet CLUSTAL_LINE L namew a Hw HL Hrows' Hnamew L HL0) as [cts' [Hc' Eb]].
  rewrite Eb. clear Eb.
  set (e := Nat.min CLUSTAL_LINE L).
  assert (He : 0 < e /\ e <= L) by (unfold e; lia).
  assert (Hgood : Forall (goodrow 0 e) a).
  { apply Forall_forall. intros r Hr. apply (chunk_good CLUSTAL_LINE L namew a Hw Hrows'); [exact Hr | lia | lia]. }
  (* the first token is a name: no empty line to drop *)
  assert (Ed : forall R, drop_eols (flat_map (rtoks_of 0 e (dof CLUSTAL_LINE 0)) a ++ R) = flat_map (rtoks_of 0 e (dof CLUSTAL_LINE 0)) a ++ R).
  { intros R. destruct a as [|r0 a']; [congruence|].
    assert (G : forall ts, (match ts with TEol :: _ => False | _ => True end) -> drop_eols ts = ts).
    { intros ts Hts. destruct ts as [|t ts']; [reflexivity|]. destruct t; try reflexivity. destruct Hts. }
    apply G. cbn [flat_map]. unfold rtoks_of at 1. unfold rtoks. cbn [app].
    destruct (classify_cases (fst r0)) as [E|[E|E]]; rewrite E; exact I. }
  rewrite Ed.
  match goal with |- ploop (S (length ?ts)) _ [] 0 0 0 = _ => change (PL ts [] 0 (length (@nil ClustalParse.row)) 0 = ROk a) end.
  etransitivity; [exact (run_rows_first e (dof CLUSTAL_LINE 0) 0 _ a [] Hgood)|].
  cbn [app length Nat.add].
  replace e with (Nat.min CLUSTAL_LINE L) by reflexivity.
  apply (tail_run alphabet CLUSTAL_LINE L namew a Hw Ha HL Hrows' Hnamew L CLUSTAL_LINE 0 cts' 0 Hc' Hw); [nia | left; reflexivity].
Qed.
