(* RefCoordinates (Model/Sites.v ref_coordinates): for every reference row and every window of its
   ungapped residues, the alignment window returned holds exactly the requested residues and starts and
   ends on a residue (hence is the smallest such window). Unbounded. *)
From Coq Require Import List Bool NArith ZArith Lia.
From Coq.Strings Require Import Byte.
Import ListNotations.
From GA.Base Require Import Bytes Case Align.
From GA.Gen Require Import Alpha.
From GA.Model Require Import Sites.
Local Open Scope Z_scope.

Lemma ungapb_cons_gap b t : isgapb b = true -> ungapb (b :: t) = ungapb t.
Proof. unfold ungapb, isgapb. intros H. cbn [filter]. change x2d with GAP. rewrite H. reflexivity. Qed.
Lemma ungapb_cons_res b t : isgapb b = false -> ungapb (b :: t) = b :: ungapb t.
Proof. unfold ungapb, isgapb. intros H. cbn [filter]. change x2d with GAP. rewrite H. reflexivity. Qed.
Lemma isgapb_false_neq b : isgapb b = false -> b <> x2d.
Proof. unfold isgapb. intros H E. subst b. change x2d with GAP in H. rewrite beqb_refl in H. discriminate. Qed.

Section Loop.
  Variables refstart reflen : Z.

  (* inside the window: the start residue has been taken, [r] residues are still to be taken *)
  Lemma phase2 : forall s tmpi ng ast aln,
    refstart <= tmpi < refstart + reflen - 1 ->
    Z.of_nat (length (ungapb s)) >= refstart + reflen - 1 - tmpi ->
    exists ng' m,
      refcoord_loop s tmpi ng ast aln refstart reflen = (ng', ast, aln + Z.of_nat m) /\
      (1 <= m <= length s)%nat /\
      ungapb (firstn m s) = firstn (Z.to_nat (refstart + reflen - 1 - tmpi)) (ungapb s) /\
      nth (m - 1) s x2d <> x2d.
  Proof.
    induction s as [|b t IH]; intros tmpi ng ast aln Ht Hlen; [cbn in Hlen; lia|].
    cbn [refcoord_loop]. destruct (isgapb b) eqn:Eb.
    - rewrite (ungapb_cons_gap b t Eb) in *.
      destruct (Z.ltb_spec tmpi refstart) as [H|_]; [lia|].
      destruct (Z.geb_spec tmpi (refstart + reflen - 1)) as [H|_]; [lia|].
      destruct (IH tmpi (ng + 1) ast (aln + 1) Ht Hlen) as [ng' [m [E [Hm [Hu Hn]]]]].
      exists ng', (S m). split; [rewrite E; f_equal; lia|]. split; [cbn [length]; lia|]. split.
      + cbn [firstn]. rewrite (ungapb_cons_gap b _ Eb). exact Hu.
      + replace (S m - 1)%nat with (S (m - 1)) by lia. cbn [nth]. exact Hn.
    - rewrite (ungapb_cons_res b t Eb) in *. cbn [length] in Hlen.
      destruct (Z.ltb_spec (tmpi + 1) refstart) as [H|_]; [lia|].
      destruct (Z.geb_spec (tmpi + 1) (refstart + reflen - 1)) as [Hend|Hnot].
      + exists ng, 1%nat. split; [f_equal|]. split; [cbn [length]; lia|]. split.
        * cbn [firstn]. rewrite (ungapb_cons_res b [] Eb). cbn.
          replace (Z.to_nat (refstart + reflen - 1 - tmpi)) with 1%nat by lia. reflexivity.
        * cbn. apply isgapb_false_neq. exact Eb.
      + destruct (IH (tmpi + 1) ng ast (aln + 1)) as [ng' [m [E [Hm [Hu Hn]]]]]; [lia | lia|].
        exists ng', (S m). split; [rewrite E; f_equal; lia|]. split; [cbn [length]; lia|]. split.
        * cbn [firstn]. rewrite (ungapb_cons_res b _ Eb), Hu.
          replace (Z.to_nat (refstart + reflen - 1 - tmpi)) with (S (Z.to_nat (refstart + reflen - 1 - (tmpi + 1)))) by lia.
          reflexivity.
        * replace (S m - 1)%nat with (S (m - 1)) by lia. cbn [nth]. exact Hn.
  Qed.

  (* before the window: residues are skipped until the one numbered [refstart] *)
  Lemma phase1 : forall s tmpi ng ast,
    tmpi < refstart -> 0 < reflen -> -1 <= tmpi ->
    Z.of_nat (length (ungapb s)) >= refstart + reflen - 1 - tmpi ->
    exists ng' p m,
      refcoord_loop s tmpi ng ast 0 refstart reflen = (ng', ast + Z.of_nat p, Z.of_nat m) /\
      (1 <= m)%nat /\ (p + m <= length s)%nat /\
      ungapb (firstn m (skipn p s)) =
        firstn (Z.to_nat reflen) (skipn (Z.to_nat (refstart - tmpi - 1)) (ungapb s)) /\
      nth p s x2d <> x2d /\ nth (p + m - 1) s x2d <> x2d.
  Proof.
    induction s as [|b t IH]; intros tmpi ng ast Ht Hl Hm1 Hlen; [cbn in Hlen; lia|].
    cbn [refcoord_loop]. destruct (isgapb b) eqn:Eb.
    - rewrite (ungapb_cons_gap b t Eb) in *.
      destruct (Z.ltb_spec tmpi refstart) as [_|H]; [|lia].
      destruct (IH tmpi (ng + 1) (ast + 1) Ht Hl Hm1 Hlen) as [ng' [p [m [E [H1 [H2 [Hu [Hn1 Hn2]]]]]]]].
      exists ng', (S p), m. split; [rewrite E; f_equal; f_equal; lia|]. split; [exact H1|].
      split; [cbn [length]; lia|]. split; [cbn [skipn]; exact Hu|]. split; [cbn [nth]; exact Hn1|].
      replace (S p + m - 1)%nat with (S (p + m - 1)) by lia. cbn [nth]. exact Hn2.
    - rewrite (ungapb_cons_res b t Eb) in *. cbn [length] in Hlen.
      destruct (Z.ltb_spec (tmpi + 1) refstart) as [Hlt|Hge].
      + destruct (IH (tmpi + 1) ng (ast + 1)) as [ng' [p [m [E [H1 [H2 [Hu [Hn1 Hn2]]]]]]]]; [lia | lia | lia | lia|].
        exists ng', (S p), m. split; [rewrite E; f_equal; f_equal; lia|]. split; [exact H1|].
        split; [cbn [length]; lia|]. split.
        * cbn [skipn]. rewrite Hu.
          replace (Z.to_nat (refstart - tmpi - 1)) with (S (Z.to_nat (refstart - (tmpi + 1) - 1))) by lia. reflexivity.
        * split; [cbn [nth]; exact Hn1|].
          replace (S p + m - 1)%nat with (S (p + m - 1)) by lia. cbn [nth]. exact Hn2.
      + (* this residue is the start of the window *)
        assert (Hs : tmpi + 1 = refstart) by lia.
        replace (Z.to_nat (refstart - tmpi - 1)) with 0%nat by lia. cbn [skipn].
        destruct (Z.geb_spec (tmpi + 1) (refstart + reflen - 1)) as [Hend|Hnot].
        * exists ng, 0%nat, 1%nat. split; [f_equal; f_equal; lia|]. split; [lia|]. split; [cbn [length]; lia|].
          split.
          -- cbn [firstn skipn]. rewrite (ungapb_cons_res b [] Eb). replace (Z.to_nat reflen) with 1%nat by lia. reflexivity.
          -- cbn. split; apply isgapb_false_neq; exact Eb.
        * destruct (phase2 t (tmpi + 1) ng ast (0 + 1)) as [ng' [m [E [Hm [Hu Hn]]]]]; [lia | lia|].
          exists ng', 0%nat, (S m). split; [rewrite E; f_equal; [f_equal; lia | lia]|]. split; [lia|].
          split; [cbn [length]; lia|]. split.
          -- cbn [skipn firstn]. rewrite (ungapb_cons_res b _ Eb), Hu.
             replace (Z.to_nat reflen) with (S (Z.to_nat (refstart + reflen - 1 - (tmpi + 1)))) by lia. reflexivity.
          -- split; [cbn; apply isgapb_false_neq; exact Eb|].
             replace (0 + S m - 1)%nat with (S (m - 1)) by lia. cbn [nth]. exact Hn.
  Qed.
End Loop.

Theorem refcoordinates_window rs name s l st ln ref :
  get_seq name rs = Some ref -> 0 <= s -> 0 < l -> s + l <= Z.of_nat (length (ungapb ref)) ->
  ref_coordinates rs name s l = Some (st, ln, false) ->
  ungapb (firstn (Z.to_nat ln) (skipn (Z.to_nat st) ref)) =
    firstn (Z.to_nat l) (skipn (Z.to_nat s) (ungapb ref)) /\
  nth (Z.to_nat st) ref x2d <> x2d /\ nth (Z.to_nat (st + ln - 1)) ref x2d <> x2d.
Proof.
  intros Hg Hs Hl Hsl H. unfold ref_coordinates in H. rewrite Hg in H.
  destruct (Z.ltb_spec s 0) as [?|_]; [lia|]. destruct (Z.leb_spec l 0) as [?|_]; [lia|].
  destruct (phase1 s l ref (-1) 0 0) as [ng' [p [m [E [H1 [H2 [Hu [Hn1 Hn2]]]]]]]]; [lia | lia | lia | lia|].
  rewrite E in H. injection H as <- <- _.
  replace (Z.to_nat (s - -1 - 1)) with (Z.to_nat s) in Hu by lia.
  cbn [Z.add]. rewrite !Nat2Z.id.
  replace (Z.to_nat (Z.of_nat p + Z.of_nat m - 1)) with (p + m - 1)%nat by lia.
  auto.
Qed.

(* the flag: a window reaching beyond the ungapped reference is reported as an error *)
Lemma refcoord_loop_all_gaps_counted refstart reflen : forall s tmpi ng ast aln,
  Z.of_nat (length (ungapb s)) < refstart + reflen - 1 - tmpi ->
  exists st ln, refcoord_loop s tmpi ng ast aln refstart reflen =
                (ng + Z.of_nat (length s) - Z.of_nat (length (ungapb s)), st, ln).
Proof.
  induction s as [|b t IH]; intros tmpi ng ast aln H; cbn [refcoord_loop].
  - cbn. exists ast, aln. f_equal. f_equal. lia.
  - destruct (isgapb b) eqn:Eb.
    + rewrite (ungapb_cons_gap b t Eb) in *. cbn [length].
      destruct (Z.ltb_spec tmpi refstart).
      * destruct (IH tmpi (ng + 1) (ast + 1) aln H) as [st [ln E]]. exists st, ln. rewrite E. f_equal. f_equal. lia.
      * destruct (Z.geb_spec tmpi (refstart + reflen - 1)); [lia|].
        destruct (IH tmpi (ng + 1) ast (aln + 1) H) as [st [ln E]]. exists st, ln. rewrite E. f_equal. f_equal. lia.
    + rewrite (ungapb_cons_res b t Eb) in *. cbn [length] in *.
      destruct (Z.ltb_spec (tmpi + 1) refstart).
      * destruct (IH (tmpi + 1) ng (ast + 1) aln) as [st [ln E]]; [lia|]. exists st, ln. rewrite E. f_equal. f_equal. lia.
      * destruct (Z.geb_spec (tmpi + 1) (refstart + reflen - 1)); [lia|].
        destruct (IH (tmpi + 1) ng ast (aln + 1)) as [st [ln E]]; [lia|]. exists st, ln. rewrite E. f_equal. f_equal. lia.
Qed.

Theorem refcoordinates_outside_is_error rs name s l ref :
  get_seq name rs = Some ref -> 0 <= s -> 0 < l -> s + l > Z.of_nat (length (ungapb ref)) ->
  exists st ln, ref_coordinates rs name s l = Some (st, ln, true).
Proof.
  intros Hg Hs Hl Hsl. unfold ref_coordinates. rewrite Hg.
  destruct (Z.ltb_spec s 0) as [?|_]; [lia|]. destruct (Z.leb_spec l 0) as [?|_]; [lia|].
  destruct (refcoord_loop_all_gaps_counted s l ref (-1) 0 0 0) as [st [ln E]]; [lia|].
  rewrite E. exists st, ln. f_equal. f_equal. apply Z.gtb_lt. lia.
Qed.
