(* The modelled Clustal lexer and parser (Model/ClustalParse.v) are total with honest fuel: every Scan that does not
   report EOF consumes a byte, every turn of the parser's loop consumes a token, so any larger fuel gives the same
   result; and for EVERY byte string the outcome is an error or at least one row, every row with a non-empty name and a
   non-empty sequence. *)
From Coq Require Import List Arith Lia Bool NArith ZArith.
From Coq.Strings Require Import Byte.
Import ListNotations.
From GA.Base Require Import Bytes Case.
From GA.Model Require Import ClustalParse.

Lemma run_len p l : length (snd (run p l)) <= length l.
Proof.
  induction l as [|b t IH]; cbn [run]; [cbn; lia|].
  destruct (beqb b NUL); [cbn; lia|]. destruct (p b); [|cbn; lia].
  destruct (run p t) as [a r]. cbn [snd length] in *. lia.
Qed.

Lemma scan_shrinks l t r : scan l = (t, r) -> t <> TEof -> length r < length l.
Proof.
  intros E Ht. destruct l as [|b t0]; [cbn in E; inversion E; subst; congruence|].
  unfold scan in E. destruct (is_ws b).
  { inversion E; subst. pose proof (run_len is_ws t0). cbn [length]. lia. }
  destruct (beqb b NL). { inversion E; subst. cbn. lia. }
  destruct (beqb b CR).
  { destruct t0 as [|c t']; [inversion E; subst; cbn; lia|]. destruct (beqb c NL); inversion E; subst; cbn; lia. }
  destruct (beqb b NUL). { inversion E; subst; congruence. }
  pose proof (run_len is_identch t0). destruct (run is_identch t0) as [a r0]. inversion E; subst. cbn [snd length] in *. lia.
Qed.

Lemma lex_fuel2 : forall f1 f2 l, length l < f1 -> length l < f2 -> lex f1 l = lex f2 l.
Proof.
  induction f1 as [|f1 IH]; intros f2 l H1 H2; [lia|].
  destruct f2 as [|f2]; [lia|]. cbn [lex].
  destruct (scan l) as [t r] eqn:E.
  destruct t; try reflexivity; f_equal; apply IH;
    pose proof (scan_shrinks l _ r E ltac:(discriminate)); lia.
Qed.

Theorem clustal_lex_terminates inp f : length inp < f -> lex f inp = lex_all inp.
Proof. intros H. unfold lex_all. apply lex_fuel2; lia. Qed.

(* literals are never empty *)
Definition tok_ok (t : tok) : Prop :=
  match t with TIdent l | TNumeric l | TClustal l => l <> [] | _ => True end.

Lemma classify_ok b a : tok_ok (classify (b :: a)).
Proof.
  unfold classify. destruct (bytes_eqb (map to_upper (b :: a)) KW1 || bytes_eqb (map to_upper (b :: a)) KW2); [cbn; discriminate|].
  destruct (is_int64 (b :: a)); cbn; discriminate.
Qed.

Lemma scan_ok l : tok_ok (fst (scan l)).
Proof.
  destruct l as [|b t]; [exact I|]. unfold scan.
  destruct (is_ws b); [exact I|]. destruct (beqb b NL); [exact I|].
  destruct (beqb b CR). { destruct t as [|c t']; [exact I|]. destruct (beqb c NL); exact I. }
  destruct (beqb b NUL); [exact I|].
  destruct (run is_identch t) as [a r]. cbn [fst]. apply classify_ok.
Qed.

Lemma lex_ok : forall f l, Forall tok_ok (lex f l).
Proof.
  induction f as [|f IH]; intros l; cbn [lex]; [repeat constructor|].
  pose proof (scan_ok l) as H. destruct (scan l) as [t r]. cbn [fst] in H.
  destruct t; try (constructor; [exact H | apply IH]). repeat constructor.
Qed.

(* suffixes *)
Lemma drop_eols_len ts : length (drop_eols ts) <= length ts.
Proof. induction ts as [|t r IH]; [cbn; lia|]. destruct t; cbn [drop_eols length]; lia. Qed.
Lemma drop_eols_ok ts : Forall tok_ok ts -> Forall tok_ok (drop_eols ts).
Proof. induction ts as [|t r IH]; intros H; [exact H|]. destruct t; cbn [drop_eols]; try exact H. apply IH. inversion H; assumption. Qed.
Lemma hdr_spec : forall ts r, hdr ts = Some r -> length r < length ts /\ (Forall tok_ok ts -> Forall tok_ok r).
Proof.
  induction ts as [|t ts IH]; intros r H; [discriminate|].
  destruct t; cbn [hdr] in H; try discriminate;
    try (apply IH in H as [L F]; split; [cbn [length]; lia | intros G; apply F; inversion G; assumption]).
  injection H as <-. split; [pose proof (drop_eols_len ts); cbn [length]; lia | intros G; apply drop_eols_ok; inversion G; assumption].
Qed.
Lemma skip_line_spec : forall ts r, skip_line ts = Some r -> length r < length ts /\ (Forall tok_ok ts -> Forall tok_ok r).
Proof.
  induction ts as [|t ts IH]; intros r H; [discriminate|].
  destruct t; cbn [skip_line] in H; try discriminate;
    try (apply IH in H as [L F]; split; [cbn [length]; lia | intros G; apply F; inversion G; assumption]).
  injection H as <-. split; [cbn [length]; lia | intros G; inversion G; assumption].
Qed.
Lemma next_spec ts t r : next ts = (t, r) ->
  length r <= length ts /\ (t <> TEof -> length r < length ts) /\ (Forall tok_ok ts -> tok_ok t /\ Forall tok_ok r).
Proof.
  destruct ts as [|t0 r0]; cbn [next]; intros H; injection H as <- <-.
  - split; [lia|]. split; [congruence|]. intros _. split; [exact I | constructor].
  - split; [cbn; lia|]. split; [cbn; lia|]. intros G. inversion G; split; assumption.
Qed.

Lemma in_firstn {A} (x : A) n l : In x (firstn n l) -> In x l.
Proof. intros H. rewrite <- (firstn_skipn n l). apply in_or_app. left. exact H. Qed.
Lemma in_skipn {A} (x : A) n l : In x (skipn n l) -> In x l.
Proof. intros H. rewrite <- (firstn_skipn n l). apply in_or_app. right. exact H. Qed.

Definition rows_ok (rows : list row) : Prop := Forall (fun r => fst r <> [] /\ snd r <> []) rows.

Lemma upd_row_ok rows cur nm s rows' : rows_ok rows -> upd_row rows cur nm s = Some rows' -> rows_ok rows'.
Proof.
  unfold upd_row, rows_ok. intros H E. destruct (nth_error rows cur) as [[n sq]|] eqn:En; [|discriminate].
  destruct (bytes_eqb n nm); [|discriminate]. injection E as <-.
  apply nth_error_In in En. rewrite Forall_forall in H. pose proof (H _ En) as [Hn Hs]. cbn [fst snd] in Hn, Hs.
  apply Forall_app. split; [apply Forall_forall; intros x Hx; apply H; apply (in_firstn x cur rows); exact Hx|].
  constructor; [cbn [fst snd]; split; [exact Hn | destruct sq; [congruence | discriminate]]|].
  apply Forall_forall. intros x Hx. apply H. apply (in_skipn x (S cur) rows). exact Hx.
Qed.

(* one sequence line: consumes at least one token, keeps the rows well formed *)
Lemma seq_line_spec t r rows cur nblocks r' rows' :
  seq_line t r rows cur nblocks = Some (r', rows') ->
  length r' < length r /\
  (tok_ok t -> Forall tok_ok r -> rows_ok rows -> Forall tok_ok r' /\ rows_ok rows' /\ rows' <> []).
Proof.
  unfold seq_line. intros H.
  destruct (match t with TIdent l | TNumeric l | TClustal l => Some l | _ => None end) as [nm|] eqn:Enm; [|discriminate].
  destruct (next r) as [t1 r1] eqn:E1. destruct t1; try discriminate.
  destruct (next r1) as [t2 r2] eqn:E2.
  destruct (match t2 with TIdent l | TClustal l => Some l | _ => None end) as [sq|] eqn:Esq; [|discriminate].
  destruct (next r2) as [t3 r3] eqn:E3.
  destruct (next_spec _ _ _ E1) as [L1 [L1' F1]]. destruct (next_spec _ _ _ E2) as [L2 [L2' F2]]. destruct (next_spec _ _ _ E3) as [L3 [L3' F3]].
  specialize (L1' ltac:(discriminate)).
  assert (Hafter : exists r5, (match t3 with
                               | TWs => match next r3 with (TNumeric _, r4) => Some (next r4) | _ => None end
                               | _ => Some (t3, r3) end) = Some (TEol, r5) /\ length r5 <= length r3 /\ (Forall tok_ok r3 -> Forall tok_ok r5) /\
            ((Nat.eqb nblocks 0 = true /\ r' = r5 /\ rows' = rows ++ [(nm, sq)]) \/
             (Nat.eqb nblocks 0 = false /\ r' = r5 /\ upd_row rows cur nm sq = Some rows'))).
  { destruct t3; try discriminate.
    - (* TEol directly *) exists r3. split; [reflexivity|]. split; [lia|]. split; [auto|].
      destruct (Nat.eqb nblocks 0); [left | right].
      + injection H as <- <-. auto.
      + destruct (upd_row rows cur nm sq) as [rw|] eqn:Eu; [|discriminate]. injection H as <- <-. auto.
    - (* TWs, count *) destruct (next r3) as [t4 r4] eqn:E4. destruct t4; try discriminate.
      destruct (next r4) as [t5 r5] eqn:E5. destruct t5; try discriminate.
      destruct (next_spec _ _ _ E4) as [L4 [_ F4]]. destruct (next_spec _ _ _ E5) as [L5 [_ F5]].
      exists r5. split; [reflexivity|]. split; [lia|]. split; [intros G; apply F5; apply F4; exact G|].
      destruct (Nat.eqb nblocks 0); [left | right].
      + injection H as <- <-. auto.
      + destruct (upd_row rows cur nm sq) as [rw|] eqn:Eu; [|discriminate]. injection H as <- <-. auto. }
  destruct Hafter as [r5 [_ [L5 [F5 Hcase]]]].
  assert (Hlen : length r' < length r) by (destruct Hcase as [[_ [-> _]]|[_ [-> _]]]; lia).
  split; [exact Hlen|]. intros Ht Hr Hrows.
  destruct (F1 Hr) as [_ G1]. destruct (F2 G1) as [T2 G2]. destruct (F3 G2) as [_ G3].
  assert (Hnm : nm <> []) by (destruct t; try discriminate; injection Enm as <-; exact Ht).
  assert (Hsq : sq <> []) by (destruct t2; try discriminate; injection Esq as <-; exact T2).
  destruct Hcase as [[_ [-> ->]]|[_ [-> Hu]]].
  - split; [apply F5; exact G3|]. split; [apply Forall_app; split; [exact Hrows | constructor; [split; assumption | constructor]]|].
    destruct rows; discriminate.
  - split; [apply F5; exact G3|]. split; [eapply upd_row_ok; eassumption|].
    unfold upd_row in Hu. destruct (nth_error rows cur) as [[n0 s0]|]; [|discriminate]. destruct (bytes_eqb n0 nm); [|discriminate].
    injection Hu as <-. destruct (firstn cur rows); discriminate.
Qed.

(* the loop: enough fuel is any fuel above the number of tokens left *)
Lemma ploop_fuel : forall f1 f2 ts rows nbseq cur nblocks,
  length ts < f1 -> length ts < f2 -> ploop f1 ts rows nbseq cur nblocks = ploop f2 ts rows nbseq cur nblocks.
Proof.
  induction f1 as [|f1 IH]; intros f2 ts rows nbseq cur nblocks H1 H2; [lia|]. destruct f2 as [|f2]; [lia|].
  cbn [ploop]. destruct (next ts) as [t r] eqn:En. destruct (next_spec _ _ _ En) as [L [L' _]].
  assert (Hline : forall tt rr rws c nb nbs c', length rr <= length r -> tt <> TEof \/ True ->
            match seq_line tt rr rws c nb with Some (r', rows') => ploop f1 r' rows' nbs c' nb | None => RErr end =
            match seq_line tt rr rws c nb with Some (r', rows') => ploop f2 r' rows' nbs c' nb | None => RErr end).
  { intros tt rr rws c nb nbs c' Hrr _. destruct (seq_line tt rr rws c nb) as [[r' rows']|] eqn:Es; [|reflexivity].
    apply seq_line_spec in Es as [Ls _]. apply IH; lia. }
  destruct t; try (apply Hline; [lia | right; exact I]).
  (* TWs *)
  specialize (L' ltac:(discriminate)).
  destruct (Nat.eqb cur 0); [reflexivity|]. destruct (negb (Nat.eqb nbseq 0) && negb (Nat.eqb cur nbseq)); [reflexivity|].
  destruct (skip_line r) as [r1|] eqn:Es; [|reflexivity]. apply skip_line_spec in Es as [Ls _].
  destruct (next r1) as [t2 r2] eqn:E2. destruct (next_spec _ _ _ E2) as [L2 _].
  destruct t2; try reflexivity.
  destruct (next (drop_eols r2)) as [t3 r3] eqn:E3. destruct (next_spec _ _ _ E3) as [L3 _]. pose proof (drop_eols_len r2).
  destruct t3; try reflexivity; apply Hline; try lia; right; exact I.
Qed.

Theorem clustal_parser_fuel ts f : length ts < f -> ploop f ts [] 0 0 0 = ploop (S (length ts)) ts [] 0 0 0.
Proof. intros H. apply ploop_fuel; lia. Qed.

Lemma ploop_ok : forall f ts rows nbseq cur nblocks out,
  Forall tok_ok ts -> rows_ok rows -> ploop f ts rows nbseq cur nblocks = ROk out -> rows_ok out /\ out <> [].
Proof.
  induction f as [|f IH]; intros ts rows nbseq cur nblocks out Ht Hr H; [discriminate|].
  cbn [ploop] in H. destruct (next ts) as [t r] eqn:En. destruct (next_spec _ _ _ En) as [_ [_ F]]. destruct (F Ht) as [Tt Tr].
  assert (Hline : forall tt rr c nb nbs c', tok_ok tt -> Forall tok_ok rr ->
            match seq_line tt rr rows c nb with Some (r', rows') => ploop f r' rows' nbs c' nb | None => RErr end = ROk out ->
            rows_ok out /\ out <> []).
  { intros tt rr c nb nbs c' T1 T2 E. destruct (seq_line tt rr rows c nb) as [[r' rows']|] eqn:Es; [|discriminate].
    apply seq_line_spec in Es as [_ G]. destruct (G T1 T2 Hr) as [G1 [G2 _]]. eapply IH; eassumption. }
  destruct t; try (eapply Hline; eassumption).
  destruct (Nat.eqb cur 0); [discriminate|]. destruct (negb (Nat.eqb nbseq 0) && negb (Nat.eqb cur nbseq)); [discriminate|].
  destruct (skip_line r) as [r1|] eqn:Es; [|discriminate]. apply skip_line_spec in Es as [_ Fs]. specialize (Fs Tr).
  destruct (next r1) as [t2 r2] eqn:E2. destruct (next_spec _ _ _ E2) as [_ [_ F2]]. destruct (F2 Fs) as [_ T2].
  assert (Hfin : finish rows = ROk out -> rows_ok out /\ out <> []).
  { unfold finish. destruct rows as [|r0 rws]; [discriminate|]. intros E. injection E as <-. split; [exact Hr | discriminate]. }
  destruct t2; try discriminate; try (apply Hfin; exact H).
  destruct (next (drop_eols r2)) as [t3 r3] eqn:E3. destruct (next_spec _ _ _ E3) as [_ [_ F3]].
  destruct (F3 (drop_eols_ok _ T2)) as [T3 T3r].
  destruct t3; try (apply Hfin; exact H); try (eapply Hline; eassumption).
Qed.

Theorem clustal_parse_wellformed inp rows : parse inp = ROk rows ->
  rows <> [] /\ forall r, In r rows -> fst r <> [] /\ snd r <> [].
Proof.
  unfold parse. intros H. pose proof (lex_ok (S (length inp)) inp) as Hl. fold (lex_all inp) in Hl.
  destruct (lex_all inp) as [|t0 r0]; [discriminate|]. destruct t0; try discriminate.
  destruct (hdr r0) as [r'|] eqn:Eh; [|discriminate]. apply hdr_spec in Eh as [_ Fh].
  inversion Hl as [|? ? _ Hr0]; subst. apply ploop_ok in H; [| apply Fh; exact Hr0 | constructor].
  destruct H as [Ho Hne]. split; [exact Hne|]. intros r Hin. unfold rows_ok in Ho. rewrite Forall_forall in Ho. apply Ho. exact Hin.
Qed.
