From Coq Require Import Reals Lra Lia List Bool ZArith QArith.
From Coq.Strings Require Import Byte.
Import ListNotations.
From GA.Base Require Import Bytes Case Align.
From GA.Model Require Import DnaCount DnaDist.
Local Open Scope R_scope.

(* ---- textbook forms ---------------------------------------------------------------------------- *)
(* K80 as published: d = -1/2 ln ((1 - 2P - Q) sqrt (1 - 2Q)) *)
Lemma k2p_textbook P Q :
  0 < 1 - 2 * P - Q -> 0 < 1 - 2 * Q ->
  k2p P Q = - (1/2) * ln ((1 - 2 * P - Q) * sqrt (1 - 2 * Q)).
Proof.
  intros H1 H2. unfold k2p.
  rewrite ln_mult; [|exact H1 | apply sqrt_lt_R0; exact H2].
  rewrite <- Rpower_sqrt by exact H2. rewrite ln_Rpower. lra.
Qed.

(* JC69 is K80 with equal rates: when P = Q/2 ... the two forms agree on p = P + Q *)
Lemma jc_is_f81_uniform p : jc p = f81 (3/4) p.
Proof. unfold jc, f81. replace (1 - 4 * p / 3) with (1 - p / (3/4)) by field. lra. Qed.

(* ---- identical sequences are at distance 0 --------------------------------------------------------- *)
Lemma jc_zero : jc 0 = 0.
Proof. unfold jc. replace (1 - 4 * 0 / 3) with 1 by lra. rewrite ln_1. lra. Qed.
Lemma k2p_zero : k2p 0 0 = 0.
Proof. unfold k2p. replace (1 - 2 * 0 - 0) with 1 by lra. replace (1 - 2 * 0) with 1 by lra. rewrite ln_1. lra. Qed.
Lemma f81_zero b1 : b1 <> 0 -> f81 b1 0 = 0.
Proof. intros H. unfold f81. replace (1 - 0 / b1) with 1 by (field; exact H). rewrite ln_1. lra. Qed.
Lemma f84_zero a b c : a <> 0 -> c <> 0 -> f84 a b c 0 0 = 0.
Proof.
  intros Ha Hc. unfold f84.
  replace (1 - 0 / (2 * a) - (a - b) * 0 / (2 * a * c)) with 1 by (field; auto).
  replace (1 - 0 / (2 * c)) with 1 by (field; auto). rewrite ln_1. lra.
Qed.
Lemma jc_gamma_zero a : a <> 0 -> jc_gamma a 0 = 0.
Proof.
  intros Ha. unfold jc_gamma. replace (1 - 4 * 0 / 3) with 1 by lra.
  unfold Rpower. rewrite ln_1, Rmult_0_r, exp_0. lra.
Qed.

(* ---- a corrected distance is never below the observed proportion ------------------------------------- *)
Lemma ln_le_minus x : 0 < 1 - x -> ln (1 - x) <= - x.
Proof.
  intros Hpos. destruct (Req_dec x 0) as [->|Hne].
  - replace (1 - 0) with 1 by lra. rewrite ln_1. lra.
  - rewrite <- (ln_exp (- x)). apply Rlt_le. apply ln_increasing; [exact Hpos|].
    pose proof (exp_ineq1 (- x)) as H1. assert (- x <> 0) by lra. specialize (H1 H). lra.
Qed.

Theorem jc_ge_p p : 0 <= p < 3/4 -> p <= jc p.
Proof.
  intros [H0 H1]. unfold jc.
  pose proof (ln_le_minus (4 * p / 3)) as H. assert (0 < 1 - 4 * p / 3) by lra. specialize (H H2). lra.
Qed.

Theorem f81_ge_p b1 p : 0 < b1 -> 0 <= p < b1 -> p <= f81 b1 p.
Proof.
  intros Hb [H0 H1]. unfold f81.
  assert (Hq : 0 <= p / b1 < 1).
  { split; [apply Rmult_le_pos; [lra | apply Rlt_le, Rinv_0_lt_compat; lra]|].
    apply (Rmult_lt_reg_r b1); [lra|]. unfold Rdiv. rewrite Rmult_assoc, Rinv_l by lra. lra. }
  pose proof (ln_le_minus (p / b1)) as H. assert (0 < 1 - p / b1) by lra. specialize (H H2).
  assert (b1 * ln (1 - p / b1) <= b1 * - (p / b1)) by (apply Rmult_le_compat_l; lra).
  replace (b1 * - (p / b1)) with (- p) in H3 by (field; lra). lra.
Qed.

(* K80: d >= P + Q *)
Theorem k2p_ge_p P Q : 0 <= P -> 0 <= Q -> 0 < 1 - 2 * P - Q -> 0 < 1 - 2 * Q -> P + Q <= k2p P Q.
Proof.
  intros HP HQ H1 H2. unfold k2p.
  pose proof (ln_le_minus (2 * P + Q)) as A. replace (1 - (2 * P + Q)) with (1 - 2 * P - Q) in A by lra. specialize (A H1).
  pose proof (ln_le_minus (2 * Q)) as B. specialize (B H2). lra.
Qed.

(* ---- counters: symmetry ------------------------------------------------------------------------------- *)
Local Open Scope Q_scope.
Lemma iupac_diff_sym a b : iupac_diff a b = iupac_diff b a.
Proof. unfold iupac_diff. rewrite (Z.eqb_sym a b), Z.land_comm. reflexivity. Qed.

Lemma count_diffs_from_sym i s1 s2 sel ws rm :
  count_diffs_from i s1 s2 sel ws rm = count_diffs_from i s2 s1 sel ws rm.
Proof.
  revert i s2. induction s1 as [|a t1 IH]; intros i [|b t2]; simpl; try reflexivity.
  rewrite IH. rewrite (andb_comm (is_nuc a) (is_nuc b)), (Z.eqb_sym a b), iupac_diff_sym,
    (orb_comm (is_ambiguous a) (is_ambiguous b)). reflexivity.
Qed.

Theorem count_diffs_sym s1 s2 sel ws rm : count_diffs s1 s2 sel ws rm = count_diffs s2 s1 sel ws rm.
Proof. apply count_diffs_from_sym. Qed.

(* identical encoded rows: no difference is counted *)
Lemma count_diffs_from_refl i s sel ws rm : fst (count_diffs_from i s s sel ws rm) == 0.
Proof.
  revert i. induction s as [|a t IH]; intros i; simpl; [reflexivity|].
  specialize (IH (S i)). destruct (count_diffs_from (S i) t t sel ws rm) as [d tt]. simpl in *.
  rewrite Z.eqb_refl. destruct (is_nuc a && is_nuc a && nth i sel false); simpl; [|exact IH].
  rewrite IH. ring.
Qed.

(* ---- the "internal gaps only" counter is symmetric in the two rows ------------------------------------ *)
(* (the bookkeeping of the two trailing-gap accumulators must treat both rows alike) *)
Lemma internal_loop_sym : forall s1 s2 i ws rm fg1 fg2 tmp1 tmp2 d t,
  (fst (internal_loop i s1 s2 ws rm fg1 fg2 tmp1 tmp2 d t) == fst (internal_loop i s2 s1 ws rm fg2 fg1 tmp2 tmp1 d t))%Q /\
  (snd (internal_loop i s1 s2 ws rm fg1 fg2 tmp1 tmp2 d t) == snd (internal_loop i s2 s1 ws rm fg2 fg1 tmp2 tmp1 d t))%Q.
Proof.
  induction s1 as [|a t1 IH]; intros s2 i ws rm fg1 fg2 tmp1 tmp2 d t.
  - destruct s2 as [|b t2]; cbn [internal_loop fst snd];
      destruct (Qle_bool tmp1 tmp2) eqn:E1, (Qle_bool tmp2 tmp1) eqn:E2; try (split; reflexivity).
    + apply Qle_bool_iff in E1. apply Qle_bool_iff in E2. assert (E : (tmp1 == tmp2)%Q) by (apply Qle_antisym; assumption).
      split; rewrite E; reflexivity.
    + exfalso. destruct (Qlt_le_dec tmp2 tmp1) as [H|H].
      * apply Qlt_le_weak in H. apply Qle_bool_iff in H. congruence.
      * apply Qle_bool_iff in H. congruence.
    + apply Qle_bool_iff in E1. apply Qle_bool_iff in E2. assert (E : (tmp1 == tmp2)%Q) by (apply Qle_antisym; assumption).
      split; rewrite E; reflexivity.
    + exfalso. destruct (Qlt_le_dec tmp2 tmp1) as [H|H].
      * apply Qlt_le_weak in H. apply Qle_bool_iff in H. congruence.
      * apply Qle_bool_iff in H. congruence.
  - destruct s2 as [|b t2].
    + cbn [internal_loop fst snd].
      destruct (Qle_bool tmp1 tmp2) eqn:E1, (Qle_bool tmp2 tmp1) eqn:E2; try (split; reflexivity).
      * apply Qle_bool_iff in E1. apply Qle_bool_iff in E2. assert (E : (tmp1 == tmp2)%Q) by (apply Qle_antisym; assumption).
        split; rewrite E; reflexivity.
      * exfalso. destruct (Qlt_le_dec tmp2 tmp1) as [H|H].
        -- apply Qlt_le_weak in H. apply Qle_bool_iff in H. congruence.
        -- apply Qle_bool_iff in H. congruence.
    + cbn [internal_loop].
      rewrite (orb_comm (is_nuc b) (is_nuc a)), (Z.eqb_sym b a), (iupac_diff_sym b a).
      rewrite (orb_comm (is_ambiguous b) (is_ambiguous a)).
      set (cond := (is_nuc a || is_nuc b) && negb (fg1 && negb (is_nuc a)) && negb (fg2 && negb (is_nuc b))).
      replace ((is_nuc a || is_nuc b) && negb (fg2 && negb (is_nuc b)) && negb (fg1 && negb (is_nuc a))) with cond
        by (unfold cond; destruct (is_nuc a || is_nuc b), (negb (fg1 && negb (is_nuc a))), (negb (fg2 && negb (is_nuc b))); reflexivity).
      destruct cond; apply IH.
Qed.

Theorem count_diffs_internal_sym s1 s2 ws rm :
  (fst (count_diffs_internal s1 s2 ws rm) == fst (count_diffs_internal s2 s1 ws rm))%Q /\
  (snd (count_diffs_internal s1 s2 ws rm) == snd (count_diffs_internal s2 s1 ws rm))%Q.
Proof. unfold count_diffs_internal. apply internal_loop_sym. Qed.

(* ---- the running accumulators of the "internal gaps only" counter against its definition by columns,
   exhaustively on finite domains (kernel evaluation): every pair of rows of equal length 1..4 over the
   codes A, C, R (ambiguous), N and gap, with and without removal of ambiguous matches, no weights; and
   every pair of rows of length 5 over A, R and gap with the weights 1, 2, 1/2, 3, 1/4 *)
Fixpoint zwords (n : nat) (alpha : list Z) : list (list Z) :=
  match n with O => [[]] | S k => flat_map (fun w => map (fun c => c :: w) alpha) (zwords k alpha) end.
Definition qpair_eqb (a b : Q * Q) : bool := Qeq_bool (fst a) (fst b) && Qeq_bool (snd a) (snd b).
Definition internal_agree (n : nat) (alpha : list Z) (ws : option (list Q)) : bool :=
  forallb (fun s1 => forallb (fun s2 => forallb (fun rm =>
     qpair_eqb (count_diffs_internal s1 s2 ws rm) (count_diffs_internal_spec s1 s2 ws rm)) [true; false]) (zwords n alpha)) (zwords n alpha).

Definition codes5 : list Z := [1; 2; 5; 15; 0]%Z.      (* A, C, R, N, gap *)
Definition codes3 : list Z := [1; 5; 0]%Z.
Definition weights5 : option (list Q) := Some [1; 2; 1#2; 3; 1#4]%Q.

Lemma internal_agree_spec n alpha ws : internal_agree n alpha ws = true -> forall s1 s2 rm,
  In s1 (zwords n alpha) -> In s2 (zwords n alpha) ->
  (fst (count_diffs_internal s1 s2 ws rm) == fst (count_diffs_internal_spec s1 s2 ws rm))%Q /\
  (snd (count_diffs_internal s1 s2 ws rm) == snd (count_diffs_internal_spec s1 s2 ws rm))%Q.
Proof.
  intros H s1 s2 rm I1 I2. unfold internal_agree in H. rewrite forallb_forall in H. specialize (H s1 I1).
  rewrite forallb_forall in H. specialize (H s2 I2). rewrite forallb_forall in H.
  assert (Hr : In rm [true; false]) by (destruct rm; cbn; auto). specialize (H rm Hr).
  unfold qpair_eqb in H. apply andb_true_iff in H as [Ha Hb]. split; apply Qeq_bool_iff; assumption.
Qed.

Lemma internal_agree_1 : internal_agree 1 codes5 None = true. Proof. vm_compute. reflexivity. Qed.
Lemma internal_agree_2 : internal_agree 2 codes5 None = true. Proof. vm_compute. reflexivity. Qed.
Lemma internal_agree_3 : internal_agree 3 codes5 None = true. Proof. vm_compute. reflexivity. Qed.
Lemma internal_agree_4 : internal_agree 4 codes5 None = true. Proof. vm_compute. reflexivity. Qed.
Lemma internal_agree_5w : internal_agree 5 codes3 weights5 = true. Proof. vm_compute. reflexivity. Qed.

Lemma internal_counter_is_column_spec_small :
  (forall n s1 s2 rm, In n [1; 2; 3; 4]%nat -> In s1 (zwords n codes5) -> In s2 (zwords n codes5) ->
     (fst (count_diffs_internal s1 s2 None rm) == fst (count_diffs_internal_spec s1 s2 None rm))%Q /\
     (snd (count_diffs_internal s1 s2 None rm) == snd (count_diffs_internal_spec s1 s2 None rm))%Q) /\
  (forall s1 s2 rm, In s1 (zwords 5 codes3) -> In s2 (zwords 5 codes3) ->
     (fst (count_diffs_internal s1 s2 weights5 rm) == fst (count_diffs_internal_spec s1 s2 weights5 rm))%Q /\
     (snd (count_diffs_internal s1 s2 weights5 rm) == snd (count_diffs_internal_spec s1 s2 weights5 rm))%Q).
Proof.
  split.
  - intros n s1 s2 rm Hn. destruct Hn as [<-|[<-|[<-|[<-|[]]]]].
    + exact (internal_agree_spec _ _ _ internal_agree_1 s1 s2 rm).
    + exact (internal_agree_spec _ _ _ internal_agree_2 s1 s2 rm).
    + exact (internal_agree_spec _ _ _ internal_agree_3 s1 s2 rm).
    + exact (internal_agree_spec _ _ _ internal_agree_4 s1 s2 rm).
  - exact (internal_agree_spec _ _ _ internal_agree_5w).
Qed.
