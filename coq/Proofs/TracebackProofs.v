(* The trace-back of the code model of the local aligner (Model/SW.v backtrack over fill) always returns a valid local
   alignment, for EVERY pair of non-empty sequences and every scoring scheme: rows of one length, no column of two gaps,
   and each row without its gaps is exactly the substring of its sequence between the reported start and end; the three
   counters add up to the alignment length.  Unbounded: invariant of the trace-back loop + shape of the trace matrix. *)
From Coq Require Import List Bool NArith ZArith Lia.
From Coq.Strings Require Import Byte.
Import ListNotations.
From GA.Base Require Import Bytes Case Align.
From GA.Gen Require Import Subst Alpha.
From GA.Spec Require Import Local.
From GA.Model Require Import SW.
From GA.Proofs Require Import SWProofs.

Local Open Scope Z_scope.

(* ---- shape of the trace matrix and of the recorded maximum ------------------------------------------------ *)
Lemma first_row_spec sc : forall scores pv bx j,
  length (first_row sc scores pv bx j) = length scores /\
  Forall (fun c => snd (fst c) = T_DIAG \/ snd (fst c) = T_LEFT) (first_row sc scores pv bx j).
Proof.
  induction scores as [|m t IH]; intros pv bx j; cbn [first_row]; [split; [reflexivity | constructor]|].
  set (bx' := if Nat.eqb j 0 then None else Some (gap_acc sc bx pv)).
  set (fnew := match bx' with None => 0 | Some b => b end).
  destruct ((fnew <? m) && (0 <? m)).
  - destruct (IH m bx' (S j)) as [L Fa]. split; [cbn [length]; rewrite L; reflexivity|]. constructor; [left; reflexivity | exact Fa].
  - destruct (0 <? fnew).
    + destruct (IH fnew bx' (S j)) as [L Fa]. split; [cbn [length]; rewrite L; reflexivity|]. constructor; [right; reflexivity | exact Fa].
    + destruct (IH 0 bx' (S j)) as [L Fa]. split; [cbn [length]; rewrite L; reflexivity|]. constructor; [left; reflexivity | exact Fa].
Qed.

Lemma first_col_spec sc : forall scores pv ma i,
  length (first_col sc scores pv ma i) = length scores /\
  Forall (fun c => snd c = T_DIAG \/ snd c = T_UP) (first_col sc scores pv ma i).
Proof.
  induction scores as [|m t IH]; intros pv ma i; cbn [first_col]; [split; [reflexivity | constructor]|].
  set (ma' := if Nat.eqb i 0 then None else Some (gap_acc sc ma pv)).
  set (fnew := match ma' with None => 0 | Some b => b end).
  destruct ((fnew <? m) && (0 <? m)).
  - destruct (IH m ma' (S i)) as [L Fa]. split; [cbn [length]; rewrite L; reflexivity|]. constructor; [left; reflexivity | exact Fa].
  - destruct (0 <? fnew).
    + destruct (IH fnew ma' (S i)) as [L Fa]. split; [cbn [length]; rewrite L; reflexivity|]. constructor; [right; reflexivity | exact Fa].
    + destruct (IH 0 ma' (S i)) as [L Fa]. split; [cbn [length]; rewrite L; reflexivity|]. constructor; [left; reflexivity | exact Fa].
Qed.

Lemma inner_row_length sc : forall scores prow maxa left diag bx cells maxa',
  inner_row sc scores prow maxa left diag bx = (cells, maxa') -> (length cells <= length scores)%nat.
Proof.
  induction scores as [|m ts IH]; intros prow maxa left diag bx cells maxa' H; cbn [inner_row] in H.
  - injection H as <- <-. cbn. lia.
  - destruct prow as [|up tp]; [injection H as <- <-; cbn; lia|].
    destruct maxa as [|ma tm]; [injection H as <- <-; cbn; lia|].
    cbv zeta in H.
    repeat match type of H with context [let '(_, _) := (if ?c then _ else _) in _] => destruct c end;
    match type of H with context [inner_row sc ts tp tm ?a ?b ?c] =>
      destruct (inner_row sc ts tp tm a b c) as [cs mm] eqn:E end;
    injection H as <- <-; apply IH in E; cbn [length]; lia.
Qed.

Definition bounded (n1 n2 : Z) (b : Z * Z * Z) : Prop := 0 <= snd (fst b) < n1 /\ 0 <= snd b < n2.

Lemma upd_max_bounded n1 n2 b v i j : bounded n1 n2 b -> 0 <= i < n1 -> 0 <= j < n2 -> bounded n1 n2 (upd_max b v i j).
Proof. intros Hb Hi Hj. destruct b as [[mx mi] mj]. unfold upd_max. destruct (mx <? v); [split; cbn; lia | exact Hb]. Qed.

Lemma fold_row_bounded {A} (g : A -> Z) n1 n2 i : 0 <= i < n1 -> forall (l : list A) b k,
  bounded n1 n2 b -> 0 <= k -> k + Z.of_nat (length l) <= n2 ->
  bounded n1 n2 (fst (fold_left (fun (st : (Z * Z * Z) * Z) c => (upd_max (fst st) (g c) i (snd st), snd st + 1)) l (b, k))).
Proof.
  intros Hi. induction l as [|c l IH]; intros b k Hb Hk Hl; [exact Hb|]. cbn [fold_left fst snd].
  apply IH; [apply upd_max_bounded; try assumption; cbn [length] in Hl; lia | lia | cbn [length] in Hl; lia].
Qed.

Lemma fold_col_bounded {A} (g : A -> Z) n1 n2 : 0 < n2 -> forall (l : list A) b k,
  bounded n1 n2 b -> 0 <= k -> k + Z.of_nat (length l) <= n1 ->
  bounded n1 n2 (fst (fold_left (fun (st : (Z * Z * Z) * Z) c => (upd_max (fst st) (g c) (snd st) 0, snd st + 1)) l (b, k))).
Proof.
  intros Hn. induction l as [|c l IH]; intros b k Hb Hk Hl; [exact Hb|]. cbn [fold_left fst snd].
  apply IH; [apply upd_max_bounded; try assumption; cbn [length] in Hl; lia | lia | cbn [length] in Hl; lia].
Qed.

Definition col0_ok (trs : list (list Z)) : Prop := Forall (fun trow => hd T_UP trow = T_DIAG \/ hd T_UP trow = T_UP) trs.

Lemma fill_rows_spec sc which s2 n1 : let n2 := Z.of_nat (length s2) in
  forall s1 fcol prow maxa i best vals trs b,
  fill_rows sc which s1 s2 fcol prow maxa i best = (vals, trs, b) ->
  Forall (fun c => snd c = T_DIAG \/ snd c = T_UP) fcol ->
  0 < n2 -> 0 <= i -> i + Z.of_nat (length s1) <= n1 -> bounded n1 n2 best ->
  col0_ok trs /\ bounded n1 n2 b.
Proof.
  intros n2. induction s1 as [|[c1 i1] t1 IH]; intros fcol prow maxa i best vals trs b H Hf Hn Hi Hl Hb.
  - cbn [fill_rows] in H. injection H as <- <- <-. split; [constructor | exact Hb].
  - cbn [fill_rows] in H. destruct fcol as [|[v0 tr0] tc]; [injection H as <- <- <-; split; [constructor | exact Hb]|].
    destruct (inner_row sc (map (fun x => match_score sc which c1 (fst x) i1 (snd x)) (tl s2)) (tl prow) maxa v0 (hd 0 prow)
                        (v0 + sc_open sc + sc_extend sc)) as [cells maxa'] eqn:Er.
    cbv zeta in H.
    match type of H with context [fill_rows sc which t1 s2 tc ?r maxa' (i + 1) ?bb] =>
      destruct (fill_rows sc which t1 s2 tc r maxa' (i + 1) bb) as [[vals' trs'] b'] eqn:Ef end.
    injection H as <- <- <-.
    inversion Hf as [|x l Hx Hf']; subst.
    apply inner_row_length in Er. rewrite map_length in Er.
    assert (Hs2 : (length (tl s2) = length s2 - 1)%nat) by (destruct s2; cbn; lia).
    apply IH in Ef; [| exact Hf' | exact Hn | lia | cbn [length] in Hl; lia |].
    + destruct Ef as [C B]. split; [|exact B]. constructor; [cbn [hd]; cbn [snd] in Hx; exact Hx | exact C].
    + apply fold_row_bounded; [cbn [length] in Hl; lia | exact Hb | lia | unfold n2 in *; lia].
Qed.

Lemma fill_spec sc which (s1 s2 : list (byte * Z)) : s1 <> [] -> s2 <> [] ->
  (exists tr0 trs, f_trace (fill sc which s1 s2) = tr0 :: trs /\ length tr0 = length s2 /\
                   Forall (fun t => t = T_DIAG \/ t = T_LEFT) tr0 /\ hd T_UP tr0 = T_DIAG /\ col0_ok trs) /\
  0 <= f_maxi (fill sc which s1 s2) < Z.of_nat (length s1) /\ 0 <= f_maxj (fill sc which s1 s2) < Z.of_nat (length s2).
Proof.
  intros H1 H2. destruct s1 as [|[c10 i10] rest1]; [congruence|]. destruct s2 as [|c20 rest2]; [congruence|].
  unfold fill.
  set (s2 := c20 :: rest2) in *. set (s1 := (c10, i10) :: rest1) in *.
  set (row0 := first_row sc (map (fun x => match_score sc which c10 (fst x) i10 (snd x)) s2) 0 None 0).
  set (fcol := first_col sc (map (fun x => match_score sc which (fst x) (fst c20) (snd x) (snd c20)) s1) 0 None 0).
  cbv zeta.
  destruct (first_row_spec sc (map (fun x => match_score sc which c10 (fst x) i10 (snd x)) s2) 0 None 0) as [Lr Fr]. fold row0 in Lr, Fr.
  destruct (first_col_spec sc (map (fun x => match_score sc which (fst x) (fst c20) (snd x) (snd c20)) s1) 0 None 0) as [Lc Fc]. fold fcol in Lc, Fc.
  rewrite map_length in Lr, Lc.
  set (n1 := Z.of_nat (length s1)). set (n2 := Z.of_nat (length s2)).
  assert (Hn1 : 0 < n1) by (unfold n1, s1; cbn [length]; lia).
  assert (Hn2 : 0 < n2) by (unfold n2, s2; cbn [length]; lia).
  set (best0 := fst (fold_left (fun (st : (Z * Z * Z) * Z) v => (upd_max (fst st) v 0 (snd st), snd st + 1))
                               (map (fun x => fst (fst x)) row0) ((0, 0, 0), 0))).
  assert (B0 : bounded n1 n2 best0).
  { unfold best0. apply (fold_row_bounded (fun v : Z => v)); [lia | split; cbn; lia | lia |]. rewrite map_length, Lr. unfold n2. lia. }
  set (best1 := fst (fold_left (fun (st : (Z * Z * Z) * Z) c => (upd_max (fst st) (fst c) (snd st) 0, snd st + 1)) fcol (best0, 0))).
  assert (B1 : bounded n1 n2 best1).
  { unfold best1. apply (fold_col_bounded (fun c : Z * Z => fst c)); [exact Hn2 | exact B0 | lia |]. rewrite Lc. unfold n1. lia. }
  destruct (fill_rows sc which rest1 s2 (tl fcol) (map (fun x => fst (fst x)) row0) (tl (map snd row0)) 1 best1)
    as [[vals trs] best] eqn:Ef.
  apply (fill_rows_spec sc which s2 n1) in Ef;
    [| destruct fcol; [constructor | inversion Fc; assumption] | exact Hn2 | lia | unfold n1, s1; cbn [length]; lia | exact B1].
  destruct Ef as [C B]. destruct best as [[mx mi] mj]. cbn [f_trace f_maxi f_maxj].
  split; [|exact B].
  exists (map (fun x => snd (fst x)) row0), trs. split; [reflexivity|]. split; [rewrite map_length; exact Lr|].
  split; [apply Forall_map; exact Fr|]. split; [|exact C].
  unfold row0, s2. cbn [map first_row Nat.eqb]. 
  destruct ((0 <? match_score sc which c10 (fst c20) i10 (snd c20)) && (0 <? match_score sc which c10 (fst c20) i10 (snd c20))); reflexivity.
Qed.

(* ---- the trace-back loop ------------------------------------------------------------------------------------ *)
Lemma skipn_nth_cons (s : list byte) d : forall k, (k < length s)%nat -> skipn k s = nth k s d :: skipn (S k) s.
Proof.
  induction s as [|a t IH]; intros k Hk; [cbn in Hk; lia|]. destruct k as [|k]; [reflexivity|].
  cbn [skipn nth]. change (skipn (S k) t) with (skipn (S k) t). rewrite (IH k) by (cbn in Hk; lia). reflexivity.
Qed.

Lemma sub_string_cons s i mi : 0 <= i <= mi -> mi < Z.of_nat (length s) ->
  sub_string s i mi = at1 s i :: sub_string s (i + 1) mi.
Proof.
  intros Hi Hm. unfold sub_string, at1.
  rewrite (skipn_nth_cons s x00 (Z.to_nat i)) by lia.
  replace (Z.to_nat (mi - i + 1)) with (S (Z.to_nat (mi - (i + 1) + 1))) by lia.
  replace (Z.to_nat (i + 1)) with (S (Z.to_nat i)) by lia. reflexivity.
Qed.

Lemma sub_string_empty s mi : sub_string s (mi + 1) mi = [].
Proof. unfold sub_string. replace (mi - (mi + 1) + 1) with 0 by lia. reflexivity. Qed.

Definition nodg (r1 r2 : list byte) : Prop :=
  forallb (fun ab => negb (isgap (fst ab) && isgap (snd ab))) (combine r1 r2) = true.

Section Traceback.
Variables (s1 s2 : list byte) (sc : scheme) (f : filled) (mi mj : Z).
Hypothesis Hng1 : forall b, In b s1 -> isgap b = false.
Hypothesis Hng2 : forall b, In b s2 -> isgap b = false.
Hypothesis Hmi : 0 <= mi < Z.of_nat (length s1).
Hypothesis Hmj : 0 <= mj < Z.of_nat (length s2).
Variables (tr0 : list Z) (trs : list (list Z)).
Hypothesis Htrace : f_trace f = tr0 :: trs.
Hypothesis Htr0len : length tr0 = length s2.
Hypothesis Htr0 : Forall (fun t => t = T_DIAG \/ t = T_LEFT) tr0.
Hypothesis Htr00 : hd T_UP tr0 = T_DIAG.
Hypothesis Hcol0 : col0_ok trs.

Record Inv (st : tb) : Prop := {
  inv_i : -1 <= tb_i st <= mi;
  inv_j : -1 <= tb_j st <= mj;
  inv_len : length (tb_r1 st) = length (tb_r2 st);
  inv_nodg : nodg (tb_r1 st) (tb_r2 st);
  inv_u1 : ungap (tb_r1 st) = sub_string s1 (tb_i st + 1) mi;
  inv_u2 : ungap (tb_r2 st) = sub_string s2 (tb_j st + 1) mj;
  inv_cnt : tb_match st + tb_mis st + tb_gaps st = Z.of_nat (length (tb_r1 st))
}.

Lemma at1_nogap1 i : 0 <= i <= mi -> isgap (at1 s1 i) = false.
Proof. intros Hi. apply Hng1. unfold at1. apply nth_In. lia. Qed.
Lemma at1_nogap2 j : 0 <= j <= mj -> isgap (at1 s2 j) = false.
Proof. intros Hj. apply Hng2. unfold at1. apply nth_In. lia. Qed.

Lemma ungap_cons_res a r : isgap a = false -> ungap (a :: r) = a :: ungap r.
Proof. intros H. unfold ungap. cbn [filter]. rewrite H. reflexivity. Qed.
Lemma ungap_cons_gap r : ungap (x2d :: r) = ungap r.
Proof. reflexivity. Qed.

Lemma trace_row0 j : 0 <= j < Z.of_nat (length s2) -> mget (f_trace f) 0 j <> T_UP.
Proof.
  intros Hj. unfold mget, nz. rewrite Htrace. cbn [Z.to_nat nth].
  assert (Hin : In (nth (Z.to_nat j) tr0 0) tr0) by (apply nth_In; lia).
  pose proof (proj1 (Forall_forall _ _) Htr0) as F0. destruct (F0 _ Hin) as [E|E]; rewrite E; discriminate.
Qed.

Lemma trace_col0 i : 0 <= i -> mget (f_trace f) i 0 = T_DIAG \/ mget (f_trace f) i 0 = T_UP.
Proof.
  intros Hi. unfold mget, nz. rewrite Htrace. cbn [Z.to_nat].
  destruct (Z.to_nat i) as [|k] eqn:Ek.
  - cbn [nth]. left. destruct tr0 as [|t0 tt]; [discriminate Htr00 | exact Htr00].
  - cbn [nth]. destruct (Nat.lt_ge_cases k (length trs)) as [Hk|Hk].
    + pose proof (proj1 (Forall_forall _ _) Hcol0) as F0. pose proof (F0 (nth k trs []) (nth_In _ _ Hk)) as H.
      destruct (nth k trs []) as [|t0 tt]; [right; reflexivity | exact H].
    + rewrite (nth_overflow trs [] Hk). right. reflexivity.
Qed.

Lemma gap_len_up_range m i j : forall fuel ng, 1 <= ng <= i -> ng <= gap_len_up fuel sc m i j ng <= i.
Proof.
  induction fuel as [|fu IH]; intros ng Hn; cbn [gap_len_up]; [lia|].
  destruct (Z.eqb (mget m (i - ng) j + sc_open sc + (ng - 1) * sc_extend sc) (mget m i j)); cbn [orb]; [lia|].
  destruct (Z.eqb_spec (i - ng) 0); [lia|]. specialize (IH (ng + 1)). lia.
Qed.
Lemma gap_len_left_range m i j : forall fuel ng, 1 <= ng <= j -> ng <= gap_len_left fuel sc m i j ng <= j.
Proof.
  induction fuel as [|fu IH]; intros ng Hn; cbn [gap_len_left]; [lia|].
  destruct (Z.eqb (mget m i (j - ng) + sc_open sc + (ng - 1) * sc_extend sc) (mget m i j)); cbn [orb]; [lia|].
  destruct (Z.eqb_spec (j - ng) 0); [lia|]. specialize (IH (ng + 1)). lia.
Qed.

Lemma push_up_inv : forall n st, Inv st -> Z.of_nat n <= tb_i st + 1 -> Inv (push_up n s1 st).
Proof.
  induction n as [|n IH]; intros st Hs Hn; [exact Hs|]. cbn [push_up]. apply IH; [|cbn [tb_i]; lia].
  destruct Hs as [Hi Hj Hl Hd U1 U2 Hc].
  constructor; cbn [tb_i tb_j tb_r1 tb_r2 tb_match tb_mis tb_gaps].
  - lia.
  - exact Hj.
  - cbn [length]. rewrite Hl. reflexivity.
  - unfold nodg in *. cbn [combine forallb fst snd]. rewrite at1_nogap1 by lia. cbn [andb negb]. exact Hd.
  - rewrite ungap_cons_res by (apply at1_nogap1; lia). rewrite U1.
    replace (tb_i st - 1 + 1) with (tb_i st) by lia. symmetry. apply sub_string_cons; lia.
  - rewrite ungap_cons_gap. exact U2.
  - cbn [length]. lia.
Qed.

Lemma push_left_inv : forall n st, Inv st -> Z.of_nat n <= tb_j st + 1 -> Inv (push_left n s2 st).
Proof.
  induction n as [|n IH]; intros st Hs Hn; [exact Hs|]. cbn [push_left]. apply IH; [|cbn [tb_j]; lia].
  destruct Hs as [Hi Hj Hl Hd U1 U2 Hc].
  constructor; cbn [tb_i tb_j tb_r1 tb_r2 tb_match tb_mis tb_gaps].
  - exact Hi.
  - lia.
  - cbn [length]. rewrite Hl. reflexivity.
  - unfold nodg in *. cbn [combine forallb fst snd]. rewrite at1_nogap2 by lia. rewrite andb_false_r. cbn [negb andb]. exact Hd.
  - rewrite ungap_cons_gap. exact U1.
  - rewrite ungap_cons_res by (apply at1_nogap2; lia). rewrite U2.
    replace (tb_j st - 1 + 1) with (tb_j st) by lia. symmetry. apply sub_string_cons; lia.
  - cbn [length]. lia.
Qed.

Lemma diag_inv st : Inv st -> 0 <= tb_i st -> 0 <= tb_j st ->
  Inv (mktb (at1 s1 (tb_i st) :: tb_r1 st) (at1 s2 (tb_j st) :: tb_r2 st)
            (if beqb (at1 s2 (tb_j st)) (at1 s1 (tb_i st)) then tb_match st + 1 else tb_match st)
            (if beqb (at1 s2 (tb_j st)) (at1 s1 (tb_i st)) then tb_mis st else tb_mis st + 1) (tb_gaps st)
            (tb_i st - 1) (tb_j st - 1)).
Proof.
  intros [Hi Hj Hl Hd U1 U2 Hc] H0i H0j.
  constructor; cbn [tb_i tb_j tb_r1 tb_r2 tb_match tb_mis tb_gaps].
  - lia.
  - lia.
  - cbn [length]. rewrite Hl. reflexivity.
  - unfold nodg in *. cbn [combine forallb fst snd]. rewrite at1_nogap1 by lia. cbn [andb negb]. exact Hd.
  - rewrite ungap_cons_res by (apply at1_nogap1; lia). rewrite U1.
    replace (tb_i st - 1 + 1) with (tb_i st) by lia. symmetry. apply sub_string_cons; lia.
  - rewrite ungap_cons_res by (apply at1_nogap2; lia). rewrite U2.
    replace (tb_j st - 1 + 1) with (tb_j st) by lia. symmetry. apply sub_string_cons; lia.
  - cbn [length]. destruct (beqb (at1 s2 (tb_j st)) (at1 s1 (tb_i st))); lia.
Qed.

Lemma backtrack_inv atg : forall fuel st, Inv st -> Inv (backtrack fuel atg sc f s1 s2 st).
Proof.
  induction fuel as [|fu IH]; intros st Hs; [exact Hs|]. cbn [backtrack]. cbv zeta.
  destruct (tb_i st <? 0) eqn:Ei; cbn [orb]; [exact Hs|].
  destruct (tb_j st <? 0) eqn:Ej; [exact Hs|].
  apply Z.ltb_ge in Ei, Ej.
  match goal with |- Inv (if ?c then ?a else _) => assert (Hst' : Inv a) end.
  { destruct (Z.eqb_spec (mget (f_trace f) (tb_i st) (tb_j st)) T_UP) as [Eu|Eu].
    - assert (Hi1 : 1 <= tb_i st).
      { destruct (Z.eq_dec (tb_i st) 0) as [E0|E0]; [|lia]. rewrite E0 in Eu. exfalso.
        apply (trace_row0 (tb_j st)); [destruct Hs; lia | exact Eu]. }
      pose proof (gap_len_up_range (f_vals f) (tb_i st) (tb_j st) (Z.to_nat (tb_i st) + 1) 1 ltac:(lia)) as R.
      apply push_up_inv; [exact Hs | lia].
    - destruct (Z.eqb_spec (mget (f_trace f) (tb_i st) (tb_j st)) T_DIAG) as [Ed|Ed].
      + apply diag_inv; assumption.
      + assert (Hj1 : 1 <= tb_j st).
        { destruct (Z.eq_dec (tb_j st) 0) as [E0|E0]; [|lia]. rewrite E0 in Eu, Ed. exfalso.
          destruct (trace_col0 (tb_i st) Ei); contradiction. }
        pose proof (gap_len_left_range (f_vals f) (tb_i st) (tb_j st) (Z.to_nat (tb_j st) + 1) 1 ltac:(lia)) as R.
        apply push_left_inv; [exact Hs | lia]. }
  match goal with |- Inv (if ?c then _ else _) => destruct c end; [exact Hst' | apply IH; exact Hst'].
Qed.

Lemma init_inv : Inv (mktb [] [] 0 0 0 mi mj).
Proof.
  constructor; cbn [tb_i tb_j tb_r1 tb_r2 tb_match tb_mis tb_gaps]; try lia; try reflexivity.
  - rewrite sub_string_empty. reflexivity.
  - rewrite sub_string_empty. reflexivity.
Qed.

Lemma inv_valid st : Inv st ->
  valid_alignment s1 s2 (tb_r1 st) (tb_r2 st) (tb_i st + 1) (tb_j st + 1) mi mj.
Proof.
  intros [Hi Hj Hl Hd U1 U2 Hc]. apply check_valid_sound. unfold check_valid.
  rewrite Hl, Nat.eqb_refl. unfold nodg in Hd. rewrite Hd. rewrite U1, U2, !bytes_eqb_refl.
  replace (0 <=? tb_i st + 1) with true by (symmetry; apply Z.leb_le; lia).
  replace (0 <=? tb_j st + 1) with true by (symmetry; apply Z.leb_le; lia).
  replace (mi <? Z.of_nat (length s1)) with true by (symmetry; apply Z.ltb_lt; lia).
  replace (mj <? Z.of_nat (length s2)) with true by (symmetry; apply Z.ltb_lt; lia).
  reflexivity.
Qed.
End Traceback.

(* ---- the aligner ------------------------------------------------------------------------------------------ *)
Lemma all_some_map {A B} (g : A -> option B) : forall l p, all_some (map g l) = Some p ->
  length p = length l /\ forall x, In x l -> g x <> None.
Proof.
  induction l as [|a t IH]; intros p H; cbn [map all_some] in H.
  - injection H as <-. split; [reflexivity | intros x []].
  - destruct (g a) as [y|] eqn:Ea; [|discriminate]. destruct (all_some (map g t)) as [r|] eqn:Er; [|discriminate].
    injection H as <-. destruct (IH r eq_refl) as [L N]. split; [cbn [length]; rewrite L; reflexivity|].
    intros x [<-|Hx]; [rewrite Ea; discriminate | apply N; exact Hx].
Qed.

Lemma char_pos_gap which : char_pos which x2d = None.
Proof. unfold char_pos. destruct (Z.eqb which 1); [vm_compute; reflexivity|]. destruct (Z.eqb which 0); [vm_compute; reflexivity | reflexivity]. Qed.

Lemma char_pos_nogap which (s : list byte) : (forall x, In x s -> char_pos which x <> None) -> forall b, In b s -> isgap b = false.
Proof.
  intros H b Hb. destruct (isgap b) eqn:E; [|reflexivity]. apply beqb_eq in E. subst b.
  exfalso. apply (H _ Hb). apply char_pos_gap.
Qed.

(* for every scoring scheme and every pair of non-empty sequences: whatever the aligner returns is a valid local
   alignment ending at the reported cell, and matches + mismatches + gaps is the number of columns *)
Theorem align_pair_valid sc s1 s2 r :
  align_pair false sc s1 s2 = Some r ->
  valid_alignment s1 s2 (r_row1 r) (r_row2 r) (r_start1 r) (r_start2 r) (r_end1 r) (r_end2 r) /\
  r_matches r + r_mismatches r + r_gaps r = Z.of_nat (length (r_row1 r)) /\
  r_length r = Z.of_nat (length (r_row1 r)).
Proof.
  intros H. unfold align_pair, align_pair_with in H. set (which := pick_matrix s1 s2) in *.
  assert (N1 : s1 <> []) by (destruct s1; [discriminate | discriminate]).
  assert (N2 : s2 <> []) by (destruct s1; [discriminate|]; destruct s2; [discriminate | discriminate]).
  assert (H' : match all_some (map (char_pos which) s1), all_some (map (char_pos which) s2) with
               | Some p1, Some p2 =>
                   let sc' := mkscheme (sc_use_matrix sc) (sc_match sc) (sc_mismatch sc) (sc_open sc) (sc_extend sc) in
                   let f := fill sc' which (combine s1 p1) (combine s2 p2) in
                   let l1 := Z.of_nat (length s1) in
                   let l2 := Z.of_nat (length s2) in
                   let '(mx, mi, mj) := (f_max f, f_maxi f, f_maxj f) in
                   let st := backtrack (length s1 + length s2 + 2) false sc' f s1 s2 (mktb [] [] 0 0 0 mi mj) in
                   Some (mkres mx (tb_r1 st) (tb_r2 st) (tb_i st + 1) (tb_j st + 1) mi mj
                               (tb_match st) (tb_mis st) (tb_gaps st) (tb_match st + tb_mis st + tb_gaps st))
               | _, _ => None
               end = Some r).
  { destruct s1 as [|a1 t1]; [congruence|]. destruct s2 as [|a2 t2]; [congruence|]. exact H. }
  clear H. rename H' into H.
  destruct (all_some (map (char_pos which) s1)) as [p1|] eqn:E1; [|discriminate].
  destruct (all_some (map (char_pos which) s2)) as [p2|] eqn:E2; [|discriminate].
  apply all_some_map in E1 as [L1 G1]. apply all_some_map in E2 as [L2 G2].
  cbv zeta in H.
  set (sc' := mkscheme (sc_use_matrix sc) (sc_match sc) (sc_mismatch sc) (sc_open sc) (sc_extend sc)) in *.
  set (f := fill sc' which (combine s1 p1) (combine s2 p2)) in *.
  destruct (fill_spec sc' which (combine s1 p1) (combine s2 p2)) as [[tr0 [trs [Ht [Hl0 [F0 [H00 C0]]]]]] [Bi Bj]].
  { destruct s1, p1; cbn in *; congruence. }
  { destruct s2, p2; cbn in *; congruence. }
  fold f in Ht, Bi, Bj. rewrite combine_length, L1, Nat.min_id in Bi. rewrite combine_length, L2, Nat.min_id in Bj, Hl0.
  cbn iota in H. injection H as <-. cbn [r_row1 r_row2 r_start1 r_start2 r_end1 r_end2 r_matches r_mismatches r_gaps r_length].
  pose proof (backtrack_inv s1 s2 sc' f (f_maxi f) (f_maxj f) (char_pos_nogap which s1 G1) (char_pos_nogap which s2 G2) Bi Bj
                tr0 trs Ht Hl0 F0 H00 C0 false (length s1 + length s2 + 2)%nat _
                (init_inv s1 s2 (f_maxi f) (f_maxj f) Bi Bj tr0 Hl0)) as Hinv.
  split; [apply (inv_valid s1 s2 (f_maxi f) (f_maxj f) Bi Bj tr0 Hl0); exact Hinv|].
  destruct Hinv as [_ _ _ _ _ _ Hc]. split; [exact Hc | exact Hc].
Qed.
