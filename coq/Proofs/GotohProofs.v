(* The three-matrix Gotoh program of Spec/Local.v is an upper bound of every valid local alignment: for all
   sequences, every substitution function and gap costs open <= extend < 0,
       score of the alignment <= gotoh_best.
   (The sentinel NEG only stands for "no alignment ends here"; being finite it can only make cells larger,
   which is harmless for this direction.) *)
From Coq Require Import List Bool ZArith Lia.
From Coq.Strings Require Import Byte.
Import ListNotations.
From GA.Base Require Import Bytes.
From GA.Spec Require Import Local.
From GA.Proofs Require Import EnumProofs.
Local Open Scope Z_scope.

Section Gotoh.
  Variable sub : byte -> byte -> Z.
  Variables opn ext : Z.
  Hypothesis Hoe : opn <= ext.
  Hypothesis Hext : ext < 0.

  (* ---- the score, column by column from the left, and what appending one column costs ------------- *)
  (* type of a column: 0 pair, 1 gap in row 1, 2 gap in row 2 *)
  Definition col_type (a b : byte) : Z := if isgap a then 1 else if isgap b then 2 else 0.
  Definition col_cost (prev : Z) (a b : byte) : Z :=
    if isgap a then (if Z.eqb prev 1 then ext else opn)
    else if isgap b then (if Z.eqb prev 2 then ext else opn)
    else sub a b.

  (* type of the last column of a pair of rows ([prev] when there is none) *)
  Fixpoint last_type (r1 r2 : list byte) (prev : Z) : Z :=
    match r1, r2 with
    | a :: t1, b :: t2 => last_type t1 t2 (col_type a b)
    | _, _ => prev
    end.

  Lemma score_cols_snoc : forall r1 r2 prev a b, length r1 = length r2 ->
    score_cols sub opn ext (r1 ++ [a]) (r2 ++ [b]) prev =
    score_cols sub opn ext r1 r2 prev + col_cost (last_type r1 r2 prev) a b.
  Proof.
    induction r1 as [|x t1 IH]; intros r2 prev a b Hl; destruct r2 as [|y t2]; try discriminate.
    - cbn [app score_cols last_type]. unfold col_cost. destruct (isgap a); [lia|]. destruct (isgap b); lia.
    - cbn [length] in Hl. injection Hl as Hl. cbn [app score_cols last_type]. unfold col_type.
      destruct (isgap x); [rewrite IH by exact Hl; lia|]. destruct (isgap y); rewrite IH by exact Hl; lia.
  Qed.

  (* rows that consume only one of the two sequences cost at most one gap opening *)
  Lemma only_row2_le_opn : forall r1 r2 prev, length r1 = length r2 -> r1 <> [] -> no_double_gap r1 r2 ->
    ungap r1 = [] -> score_cols sub opn ext r1 r2 prev <= ext.
  Proof.
    induction r1 as [|a t1 IH]; intros r2 prev Hl Hne Hnd Hu; [contradiction|].
    destruct r2 as [|b t2]; [discriminate|]. cbn [length] in Hl. injection Hl as Hl.
    assert (Hnd' : no_double_gap t1 t2) by (intros k Hk; apply (Hnd (S k)); cbn [length]; lia).
    destruct (isgap a) eqn:Ea; [|rewrite (ungap_cons_res a t1 Ea) in Hu; discriminate].
    rewrite (ungap_cons_gap a t1 Ea) in Hu. cbn [score_cols]. rewrite Ea.
    destruct t1 as [|a' t1'].
    - destruct t2; [|discriminate]. cbn [score_cols]. destruct (prev =? 1); lia.
    - specialize (IH t2 1 Hl ltac:(discriminate) Hnd' Hu). destruct (prev =? 1); lia.
  Qed.

  Lemma only_row1_le_opn : forall r1 r2 prev, length r1 = length r2 -> r1 <> [] -> no_double_gap r1 r2 ->
    ungap r2 = [] -> score_cols sub opn ext r1 r2 prev <= ext.
  Proof.
    induction r1 as [|a t1 IH]; intros r2 prev Hl Hne Hnd Hu; [contradiction|].
    destruct r2 as [|b t2]; [discriminate|]. cbn [length] in Hl. injection Hl as Hl.
    assert (Hnd' : no_double_gap t1 t2) by (intros k Hk; apply (Hnd (S k)); cbn [length]; lia).
    pose proof (Hnd 0%nat ltac:(cbn [length]; lia)) as H0. cbn [nth] in H0.
    destruct (isgap b) eqn:Eb; [|rewrite (ungap_cons_res b t2 Eb) in Hu; discriminate].
    rewrite (ungap_cons_gap b t2 Eb) in Hu. cbn [score_cols].
    destruct (isgap a) eqn:Ea; [exfalso; apply H0; split; apply isgap_true; assumption|]. rewrite Eb.
    destruct t1 as [|a' t1'].
    - destruct t2; [|discriminate]. cbn [score_cols]. destruct (prev =? 2); lia.
    - specialize (IH t2 2 Hl ltac:(discriminate) Hnd' Hu). destruct (prev =? 2); lia.
  Qed.

  (* with the start state: a non-empty one-sided alignment costs at most one opening *)
  Lemma score_nonpos_gaps : forall r1 r2 prev, length r1 = length r2 -> no_double_gap r1 r2 ->
    (ungap r1 = [] \/ ungap r2 = []) -> score_cols sub opn ext r1 r2 prev <= 0.
  Proof.
    intros r1 r2 prev Hl Hnd Hu. destruct r1 as [|a t]; [cbn; lia|].
    destruct Hu as [Hu|Hu].
    - pose proof (only_row2_le_opn (a :: t) r2 prev Hl ltac:(discriminate) Hnd Hu). lia.
    - pose proof (only_row1_le_opn (a :: t) r2 prev Hl ltac:(discriminate) Hnd Hu). lia.
  Qed.

  Lemma one_sided_le_opn r1 r2 : length r1 = length r2 -> r1 <> [] -> no_double_gap r1 r2 ->
    (ungap r1 = [] \/ ungap r2 = []) -> score_cols sub opn ext r1 r2 0 <= opn.
  Proof.
    intros Hl Hne Hnd Hu. destruct r1 as [|a t1]; [contradiction|]. destruct r2 as [|b t2]; [discriminate|].
    cbn [length] in Hl. injection Hl as Hl.
    assert (Hnd' : no_double_gap t1 t2) by (intros k Hk; apply (Hnd (S k)); cbn [length]; lia).
    pose proof (Hnd 0%nat ltac:(cbn [length]; lia)) as H0. cbn [nth] in H0.
    cbn [score_cols]. destruct (isgap a) eqn:Ea.
    - destruct (isgap b) eqn:Eb; [exfalso; apply H0; split; apply isgap_true; assumption|].
      rewrite (ungap_cons_gap a t1 Ea), (ungap_cons_res b t2 Eb) in Hu. destruct Hu as [Hu|Hu]; [|discriminate].
      pose proof (score_nonpos_gaps t1 t2 1 Hl Hnd' (or_introl Hu)). cbn. lia.
    - rewrite (ungap_cons_res a t1 Ea) in Hu. destruct Hu as [Hu|Hu]; [discriminate|].
      destruct (isgap b) eqn:Eb; [|rewrite (ungap_cons_res b t2 Eb) in Hu; discriminate].
      rewrite (ungap_cons_gap b t2 Eb) in Hu.
      pose proof (score_nonpos_gaps t1 t2 2 Hl Hnd' (or_intror Hu)). cbn. lia.
  Qed.

  (* ---- partial alignments of two fixed sequences ------------------------------------------------- *)
  Variables s1 s2 : list byte.

  Definition ends_at (r1 r2 : list byte) (I J : nat) : Prop :=
    length r1 = length r2 /\ no_double_gap r1 r2 /\
    (exists p1, firstn I s1 = p1 ++ ungap r1) /\ (exists p2, firstn J s2 = p2 ++ ungap r2) /\
    (I <= length s1)%nat /\ (J <= length s2)%nat.

  Definition sc (r1 r2 : list byte) : Z := score_cols sub opn ext r1 r2 0.

  Lemma ungap_app l1 l2 : ungap (l1 ++ l2) = ungap l1 ++ ungap l2.
  Proof. unfold ungap. apply filter_app. Qed.

  Lemma no_double_gap_prefix r1 r2 a b : length r1 = length r2 -> no_double_gap (r1 ++ [a]) (r2 ++ [b]) -> no_double_gap r1 r2.
  Proof.
    intros Hl H k Hk. specialize (H k ltac:(rewrite app_length; cbn; lia)).
    rewrite !app_nth1 in H by lia. exact H.
  Qed.

  Lemma last_col_not_double r1 r2 a b : length r1 = length r2 -> no_double_gap (r1 ++ [a]) (r2 ++ [b]) -> ~ (isgap a = true /\ isgap b = true).
  Proof.
    intros Hl H [Ha Hb]. apply (H (length r1) ltac:(rewrite app_length; cbn; lia)).
    split.
    - rewrite app_nth2 by lia. rewrite Nat.sub_diag. cbn. apply isgap_true. exact Ha.
    - rewrite Hl. rewrite app_nth2 by lia. rewrite Nat.sub_diag. cbn. apply isgap_true. exact Hb.
  Qed.

  (* the prefix of a sequence that ends with a given character *)
  Lemma firstn_snoc_inv (s : list byte) I l a : (I <= length s)%nat -> firstn I s = l ++ [a] ->
    exists I', I = S I' /\ firstn I' s = l /\ nth I' s GAPB = a.
  Proof.
    intros HI H. assert (HL : I = (length l + 1)%nat).
    { apply (f_equal (@length _)) in H. rewrite firstn_length, app_length in H. cbn in H. lia. }
    exists (length l). split; [lia|]. split.
    - assert (E : firstn (length l) (firstn I s) = firstn (length l) s) by (rewrite firstn_firstn; f_equal; lia).
      rewrite <- E, H. rewrite firstn_app, Nat.sub_diag, firstn_all. cbn. apply app_nil_r.
    - assert (E : nth (length l) (firstn I s) GAPB = nth (length l) s GAPB).
      { rewrite <- (firstn_skipn I s) at 2. rewrite app_nth1; [reflexivity|]. rewrite firstn_length. lia. }
      rewrite <- E, H. rewrite app_nth2 by lia. rewrite Nat.sub_diag. reflexivity.
  Qed.

  (* taking the last column off *)
  Lemma ends_at_pair r1 r2 a b I J : ends_at (r1 ++ [a]) (r2 ++ [b]) I J -> isgap a = false -> isgap b = false ->
    exists I' J', I = S I' /\ J = S J' /\ a = nth I' s1 GAPB /\ b = nth J' s2 GAPB /\ ends_at r1 r2 I' J'.
  Proof.
    intros [Hl [Hnd [[p1 H1] [[p2 H2] [HI HJ]]]]] Ea Eb.
    rewrite !app_length in Hl. cbn in Hl. assert (Hl' : length r1 = length r2) by lia.
    rewrite ungap_app in H1, H2. rewrite (ungap_cons_res a [] Ea) in H1. rewrite (ungap_cons_res b [] Eb) in H2.
    change (ungap []) with (@nil byte) in *. rewrite app_assoc in H1, H2.
    destruct (firstn_snoc_inv s1 I _ a HI H1) as [I' [EI [F1 N1]]].
    destruct (firstn_snoc_inv s2 J _ b HJ H2) as [J' [EJ [F2 N2]]].
    exists I', J'. repeat split; auto; try lia.
    - apply (no_double_gap_prefix r1 r2 a b Hl' Hnd).
    - exists p1. exact F1.
    - exists p2. exact F2.
  Qed.

  Lemma ends_at_gap2 r1 r2 a b I J : ends_at (r1 ++ [a]) (r2 ++ [b]) I J -> isgap a = false -> isgap b = true ->
    exists I', I = S I' /\ a = nth I' s1 GAPB /\ ends_at r1 r2 I' J.
  Proof.
    intros [Hl [Hnd [[p1 H1] [[p2 H2] [HI HJ]]]]] Ea Eb.
    rewrite !app_length in Hl. cbn in Hl. assert (Hl' : length r1 = length r2) by lia.
    rewrite ungap_app in H1, H2. rewrite (ungap_cons_res a [] Ea) in H1. rewrite (ungap_cons_gap b [] Eb) in H2.
    change (ungap []) with (@nil byte) in *. rewrite app_assoc in H1. rewrite app_nil_r in H2.
    destruct (firstn_snoc_inv s1 I _ a HI H1) as [I' [EI [F1 N1]]].
    exists I'. repeat split; auto; try lia.
    - apply (no_double_gap_prefix r1 r2 a b Hl' Hnd).
    - exists p1. exact F1.
    - exists p2. exact H2.
  Qed.

  Lemma ends_at_gap1 r1 r2 a b I J : ends_at (r1 ++ [a]) (r2 ++ [b]) I J -> isgap a = true -> isgap b = false ->
    exists J', J = S J' /\ b = nth J' s2 GAPB /\ ends_at r1 r2 I J'.
  Proof.
    intros [Hl [Hnd [[p1 H1] [[p2 H2] [HI HJ]]]]] Ea Eb.
    rewrite !app_length in Hl. cbn in Hl. assert (Hl' : length r1 = length r2) by lia.
    rewrite ungap_app in H1, H2. rewrite (ungap_cons_gap a [] Ea) in H1. rewrite (ungap_cons_res b [] Eb) in H2.
    change (ungap []) with (@nil byte) in *. rewrite app_assoc in H2. rewrite app_nil_r in H1.
    destruct (firstn_snoc_inv s2 J _ b HJ H2) as [J' [EJ [F2 N2]]].
    exists J'. repeat split; auto; try lia.
    - apply (no_double_gap_prefix r1 r2 a b Hl' Hnd).
    - exists p1. exact H1.
    - exists p2. exact F2.
  Qed.

  (* an alignment that ends at the border of the table consumed one sequence only *)
  Lemma ends_at_border r1 r2 I J : ends_at r1 r2 I J -> (I = 0 \/ J = 0)%nat -> ungap r1 = [] \/ ungap r2 = [].
  Proof.
    intros [_ [_ [[p1 H1] [[p2 H2] _]]]] [E|E]; subst.
    - left. cbn in H1. destruct p1; [|discriminate]. cbn in H1. congruence.
    - right. cbn in H2. destruct p2; [|discriminate]. cbn in H2. congruence.
  Qed.

  (* ---- what a cell of the table must dominate -------------------------------------------------------- *)
  Definition dom (I J : nat) (c : Z * Z * Z) : Prop :=
    let '(m, x, y) := c in
    forall r1 r2 a b, ends_at (r1 ++ [a]) (r2 ++ [b]) I J ->
      (col_type a b = 0 -> sc (r1 ++ [a]) (r2 ++ [b]) <= m) /\
      (col_type a b = 2 -> sc (r1 ++ [a]) (r2 ++ [b]) <= Z.max x opn) /\
      (col_type a b = 1 -> sc (r1 ++ [a]) (r2 ++ [b]) <= Z.max y opn).

  Lemma list_snoc {A} (l : list A) : l = [] \/ exists l' x, l = l' ++ [x].
  Proof.
    destruct l as [|h t]; [left; reflexivity|]. right.
    destruct (@exists_last A (h :: t) ltac:(discriminate)) as [l' [x E]]. exists l', x. exact E.
  Qed.

  Lemma col_type_cases a b : ~ (isgap a = true /\ isgap b = true) ->
    (col_type a b = 0 /\ isgap a = false /\ isgap b = false) \/
    (col_type a b = 2 /\ isgap a = false /\ isgap b = true) \/
    (col_type a b = 1 /\ isgap a = true /\ isgap b = false).
  Proof.
    intros H. unfold col_type. destruct (isgap a) eqn:Ea, (isgap b) eqn:Eb; auto.
    exfalso. apply H. auto.
  Qed.

  (* every non-empty alignment ending at a cell is bounded by the cell's best value or one opening; at the border of
     the table (no cell) by one opening *)
  Lemma dom_any I J c r1 r2 : r1 <> [] -> ends_at r1 r2 I J ->
    ((I = 0 \/ J = 0)%nat \/ dom I J c) -> sc r1 r2 <= Z.max (cellbest c) opn.
  Proof.
    intros Hne He [Hb|Hd].
    - pose proof He as [Hl [Hnd _]]. pose proof (one_sided_le_opn r1 r2 Hl Hne Hnd (ends_at_border r1 r2 I J He Hb)). unfold sc. lia.
    - destruct (list_snoc r1) as [->|[r1' [a ->]]]; [contradiction|].
      pose proof He as [Hl _]. destruct (list_snoc r2) as [->|[r2' [b ->]]]; [rewrite app_length in Hl; cbn in Hl; lia|].
      destruct c as [[m x] y]. destruct (Hd r1' r2' a b He) as [D0 [D2 D1]].
      rewrite !app_length in Hl. cbn in Hl. assert (Hl' : length r1' = length r2') by lia.
      pose proof He as [_ [Hnd _]].
      destruct (col_type_cases a b (last_col_not_double r1' r2' a b Hl' Hnd)) as [[T _]|[[T _]|[T _]]];
        [specialize (D0 T) | specialize (D2 T) | specialize (D1 T)]; unfold cellbest, max3; lia.
  Qed.

  (* the last column's type, after the decomposition *)
  Lemma last_type_snoc : forall r1 r2 prev a b, length r1 = length r2 -> last_type (r1 ++ [a]) (r2 ++ [b]) prev = col_type a b.
  Proof.
    induction r1 as [|x t1 IH]; intros r2 prev a b Hl; destruct r2 as [|y t2]; try discriminate; [reflexivity|].
    cbn [length] in Hl. injection Hl as Hl. cbn [app last_type]. apply IH. exact Hl.
  Qed.

  Lemma last_type_nil prev : last_type [] [] prev = prev. Proof. reflexivity. Qed.

  (* ---- the three recurrences ------------------------------------------------------------------------- *)
  (* M: a residue pair appended to anything that ended at the diagonal cell, or to nothing *)
  Lemma step_m I J diag r1 r2 a b :
    ends_at (r1 ++ [a]) (r2 ++ [b]) (S I) (S J) -> isgap a = false -> isgap b = false ->
    ((I = 0 \/ J = 0)%nat \/ dom I J diag) ->
    sc (r1 ++ [a]) (r2 ++ [b]) <= sub (nth I s1 GAPB) (nth J s2 GAPB) + Z.max 0 (cellbest diag).
  Proof.
    intros He Ea Eb Hd. destruct (ends_at_pair r1 r2 a b _ _ He Ea Eb) as [I' [J' [EI [EJ [Na [Nb Hp]]]]]].
    injection EI as <-. injection EJ as <-. subst a b.
    pose proof Hp as [Hl _]. unfold sc. rewrite score_cols_snoc by exact Hl.
    unfold col_cost. rewrite Ea, Eb.
    destruct r1 as [|x t].
    - destruct r2; [|discriminate]. cbn [score_cols]. lia.
    - pose proof (dom_any I J diag (x :: t) r2 ltac:(discriminate) Hp Hd) as B. unfold sc in B. lia.
  Qed.

  (* X: a gap in row 2 appended to what ended at the cell above *)
  Lemma step_x I J up (first_row : bool) r1 r2 a b :
    ends_at (r1 ++ [a]) (r2 ++ [b]) (S I) J -> isgap a = false -> isgap b = true ->
    (if first_row then I = 0%nat else dom I J up) ->
    sc (r1 ++ [a]) (r2 ++ [b]) <=
      Z.max (if first_row then NEG else Z.max (cellbest up + opn) (let '(_, ux, _) := up in ux + ext)) opn.
  Proof.
    intros He Ea Eb Hd. destruct (ends_at_gap2 r1 r2 a b _ _ He Ea Eb) as [I' [EI [Na Hp]]]. injection EI as <-.
    pose proof Hp as [Hl [Hnd _]]. unfold sc. rewrite score_cols_snoc by exact Hl.
    unfold col_cost. rewrite Ea, Eb.
    destruct (list_snoc r1) as [->|[r1' [a' ->]]].
    - destruct r2; [|discriminate]. cbn [score_cols last_type]. cbn. lia.
    - destruct (list_snoc r2) as [->|[r2' [b' ->]]]; [rewrite app_length in Hl; cbn in Hl; lia|].
      assert (Hl' : length r1' = length r2') by (rewrite !app_length in Hl; cbn in Hl; lia).
      rewrite last_type_snoc by exact Hl'.
      destruct first_row.
      + (* first row: nothing above, the prefix consumed row 2 only *)
        subst I. pose proof (one_sided_le_opn _ _ Hl ltac:(intros E; apply app_eq_nil in E as [_ E]; discriminate) Hnd
                               (ends_at_border _ _ _ _ Hp (or_introl eq_refl))) as B.
        destruct (col_type a' b' =? 2); lia.
      + destruct up as [[um ux] uy]. destruct (Hd r1' r2' a' b' Hp) as [D0 [D2 D1]].
        destruct (col_type_cases a' b' (last_col_not_double r1' r2' a' b' Hl' Hnd)) as [[T _]|[[T _]|[T _]]]; rewrite T; cbn [Z.eqb Pos.eqb].
        * specialize (D0 T). unfold cellbest, max3, sc in *. lia.
        * specialize (D2 T). unfold cellbest, max3, sc in *. lia.
        * specialize (D1 T). unfold cellbest, max3, sc in *. lia.
  Qed.

  (* Y: a gap in row 1 appended to what ended at the cell on the left *)
  Lemma step_y I J left r1 r2 a b :
    ends_at (r1 ++ [a]) (r2 ++ [b]) I (S J) -> isgap a = true -> isgap b = false ->
    (J = 0%nat \/ dom I J left) ->
    sc (r1 ++ [a]) (r2 ++ [b]) <= Z.max (Z.max (cellbest left + opn) (let '(_, _, ly) := left in ly + ext)) opn.
  Proof.
    intros He Ea Eb Hd. destruct (ends_at_gap1 r1 r2 a b _ _ He Ea Eb) as [J' [EJ [Nb Hp]]]. injection EJ as <-.
    pose proof Hp as [Hl [Hnd _]]. unfold sc. rewrite score_cols_snoc by exact Hl.
    unfold col_cost. rewrite Ea.
    destruct (list_snoc r1) as [->|[r1' [a' ->]]].
    - destruct r2; [|discriminate]. cbn [score_cols last_type]. cbn. lia.
    - destruct (list_snoc r2) as [->|[r2' [b' ->]]]; [rewrite app_length in Hl; cbn in Hl; lia|].
      assert (Hl' : length r1' = length r2') by (rewrite !app_length in Hl; cbn in Hl; lia).
      rewrite last_type_snoc by exact Hl'.
      destruct Hd as [->|Hd].
      + pose proof (one_sided_le_opn _ _ Hl ltac:(intros E; apply app_eq_nil in E as [_ E]; discriminate) Hnd
                      (ends_at_border _ _ _ _ Hp (or_intror eq_refl))) as B.
        destruct (col_type a' b' =? 1); lia.
      + destruct left as [[lm lx] ly]. destruct (Hd r1' r2' a' b' Hp) as [D0 [D2 D1]].
        destruct (col_type_cases a' b' (last_col_not_double r1' r2' a' b' Hl' Hnd)) as [[T _]|[[T _]|[T _]]]; rewrite T; cbn [Z.eqb Pos.eqb].
        * specialize (D0 T). unfold cellbest, max3, sc in *. lia.
        * specialize (D2 T). unfold cellbest, max3, sc in *. lia.
        * specialize (D1 T). unfold cellbest, max3, sc in *. lia.
  Qed.

  (* ---- one row of the table ------------------------------------------------------------------------------ *)
  Definition d0 : Z * Z * Z := (NEG, NEG, NEG).

  Lemma col_type_0 a b : col_type a b = 0 -> isgap a = false /\ isgap b = false.
  Proof. unfold col_type. destruct (isgap a), (isgap b); intros H; try discriminate; auto. Qed.
  Lemma col_type_2 a b : col_type a b = 2 -> isgap a = false /\ isgap b = true.
  Proof. unfold col_type. destruct (isgap a), (isgap b); intros H; try discriminate; auto. Qed.
  Lemma col_type_1 a b : col_type a b = 1 -> isgap a = true.
  Proof. unfold col_type. destruct (isgap a), (isgap b); intros H; try discriminate; auto. Qed.

  Lemma row_ok I (first_row : bool) : forall suf pre prev diag left,
    s2 = pre ++ suf ->
    (if first_row then I = 0%nat
     else length prev = length suf /\ forall k, (k < length suf)%nat -> dom I (length pre + k + 1) (nth k prev d0)) ->
    (((I = 0 \/ length pre = 0)%nat) \/ dom I (length pre) diag) ->
    (length pre = 0%nat \/ dom (S I) (length pre) left) ->
    let row := gotoh_row sub opn ext (nth I s1 GAPB) suf prev diag left first_row in
    length row = length suf /\ forall k, (k < length suf)%nat -> dom (S I) (length pre + k + 1) (nth k row d0).
  Proof.
    induction suf as [|b t2 IH]; intros pre prev diag left Hs Hprev Hdiag Hleft; cbn zeta.
    - cbn [gotoh_row length]. split; [reflexivity | intros k Hk; lia].
    - cbn [gotoh_row]. cbv zeta.
      set (J := length pre) in *.
      set (up := match prev with c :: _ => c | [] => (NEG, NEG, NEG) end).
      set (m := sub (nth I s1 GAPB) b + Z.max 0 (cellbest diag)).
      set (x := if first_row then NEG else Z.max (cellbest up + opn) (let '(_, ux, _) := up in ux + ext)).
      set (y := Z.max (cellbest left + opn) (let '(_, _, ly) := left in ly + ext)).
      assert (Hb : b = nth J s2 GAPB).
      { rewrite Hs. unfold J. rewrite app_nth2 by lia. rewrite Nat.sub_diag. reflexivity. }
      assert (Hup : if first_row then I = 0%nat else dom I (S J) up).
      { destruct first_row; [exact Hprev|]. destruct Hprev as [Hlp Hd]. specialize (Hd 0%nat ltac:(cbn [length]; lia)).
        replace (J + 0 + 1)%nat with (S J) in Hd by lia. destruct prev as [|c pt]; [cbn in Hlp; lia|]. exact Hd. }
      assert (Hc : dom (S I) (S J) (m, x, y)).
      { intros r1 r2 a' b' Hends. split; [|split]; intros T.
        - destruct (col_type_0 a' b' T) as [Ea Eb]. subst m. rewrite Hb.
          apply (step_m I J diag r1 r2 a' b' Hends Ea Eb). destruct Hdiag as [[H|H]|H]; auto.
        - destruct (col_type_2 a' b' T) as [Ea Eb]. subst x. apply (step_x I (S J) up first_row r1 r2 a' b' Hends Ea Eb Hup).
        - pose proof (col_type_1 a' b' T) as Ea.
          assert (Eb : isgap b' = false).
          { destruct (isgap b') eqn:E; [|reflexivity]. exfalso.
            destruct Hends as [Hl [Hnd _]]. rewrite !app_length in Hl. cbn in Hl.
            apply (last_col_not_double r1 r2 a' b' ltac:(lia) Hnd). auto. }
          subst y. apply (step_y (S I) J left r1 r2 a' b' Hends Ea Eb). exact Hleft. }
      destruct (IH (pre ++ [b]) (tl prev) up (m, x, y)) as [Hlen Hrow].
      + rewrite <- app_assoc. exact Hs.
      + destruct first_row; [exact Hprev|]. destruct Hprev as [Hlp Hd]. split.
        * destruct prev; cbn [tl length] in *; lia.
        * intros k Hk. specialize (Hd (S k) ltac:(cbn [length]; lia)). rewrite app_length. cbn [length]. fold J.
          replace (J + 1 + k + 1)%nat with (J + S k + 1)%nat by lia.
          destruct prev as [|c pt]; [cbn in Hlp; lia|]. cbn [tl]. cbn [nth] in Hd. exact Hd.
      + rewrite app_length. cbn [length]. fold J. destruct first_row; [left; left; exact Hup|]. right.
        replace (J + 1)%nat with (S J) by lia. exact Hup.
      + right. rewrite app_length. cbn [length]. fold J. replace (J + 1)%nat with (S J) by lia. exact Hc.
      + split; [cbn [length]; rewrite Hlen; reflexivity|].
        intros k Hk. destruct k as [|k].
        * cbn [nth]. replace (J + 0 + 1)%nat with (S J) by lia. exact Hc.
        * cbn [nth]. specialize (Hrow k ltac:(cbn [length] in Hk; lia)). rewrite app_length in Hrow. cbn [length] in Hrow. fold J in Hrow.
          replace (J + S k + 1)%nat with (J + 1 + k + 1)%nat by lia. exact Hrow.
  Qed.

  (* ---- all rows ------------------------------------------------------------------------------------------ *)
  Definition mval (c : Z * Z * Z) : Z := let '(m, _, _) := c in m.
  Definition fold_best (row : list (Z * Z * Z)) (best : Z) : Z :=
    fold_left (fun acc c => let '(m, _, _) := c in Z.max acc m) row best.

  Lemma fold_best_ge_init : forall row best, best <= fold_best row best.
  Proof.
    induction row as [|c t IH]; intros best; unfold fold_best in *; cbn [fold_left]; [lia|].
    destruct c as [[m x] y]. eapply Z.le_trans; [|apply IH]. lia.
  Qed.

  Lemma fold_best_ge_in : forall row best c, In c row -> mval c <= fold_best row best.
  Proof.
    induction row as [|c0 t IH]; intros best c H; [destruct H|]. unfold fold_best in *. cbn [fold_left].
    destruct H as [->|H].
    - destruct c as [[m x] y]. cbn [mval]. eapply Z.le_trans; [|apply fold_best_ge_init]. lia.
    - destruct c0 as [[m0 x0] y0]. apply IH. exact H.
  Qed.

  Lemma rows_mono : forall todo prev first best, best <= gotoh_rows sub opn ext todo s2 prev first best.
  Proof.
    induction todo as [|a t IH]; intros prev first best; cbn [gotoh_rows]; [lia|]. cbv zeta.
    eapply Z.le_trans; [|apply IH]. apply fold_best_ge_init.
  Qed.

  Lemma rows_ok : forall todo done prev (first : bool) best,
    s1 = done ++ todo ->
    (if first then length done = 0%nat
     else length prev = length s2 /\ forall k, (k < length s2)%nat -> dom (length done) (k + 1) (nth k prev d0)) ->
    forall I J, (length done <= I < length s1)%nat -> (J < length s2)%nat ->
    exists c, dom (S I) (S J) c /\ mval c <= gotoh_rows sub opn ext todo s2 prev first best.
  Proof.
    induction todo as [|a t IH]; intros done prev first best Hs Hprev I J HI HJ.
    - rewrite Hs, app_nil_r in HI. lia.
    - cbn [gotoh_rows]. cbv zeta.
      set (I0 := length done) in *.
      assert (Ha : a = nth I0 s1 GAPB).
      { rewrite Hs. unfold I0. rewrite app_nth2 by lia. rewrite Nat.sub_diag. reflexivity. }
      set (row := gotoh_row sub opn ext a s2 prev (NEG, NEG, NEG) (NEG, NEG, NEG) first).
      destruct (row_ok I0 first s2 [] prev (NEG, NEG, NEG) (NEG, NEG, NEG)) as [Hlen Hrow].
      + reflexivity.
      + destruct first; [exact Hprev|]. destruct Hprev as [Hlp Hd]. split; [exact Hlp|]. intros k Hk. cbn [length Nat.add]. apply Hd. exact Hk.
      + left. right. reflexivity.
      + left. reflexivity.
      + rewrite <- Ha in Hlen, Hrow. fold row in Hlen, Hrow. cbn [length Nat.add] in Hrow.
        destruct (Nat.eq_dec I I0) as [->|Hne].
        * exists (nth J row d0). split.
          -- replace (S J) with (J + 1)%nat by lia. apply Hrow. exact HJ.
          -- eapply Z.le_trans; [|apply rows_mono]. apply fold_best_ge_in. apply nth_In. rewrite Hlen. exact HJ.
        * apply (IH (done ++ [a]) row false); [rewrite <- app_assoc; exact Hs | | rewrite app_length; cbn [length]; fold I0; lia | exact HJ].
          split; [exact Hlen|]. intros k Hk. rewrite app_length. cbn [length]. fold I0. replace (I0 + 1)%nat with (S I0) by lia.
          apply Hrow. exact Hk.
  Qed.

  (* ---- the optimum ---------------------------------------------------------------------------------------- *)
  Lemma gotoh_best_nonneg : 0 <= gotoh_best sub opn ext s1 s2.
  Proof. unfold gotoh_best. apply rows_mono. Qed.

  Lemma cell_exists I J : (I < length s1)%nat -> (J < length s2)%nat ->
    exists c, dom (S I) (S J) c /\ mval c <= gotoh_best sub opn ext s1 s2.
  Proof.
    intros HI HJ. unfold gotoh_best. apply (rows_ok s1 [] [] true 0); [reflexivity | reflexivity | cbn [length]; lia | exact HJ].
  Qed.

  Lemma bounded_by_gotoh : forall n r1 r2 I J, length r1 = n -> r1 <> [] -> ends_at r1 r2 I J ->
    sc r1 r2 <= gotoh_best sub opn ext s1 s2.
  Proof.
    induction n as [|n IH]; intros r1 r2 I J Hn Hne Hends; [destruct r1; [contradiction | discriminate]|].
    destruct (list_snoc r1) as [->|[p1 [a ->]]]; [contradiction|].
    pose proof Hends as [Hl [Hnd _]].
    destruct (list_snoc r2) as [->|[p2 [b ->]]]; [rewrite app_length in Hl; cbn in Hl; lia|].
    assert (Hl' : length p1 = length p2) by (rewrite !app_length in Hl; cbn in Hl; lia).
    assert (Hn' : length p1 = n) by (rewrite app_length in Hn; cbn in Hn; lia).
    pose proof gotoh_best_nonneg as G0.
    destruct (col_type_cases a b (last_col_not_double p1 p2 a b Hl' Hnd)) as [[T [Ea Eb]]|[[T [Ea Eb]]|[T [Ea Eb]]]].
    - (* ends with a residue pair: the cell's M value *)
      destruct (ends_at_pair p1 p2 a b I J Hends Ea Eb) as [I' [J' [-> [-> [_ [_ Hp]]]]]].
      pose proof Hends as Hends0. destruct Hends as [_ [_ [_ [_ [HI HJ]]]]].
      destruct (cell_exists I' J' ltac:(lia) ltac:(lia)) as [[[m x] y] [Hd Hm]].
      destruct (Hd p1 p2 a b Hends0) as [D0 _].
      specialize (D0 T). cbn [mval] in Hm. lia.
    - destruct (ends_at_gap2 p1 p2 a b I J Hends Ea Eb) as [I' [-> [_ Hp]]].
      unfold sc. rewrite score_cols_snoc by exact Hl'. unfold col_cost. rewrite Ea, Eb.
      destruct p1 as [|x t].
      + destruct p2; [|discriminate]. cbn [score_cols last_type]. cbn. lia.
      + pose proof (IH (x :: t) p2 I' J Hn' ltac:(discriminate) Hp) as B. unfold sc in B.
        destruct (last_type (x :: t) p2 0 =? 2); lia.
    - destruct (ends_at_gap1 p1 p2 a b I J Hends Ea Eb) as [J' [-> [_ Hp]]].
      unfold sc. rewrite score_cols_snoc by exact Hl'. unfold col_cost. rewrite Ea.
      destruct p1 as [|x t].
      + destruct p2; [|discriminate]. cbn [score_cols last_type]. cbn. lia.
      + pose proof (IH (x :: t) p2 I J' Hn' ltac:(discriminate) Hp) as B. unfold sc in B.
        destruct (last_type (x :: t) p2 0 =? 1); lia.
  Qed.

  (* a window of a sequence is the end of one of its prefixes *)
  Lemma window_ends (s : list byte) (st en : Z) : 0 <= st -> en < Z.of_nat (length s) ->
    exists I p, (I <= length s)%nat /\ firstn I s = p ++ sub_string s st en.
  Proof.
    intros Hst Hen. unfold sub_string. set (n := Z.to_nat (en - st + 1)). set (a := Z.to_nat st).
    destruct n as [|n'] eqn:En.
    - exists 0%nat, []. split; [lia | reflexivity].
    - destruct (Nat.le_gt_cases (a + n) (length s)) as [Hle|Hgt].
      + exists (a + n)%nat, (firstn a s). split; [exact Hle|]. rewrite <- En.
        rewrite <- (firstn_skipn a s) at 1. rewrite firstn_app, firstn_length.
        replace (Nat.min a (length s)) with a by lia. replace (a + n - a)%nat with n by lia.
        rewrite firstn_firstn. replace (Nat.min (a + n) a) with a by lia. reflexivity.
      + exfalso. unfold n, a in *. lia.
  Qed.

  Theorem gotoh_dominates r1 r2 st1 st2 en1 en2 :
    valid_alignment s1 s2 r1 r2 st1 st2 en1 en2 -> score_cols sub opn ext r1 r2 0 <= gotoh_best sub opn ext s1 s2.
  Proof.
    intros [Hl Hnd [Hs1 [He1 Hu1]] [Hs2 [He2 Hu2]]].
    destruct r1 as [|a t].
    - cbn [score_cols]. apply gotoh_best_nonneg.
    - destruct (window_ends s1 st1 en1 Hs1 He1) as [I [p1 [HI E1]]].
      destruct (window_ends s2 st2 en2 Hs2 He2) as [J [p2 [HJ E2]]].
      apply (bounded_by_gotoh (length (a :: t)) (a :: t) r2 I J eq_refl ltac:(discriminate)).
      repeat split; auto.
      + exists p1. rewrite Hu1. exact E1.
      + exists p2. rewrite Hu2. exact E2.
  Qed.

  (* ======== the optimum is attained (sequences without gap characters) ================================= *)
  Hypothesis Hng1 : forall b, In b s1 -> isgap b = false.
  Hypothesis Hng2 : forall b, In b s2 -> isgap b = false.

  Lemma firstn_S_nth (s : list byte) I : (I < length s)%nat -> firstn (S I) s = firstn I s ++ [nth I s GAPB].
  Proof.
    revert I. induction s as [|h t IH]; intros I H; [cbn in H; lia|].
    destruct I as [|I]; [reflexivity|]. cbn [firstn nth app]. f_equal. apply IH. cbn in H. lia.
  Qed.

  Lemma nth_nogap1 I : (I < length s1)%nat -> isgap (nth I s1 GAPB) = false.
  Proof. intros H. apply Hng1. apply nth_In. exact H. Qed.
  Lemma nth_nogap2 J : (J < length s2)%nat -> isgap (nth J s2 GAPB) = false.
  Proof. intros H. apply Hng2. apply nth_In. exact H. Qed.

  Lemma ends_at_nil I J : (I <= length s1)%nat -> (J <= length s2)%nat -> ends_at [] [] I J.
  Proof.
    intros HI HJ. repeat split; auto.
    - intros k Hk. cbn in Hk. lia.
    - exists (firstn I s1). cbn. rewrite app_nil_r. reflexivity.
    - exists (firstn J s2). cbn. rewrite app_nil_r. reflexivity.
  Qed.

  Lemma no_double_gap_snoc r1 r2 a b : length r1 = length r2 -> no_double_gap r1 r2 ->
    ~ (isgap a = true /\ isgap b = true) -> no_double_gap (r1 ++ [a]) (r2 ++ [b]).
  Proof.
    intros Hl Hnd Hab k Hk. rewrite app_length in Hk. cbn in Hk.
    destruct (Nat.lt_ge_cases k (length r1)) as [Hlt|Hge].
    - rewrite !app_nth1 by lia. apply Hnd. exact Hlt.
    - assert (k = length r1) by lia. subst k. rewrite app_nth2 by lia. rewrite Nat.sub_diag.
      rewrite Hl. rewrite app_nth2 by lia. rewrite Nat.sub_diag. cbn. intros [Ha Hb]. apply Hab.
      split; apply isgap_true; assumption.
  Qed.

  Lemma isgap_GAPB : isgap GAPB = true. Proof. apply isgap_true. reflexivity. Qed.

  Lemma ext_pair r1 r2 I J : ends_at r1 r2 I J -> (I < length s1)%nat -> (J < length s2)%nat ->
    ends_at (r1 ++ [nth I s1 GAPB]) (r2 ++ [nth J s2 GAPB]) (S I) (S J).
  Proof.
    intros [Hl [Hnd [[p1 H1] [[p2 H2] _]]]] HI HJ.
    pose proof (nth_nogap1 I HI) as Ea. pose proof (nth_nogap2 J HJ) as Eb.
    repeat split; try lia.
    - rewrite !app_length. cbn. lia.
    - apply no_double_gap_snoc; auto. intros [E _]. congruence.
    - exists p1. rewrite ungap_app, (ungap_cons_res _ [] Ea). change (ungap []) with (@nil byte).
      rewrite app_assoc, <- H1. apply firstn_S_nth. exact HI.
    - exists p2. rewrite ungap_app, (ungap_cons_res _ [] Eb). change (ungap []) with (@nil byte).
      rewrite app_assoc, <- H2. apply firstn_S_nth. exact HJ.
  Qed.

  Lemma ext_gap2 r1 r2 I J : ends_at r1 r2 I J -> (I < length s1)%nat ->
    ends_at (r1 ++ [nth I s1 GAPB]) (r2 ++ [GAPB]) (S I) J.
  Proof.
    intros [Hl [Hnd [[p1 H1] [[p2 H2] [_ HJ]]]]] HI. pose proof (nth_nogap1 I HI) as Ea.
    repeat split; try lia.
    - rewrite !app_length. cbn. lia.
    - apply no_double_gap_snoc; auto. intros [E _]. congruence.
    - exists p1. rewrite ungap_app, (ungap_cons_res _ [] Ea). change (ungap []) with (@nil byte).
      rewrite app_assoc, <- H1. apply firstn_S_nth. exact HI.
    - exists p2. rewrite ungap_app, (ungap_cons_gap _ [] isgap_GAPB). change (ungap []) with (@nil byte).
      rewrite app_nil_r. exact H2.
  Qed.

  Lemma ext_gap1 r1 r2 I J : ends_at r1 r2 I J -> (J < length s2)%nat ->
    ends_at (r1 ++ [GAPB]) (r2 ++ [nth J s2 GAPB]) I (S J).
  Proof.
    intros [Hl [Hnd [[p1 H1] [[p2 H2] [HI _]]]]] HJ. pose proof (nth_nogap2 J HJ) as Eb.
    repeat split; try lia.
    - rewrite !app_length. cbn. lia.
    - apply no_double_gap_snoc; auto. intros [_ E]. congruence.
    - exists p1. rewrite ungap_app, (ungap_cons_gap _ [] isgap_GAPB). change (ungap []) with (@nil byte).
      rewrite app_nil_r. exact H1.
    - exists p2. rewrite ungap_app, (ungap_cons_res _ [] Eb). change (ungap []) with (@nil byte).
      rewrite app_assoc, <- H2. apply firstn_S_nth. exact HJ.
  Qed.

  (* an alignment that ends at (I, J) with a column of the given type and the given score *)
  Definition attained (I J : nat) (ty v : Z) : Prop :=
    exists r1 r2 a b, ends_at (r1 ++ [a]) (r2 ++ [b]) I J /\ col_type a b = ty /\ sc (r1 ++ [a]) (r2 ++ [b]) = v.

  Definition ach (I J : nat) (c : Z * Z * Z) : Prop :=
    let '(m, x, y) := c in attained I J 0 m /\ (0 < x -> attained I J 2 x) /\ (0 < y -> attained I J 1 y).

  Lemma col_type_pair a b : isgap a = false -> isgap b = false -> col_type a b = 0.
  Proof. unfold col_type. intros -> ->. reflexivity. Qed.
  Lemma col_type_g2 a : isgap a = false -> col_type a GAPB = 2.
  Proof. unfold col_type. intros ->. rewrite isgap_GAPB. reflexivity. Qed.
  Lemma col_type_g1 b : col_type GAPB b = 1.
  Proof. unfold col_type. rewrite isgap_GAPB. reflexivity. Qed.

  (* a positive best value of a cell is attained by some alignment ending there *)
  Lemma best_attained I J c : ach I J c -> 0 < cellbest c -> exists ty, attained I J ty (cellbest c).
  Proof.
    destruct c as [[m x] y]. intros [Am [Ax Ay]] Hpos. unfold cellbest, max3 in *.
    destruct (Z.max_spec m (Z.max x y)) as [[H1 E1]|[H1 E1]]; rewrite E1 in *.
    - destruct (Z.max_spec x y) as [[H2 E2]|[H2 E2]]; rewrite E2 in *.
      + exists 1. apply Ay. lia.
      + exists 2. apply Ax. lia.
    - exists 0. exact Am.
  Qed.

  Lemma step_m_ach I J diag : (I < length s1)%nat -> (J < length s2)%nat ->
    (cellbest diag <= 0 \/ ach I J diag) ->
    attained (S I) (S J) 0 (sub (nth I s1 GAPB) (nth J s2 GAPB) + Z.max 0 (cellbest diag)).
  Proof.
    intros HI HJ Hd. pose proof (nth_nogap1 I HI) as Ea. pose proof (nth_nogap2 J HJ) as Eb.
    destruct (Z_le_gt_dec (cellbest diag) 0) as [Hle|Hgt].
    - (* a fresh start *)
      exists [], [], (nth I s1 GAPB), (nth J s2 GAPB). split; [|split].
      + apply (ext_pair [] [] I J); [apply ends_at_nil; lia | exact HI | exact HJ].
      + apply col_type_pair; assumption.
      + unfold sc. cbn [app score_cols]. rewrite Ea, Eb. lia.
    - destruct Hd as [Hd|Hd]; [lia|].
      destruct (best_attained I J diag Hd ltac:(lia)) as [ty [r1 [r2 [a [b [He [_ Hs]]]]]]].
      exists (r1 ++ [a]), (r2 ++ [b]), (nth I s1 GAPB), (nth J s2 GAPB). split; [|split].
      + apply ext_pair; assumption.
      + apply col_type_pair; assumption.
      + pose proof He as [Hl _]. unfold sc in *. rewrite score_cols_snoc by exact Hl. unfold col_cost. rewrite Ea, Eb. lia.
  Qed.

  Lemma step_x_ach I J up (first_row : bool) : (I < length s1)%nat ->
    (first_row = false -> ach I J up) ->
    let x := if first_row then NEG else Z.max (cellbest up + opn) (let '(_, ux, _) := up in ux + ext) in
    0 < x -> attained (S I) J 2 x.
  Proof.
    intros HI Hup x Hx. pose proof (nth_nogap1 I HI) as Ea. subst x.
    destruct first_row; [unfold NEG in Hx; lia|]. specialize (Hup eq_refl).
    destruct up as [[um ux] uy]. pose proof Hup as [Am [Ax Ay]].
    destruct (Z_le_gt_dec (cellbest (um, ux, uy) + opn) (ux + ext)) as [Hc|Hc].
    - (* extend a gap run *)
      rewrite Z.max_r in * by lia.
      destruct (Ax ltac:(lia)) as [r1 [r2 [a [b [He [Ht Hs]]]]]].
      exists (r1 ++ [a]), (r2 ++ [b]), (nth I s1 GAPB), GAPB. split; [|split].
      + apply ext_gap2; assumption.
      + apply col_type_g2. exact Ea.
      + pose proof He as [Hl _]. unfold sc in *. rewrite score_cols_snoc by exact Hl.
        rewrite !app_length in Hl. cbn in Hl. rewrite last_type_snoc by lia. rewrite Ht.
        unfold col_cost. rewrite Ea, isgap_GAPB. cbn [Z.eqb Pos.eqb]. lia.
    - (* open a gap after the best alignment, which does not end with a gap in row 2 *)
      rewrite Z.max_l in * by lia.
      assert (Hbest : 0 < cellbest (um, ux, uy)) by lia.
      unfold cellbest, max3 in *.
      destruct (Z.max_spec um (Z.max ux uy)) as [[H1 E1]|[H1 E1]]; rewrite E1 in *.
      + destruct (Z.max_spec ux uy) as [[H2 E2]|[H2 E2]]; rewrite E2 in *.
        * destruct (Ay ltac:(lia)) as [r1 [r2 [a [b [He [Ht Hs]]]]]].
          exists (r1 ++ [a]), (r2 ++ [b]), (nth I s1 GAPB), GAPB. split; [|split].
          -- apply ext_gap2; assumption.
          -- apply col_type_g2. exact Ea.
          -- pose proof He as [Hl _]. unfold sc in *. rewrite score_cols_snoc by exact Hl.
             rewrite !app_length in Hl. cbn in Hl. rewrite last_type_snoc by lia. rewrite Ht.
             unfold col_cost. rewrite Ea, isgap_GAPB. cbn [Z.eqb Pos.eqb]. lia.
        * (* the best is the X value itself: then extending would be at least as good *) lia.
      + destruct Am as [r1 [r2 [a [b [He [Ht Hs]]]]]].
        exists (r1 ++ [a]), (r2 ++ [b]), (nth I s1 GAPB), GAPB. split; [|split].
        * apply ext_gap2; assumption.
        * apply col_type_g2. exact Ea.
        * pose proof He as [Hl _]. unfold sc in *. rewrite score_cols_snoc by exact Hl.
          rewrite !app_length in Hl. cbn in Hl. rewrite last_type_snoc by lia. rewrite Ht.
          unfold col_cost. rewrite Ea, isgap_GAPB. cbn [Z.eqb Pos.eqb]. lia.
  Qed.

  Lemma step_y_ach I J left : (J < length s2)%nat ->
    (left = d0 \/ ach I J left) ->
    let y := Z.max (cellbest left + opn) (let '(_, _, ly) := left in ly + ext) in
    0 < y -> attained I (S J) 1 y.
  Proof.
    intros HJ Hl y Hy. pose proof (nth_nogap2 J HJ) as Eb. subst y.
    destruct Hl as [->|Hl]; [unfold d0, cellbest, max3, NEG in Hy; lia|].
    destruct left as [[lm lx] ly]. pose proof Hl as [Am [Ax Ay]].
    assert (Fin : forall r1 r2 a b ty cost v, ends_at (r1 ++ [a]) (r2 ++ [b]) I J -> col_type a b = ty ->
                  sc (r1 ++ [a]) (r2 ++ [b]) = v -> cost = (if ty =? 1 then ext else opn) ->
                  attained I (S J) 1 (v + cost)).
    { intros r1 r2 a b ty cost v He Ht Hs Hcost.
      exists (r1 ++ [a]), (r2 ++ [b]), GAPB, (nth J s2 GAPB). split; [|split].
      - apply ext_gap1; assumption.
      - apply col_type_g1.
      - pose proof He as [Hlen _]. unfold sc in *. rewrite score_cols_snoc by exact Hlen.
        rewrite !app_length in Hlen. cbn in Hlen. rewrite last_type_snoc by lia. rewrite Ht.
        unfold col_cost. rewrite isgap_GAPB. lia. }
    destruct (Z_le_gt_dec (cellbest (lm, lx, ly) + opn) (ly + ext)) as [Hc|Hc].
    - rewrite Z.max_r in * by lia.
      destruct (Ay ltac:(lia)) as [r1 [r2 [a [b [He [Ht Hs]]]]]].
      apply (Fin r1 r2 a b 1 ext ly He Ht Hs). reflexivity.
    - rewrite Z.max_l in * by lia. unfold cellbest, max3 in *.
      destruct (Z.max_spec lm (Z.max lx ly)) as [[H1 E1]|[H1 E1]]; rewrite E1 in *.
      + destruct (Z.max_spec lx ly) as [[H2 E2]|[H2 E2]]; rewrite E2 in *.
        * lia.
        * destruct (Ax ltac:(lia)) as [r1 [r2 [a [b [He [Ht Hs]]]]]].
          apply (Fin r1 r2 a b 2 opn lx He Ht Hs). reflexivity.
      + destruct Am as [r1 [r2 [a [b [He [Ht Hs]]]]]].
        apply (Fin r1 r2 a b 0 opn lm He Ht Hs). reflexivity.
  Qed.

  Lemma cellbest_d0 : cellbest d0 <= 0.
  Proof. unfold d0, cellbest, max3, NEG. lia. Qed.

  Lemma row_ach I (first_row : bool) : (I < length s1)%nat -> forall suf pre prev diag left,
    s2 = pre ++ suf ->
    (first_row = true -> prev = []) ->
    (first_row = false -> length prev = length suf /\ forall k, (k < length suf)%nat -> ach I (length pre + k + 1) (nth k prev d0)) ->
    (cellbest diag <= 0 \/ ach I (length pre) diag) ->
    (left = d0 \/ ach (S I) (length pre) left) ->
    let row := gotoh_row sub opn ext (nth I s1 GAPB) suf prev diag left first_row in
    forall k, (k < length suf)%nat -> ach (S I) (length pre + k + 1) (nth k row d0).
  Proof.
    intros HI. induction suf as [|b t2 IH]; intros pre prev diag left Hs Hfirst Hprev Hdiag Hleft; cbn zeta.
    - intros k Hk. cbn in Hk. lia.
    - cbn [gotoh_row]. cbv zeta.
      set (J := length pre) in *.
      set (up := match prev with c :: _ => c | [] => (NEG, NEG, NEG) end).
      set (m := sub (nth I s1 GAPB) b + Z.max 0 (cellbest diag)).
      set (x := if first_row then NEG else Z.max (cellbest up + opn) (let '(_, ux, _) := up in ux + ext)).
      set (y := Z.max (cellbest left + opn) (let '(_, _, ly) := left in ly + ext)).
      assert (HJ : (J < length s2)%nat) by (rewrite Hs, app_length; cbn [length]; unfold J; lia).
      assert (Hb : b = nth J s2 GAPB).
      { rewrite Hs. unfold J. rewrite app_nth2 by lia. rewrite Nat.sub_diag. reflexivity. }
      assert (Hup : first_row = false -> ach I (S J) up).
      { intros Hf. destruct (Hprev Hf) as [Hlp Hd]. specialize (Hd 0%nat ltac:(cbn [length]; lia)).
        replace (J + 0 + 1)%nat with (S J) in Hd by lia. destruct prev as [|c pt]; [cbn in Hlp; lia|]. exact Hd. }
      assert (Hc : ach (S I) (S J) (m, x, y)).
      { split; [|split].
        - subst m. rewrite Hb. apply step_m_ach; assumption.
        - intros Hx. apply (step_x_ach I (S J) up first_row HI Hup). exact Hx.
        - intros Hy. apply (step_y_ach (S I) J left HJ Hleft). exact Hy. }
      intros k Hk. destruct k as [|k].
      + cbn [nth]. replace (J + 0 + 1)%nat with (S J) by lia. exact Hc.
      + cbn [nth]. replace (J + S k + 1)%nat with (length (pre ++ [b]) + k + 1)%nat by (rewrite app_length; cbn [length]; fold J; lia).
        apply (IH (pre ++ [b]) (tl prev) up (m, x, y)).
        * rewrite <- app_assoc. exact Hs.
        * intros Hf. rewrite (Hfirst Hf). reflexivity.
        * intros Hf. destruct (Hprev Hf) as [Hlp Hd]. split.
          -- destruct prev; cbn [tl length] in *; lia.
          -- intros k' Hk'. specialize (Hd (S k') ltac:(cbn [length]; lia)). rewrite app_length. cbn [length]. fold J.
             replace (J + 1 + k' + 1)%nat with (J + S k' + 1)%nat by lia.
             destruct prev as [|c pt]; [cbn in Hlp; lia|]. cbn [tl]. cbn [nth] in Hd. exact Hd.
        * rewrite app_length. cbn [length]. fold J. replace (J + 1)%nat with (S J) by lia.
          destruct first_row; [left; unfold up; rewrite (Hfirst eq_refl); apply cellbest_d0 | right; apply Hup; reflexivity].
        * right. rewrite app_length. cbn [length]. fold J. replace (J + 1)%nat with (S J) by lia. exact Hc.
        * cbn [length] in Hk. lia.
  Qed.

  Lemma gotoh_row_length a first : forall suf prev diag left, length (gotoh_row sub opn ext a suf prev diag left first) = length suf.
  Proof. induction suf as [|b t IH]; intros prev diag left; cbn [gotoh_row]; [reflexivity|]. cbv zeta. cbn [length]. rewrite IH. reflexivity. Qed.

  Lemma fold_best_source : forall row best, fold_best row best = best \/ exists c, In c row /\ mval c = fold_best row best.
  Proof.
    induction row as [|c t IH]; intros best; unfold fold_best in *; cbn [fold_left]; [left; reflexivity|].
    destruct c as [[m x] y]. destruct (IH (Z.max best m)) as [E|[c' [Hin E]]].
    - rewrite E. destruct (Z.max_spec best m) as [[_ E2]|[_ E2]]; rewrite E2; [right; exists (m, x, y); split; [left; reflexivity | reflexivity] | left; reflexivity].
    - right. exists c'. split; [right; exact Hin | exact E].
  Qed.

  (* the value returned is the initial one or the M value of a cell whose three values are attained *)
  Lemma rows_source : forall todo done prev (first : bool) best,
    s1 = done ++ todo ->
    (first = true -> prev = [] /\ done = []) ->
    (first = false -> length prev = length s2 /\ forall k, (k < length s2)%nat -> ach (length done) (k + 1) (nth k prev d0)) ->
    gotoh_rows sub opn ext todo s2 prev first best = best \/
    exists I J c, ach I J c /\ mval c = gotoh_rows sub opn ext todo s2 prev first best.
  Proof.
    induction todo as [|a t IH]; intros done prev first best Hs Hfirst Hprev; cbn [gotoh_rows]; [left; reflexivity|].
    cbv zeta. set (I0 := length done) in *.
    assert (HI0 : (I0 < length s1)%nat) by (rewrite Hs, app_length; cbn [length]; unfold I0; lia).
    assert (Ha : a = nth I0 s1 GAPB).
    { rewrite Hs. unfold I0. rewrite app_nth2 by lia. rewrite Nat.sub_diag. reflexivity. }
    set (row := gotoh_row sub opn ext a s2 prev (NEG, NEG, NEG) (NEG, NEG, NEG) first).
    assert (Hrow : forall k, (k < length s2)%nat -> ach (S I0) (k + 1) (nth k row d0)).
    { intros k Hk. subst row. rewrite Ha.
      apply (row_ach I0 first HI0 s2 [] prev (NEG, NEG, NEG) (NEG, NEG, NEG) eq_refl).
      - intros Hf. apply (proj1 (Hfirst Hf)).
      - intros Hf. destruct (Hprev Hf) as [Hlp Hd]. split; [exact Hlp|]. intros k' Hk'. cbn [length Nat.add]. apply Hd. exact Hk'.
      - left. apply cellbest_d0.
      - left. reflexivity.
      - exact Hk. }
    assert (Hlen : length row = length s2) by (unfold row; apply gotoh_row_length).
    destruct (IH (done ++ [a]) row false (fold_best row best)) as [E|[I [J [c [Hc E]]]]].
    - rewrite <- app_assoc. exact Hs.
    - discriminate.
    - intros _. split; [exact Hlen|]. intros k Hk. rewrite app_length. cbn [length]. fold I0. replace (I0 + 1)%nat with (S I0) by lia.
      apply Hrow. exact Hk.
    - fold (fold_best row best). rewrite E. destruct (fold_best_source row best) as [E2|[c [Hin E2]]].
      + left. exact E2.
      + right. destruct (In_nth row c d0 Hin) as [k [Hk Hnth]]. exists (S I0), (k + 1)%nat, c. split; [|exact E2].
        rewrite <- Hnth. apply Hrow. lia.
    - right. exists I, J, c. split; [exact Hc|]. fold (fold_best row best). exact E.
  Qed.

  (* from an alignment ending at a cell to a valid local alignment *)
  Lemma ends_at_valid r1 r2 I J : ends_at r1 r2 I J -> r1 <> [] -> ungap r1 <> [] -> ungap r2 <> [] ->
    exists st1 st2 en1 en2, valid_alignment s1 s2 r1 r2 st1 st2 en1 en2.
  Proof.
    intros [Hl [Hnd [[p1 H1] [[p2 H2] [HI HJ]]]]] Hne Hu1 Hu2.
    assert (L1 : length (firstn I s1) = I) by (apply firstn_length_le; exact HI).
    assert (L2 : length (firstn J s2) = J) by (apply firstn_length_le; exact HJ).
    assert (N1 : (length p1 < I)%nat).
    { rewrite H1, app_length in L1. destruct (ungap r1); [contradiction | cbn in L1; lia]. }
    assert (N2 : (length p2 < J)%nat).
    { rewrite H2, app_length in L2. destruct (ungap r2); [contradiction | cbn in L2; lia]. }
    exists (Z.of_nat (length p1)), (Z.of_nat (length p2)), (Z.of_nat I - 1), (Z.of_nat J - 1).
    constructor; [exact Hl | exact Hnd | |].
    - split; [lia|]. split; [lia|]. unfold sub_string. rewrite Nat2Z.id.
      replace (Z.to_nat (Z.of_nat I - 1 - Z.of_nat (length p1) + 1)) with (I - length p1)%nat by lia.
      rewrite <- skipn_firstn_comm, H1. rewrite skipn_app, Nat.sub_diag, skipn_all. reflexivity.
    - split; [lia|]. split; [lia|]. unfold sub_string. rewrite Nat2Z.id.
      replace (Z.to_nat (Z.of_nat J - 1 - Z.of_nat (length p2) + 1)) with (J - length p2)%nat by lia.
      rewrite <- skipn_firstn_comm, H2. rewrite skipn_app, Nat.sub_diag, skipn_all. reflexivity.
  Qed.

  (* the optimum is 0 (no alignment scores above the empty one) or the score of a valid local alignment *)
  Theorem gotoh_attained :
    gotoh_best sub opn ext s1 s2 = 0 \/
    exists r1 r2 st1 st2 en1 en2, valid_alignment s1 s2 r1 r2 st1 st2 en1 en2 /\
                                   score_cols sub opn ext r1 r2 0 = gotoh_best sub opn ext s1 s2.
  Proof.
    unfold gotoh_best. destruct (rows_source s1 [] [] true 0) as [E|[I [J [[[m x] y] [[Am _] E]]]]].
    - reflexivity.
    - intros _. auto.
    - discriminate.
    - left. exact E.
    - right. cbn [mval] in E. destruct Am as [r1 [r2 [a [b [He [Ht Hs]]]]]].
      destruct (col_type_0 a b Ht) as [Ea Eb].
      destruct (ends_at_valid (r1 ++ [a]) (r2 ++ [b]) I J He) as [st1 [st2 [en1 [en2 Hv]]]].
      + intros H. apply app_eq_nil in H as [_ H]. discriminate.
      + rewrite ungap_app, (ungap_cons_res a [] Ea). intros H. apply app_eq_nil in H as [_ H]. discriminate.
      + rewrite ungap_app, (ungap_cons_res b [] Eb). intros H. apply app_eq_nil in H as [_ H]. discriminate.
      + exists (r1 ++ [a]), (r2 ++ [b]), st1, st2, en1, en2. split; [exact Hv|]. unfold sc in Hs. rewrite Hs. exact E.
  Qed.
End Gotoh.
