From Coq Require Import List Bool NArith ZArith Lia.
From Coq.Strings Require Import Byte.
Import ListNotations.
From GA.Base Require Import Bytes.
From GA.Gen Require Import Subst.
From GA.Spec Require Import Local.
From GA.Model Require Import SW.

Local Open Scope Z_scope.

(* the boolean validity checker used on every observed alignment is sound *)
Lemma check_valid_sound s1 s2 r1 r2 st1 st2 en1 en2 :
  check_valid s1 s2 r1 r2 st1 st2 en1 en2 = true -> valid_alignment s1 s2 r1 r2 st1 st2 en1 en2.
Proof.
  unfold check_valid. rewrite !andb_true_iff.
  intros [[[[[[[H1 H2] H3] H4] H5] H6] H7] H8].
  apply Nat.eqb_eq in H1. apply Z.leb_le in H3, H6. apply Z.ltb_lt in H4, H7.
  apply bytes_eqb_eq in H5, H8.
  constructor; auto.
  intros k Hk [Ha Hb].
  rewrite forallb_forall in H2.
  assert (Hin : In (nth k r1 GAPB, nth k r2 GAPB) (combine r1 r2)).
  { rewrite <- combine_nth by exact H1. apply nth_In. rewrite combine_length, <- H1, Nat.min_id. exact Hk. }
  specialize (H2 _ Hin). simpl in H2. rewrite Ha, Hb in H2. unfold isgap in H2. rewrite beqb_refl in H2. discriminate.
Qed.

(* the substitution matrices regenerated from the code are symmetric, square and
   cover every index of the position maps *)
Definition symmetricb (m : list (list Z)) : bool :=
  let n := length m in
  forallb (fun r => Nat.eqb (length r) n) m &&
  forallb (fun i => forallb (fun j => Z.eqb (nth j (nth i m []) 0) (nth i (nth j m []) 0)) (seq 0 n)) (seq 0 n).

Definition pos_in_range (pos : list (byte * Z)) (n : nat) : bool :=
  forallb (fun kv => (0 <=? snd kv) && (snd kv <? Z.of_nat n)) pos.

Lemma matrices_symmetric :
  symmetricb dnafull_subst_matrix = true /\ symmetricb blosum62_subst_matrix = true /\
  pos_in_range dna_to_matrix_pos (length dnafull_subst_matrix) = true /\
  pos_in_range prot_to_matrix_pos (length blosum62_subst_matrix) = true.
Proof. repeat split; vm_compute; reflexivity. Qed.

(* affine gaps: a run of n gaps opposite residues costs open + (n-1)*extend *)
Lemma gap_run_cost sub opn ext (res : list byte) prev :
  res <> [] -> forallb (fun b => negb (isgap b)) res = true -> prev <> 1 ->
  score_cols sub opn ext (repeat GAPB (length res)) res prev = opn + (Z.of_nat (length res) - 1) * ext.
Proof.
  intros Hne Hres Hp. destruct res as [|b t]; [contradiction|]. clear Hne.
  cbn [length repeat score_cols]. unfold isgap at 1. rewrite beqb_refl.
  destruct (Z.eqb_spec prev 1); [contradiction|].
  assert (G : forall l, forallb (fun b => negb (isgap b)) l = true ->
              score_cols sub opn ext (repeat GAPB (length l)) l 1 = Z.of_nat (length l) * ext).
  { induction l as [|c l IH]; intros H; [reflexivity|]. cbn [length repeat score_cols]. unfold isgap at 1.
    rewrite beqb_refl. simpl Z.eqb. simpl in H. apply andb_true_iff in H as [_ H]. rewrite (IH H). lia. }
  simpl in Hres. apply andb_true_iff in Hres as [_ Hres]. rewrite (G t Hres). lia.
Qed.

(* a gap-free alignment scores the sum of its residue pairs *)
Lemma nogap_score sub opn ext r1 r2 prev :
  forallb (fun b => negb (isgap b)) r1 = true -> forallb (fun b => negb (isgap b)) r2 = true ->
  length r1 = length r2 ->
  score_cols sub opn ext r1 r2 prev = fold_right Z.add 0 (map (fun ab => sub (fst ab) (snd ab)) (combine r1 r2)).
Proof.
  revert r2 prev. induction r1 as [|a t IH]; intros [|b t2] prev H1 H2 Hl; try reflexivity; try discriminate.
  simpl in H1, H2. apply andb_true_iff in H1 as [Ha H1]. apply andb_true_iff in H2 as [Hb H2].
  cbn [score_cols combine map fold_right fst snd]. apply negb_true_iff in Ha, Hb. rewrite Ha, Hb.
  rewrite (IH t2 0 H1 H2) by (simpl in Hl; lia). reflexivity.
Qed.

Lemma gotoh_best_nonneg sub opn ext s1 s2 : 0 <= gotoh_best sub opn ext s1 s2.
Proof.
  unfold gotoh_best.
  assert (G : forall s1 prev fr best, 0 <= best -> 0 <= gotoh_rows sub opn ext s1 s2 prev fr best).
  { induction s0 as [|a t IH]; intros prev fr best Hb; simpl; [exact Hb|]. apply IH.
    generalize (gotoh_row sub opn ext a s2 prev (NEG, NEG, NEG) (NEG, NEG, NEG) fr). intros row. revert best Hb.
    induction row as [|[[m x] y] r IHr]; intros best Hb; simpl; [exact Hb|]. apply IHr. lia. }
  apply G. lia.
Qed.

(* ---- the Gotoh oracle against exhaustive enumeration (finite: every pair of words of length 1..3 over
   {A, C, G}, four scoring schemes incl. opening dearer than extending and a match dearer than an opening) *)
From GA.Spec Require Import LocalEnum.
Definition small_words : list (list byte) := upto 3 [x41; x43; x47].
Definition small_schemes : list (Z * Z * Z * Z) := [(2, -2, -4, -2); (10, -8, -6, -1); (2, -2, -20, -1); (4, -2, -2, -2)].
Lemma gotoh_matches_enumeration_small :
  forall sc s1 s2, In sc small_schemes -> In s1 small_words -> In s2 small_words ->
  let '(m, x, o, e) := sc in gotoh_best (mm m x) o e s1 s2 = best_enum (mm m x) o e s1 s2.
Proof.
  assert (H : forallb (fun sc : Z * Z * Z * Z => let '(m, x, o, e) := sc in agree (mm m x) o e small_words) small_schemes = true)
    by (vm_compute; reflexivity).
  intros sc s1 s2 Hsc H1 H2. rewrite forallb_forall in H. specialize (H sc Hsc).
  destruct sc as [[[m x] o] e]. unfold agree in H. rewrite forallb_forall in H. specialize (H s1 H1).
  rewrite forallb_forall in H. specialize (H s2 H2). apply Z.eqb_eq in H. exact H.
Qed.

(* ---- the code model itself, exhaustively on the same finite domain: the score reported is the optimum of
   the enumeration and the rows returned score exactly that (when some alignment is positive) *)
Definition model_opt (sc : Z * Z * Z * Z) (ws : list (list byte)) : bool :=
  let '(m, x, o, e) := sc in
  forallb (fun s1 => forallb (fun s2 =>
     match align_pair false (mkscheme false m x o e) s1 s2 with
     | Some r => Z.eqb (r_score r) (best_enum (mm m x) o e s1 s2) &&
                 (Z.eqb (r_score r) 0 || Z.eqb (score_cols (mm m x) o e (r_row1 r) (r_row2 r) 0) (r_score r))
     | None => false end) ws) ws.

Lemma code_model_optimal_small :
  forall sc s1 s2, In sc small_schemes -> In s1 small_words -> In s2 small_words ->
  let '(m, x, o, e) := sc in
  exists r, align_pair false (mkscheme false m x o e) s1 s2 = Some r /\
            r_score r = best_enum (mm m x) o e s1 s2 /\
            (r_score r = 0 \/ score_cols (mm m x) o e (r_row1 r) (r_row2 r) 0 = r_score r).
Proof.
  assert (H : forallb (fun sc => model_opt sc small_words) small_schemes = true) by (vm_compute; reflexivity).
  intros sc s1 s2 Hsc H1 H2. rewrite forallb_forall in H. specialize (H sc Hsc).
  destruct sc as [[[m x] o] e]. unfold model_opt in H. rewrite forallb_forall in H. specialize (H s1 H1).
  rewrite forallb_forall in H. specialize (H s2 H2).
  destruct (align_pair false (mkscheme false m x o e) s1 s2) as [r|]; [|discriminate].
  exists r. split; [reflexivity|]. apply andb_true_iff in H as [Ha Hb]. apply Z.eqb_eq in Ha. split; [exact Ha|].
  apply orb_true_iff in Hb as [Hb|Hb]; apply Z.eqb_eq in Hb; [left | right]; exact Hb.
Qed.

(* a larger domain for the regime "a match is dearer than a gap opening, opening dearer than extending"
   (where the seeding of the column accumulators matters): words of length 1..4 over {A, C, G} against
   words of length 1..4 over {A, C} *)
Definition medium_words1 : list (list byte) := upto 4 [x41; x43; x47].
Definition medium_words2 : list (list byte) := upto 4 [x41; x43].
Lemma code_model_optimal_medium :
  forall s1 s2, In s1 medium_words1 -> In s2 medium_words2 ->
  exists r, align_pair false (mkscheme false 10 (-8) (-6) (-1)) s1 s2 = Some r /\
            r_score r = best_enum (mm 10 (-8)) (-6) (-1) s1 s2.
Proof.
  assert (H : forallb (fun s1 => forallb (fun s2 =>
                match align_pair false (mkscheme false 10 (-8) (-6) (-1)) s1 s2 with
                | Some r => Z.eqb (r_score r) (best_enum (mm 10 (-8)) (-6) (-1) s1 s2)
                | None => false end) medium_words2) medium_words1 = true) by (vm_compute; reflexivity).
  intros s1 s2 H1 H2. rewrite forallb_forall in H. specialize (H s1 H1). rewrite forallb_forall in H. specialize (H s2 H2).
  destruct (align_pair false (mkscheme false 10 (-8) (-6) (-1)) s1 s2) as [r|]; [|discriminate].
  exists r. split; [reflexivity | apply Z.eqb_eq; exact H].
Qed.
