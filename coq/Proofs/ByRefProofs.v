(* TranslateByReference on rows without gaps is the plain translation of every row in the given phase
   (Model/Translate.v byref_loop): unbounded, by induction over the codons. *)
From Coq Require Import List Bool NArith ZArith Lia Arith.
From Coq.Strings Require Import Byte.
Import ListNotations.
From GA.Base Require Import Bytes Case Align.
From GA.Gen Require Import Alpha GenCodes.
From GA.Model Require Import Translate.

Definition nogap (s : list byte) : Prop := forall b, In b s -> isgap b = false.

Lemma nogap_at s i : nogap s -> i < length s -> isgap (at_ s i) = false.
Proof. intros H Hi. apply H. unfold at_. apply nth_In. exact Hi. Qed.

Lemma skipn_three s i : i + 3 <= length s ->
  skipn i s = at_ s i :: at_ s (i + 1) :: at_ s (i + 2) :: skipn (i + 3) s.
Proof.
  revert i. induction s as [|a t IH]; intros i H; [cbn in H; lia|].
  destruct i as [|i].
  - destruct t as [|b [|c u]]; cbn in H; try lia. reflexivity.
  - cbn [skipn Nat.add]. unfold at_ in *. cbn [nth]. apply IH. cbn in H. lia.
Qed.

Lemma filter_nogap s : nogap s -> filter (fun b => negb (isgap b)) s = s.
Proof.
  induction s as [|a t IH]; intros H; [reflexivity|]. cbn [filter]. rewrite (H a (or_introl eq_refl)). cbn [negb].
  f_equal. apply IH. intros b Hb. apply H. right. exact Hb.
Qed.

(* what every row contributes for a codon of a gap-free alignment *)
Lemma comp_piece_plain code s i0 : nogap s -> i0 + 3 <= length s ->
  comp_piece code s i0 (i0 + 2) 1 = [translate_codon code (at_ s i0) (at_ s (i0 + 1)) (at_ s (i0 + 2))].
Proof.
  intros Hn Hl. unfold comp_piece. replace (i0 + 2 + 1 - i0) with 3 by lia.
  rewrite (skipn_three s i0 Hl). cbn [firstn].
  assert (G : nogap [at_ s i0; at_ s (i0 + 1); at_ s (i0 + 2)]).
  { intros b [<-|[<-|[<-|[]]]]; apply nogap_at; auto; lia. }
  rewrite (filter_nogap _ G). cbn [length Nat.modulo Nat.eqb negb translate_from].
  cbn. reflexivity.
Qed.

Lemma adv3_stay f ref alen i0 i1 i2 : isgap (at_ ref i0) = false -> adv3 f ref alen i0 i1 i2 = (i0, i1, i2).
Proof. intros H. destruct f; cbn [adv3]; [reflexivity|]. rewrite H, andb_false_r. reflexivity. Qed.
Lemma adv2_stay f ref alen i1 i2 : isgap (at_ ref i1) = false -> adv2 f ref alen i1 i2 = (i1, i2).
Proof. intros H. destruct f; cbn [adv2]; [reflexivity|]. rewrite H, andb_false_r. reflexivity. Qed.
Lemma adv1_stay f ref alen i2 : isgap (at_ ref i2) = false -> adv1 f ref alen i2 = i2.
Proof. intros H. destruct f; cbn [adv1]; [reflexivity|]. rewrite H, andb_false_r. reflexivity. Qed.

Lemma append_pieces_plain code refid alen i0 refpiece : forall seqs bufs k,
  length bufs = length seqs ->
  (forall s, In s seqs -> nogap s /\ length s = alen) -> i0 + 3 <= alen ->
  (forall s, nth_error seqs (refid - k) = Some s -> k <= refid ->
     refpiece = [translate_codon code (at_ s i0) (at_ s (i0 + 1)) (at_ s (i0 + 2))]) ->
  append_pieces code k refid seqs bufs refpiece i0 (i0 + 2) 1 =
  map (fun bs => fst bs ++ [translate_codon code (at_ (snd bs) i0) (at_ (snd bs) (i0 + 1)) (at_ (snd bs) (i0 + 2))])
      (combine bufs seqs).
Proof.
  induction seqs as [|s ss IH]; intros bufs k Hlen Hrows Hi Href; destruct bufs as [|b bs]; try discriminate; [reflexivity|].
  cbn [append_pieces combine map fst snd]. f_equal.
  - f_equal. destruct (Nat.eqb_spec k refid) as [E|E].
    + apply Href; [|lia]. subst k. rewrite Nat.sub_diag. reflexivity.
    + destruct (Hrows s (or_introl eq_refl)) as [Hn Hl]. apply comp_piece_plain; [exact Hn | lia].
  - apply IH; [cbn in Hlen; lia | intros s' Hs'; apply Hrows; right; exact Hs' | exact Hi|].
    intros s' Hs' Hk. apply Href; [|lia]. replace (refid - k) with (S (refid - S k)) by lia. exact Hs'.
Qed.

Lemma nothing_left code alen i0 : forall (seqs bufs : list (list byte)),
  (forall s, In s seqs -> nogap s /\ length s = alen) -> length bufs = length seqs -> alen < i0 + 3 ->
  bufs = map (fun bs => fst bs ++ translate_from code (skipn i0 (snd bs))) (combine bufs seqs).
Proof.
  induction seqs as [|s ss IHs]; intros bufs Hrows Hlen Hi; destruct bufs as [|b bs]; try discriminate; [reflexivity|].
  cbn [combine map fst snd]. f_equal.
  - destruct (Hrows s (or_introl eq_refl)) as [_ Hl].
    assert (E : translate_from code (skipn i0 s) = []).
    { assert (L : length (skipn i0 s) < 3) by (rewrite skipn_length; lia).
      destruct (skipn i0 s) as [|a [|b' [|c u]]]; cbn in L; try lia; reflexivity. }
    rewrite E, app_nil_r. reflexivity.
  - apply IHs; [intros s' Hs'; apply Hrows; right; exact Hs' | cbn in Hlen; lia | exact Hi].
Qed.

Lemma byref_loop_plain code refid alen seqs :
  (forall s, In s seqs -> nogap s /\ length s = alen) -> refid < length seqs ->
  forall fuel i0 bufs,
  length bufs = length seqs -> alen < i0 + 3 * fuel ->
  byref_loop fuel code refid alen seqs bufs i0 (i0 + 1) (i0 + 2) =
  map (fun bs => fst bs ++ translate_from code (skipn i0 (snd bs))) (combine bufs seqs).
Proof.
  intros Hrows Hrefid. induction fuel as [|f IH]; intros i0 bufs Hlen Hfuel; [cbn [byref_loop]; apply (nothing_left code alen); [exact Hrows | exact Hlen | lia]|].
  cbn [byref_loop]. destruct (Nat.ltb_spec (i0 + 2) alen) as [Hlt|Hge]; cbn [negb].
  - set (ref := nth refid seqs []).
    assert (Hin : In ref seqs) by (apply nth_In; exact Hrefid).
    destruct (Hrows ref Hin) as [Hn Hl].
    rewrite (nogap_at ref i0 Hn) by lia. cbn [andb].
    rewrite (adv3_stay alen ref alen i0 (i0 + 1) (i0 + 2)) by (apply nogap_at; [exact Hn | lia]).
    destruct (Nat.ltb_spec (i0 + 2) alen) as [_|?]; [|lia]. cbn [negb].
    rewrite (adv2_stay alen ref alen (i0 + 1) (i0 + 2)) by (apply nogap_at; [exact Hn | lia]).
    destruct (Nat.ltb_spec (i0 + 2) alen) as [_|?]; [|lia]. cbn [negb].
    rewrite (adv1_stay alen ref alen (i0 + 2)) by (apply nogap_at; [exact Hn | lia]).
    destruct (Nat.ltb_spec (i0 + 2) alen) as [_|?]; [|lia]. cbn [negb].
    replace ((i0 + 2 + 1 - i0) / 3) with 1 by (replace (i0 + 2 + 1 - i0) with 3 by lia; reflexivity).
    cbn [Nat.sub repeatb repeat].
    rewrite (append_pieces_plain code refid alen i0 _ seqs bufs 0 Hlen Hrows); [|lia|].
    + replace (i0 + 2 + 1) with (i0 + 3) by lia. replace (i0 + 2 + 2) with (i0 + 3 + 1) by lia.
      replace (i0 + 2 + 3) with (i0 + 3 + 2) by lia.
      rewrite IH; [| rewrite map_length, combine_length; lia | lia].
      (* re-associate the pieces *)
      clear IH Hfuel. revert bufs Hlen. clear Hrefid Hin Hn Hl. subst ref.
      induction seqs as [|s ss IHs]; intros bufs Hlen; destruct bufs as [|b bs]; try discriminate; [reflexivity|].
      cbn [combine map fst snd]. f_equal.
      * destruct (Hrows s (or_introl eq_refl)) as [_ Hl]. rewrite (skipn_three s i0) by lia.
        cbn [translate_from]. rewrite <- app_assoc. reflexivity.
      * apply IHs; [intros s' Hs'; apply Hrows; right; exact Hs' | cbn in Hlen; lia].
    + intros s Hs _. rewrite Nat.sub_0_r in Hs. unfold ref. rewrite (nth_error_nth _ _ _ Hs). reflexivity.
  - (* fewer than three columns left: nothing more is translated *)
    apply (nothing_left code alen); [exact Hrows | exact Hlen | lia].
Qed.

Lemma index_of_name_lt n : forall rs k i, index_of_name n rs k = Some i -> k <= i < k + length rs.
Proof.
  induction rs as [|r t IH]; intros k i H; cbn [index_of_name] in H; [discriminate|].
  destruct (bytes_eqb (fst r) n); [injection H as <-; cbn [length]; lia|].
  apply IH in H. cbn [length]. lia.
Qed.

Local Arguments byref_loop : simpl never.
(* translation by reference of gap-free rows is the plain translation of every row, for every phase *)
Theorem byref_nogap gc code phase refname (rs : list row) out :
  genetic_code gc = Some code ->
  (forall r, In r rs -> nogap (snd r)) ->
  (forall r, In r rs -> length (snd r) = length (snd (hd ([], []) rs))) ->
  translate_by_reference NUCLEOTIDS gc phase refname rs = Some out ->
  out = map (fun r => (fst r, translate_from code (skipn phase (snd r)))) rs.
Proof.
  intros Hg Hn Hrect H. unfold translate_by_reference in H.
  destruct refname as [|c0 cn]; [discriminate|].
  destruct (index_of_name (c0 :: cn) rs 0) as [refid|] eqn:Ei; [|discriminate].
  cbn [Z.eqb negb andb] in H. rewrite Z.eqb_refl in H. cbn [negb andb] in H. rewrite Hg in H. cbv zeta in H. injection H as <-.
  set (alen := length (snd (hd ([], []) rs))) in *.
  rewrite (byref_loop_plain code refid alen (map snd rs)).
  - clear Ei. induction rs as [|r t IH]; [reflexivity|]. cbn [map combine fst snd app]. f_equal.
    (* the rows of the tail keep the same statement with the alignment length fixed *)
    clear IH. generalize phase. clear. intros phase. induction t as [|r' t' IH']; [reflexivity|].
    cbn [map combine fst snd app]. f_equal. exact IH'.
  - intros s Hs. apply in_map_iff in Hs as [r [<- Hr]]. split; [apply Hn; exact Hr | apply Hrect; exact Hr].
  - apply index_of_name_lt in Ei. rewrite map_length. lia.
  - rewrite !map_length. reflexivity.
  - lia.
Qed.

(* the same with the boolean reading of "no gap" used by the property file *)
Theorem byref_nogap_bool gc code phase refname (rs : list row) out :
  genetic_code gc = Some code ->
  (forall r, In r rs -> forallb (fun b => negb (beqb b x2d)) (snd r) = true) ->
  (forall r r', In r rs -> In r' rs -> length (snd r) = length (snd r')) ->
  translate_by_reference NUCLEOTIDS gc phase refname rs = Some out ->
  out = map (fun r => (fst r, translate_from code (skipn phase (snd r)))) rs.
Proof.
  intros Hg Hn Hrect H. apply (byref_nogap gc code phase refname rs out Hg); [| |exact H].
  - intros r Hr b Hb. specialize (Hn r Hr). rewrite forallb_forall in Hn. specialize (Hn b Hb).
    unfold isgap. destruct (beqb b x2d); [discriminate | reflexivity].
  - intros r Hr. destruct rs as [|r0 t]; [destruct Hr|]. apply Hrect; [exact Hr | left; reflexivity].
Qed.

(* ---- with gaps anywhere: every row of the result has the same length ------------------------------------ *)
From GA.Proofs Require Import TranslateProofs.

Lemma filter_length_le {A} (f : A -> bool) l : length (filter f l) <= length l.
Proof. induction l as [|x t IH]; [cbn; lia|]. cbn [filter]. destruct (f x); cbn [length]; lia. Qed.

Lemma comp_piece_length code s i0 i2 : length (comp_piece code s i0 i2 ((i2 + 1 - i0) / 3)) = (i2 + 1 - i0) / 3.
Proof.
  unfold comp_piece. set (naa := (i2 + 1 - i0) / 3).
  set (tmp := filter (fun b => negb (isgap b)) (firstn (i2 + 1 - i0) (skipn i0 s))).
  assert (Htmp : length tmp <= i2 + 1 - i0).
  { unfold tmp. eapply Nat.le_trans; [apply filter_length_le|]. rewrite firstn_length. lia. }
  destruct tmp as [|x t] eqn:E; [unfold repeatb; apply repeat_length|].
  destruct (negb (Nat.eqb (Nat.modulo (length (x :: t)) 3) 0)); [unfold repeatb; apply repeat_length|].
  rewrite app_length. unfold repeatb. rewrite repeat_length, translate_from_length.
  assert (length (x :: t) / 3 <= naa) by (unfold naa; apply Nat.div_le_mono; [lia | exact Htmp]).
  lia.
Qed.

Definition all_len (n : nat) (bufs : list (list byte)) : Prop := forall b, In b bufs -> length b = n.

Lemma append_pieces_all_len code refid refpiece i0 i2 n : forall seqs bufs k,
  length bufs = length seqs -> all_len n bufs -> length refpiece = (i2 + 1 - i0) / 3 ->
  all_len (n + (i2 + 1 - i0) / 3) (append_pieces code k refid seqs bufs refpiece i0 i2 ((i2 + 1 - i0) / 3)) /\
  length (append_pieces code k refid seqs bufs refpiece i0 i2 ((i2 + 1 - i0) / 3)) = length seqs.
Proof.
  induction seqs as [|s ss IH]; intros bufs k Hl Ha Hr; destruct bufs as [|b bs]; try discriminate.
  - split; [intros x []| reflexivity].
  - cbn [append_pieces]. destruct (IH bs (S k)) as [A1 A2]; [cbn in Hl; lia | intros x Hx; apply Ha; right; exact Hx | exact Hr|].
    split; [|cbn [length]; rewrite A2; reflexivity].
    intros x [<-|Hx]; [|apply A1; exact Hx].
    rewrite app_length, (Ha b (or_introl eq_refl)). f_equal.
    destruct (Nat.eqb k refid); [exact Hr | apply comp_piece_length].
Qed.

Lemma adv3_offsets ref alen : forall fuel i0 i1 i2 j0 j1 j2,
  adv3 fuel ref alen i0 i1 i2 = (j0, j1, j2) -> j1 - j0 = i1 - i0 /\ j2 - j0 = i2 - i0 /\ i0 <= j0 /\ (i0 <= i1 -> i1 <= i2 -> j0 <= j1 /\ j1 <= j2).
Proof.
  induction fuel as [|f IH]; intros i0 i1 i2 j0 j1 j2 H; cbn [adv3] in H.
  - injection H as <- <- <-. lia.
  - destruct (Nat.ltb i2 alen && isgap (at_ ref i0)).
    + apply IH in H. lia.
    + injection H as <- <- <-. lia.
Qed.

Lemma adv2_mono ref alen : forall fuel i1 i2 k1 k2, adv2 fuel ref alen i1 i2 = (k1, k2) -> k2 - k1 = i2 - i1 /\ i1 <= k1.
Proof.
  induction fuel as [|f IH]; intros i1 i2 k1 k2 H; cbn [adv2] in H.
  - injection H as <- <-. lia.
  - destruct (Nat.ltb i2 alen && isgap (at_ ref i1)).
    + apply IH in H. lia.
    + injection H as <- <-. lia.
Qed.

Lemma adv1_mono ref alen : forall fuel i2, i2 <= adv1 fuel ref alen i2.
Proof.
  induction fuel as [|f IH]; intros i2; cbn [adv1]; [lia|].
  destruct (Nat.ltb i2 alen && isgap (at_ ref i2)); [|lia]. specialize (IH (S i2)). lia.
Qed.

Lemma byref_loop_S f code refid alen seqs bufs i0 i1 i2 :
  byref_loop (S f) code refid alen seqs bufs i0 i1 i2 =
      if negb (Nat.ltb i2 alen) then bufs else
      let ref := nth refid seqs [] in
      if isgap (at_ ref i0) && isgap (at_ ref i1) && isgap (at_ ref i2) then
        let naa := (i2 + 1 - i0) / 3 in
        let bufs' := append_pieces code 0 refid seqs bufs (repeatb x2d naa) i0 i2 naa in
        byref_loop f code refid alen seqs bufs' (i2 + 1) (i2 + 2) (i2 + 3)
      else
        let '(j0, j1, j2) := adv3 alen ref alen i0 i1 i2 in
        if negb (Nat.ltb j2 alen) then bufs else
        let '(k1, k2) := adv2 alen ref alen j1 j2 in
        if negb (Nat.ltb k2 alen) then bufs else
        let l2 := adv1 alen ref alen k2 in
        if negb (Nat.ltb l2 alen) then bufs else
        let refaa := translate_codon code (at_ ref j0) (at_ ref k1) (at_ ref l2) in
        let naa := (l2 + 1 - j0) / 3 in
        let refpiece := refaa :: repeatb x2d (naa - 1) in
        let bufs' := append_pieces code 0 refid seqs bufs refpiece j0 l2 naa in
        byref_loop f code refid alen seqs bufs' (l2 + 1) (l2 + 2) (l2 + 3).
Proof. reflexivity. Qed.

Lemma byref_loop_all_len code refid alen seqs : forall fuel bufs i0 n,
  length bufs = length seqs -> all_len n bufs ->
  exists n', all_len n' (byref_loop fuel code refid alen seqs bufs i0 (i0 + 1) (i0 + 2)).
Proof.
  induction fuel as [|f IH]; intros bufs i0 n Hl Ha; [exists n; exact Ha|]. rewrite byref_loop_S.
  destruct (negb (Nat.ltb (i0 + 2) alen)); [exists n; exact Ha|]. cbv zeta.
  set (ref := nth refid seqs []).
  destruct (isgap (at_ ref i0) && isgap (at_ ref (i0 + 1)) && isgap (at_ ref (i0 + 2))).
  - cbv zeta.
    destruct (append_pieces_all_len code refid (repeatb x2d ((i0 + 2 + 1 - i0) / 3)) i0 (i0 + 2) n seqs bufs 0 Hl Ha) as [A1 A2];
      [unfold repeatb; apply repeat_length|].
    replace (i0 + 2 + 2) with (i0 + 2 + 1 + 1) by lia. replace (i0 + 2 + 3) with (i0 + 2 + 1 + 2) by lia.
    apply (IH _ (i0 + 2 + 1) _ A2 A1).
  - destruct (adv3 alen ref alen i0 (i0 + 1) (i0 + 2)) as [[j0 j1] j2] eqn:E3.
    destruct (adv3_offsets ref alen _ _ _ _ _ _ _ E3) as [O1 [O2 [O3 _]]].
    destruct (negb (Nat.ltb j2 alen)); [exists n; exact Ha|].
    destruct (adv2 alen ref alen j1 j2) as [k1 k2] eqn:E2.
    destruct (adv2_mono ref alen _ _ _ _ _ E2) as [M1 M2].
    destruct (negb (Nat.ltb k2 alen)); [exists n; exact Ha|].
    set (l2 := adv1 alen ref alen k2).
    pose proof (adv1_mono ref alen alen k2) as M3. fold l2 in M3.
    destruct (negb (Nat.ltb l2 alen)); [exists n; exact Ha|]. cbv zeta.
    assert (Hw : 3 <= l2 + 1 - j0) by lia.
    destruct (append_pieces_all_len code refid
                (translate_codon code (at_ ref j0) (at_ ref k1) (at_ ref l2) :: repeatb x2d ((l2 + 1 - j0) / 3 - 1))
                j0 l2 n seqs bufs 0 Hl Ha) as [A1 A2].
    { cbn [length]. unfold repeatb. rewrite repeat_length.
      assert (1 <= (l2 + 1 - j0) / 3) by (apply Nat.div_le_lower_bound; lia). lia. }
    replace (l2 + 2) with (l2 + 1 + 1) by lia. replace (l2 + 3) with (l2 + 1 + 2) by lia.
    apply (IH _ (l2 + 1) _ A2 A1).
Qed.

(* every row of the reference-guided translation has the same length, whatever the gaps *)
Theorem byref_rows_same_length alphabet gc phase refname (rs : list row) out :
  translate_by_reference alphabet gc phase refname rs = Some out ->
  forall r r', In r out -> In r' out -> length (snd r) = length (snd r').
Proof.
  intros H. unfold translate_by_reference in H.
  destruct refname as [|c0 cn]; [discriminate|].
  destruct (index_of_name (c0 :: cn) rs 0) as [refid|]; [|discriminate].
  destruct (negb (Z.eqb alphabet NUCLEOTIDS) && negb (Z.eqb alphabet BOTH)); [discriminate|].
  destruct (genetic_code gc) as [code|]; [|discriminate]. cbv zeta in H. injection H as <-.
  destruct (byref_loop_all_len code refid (length (snd (hd ([], []) rs))) (map snd rs) (S (length (snd (hd ([], []) rs))))
              (map (fun _ => []) rs) phase 0) as [n' Hn'].
  - rewrite !map_length. reflexivity.
  - intros b Hb. apply in_map_iff in Hb as [x [<- _]]. reflexivity.
  - intros [rn rq] [rn' rq'] Hr Hr'. apply in_combine_r in Hr, Hr'. cbn [snd]. rewrite (Hn' _ Hr), (Hn' _ Hr'). reflexivity.
Qed.
