(* TranslateByReference on rows without gaps is the plain translation of every row in the given phase
   (Model/Translate.v byref_loop): unbounded, by induction over the codons. *)
From Coq Require Import List Bool NArith ZArith Lia Arith.
From Coq.Strings Require Import Byte.
Import ListNotations.
From GA.Base Require Import Bytes Case Align.
From GA.Gen Require Import Alpha GenCodes.
From GA.Model Require Import Translate.

Definition nogap (s : list byte) : Prop := forall b, In b s -> isgap b = false.

Lemma nogap_at s i : nogap s -> i < length s -> isgap (at_ s i) = false.
Proof. intros H Hi. apply H. unfold at_. apply nth_In. exact Hi. Qed.

Lemma skipn_three s i : i + 3 <= length s ->
  skipn i s = at_ s i :: at_ s (i + 1) :: at_ s (i + 2) :: skipn (i + 3) s.
Proof.
  revert i. induction s as [|a t IH]; intros i H; [cbn in H; lia|].
  destruct i as [|i].
  - destruct t as [|b [|c u]]; cbn in H; try lia. reflexivity.
  - cbn [skipn Nat.add]. unfold at_ in *. cbn [nth]. apply IH. cbn in H. lia.
Qed.

Lemma filter_nogap s : nogap s -> filter (fun b => negb (isgap b)) s = s.
Proof.
  induction s as [|a t IH]; intros H; [reflexivity|]. cbn [filter]. rewrite (H a (or_introl eq_refl)). cbn [negb].
  f_equal. apply IH. intros b Hb. apply H. right. exact Hb.
Qed.

(* what every row contributes for a codon of a gap-free alignment *)
Lemma comp_piece_plain code s i0 : nogap s -> i0 + 3 <= length s ->
  comp_piece code s i0 (i0 + 2) 1 = [translate_codon code (at_ s i0) (at_ s (i0 + 1)) (at_ s (i0 + 2))].
Proof.
  intros Hn Hl. unfold comp_piece. replace (i0 + 2 + 1 - i0) with 3 by lia.
  rewrite (skipn_three s i0 Hl). cbn [firstn].
  assert (G : nogap [at_ s i0; at_ s (i0 + 1); at_ s (i0 + 2)]).
  { intros b [<-|[<-|[<-|[]]]]; apply nogap_at; auto; lia. }
  rewrite (filter_nogap _ G). cbn [length Nat.modulo Nat.eqb negb translate_from].
  cbn. reflexivity.
Qed.

Lemma adv3_stay f ref alen i0 i1 i2 : isgap (at_ ref i0) = false -> adv3 f ref alen i0 i1 i2 = (i0, i1, i2).
Proof. intros H. destruct f; cbn [adv3]; [reflexivity|]. rewrite H, andb_false_r. reflexivity. Qed.
Lemma adv2_stay f ref alen i1 i2 : isgap (at_ ref i1) = false -> adv2 f ref alen i1 i2 = (i1, i2).
Proof. intros H. destruct f; cbn [adv2]; [reflexivity|]. rewrite H, andb_false_r. reflexivity. Qed.
Lemma adv1_stay f ref alen i2 : isgap (at_ ref i2) = false -> adv1 f ref alen i2 = i2.
Proof. intros H. destruct f; cbn [adv1]; [reflexivity|]. rewrite H, andb_false_r. reflexivity. Qed.

Lemma append_pieces_plain code refid alen i0 refpiece : forall seqs bufs k,
  length bufs = length seqs ->
  (forall s, In s seqs -> nogap s /\ length s = alen) -> i0 + 3 <= alen ->
  (forall s, nth_error seqs (refid - k) = Some s -> k <= refid ->
     refpiece = [translate_codon code (at_ s i0) (at_ s (i0 + 1)) (at_ s (i0 + 2))]) ->
  append_pieces code k refid seqs bufs refpiece i0 (i0 + 2) 1 =
  map (fun bs => fst bs ++ [translate_codon code (at_ (snd bs) i0) (at_ (snd bs) (i0 + 1)) (at_ (snd bs) (i0 + 2))])
      (combine bufs seqs).
Proof.
  induction seqs as [|s ss IH]; intros bufs k Hlen Hrows Hi Href; destruct bufs as [|b bs]; try discriminate; [reflexivity|].
  cbn [append_pieces combine map fst snd]. f_equal.
  - f_equal. destruct (Nat.eqb_spec k refid) as [E|E].
    + apply Href; [|lia]. subst k. rewrite Nat.sub_diag. reflexivity.
    + destruct (Hrows s (or_introl eq_refl)) as [Hn Hl]. apply comp_piece_plain; [exact Hn | lia].
  - apply IH; [cbn in Hlen; lia | intros s' Hs'; apply Hrows; right; exact Hs' | exact Hi|].
    intros s' Hs' Hk. apply Href; [|lia]. replace (refid - k) with (S (refid - S k)) by lia. exact Hs'.
Qed.

Lemma nothing_left code alen i0 : forall (seqs bufs : list (list byte)),
  (forall s, In s seqs -> nogap s /\ length s = alen) -> length bufs = length seqs -> alen < i0 + 3 ->
  bufs = map (fun bs => fst bs ++ translate_from code (skipn i0 (snd bs))) (combine bufs seqs).
Proof.
  induction seqs as [|s ss IHs]; intros bufs Hrows Hlen Hi; destruct bufs as [|b bs]; try discriminate; [reflexivity|].
  cbn [combine map fst snd]. f_equal.
  - destruct (Hrows s (or_introl eq_refl)) as [_ Hl].
    assert (E : translate_from code (skipn i0 s) = []).
    { assert (L : length (skipn i0 s) < 3) by (rewrite skipn_length; lia).
      destruct (skipn i0 s) as [|a [|b' [|c u]]]; cbn in L; try lia; reflexivity. }
    rewrite E, app_nil_r. reflexivity.
  - apply IHs; [intros s' Hs'; apply Hrows; right; exact Hs' | cbn in Hlen; lia | exact Hi].
Qed.

Lemma byref_loop_plain code refid alen seqs :
  (forall s, In s seqs -> nogap s /\ length s = alen) -> refid < length seqs ->
  forall fuel i0 bufs,
  length bufs = length seqs -> alen < i0 + 3 * fuel ->
  byref_loop fuel code refid alen seqs bufs i0 (i0 + 1) (i0 + 2) =
  map (fun bs => fst bs ++ translate_from code (skipn i0 (snd bs))) (combine bufs seqs).
Proof.
  intros Hrows Hrefid. induction fuel as [|f IH]; intros i0 bufs Hlen Hfuel; [cbn [byref_loop]; apply (nothing_left code alen); [exact Hrows | exact Hlen | lia]|].
  cbn [byref_loop]. destruct (Nat.ltb_spec (i0 + 2) alen) as [Hlt|Hge]; cbn [negb].
  - set (ref := nth refid seqs []).
    assert (Hin : In ref seqs) by (apply nth_In; exact Hrefid).
    destruct (Hrows ref Hin) as [Hn Hl].
    rewrite (nogap_at ref i0 Hn) by lia. cbn [andb].
    rewrite (adv3_stay alen ref alen i0 (i0 + 1) (i0 + 2)) by (apply nogap_at; [exact Hn | lia]).
    destruct (Nat.ltb_spec (i0 + 2) alen) as [_|?]; [|lia]. cbn [negb].
    rewrite (adv2_stay alen ref alen (i0 + 1) (i0 + 2)) by (apply nogap_at; [exact Hn | lia]).
    destruct (Nat.ltb_spec (i0 + 2) alen) as [_|?]; [|lia]. cbn [negb].
    rewrite (adv1_stay alen ref alen (i0 + 2)) by (apply nogap_at; [exact Hn | lia]).
    destruct (Nat.ltb_spec (i0 + 2) alen) as [_|?]; [|lia]. cbn [negb].
    replace ((i0 + 2 + 1 - i0) / 3) with 1 by (replace (i0 + 2 + 1 - i0) with 3 by lia; reflexivity).
    cbn [Nat.sub repeatb repeat].
    rewrite (append_pieces_plain code refid alen i0 _ seqs bufs 0 Hlen Hrows); [|lia|].
    + replace (i0 + 2 + 1) with (i0 + 3) by lia. replace (i0 + 2 + 2) with (i0 + 3 + 1) by lia.
      replace (i0 + 2 + 3) with (i0 + 3 + 2) by lia.
      rewrite IH; [| rewrite map_length, combine_length; lia | lia].
      (* re-associate the pieces *)
      clear IH Hfuel. revert bufs Hlen. clear Hrefid Hin Hn Hl. subst ref.
      induction seqs as [|s ss IHs]; intros bufs Hlen; destruct bufs as [|b bs]; try discriminate; [reflexivity|].
      cbn [combine map fst snd]. f_equal.
      * destruct (Hrows s (or_introl eq_refl)) as [_ Hl]. rewrite (skipn_three s i0) by lia.
        cbn [translate_from]. rewrite <- app_assoc. reflexivity.
      * apply IHs; [intros s' Hs'; apply Hrows; right; exact Hs' | cbn in Hlen; lia].
    + intros s Hs _. rewrite Nat.sub_0_r in Hs. unfold ref. rewrite (nth_error_nth _ _ _ Hs). reflexivity.
  - (* fewer than three columns left: nothing more is translated *)
    apply (nothing_left code alen); [exact Hrows | exact Hlen | lia].
Qed.

Lemma index_of_name_lt n : forall rs k i, index_of_name n rs k = Some i -> k <= i < k + length rs.
Proof.
  induction rs as [|r t IH]; intros k i H; cbn [index_of_name] in H; [discriminate|].
  destruct (bytes_eqb (fst r) n); [injection H as <-; cbn [length]; lia|].
  apply IH in H. cbn [length]. lia.
Qed.

Local Arguments byref_loop : simpl never.
(* translation by reference of gap-free rows is the plain translation of every row, for every phase *)
Theorem byref_nogap gc code phase refname (rs : list row) out :
  genetic_code gc = Some code ->
  (forall r, In r rs -> nogap (snd r)) ->
  (forall r, In r rs -> length (snd r) = length (snd (hd ([], []) rs))) ->
  translate_by_reference NUCLEOTIDS gc phase refname rs = Some out ->
  out = map (fun r => (fst r, translate_from code (skipn phase (snd r)))) rs.
Proof.
  intros Hg Hn Hrect H. unfold translate_by_reference in H.
  destruct refname as [|c0 cn]; [discriminate|].
  destruct (index_of_name (c0 :: cn) rs 0) as [refid|] eqn:Ei; [|discriminate].
  cbn [Z.eqb negb andb] in H. rewrite Z.eqb_refl in H. cbn [negb andb] in H. rewrite Hg in H. cbv zeta in H. injection H as <-.
  set (alen := length (snd (hd ([], []) rs))) in *.
  rewrite (byref_loop_plain code refid alen (map snd rs)).
  - clear Ei. induction rs as [|r t IH]; [reflexivity|]. cbn [map combine fst snd app]. f_equal.
    (* the rows of the tail keep the same statement with the alignment length fixed *)
    clear IH. generalize phase. clear. intros phase. induction t as [|r' t' IH']; [reflexivity|].
    cbn [map combine fst snd app]. f_equal. exact IH'.
  - intros s Hs. apply in_map_iff in Hs as [r [<- Hr]]. split; [apply Hn; exact Hr | apply Hrect; exact Hr].
  - apply index_of_name_lt in Ei. rewrite map_length. lia.
  - rewrite !map_length. reflexivity.
  - lia.
Qed.

(* the same with the boolean reading of "no gap" used by the property file *)
Theorem byref_nogap_bool gc code phase refname (rs : list row) out :
  genetic_code gc = Some code ->
  (forall r, In r rs -> forallb (fun b => negb (beqb b x2d)) (snd r) = true) ->
  (forall r r', In r rs -> In r' rs -> length (snd r) = length (snd r')) ->
  translate_by_reference NUCLEOTIDS gc phase refname rs = Some out ->
  out = map (fun r => (fst r, translate_from code (skipn phase (snd r)))) rs.
Proof.
  intros Hg Hn Hrect H. apply (byref_nogap gc code phase refname rs out Hg); [| |exact H].
  - intros r Hr b Hb. specialize (Hn r Hr). rewrite forallb_forall in Hn. specialize (Hn b Hb).
    unfold isgap. destruct (beqb b x2d); [discriminate | reflexivity].
  - intros r Hr. destruct rs as [|r0 t]; [destruct Hr|]. apply Hrect; [exact Hr | left; reflexivity].
Qed.
