(* TranslateByReference on rows without gaps is the plain translation of every row in the given phase
   (Model/Translate.v byref_loop): unbounded, by induction over the codons. *)
From Coq Require Import List Bool NArith ZArith Lia Arith.
From Coq.Strings Require Import Byte.
Import ListNotations.
From GA.Base Require Import Bytes Case Align.
From GA.Gen Require Import Alpha GenCodes.
From GA.Model Require Import Translate.

Definition nogap (s : list byte) : Prop := forall b, In b s -> isgap b = false.

Lemma nogap_at s i : nogap s -> i < length s -> isgap (at_ s i) = false.
Proof. intros H Hi. apply H. unfold at_. apply nth_In. exact Hi. Qed.

Lemma skipn_three s i : i + 3 <= length s ->
  skipn i s = at_ s i :: at_ s (i + 1) :: at_ s (i + 2) :: skipn (i + 3) s.
Proof.
  revert i. induction s as [|a t IH]; intros i H; [cbn in H; lia|].
  destruct i as [|i].
  - destruct t as [|b [|c u]]; cbn in H; try lia. reflexivity.
  - cbn [skipn Nat.add]. unfold at_ in *. cbn [nth]. apply IH. cbn in H. lia.
Qed.

Lemma filter_nogap s : nogap s -> filter (fun b => negb (isgap b)) s = s.
Proof.
  induction s as [|a t IH]; intros H; [reflexivity|]. cbn [filter]. rewrite (H a (or_introl eq_refl)). cbn [negb].
  f_equal. apply IH. intros b Hb. apply H. right. exact Hb.
Qed.

(* what every row contributes for a codon of a gap-free alignment *)
Lemma comp_piece_plain code s i0 : nogap s -> i0 + 3 <= length s ->
  comp_piece code s i0 (i0 + 2) 1 = [translate_codon code (at_ s i0) (at_ s (i0 + 1)) (at_ s (i0 + 2))].
Proof.
  intros Hn Hl. unfold comp_piece. replace (i0 + 2 + 1 - i0) with 3 by lia.
  rewrite (skipn_three s i0 Hl). cbn [firstn].
  assert (G : nogap [at_ s i0; at_ s (i0 + 1); at_ s (i0 + 2)]).
  { intros b [<-|[<-|[<-|[]]]]; apply nogap_at; auto; lia. }
  rewrite (filter_nogap _ G). cbn [length Nat.modulo Nat.eqb negb translate_from].
  cbn. reflexivity.
Qed.

Lemma adv3_stay f ref alen i0 i1 i2 : isgap (at_ ref i0) = false -> adv3 f ref alen i0 i1 i2 = (i0, i1, i2).
Proof. intros H. destruct f; cbn [adv3]; [reflexivity|]. rewrite H, andb_false_r. reflexivity. Qed.
Lemma adv2_stay f ref alen i1 i2 : isgap (at_ ref i1) = false -> adv2 f ref alen i1 i2 = (i1, i2).
Proof. intros H. destruct f; cbn [adv2]; [reflexivity|]. rewrite H, andb_false_r. reflexivity. Qed.
Lemma adv1_stay f ref alen i2 : isgap (at_ ref i2) = false -> adv1 f ref alen i2 = i2.
Proof. intros H. destruct f; cbn [adv1]; [reflexivity|]. rewrite H, andb_false_r. reflexivity. Qed.

Lemma append_pieces_plain code refid alen i0 refpiece : forall seqs bufs k,
  length bufs = length seqs ->
  (forall s, In s seqs -> nogap s /\ length s = alen) -> i0 + 3 <= alen ->
  (forall s, nth_error seqs (refid - k) = Some s -> k <= refid ->
     refpiece = [translate_codon code (at_ s i0) (at_ s (i0 + 1)) (at_ s (i0 + 2))]) ->
  append_pieces code k refid seqs bufs refpiece i0 (i0 + 2) 1 =
  map (fun bs => fst bs ++ [translate_codon code (at_ (snd bs) i0) (at_ (snd bs) (i0 + 1)) (at_ (snd bs) (i0 + 2))])
      (combine bufs seqs).
Proof.
  induction seqs as [|s ss IH]; intros bufs k Hlen Hrows Hi Href; destruct bufs as [|b bs]; try discriminate; [reflexivity|].
  cbn [append_pieces combine map fst snd]. f_equal.
  - f_equal. destruct (Nat.eqb_spec k refid) as [E|E].
    + apply Href; [|lia]. subst k. rewrite Nat.sub_diag. reflexivity.
    + destruct (Hrows s (or_introl eq_refl)) as [Hn Hl]. apply comp_piece_plain; [exact Hn | lia].
  - apply IH; [cbn in Hlen; lia | intros s' Hs'; apply Hrows; right; exact Hs' | exact Hi|].
    intros s' Hs' Hk. apply Href; [|lia]. replace (refid - k) with (S (refid - S k)) by lia. exact Hs'.
Qed.

Lemma nothing_left code alen i0 : forall (seqs bufs : list (list byte)),
  (forall s, In s seqs -> nogap s /\ length s = alen) -> length bufs = length seqs -> alen < i0 + 3 ->
  bufs = map (fun bs => fst bs ++ translate_from code (skipn i0 (snd bs))) (combine bufs seqs).
Proof.
  induction seqs as [|s ss IHs]; intros bufs Hrows Hlen Hi; destruct bufs as [|b bs]; try discriminate; [reflexivity|].
  cbn [combine map fst snd]. f_equal.
  - destruct (Hrows s (or_introl eq_refl)) as [_ Hl].
    assert (E : translate_from code (skipn i0 s) = []).
    { assert (L : length (skipn i0 s) < 3) by (rewrite skipn_length; lia).
      destruct (skipn i0 s) as [|a [|b' [|c u]]]; cbn in L; try lia; reflexivity. }
    rewrite E, app_nil_r. reflexivity.
  - apply IHs; [intros s' Hs'; apply Hrows; right; exact Hs' | cbn in Hlen; lia | exact Hi].
Qed.

Lemma byref_loop_plain code refid alen seqs :
  (forall s, In s seqs -> nogap s /\ length s = alen) -> refid < length seqs ->
  forall fuel i0 bufs,
  length bufs = length seqs -> alen < i0 + 3 * fuel ->
  byref_loop fuel code refid alen seqs bufs i0 (i0 + 1) (i0 + 2) =
  map (fun bs => fst bs ++ translate_from code (skipn i0 (snd bs))) (combine bufs seqs).
Proof.
  intros Hrows Hrefid. induction fuel as [|f IH]; intros i0 bufs Hlen Hfuel; [cbn [byref_loop]; apply (nothing_left code alen); [exact Hrows | exact Hlen | lia]|].
  cbn [byref_loop]. destruct (Nat.ltb_spec (i0 + 2) alen) as [Hlt|Hge]; cbn [negb].
  - set (ref := nth refid seqs []).
    assert (Hin : In ref seqs) by (apply nth_In; exact Hrefid).
    destruct (Hrows ref Hin) as [Hn Hl].
    rewrite (nogap_at ref i0 Hn) by lia. cbn [andb].
    rewrite (adv3_stay alen ref alen i0 (i0 + 1) (i0 + 2)) by (apply nogap_at; [exact Hn | lia]).
    destruct (Nat.ltb_spec (i0 + 2) alen) as [_|?]; [|lia]. cbn [negb].
    rewrite (adv2_stay alen ref alen (i0 + 1) (i0 + 2)) by (apply nogap_at; [exact Hn | lia]).
    destruct (Nat.ltb_spec (i0 + 2) alen) as [_|?]; [|lia]. cbn [negb].
    rewrite (adv1_stay alen ref alen (i0 + 2)) by (apply nogap_at; [exact Hn | lia]).
    destruct (Nat.ltb_spec (i0 + 2) alen) as [_|?]; [|lia]. cbn [negb].
    replace ((i0 + 2 + 1 - i0) / 3) with 1 by (replace (i0 + 2 + 1 - i0) with 3 by lia; reflexivity).
    cbn [Nat.sub repeatb repeat].
    rewrite (append_pieces_plain code refid alen i0 _ seqs bufs 0 Hlen Hrows); [|lia|].
    + replace (i0 + 2 + 1) with (i0 + 3) by lia. replace (i0 + 2 + 2) with (i0 + 3 + 1) by lia.
      replace (i0 + 2 + 3) with (i0 + 3 + 2) by lia.
      rewrite IH; [| rewrite map_length, combine_length; lia | lia].
      (* re-associate the pieces *)
      clear IH Hfuel. revert bufs Hlen. clear Hrefid Hin Hn Hl. subst ref.
      induction seqs as [|s ss IHs]; intros bufs Hlen; destruct bufs as [|b bs]; try discriminate; [reflexivity|].
      cbn [combine map fst snd]. f_equal.
      * destruct (Hrows s (or_introl eq_refl)) as [_ Hl]. rewrite (skipn_three s i0) by lia.
        cbn [translate_from]. rewrite <- app_assoc. reflexivity.
      * apply IHs; [intros s' Hs'; apply Hrows; right; exact Hs' | cbn in Hlen; lia].
    + intros s Hs _. rewrite Nat.sub_0_r in Hs. unfold ref. rewrite (nth_error_nth _ _ _ Hs). reflexivity.
  - (* fewer than three columns left: nothing more is translated *)
    apply (nothing_left code alen); [exact Hrows | exact Hlen | lia].
Qed.

Lemma index_of_name_lt n : forall rs k i, index_of_name n rs k = Some i -> k <= i < k + length rs.
Proof.
  induction rs as [|r t IH]; intros k i H; cbn [index_of_name] in H; [discriminate|].
  destruct (bytes_eqb (fst r) n); [injection H as <-; cbn [length]; lia|].
  apply IH in H. cbn [length]. lia.
Qed.

Local Arguments byref_loop : simpl never.
(* translation by reference of gap-free rows is the plain translation of every row, for every phase *)
Theorem byref_nogap gc code phase refname (rs : list row) out :
  genetic_code gc = Some code ->
  (forall r, In r rs -> nogap (snd r)) ->
  (forall r, In r rs -> length (snd r) = length (snd (hd ([], []) rs))) ->
  translate_by_reference NUCLEOTIDS gc phase refname rs = Some out ->
  out = map (fun r => (fst r, translate_from code (skipn phase (snd r)))) rs.
Proof.
  intros Hg Hn Hrect H. unfold translate_by_reference in H.
  destruct refname as [|c0 cn]; [discriminate|].
  destruct (index_of_name (c0 :: cn) rs 0) as [refid|] eqn:Ei; [|discriminate].
  cbn [Z.eqb negb andb] in H. rewrite Z.eqb_refl in H. cbn [negb andb] in H. rewrite Hg in H. cbv zeta in H. injection H as <-.
  set (alen := length (snd (hd ([], []) rs))) in *.
  rewrite (byref_loop_plain code refid alen (map snd rs)).
  - clear Ei. induction rs as [|r t IH]; [reflexivity|]. cbn [map combine fst snd app]. f_equal.
    (* the rows of the tail keep the same statement with the alignment length fixed *)
    clear IH. generalize phase. clear. intros phase. induction t as [|r' t' IH']; [reflexivity|].
    cbn [map combine fst snd app]. f_equal. exact IH'.
  - intros s Hs. apply in_map_iff in Hs as [r [<- Hr]]. split; [apply Hn; exact Hr | apply Hrect; exact Hr].
  - apply index_of_name_lt in Ei. rewrite map_length. lia.
  - rewrite !map_length. reflexivity.
  - lia.
Qed.

(* the same with the boolean reading of "no gap" used by the property file *)
Theorem byref_nogap_bool gc code phase refname (rs : list row) out :
  genetic_code gc = Some code ->
  (forall r, In r rs -> forallb (fun b => negb (beqb b x2d)) (snd r) = true) ->
  (forall r r', In r rs -> In r' rs -> length (snd r) = length (snd r')) ->
  translate_by_reference NUCLEOTIDS gc phase refname rs = Some out ->
  out = map (fun r => (fst r, translate_from code (skipn phase (snd r)))) rs.
Proof.
  intros Hg Hn Hrect H. apply (byref_nogap gc code phase refname rs out Hg); [| |exact H].
  - intros r Hr b Hb. specialize (Hn r Hr). rewrite forallb_forall in Hn. specialize (Hn b Hb).
    unfold isgap. destruct (beqb b x2d); [discriminate | reflexivity].
  - intros r Hr. destruct rs as [|r0 t]; [destruct Hr|]. apply Hrect; [exact Hr | left; reflexivity].
Qed.

(* ---- with gaps anywhere: every row of the result has the same length ------------------------------------ *)
From GA.Proofs Require Import TranslateProofs.

Lemma filter_length_le {A} (f : A -> bool) l : length (filter f l) <= length l.
Proof. induction l as [|x t IH]; [cbn; lia|]. cbn [filter]. destruct (f x); cbn [length]; lia. Qed.

Lemma comp_piece_length code s i0 i2 : length (comp_piece code s i0 i2 ((i2 + 1 - i0) / 3)) = (i2 + 1 - i0) / 3.
Proof.
  unfold comp_piece. set (naa := (i2 + 1 - i0) / 3).
  set (tmp := filter (fun b => negb (isgap b)) (firstn (i2 + 1 - i0) (skipn i0 s))).
  assert (Htmp : length tmp <= i2 + 1 - i0).
  { unfold tmp. eapply Nat.le_trans; [apply filter_length_le|]. rewrite firstn_length. lia. }
  destruct tmp as [|x t] eqn:E; [unfold repeatb; apply repeat_length|].
  destruct (negb (Nat.eqb (Nat.modulo (length (x :: t)) 3) 0)); [unfold repeatb; apply repeat_length|].
  rewrite app_length. unfold repeatb. rewrite repeat_length, translate_from_length.
  assert (length (x :: t) / 3 <= naa) by (unfold naa; apply Nat.div_le_mono; [lia | exact Htmp]).
  lia.
Qed.

Definition all_len (n : nat) (bufs : list (list byte)) : Prop := forall b, In b bufs -> length b = n.

Lemma append_pieces_all_len code refid refpiece i0 i2 n : forall seqs bufs k,
  length bufs = length seqs -> all_len n bufs -> length refpiece = (i2 + 1 - i0) / 3 ->
  all_len (n + (i2 + 1 - i0) / 3) (append_pieces code k refid seqs bufs refpiece i0 i2 ((i2 + 1 - i0) / 3)) /\
  length (append_pieces code k refid seqs bufs refpiece i0 i2 ((i2 + 1 - i0) / 3)) = length seqs.
Proof.
  induction seqs as [|s ss IH]; intros bufs k Hl Ha Hr; destruct bufs as [|b bs]; try discriminate.
  - split; [intros x []| reflexivity].
  - cbn [append_pieces]. destruct (IH bs (S k)) as [A1 A2]; [cbn in Hl; lia | intros x Hx; apply Ha; right; exact Hx | exact Hr|].
    split; [|cbn [length]; rewrite A2; reflexivity].
    intros x [<-|Hx]; [|apply A1; exact Hx].
    rewrite app_length, (Ha b (or_introl eq_refl)). f_equal.
    destruct (Nat.eqb k refid); [exact Hr | apply comp_piece_length].
Qed.

Lemma adv3_offsets ref alen : forall fuel i0 i1 i2 j0 j1 j2,
  adv3 fuel ref alen i0 i1 i2 = (j0, j1, j2) -> j1 - j0 = i1 - i0 /\ j2 - j0 = i2 - i0 /\ i0 <= j0 /\ (i0 <= i1 -> i1 <= i2 -> j0 <= j1 /\ j1 <= j2).
Proof.
  induction fuel as [|f IH]; intros i0 i1 i2 j0 j1 j2 H; cbn [adv3] in H.
  - injection H as <- <- <-. lia.
  - destruct (Nat.ltb i2 alen && isgap (at_ ref i0)).
    + apply IH in H. lia.
    + injection H as <- <- <-. lia.
Qed.

Lemma adv2_mono ref alen : forall fuel i1 i2 k1 k2, adv2 fuel ref alen i1 i2 = (k1, k2) -> k2 - k1 = i2 - i1 /\ i1 <= k1.
Proof.
  induction fuel as [|f IH]; intros i1 i2 k1 k2 H; cbn [adv2] in H.
  - injection H as <- <-. lia.
  - destruct (Nat.ltb i2 alen && isgap (at_ ref i1)).
    + apply IH in H. lia.
    + injection H as <- <-. lia.
Qed.

Lemma adv1_mono ref alen : forall fuel i2, i2 <= adv1 fuel ref alen i2.
Proof.
  induction fuel as [|f IH]; intros i2; cbn [adv1]; [lia|].
  destruct (Nat.ltb i2 alen && isgap (at_ ref i2)); [|lia]. specialize (IH (S i2)). lia.
Qed.

Lemma byref_loop_S f code refid alen seqs bufs i0 i1 i2 :
  byref_loop (S f) code refid alen seqs bufs i0 i1 i2 =
      if negb (Nat.ltb i2 alen) then bufs else
      let ref := nth refid seqs [] in
      if isgap (at_ ref i0) && isgap (at_ ref i1) && isgap (at_ ref i2) then
        let naa := (i2 + 1 - i0) / 3 in
        let bufs' := append_pieces code 0 refid seqs bufs (repeatb x2d naa) i0 i2 naa in
        byref_loop f code refid alen seqs bufs' (i2 + 1) (i2 + 2) (i2 + 3)
      else
        let '(j0, j1, j2) := adv3 alen ref alen i0 i1 i2 in
        if negb (Nat.ltb j2 alen) then bufs else
        let '(k1, k2) := adv2 alen ref alen j1 j2 in
        if negb (Nat.ltb k2 alen) then bufs else
        let l2 := adv1 alen ref alen k2 in
        if negb (Nat.ltb l2 alen) then bufs else
        let refaa := translate_codon code (at_ ref j0) (at_ ref k1) (at_ ref l2) in
        let naa := (l2 + 1 - j0) / 3 in
        let refpiece := refaa :: repeatb x2d (naa - 1) in
        let bufs' := append_pieces code 0 refid seqs bufs refpiece j0 l2 naa in
        byref_loop f code refid alen seqs bufs' (l2 + 1) (l2 + 2) (l2 + 3).
Proof. reflexivity. Qed.

Lemma byref_loop_all_len code refid alen seqs : forall fuel bufs i0 n,
  length bufs = length seqs -> all_len n bufs ->
  exists n', all_len n' (byref_loop fuel code refid alen seqs bufs i0 (i0 + 1) (i0 + 2)).
Proof.
  induction fuel as [|f IH]; intros bufs i0 n Hl Ha; [exists n; exact Ha|]. rewrite byref_loop_S.
  destruct (negb (Nat.ltb (i0 + 2) alen)); [exists n; exact Ha|]. cbv zeta.
  set (ref := nth refid seqs []).
  destruct (isgap (at_ ref i0) && isgap (at_ ref (i0 + 1)) && isgap (at_ ref (i0 + 2))).
  - cbv zeta.
    destruct (append_pieces_all_len code refid (repeatb x2d ((i0 + 2 + 1 - i0) / 3)) i0 (i0 + 2) n seqs bufs 0 Hl Ha) as [A1 A2];
      [unfold repeatb; apply repeat_length|].
    replace (i0 + 2 + 2) with (i0 + 2 + 1 + 1) by lia. replace (i0 + 2 + 3) with (i0 + 2 + 1 + 2) by lia.
    apply (IH _ (i0 + 2 + 1) _ A2 A1).
  - destruct (adv3 alen ref alen i0 (i0 + 1) (i0 + 2)) as [[j0 j1] j2] eqn:E3.
    destruct (adv3_offsets ref alen _ _ _ _ _ _ _ E3) as [O1 [O2 [O3 _]]].
    destruct (negb (Nat.ltb j2 alen)); [exists n; exact Ha|].
    destruct (adv2 alen ref alen j1 j2) as [k1 k2] eqn:E2.
    destruct (adv2_mono ref alen _ _ _ _ _ E2) as [M1 M2].
    destruct (negb (Nat.ltb k2 alen)); [exists n; exact Ha|].
    set (l2 := adv1 alen ref alen k2).
    pose proof (adv1_mono ref alen alen k2) as M3. fold l2 in M3.
    destruct (negb (Nat.ltb l2 alen)); [exists n; exact Ha|]. cbv zeta.
    assert (Hw : 3 <= l2 + 1 - j0) by lia.
    destruct (append_pieces_all_len code refid
                (translate_codon code (at_ ref j0) (at_ ref k1) (at_ ref l2) :: repeatb x2d ((l2 + 1 - j0) / 3 - 1))
                j0 l2 n seqs bufs 0 Hl Ha) as [A1 A2].
    { cbn [length]. unfold repeatb. rewrite repeat_length.
      assert (1 <= (l2 + 1 - j0) / 3) by (apply Nat.div_le_lower_bound; lia). lia. }
    replace (l2 + 2) with (l2 + 1 + 1) by lia. replace (l2 + 3) with (l2 + 1 + 2) by lia.
    apply (IH _ (l2 + 1) _ A2 A1).
Qed.

(* every row of the reference-guided translation has the same length, whatever the gaps *)
Theorem byref_rows_same_length alphabet gc phase refname (rs : list row) out :
  translate_by_reference alphabet gc phase refname rs = Some out ->
  forall r r', In r out -> In r' out -> length (snd r) = length (snd r').
Proof.
  intros H. unfold translate_by_reference in H.
  destruct refname as [|c0 cn]; [discriminate|].
  destruct (index_of_name (c0 :: cn) rs 0) as [refid|]; [|discriminate].
  destruct (negb (Z.eqb alphabet NUCLEOTIDS) && negb (Z.eqb alphabet BOTH)); [discriminate|].
  destruct (genetic_code gc) as [code|]; [|discriminate]. cbv zeta in H. injection H as <-.
  destruct (byref_loop_all_len code refid (length (snd (hd ([], []) rs))) (map snd rs) (S (length (snd (hd ([], []) rs))))
              (map (fun _ => []) rs) phase 0) as [n' Hn'].
  - rewrite !map_length. reflexivity.
  - intros b Hb. apply in_map_iff in Hb as [x [<- _]]. reflexivity.
  - intros [rn rq] [rn' rq'] Hr Hr'. apply in_combine_r in Hr, Hr'. cbn [snd]. rewrite (Hn' _ Hr), (Hn' _ Hr'). reflexivity.
Qed.

(* ---- frame 0 with gaps: the translated reference, gaps removed, is a prefix of the translation of the ungapped
   reference ------------------------------------------------------------------------------------------------ *)
From GA.Spec Require Import NCBI IupacSets.
From GA.Proofs Require Import TranslateProofs.

Definition F (l : list byte) : list byte := filter (fun b => negb (isgap b)) l.

Lemma F_app a b : F (a ++ b) = F a ++ F b. Proof. unfold F. apply filter_app. Qed.

Lemma F_firstn_S (ref : list byte) a :
  F (firstn (S a) ref) = F (firstn a ref) ++ (if isgap (at_ ref a) then [] else [at_ ref a]).
Proof.
  revert a. induction ref as [|h t IH]; intros a.
  - unfold at_. destruct a; reflexivity.
  - destruct a as [|a].
    + cbn [firstn]. unfold at_. cbn [nth]. unfold F. cbn [filter app]. destruct (isgap h); reflexivity.
    + change (firstn (S (S a)) (h :: t)) with (h :: firstn (S a) t).
      change (firstn (S a) (h :: t)) with (h :: firstn a t).
      change (at_ (h :: t) (S a)) with (at_ t a).
      change (F (h :: firstn (S a) t)) with (if negb (isgap h) then h :: F (firstn (S a) t) else F (firstn (S a) t)).
      change (F (h :: firstn a t)) with (if negb (isgap h) then h :: F (firstn a t) else F (firstn a t)).
      rewrite (IH a). destruct (negb (isgap h)); reflexivity.
Qed.

Lemma F_gap_run (ref : list byte) a : forall n,
  (forall p, a <= p < a + n -> isgap (at_ ref p) = true) -> F (firstn (a + n) ref) = F (firstn a ref).
Proof.
  induction n as [|n IH]; intros H; [rewrite Nat.add_0_r; reflexivity|].
  replace (a + S n) with (S (a + n)) by lia. rewrite F_firstn_S, (H (a + n)) by lia. rewrite app_nil_r.
  apply IH. intros p Hp. apply H. lia.
Qed.

Lemma F_gap_to (ref : list byte) a b : a <= b ->
  (forall p, a <= p < b -> isgap (at_ ref p) = true) -> F (firstn b ref) = F (firstn a ref).
Proof. intros Hab H. replace b with (a + (b - a)) by lia. apply F_gap_run. intros p Hp. apply H. lia. Qed.

Lemma translate_from_app3 code : forall p q, length p mod 3 = 0 ->
  translate_from code (p ++ q) = translate_from code p ++ translate_from code q.
Proof.
  intros p. remember (length p) as n eqn:En. revert p En.
  induction n as [n IH] using lt_wf_ind. intros p En q Hm.
  destruct p as [|a [|b [|c t]]].
  - reflexivity.
  - cbn in En. subst n. cbn in Hm. discriminate.
  - cbn in En. subst n. cbn in Hm. discriminate.
  - cbn [app]. cbn [translate_from]. change (translate_from code (a :: b :: c :: t ++ q)) with (translate_codon code a b c :: translate_from code (t ++ q)).
    cbn [app]. f_equal. apply (IH (length t)); [cbn in En; lia | reflexivity|].
    cbn [length] in En. subst n. replace (S (S (S (length t)))) with (length t + 1 * 3) in Hm by lia.
    rewrite Nat.mod_add in Hm by lia. exact Hm.
Qed.

(* the advance loops stop on a residue of the reference, or at the end of the alignment *)
Lemma adv3_stop ref alen : forall fuel i0 i1 i2 j0 j1 j2,
  adv3 fuel ref alen i0 i1 i2 = (j0, j1, j2) ->
  (forall p, i0 <= p < j0 -> isgap (at_ ref p) = true) /\
  (alen <= fuel + i2 -> j2 < alen -> isgap (at_ ref j0) = false).
Proof.
  induction fuel as [|f IH]; intros i0 i1 i2 j0 j1 j2 H; cbn [adv3] in H.
  - injection H as <- <- <-. split; [intros p Hp; lia | intros H1 H2; lia].
  - destruct (Nat.ltb_spec i2 alen) as [Hlt|Hge]; cbn [andb] in H.
    + destruct (isgap (at_ ref i0)) eqn:Eg.
      * destruct (IH _ _ _ _ _ _ H) as [G S]. split.
        -- intros p Hp. destruct (Nat.eq_dec p i0) as [->|Hne]; [exact Eg | apply G; lia].
        -- intros H1 H2. apply S; lia.
      * injection H as <- <- <-. split; [intros p Hp; lia | intros _ _; exact Eg].
    + injection H as <- <- <-. split; [intros p Hp; lia | intros _ H2; lia].
Qed.

Lemma adv2_stop ref alen : forall fuel i1 i2 k1 k2,
  adv2 fuel ref alen i1 i2 = (k1, k2) ->
  (forall p, i1 <= p < k1 -> isgap (at_ ref p) = true) /\
  (alen <= fuel + i2 -> k2 < alen -> isgap (at_ ref k1) = false).
Proof.
  induction fuel as [|f IH]; intros i1 i2 k1 k2 H; cbn [adv2] in H.
  - injection H as <- <-. split; [intros p Hp; lia | intros H1 H2; lia].
  - destruct (Nat.ltb_spec i2 alen) as [Hlt|Hge]; cbn [andb] in H.
    + destruct (isgap (at_ ref i1)) eqn:Eg.
      * destruct (IH _ _ _ _ H) as [G S]. split.
        -- intros p Hp. destruct (Nat.eq_dec p i1) as [->|Hne]; [exact Eg | apply G; lia].
        -- intros H1 H2. apply S; lia.
      * injection H as <- <-. split; [intros p Hp; lia | intros _ _; exact Eg].
    + injection H as <- <-. split; [intros p Hp; lia | intros _ H2; lia].
Qed.

Lemma adv1_stop ref alen : forall fuel i2,
  (forall p, i2 <= p < adv1 fuel ref alen i2 -> isgap (at_ ref p) = true) /\
  (alen <= fuel + i2 -> adv1 fuel ref alen i2 < alen -> isgap (at_ ref (adv1 fuel ref alen i2)) = false).
Proof.
  induction fuel as [|f IH]; intros i2; cbn [adv1].
  - split; [intros p Hp; lia | intros H1 H2; lia].
  - destruct (Nat.ltb_spec i2 alen) as [Hlt|Hge]; cbn [andb].
    + destruct (isgap (at_ ref i2)) eqn:Eg.
      * destruct (IH (S i2)) as [G S']. split.
        -- intros p Hp. destruct (Nat.eq_dec p i2) as [->|Hne]; [exact Eg | apply G; lia].
        -- intros H1 H2. apply S'; [lia | exact H2].
      * split; [intros p Hp; lia | intros _ _; exact Eg].
    + split; [intros p Hp; lia | intros _ H2; lia].
Qed.

(* the buffer of the reference row *)
Lemma append_pieces_ref code refid refpiece i0 i2 naa : forall seqs bufs k,
  length bufs = length seqs -> k <= refid -> refid - k < length seqs ->
  nth (refid - k) (append_pieces code k refid seqs bufs refpiece i0 i2 naa) [] = nth (refid - k) bufs [] ++ refpiece.
Proof.
  induction seqs as [|s ss IH]; intros bufs k Hl Hk Hr; [cbn in Hr; lia|].
  destruct bufs as [|b bs]; [discriminate|]. cbn [append_pieces].
  destruct (Nat.eq_dec k refid) as [->|Hne].
  - rewrite Nat.sub_diag. cbn [nth]. rewrite Nat.eqb_refl. reflexivity.
  - replace (refid - k) with (S (refid - S k)) by lia. cbn [nth]. apply IH; [cbn in Hl; lia | lia | cbn in Hr; lia].
Qed.

(* a codon holding a residue does not translate to a gap *)
Definition spec_classes : list (option Z) := None :: map Some [0; 1; 2; 3; 4; 5; 6; 7; 8; 9; 10; 11; 12; 13; 14; 15]%Z.
Definition optZ_eqb' (a b : option Z) : bool :=
  match a, b with Some x, Some y => Z.eqb x y | None, None => true | _, _ => false end.

Lemma nt_class_in b : existsb (optZ_eqb' (nt_class b)) spec_classes = true.
Proof. revert b. apply forall_bytes. vm_compute. reflexivity. Qed.

Lemma nt_class_nongap b : isgap b = false -> optZ_eqb' (nt_class b) (Some 0%Z) = false.
Proof.
  intros H. assert (G : (isgap b || negb (optZ_eqb' (nt_class b) (Some 0%Z))) = true).
  { revert b H. intros b _. revert b. apply forall_bytes. vm_compute. reflexivity. }
  rewrite H in G. cbn [orb] in G. destruct (optZ_eqb' (nt_class b) (Some 0%Z)); [discriminate | reflexivity].
Qed.

Definition cls_nogap_ok (gc : Z) : bool :=
  forallb (fun c1 => forallb (fun c2 => forallb (fun c3 =>
    optZ_eqb' c1 (Some 0%Z) || negb (beqb (spec_codon_cls gc c1 c2 c3) x2d)) spec_classes) spec_classes) spec_classes.

Lemma cls_nogap_all : cls_nogap_ok 0 = true /\ cls_nogap_ok 1 = true /\ cls_nogap_ok 2 = true.
Proof. repeat split; vm_compute; reflexivity. Qed.

Lemma optZ_eqb'_eq a b : optZ_eqb' a b = true -> a = b.
Proof. destruct a, b; cbn; intros H; try discriminate; [apply Z.eqb_eq in H; subst|]; reflexivity. Qed.

Lemma codon_with_residue_not_gap gc code a b c :
  genetic_code gc = Some code -> isgap a = false -> isgap (translate_codon code a b c) = false.
Proof.
  intros Hg Ha. rewrite (codon_theorem gc code Hg). unfold spec_codon.
  assert (Hok : cls_nogap_ok gc = true).
  { destruct cls_nogap_all as [S0 [S1 S2]]. unfold genetic_code in Hg.
    destruct (Z.eqb_spec gc GENETIC_CODE_STANDARD) as [->|]; [exact S0|].
    destruct (Z.eqb_spec gc GENETIC_CODE_VETEBRATE_MITO) as [->|]; [exact S1|].
    destruct (Z.eqb_spec gc GENETIC_CODE_INVETEBRATE_MITO) as [->|]; [exact S2 | discriminate]. }
  unfold cls_nogap_ok in Hok.
  pose proof (nt_class_in a) as I1. pose proof (nt_class_in b) as I2. pose proof (nt_class_in c) as I3.
  apply existsb_exists in I1 as [c1 [M1 E1]]. apply existsb_exists in I2 as [c2 [M2 E2]]. apply existsb_exists in I3 as [c3 [M3 E3]].
  apply optZ_eqb'_eq in E1, E2, E3.
  rewrite forallb_forall in Hok. specialize (Hok c1 M1). rewrite forallb_forall in Hok. specialize (Hok c2 M2).
  rewrite forallb_forall in Hok. specialize (Hok c3 M3).
  rewrite <- E1, <- E2, <- E3 in Hok. rewrite (nt_class_nongap a Ha) in Hok. cbn [orb] in Hok.
  unfold isgap. destruct (beqb (spec_codon_cls gc (nt_class a) (nt_class b) (nt_class c)) x2d); [discriminate | reflexivity].
Qed.

Lemma ungap_app a b : ungap (a ++ b) = ungap a ++ ungap b. Proof. unfold ungap. apply filter_app. Qed.
Lemma ungap_repeat n : ungap (repeatb x2d n) = [].
Proof. unfold repeatb. induction n as [|n IH]; [reflexivity|]. cbn [repeat]. unfold ungap in *. cbn [filter]. exact IH. Qed.
Lemma ungap_is_F l : ungap l = F l. Proof. reflexivity. Qed.

Lemma append_pieces_length code refid refpiece i0 i2 naa : forall seqs bufs k,
  length bufs = length seqs -> length (append_pieces code k refid seqs bufs refpiece i0 i2 naa) = length seqs.
Proof.
  induction seqs as [|s ss IH]; intros bufs k Hl; destruct bufs as [|b bs]; try discriminate; [reflexivity|].
  cbn [append_pieces length]. f_equal. apply IH. cbn in Hl. lia.
Qed.

Definition ref_inv (code : code_table) (refid : nat) (ref : list byte) (bufs : list (list byte)) (i0 : nat) : Prop :=
  ungap (nth refid bufs []) = translate_from code (F (firstn i0 ref)) /\ length (F (firstn i0 ref)) mod 3 = 0.

Lemma byref_loop_ref_inv gc code refid alen seqs :
  genetic_code gc = Some code -> refid < length seqs ->
  forall fuel bufs i0,
  length bufs = length seqs -> ref_inv code refid (nth refid seqs []) bufs i0 ->
  exists i, ref_inv code refid (nth refid seqs []) (byref_loop fuel code refid alen seqs bufs i0 (i0 + 1) (i0 + 2)) i.
Proof.
  intros Hg Hrid. induction fuel as [|f IH]; intros bufs i0 Hl Hi; [exists i0; exact Hi|]. rewrite byref_loop_S.
  destruct (negb (Nat.ltb (i0 + 2) alen)); [exists i0; exact Hi|]. cbv zeta.
  set (ref := nth refid seqs []) in *.
  destruct (isgap (at_ ref i0) && isgap (at_ ref (i0 + 1)) && isgap (at_ ref (i0 + 2))) eqn:Eall.
  - cbv zeta. apply andb_prop in Eall as [Eall G2]. apply andb_prop in Eall as [G0 G1].
    replace (i0 + 2 + 2) with (i0 + 2 + 1 + 1) by lia. replace (i0 + 2 + 3) with (i0 + 2 + 1 + 2) by lia.
    apply IH.
    + apply append_pieces_length. exact Hl.
    + destruct Hi as [I1 I2]. unfold ref_inv.
      pose proof (append_pieces_ref code refid (repeatb x2d ((i0 + 2 + 1 - i0) / 3)) i0 (i0 + 2) ((i0 + 2 + 1 - i0) / 3) seqs bufs 0 Hl
                    ltac:(lia)) as R. rewrite Nat.sub_0_r in R. rewrite R by exact Hrid.
      rewrite ungap_app, ungap_repeat, app_nil_r.
      assert (E : F (firstn (i0 + 2 + 1) ref) = F (firstn i0 ref)).
      { apply F_gap_to; [lia|]. intros p Hp.
        assert (p = i0 \/ p = i0 + 1 \/ p = i0 + 2) as [->|[->| ->]] by lia; assumption. }
      rewrite E. split; assumption.
  - destruct (adv3 alen ref alen i0 (i0 + 1) (i0 + 2)) as [[j0 j1] j2] eqn:E3.
    destruct (adv3_offsets ref alen _ _ _ _ _ _ _ E3) as [O1 [O2 [O3 _]]].
    destruct (adv3_stop ref alen _ _ _ _ _ _ _ E3) as [S3a S3b].
    destruct (Nat.ltb j2 alen) eqn:L3; cbn [negb]; [|exists i0; exact Hi].
    destruct (adv2 alen ref alen j1 j2) as [k1 k2] eqn:E2.
    destruct (adv2_mono ref alen _ _ _ _ _ E2) as [M1 M2].
    destruct (adv2_stop ref alen _ _ _ _ _ E2) as [S2a S2b].
    destruct (Nat.ltb k2 alen) eqn:L2; cbn [negb]; [|exists i0; exact Hi].
    set (l2 := adv1 alen ref alen k2).
    pose proof (adv1_mono ref alen alen k2) as M3. fold l2 in M3.
    destruct (adv1_stop ref alen alen k2) as [S1a S1b]. fold l2 in S1a, S1b.
    destruct (Nat.ltb l2 alen) eqn:L1; cbn [negb]; [|exists i0; exact Hi]. cbv zeta.
    apply Nat.ltb_lt in L3, L2, L1.
    assert (R0 : isgap (at_ ref j0) = false) by (apply S3b; lia).
    assert (R1 : isgap (at_ ref k1) = false) by (apply S2b; lia).
    assert (R2 : isgap (at_ ref l2) = false) by (apply S1b; lia).
    replace (l2 + 2) with (l2 + 1 + 1) by lia. replace (l2 + 3) with (l2 + 1 + 2) by lia.
    apply IH.
    + apply append_pieces_length. exact Hl.
    + destruct Hi as [I1 I2]. unfold ref_inv.
      pose proof (append_pieces_ref code refid
                    (translate_codon code (at_ ref j0) (at_ ref k1) (at_ ref l2) :: repeatb x2d ((l2 + 1 - j0) / 3 - 1))
                    j0 l2 ((l2 + 1 - j0) / 3) seqs bufs 0 Hl ltac:(lia)) as R. rewrite Nat.sub_0_r in R. rewrite R by exact Hrid.
      rewrite ungap_app.
      change (ungap (translate_codon code (at_ ref j0) (at_ ref k1) (at_ ref l2) :: repeatb x2d ((l2 + 1 - j0) / 3 - 1)))
        with (if negb (isgap (translate_codon code (at_ ref j0) (at_ ref k1) (at_ ref l2)))
              then translate_codon code (at_ ref j0) (at_ ref k1) (at_ ref l2) :: ungap (repeatb x2d ((l2 + 1 - j0) / 3 - 1))
              else ungap (repeatb x2d ((l2 + 1 - j0) / 3 - 1))).
      rewrite (codon_with_residue_not_gap gc code _ _ _ Hg R0). cbn [negb]. rewrite ungap_repeat.
      assert (E : F (firstn (l2 + 1) ref) = F (firstn i0 ref) ++ [at_ ref j0; at_ ref k1; at_ ref l2]).
      { replace (l2 + 1) with (S l2) by lia. rewrite F_firstn_S, R2.
        rewrite (F_gap_to ref (S k1) l2) by (try lia; intros p Hp; apply S1a; lia).
        rewrite F_firstn_S, R1.
        rewrite (F_gap_to ref (S j0) k1) by (try lia; intros p Hp; apply S2a; lia).
        rewrite F_firstn_S, R0.
        rewrite (F_gap_to ref i0 j0) by (try lia; intros p Hp; apply S3a; lia).
        rewrite <- !app_assoc. reflexivity. }
      rewrite E. split.
      * rewrite translate_from_app3 by exact I2. rewrite I1. reflexivity.
      * rewrite app_length. cbn [length]. replace (length (F (firstn i0 ref)) + 3) with (length (F (firstn i0 ref)) + 1 * 3) by lia.
        rewrite Nat.mod_add by lia. exact I2.
Qed.

Lemma byref_loop_length code refid alen seqs : forall fuel bufs i0 i1 i2,
  length bufs = length seqs -> length (byref_loop fuel code refid alen seqs bufs i0 i1 i2) = length seqs.
Proof.
  induction fuel as [|f IH]; intros bufs i0 i1 i2 Hl; [exact Hl|]. rewrite byref_loop_S.
  destruct (negb (Nat.ltb i2 alen)); [exact Hl|]. cbv zeta.
  destruct (isgap (at_ (nth refid seqs []) i0) && isgap (at_ (nth refid seqs []) i1) && isgap (at_ (nth refid seqs []) i2)).
  - apply IH. apply append_pieces_length. exact Hl.
  - destruct (adv3 alen (nth refid seqs []) alen i0 i1 i2) as [[j0 j1] j2].
    destruct (negb (Nat.ltb j2 alen)); [exact Hl|].
    destruct (adv2 alen (nth refid seqs []) alen j1 j2) as [k1 k2].
    destruct (negb (Nat.ltb k2 alen)); [exact Hl|].
    destruct (negb (Nat.ltb (adv1 alen (nth refid seqs []) alen k2) alen)); [exact Hl|].
    apply IH. apply append_pieces_length. exact Hl.
Qed.

Lemma index_lassoc_in n : forall (rs : list row) k i, index_of_name n rs k = Some i ->
  lassoc n rs = Some (nth (i - k) (map snd rs) []).
Proof.
  induction rs as [|[rn rq] t IH]; intros k i H; cbn [index_of_name] in H; [discriminate|].
  cbn [lassoc map fst] in *. destruct (bytes_eqb rn n) eqn:E.
  - injection H as <-. apply bytes_eqb_eq in E. subst rn. rewrite bytes_eqb_refl, Nat.sub_diag. reflexivity.
  - assert (E' : bytes_eqb n rn = false).
    { destruct (bytes_eqb n rn) eqn:E2; [|reflexivity]. apply bytes_eqb_eq in E2. subst rn. rewrite bytes_eqb_refl in E. discriminate. }
    rewrite E'. pose proof (index_of_name_lt n t (S k) i H) as Hlt. rewrite (IH (S k) i H).
    replace (i - k) with (S (i - S k)) by lia. reflexivity.
Qed.

Lemma index_lassoc_out n : forall (rs : list row) (bufs : list (list byte)) k i, index_of_name n rs k = Some i ->
  length bufs = length rs -> lassoc n (combine (map fst rs) bufs) = Some (nth (i - k) bufs []).
Proof.
  induction rs as [|[rn rq] t IH]; intros bufs k i H Hl; cbn [index_of_name] in H; [discriminate|].
  destruct bufs as [|b bs]; [discriminate|]. cbn [map fst combine lassoc] in *. destruct (bytes_eqb rn n) eqn:E.
  - injection H as <-. apply bytes_eqb_eq in E. subst rn. rewrite bytes_eqb_refl, Nat.sub_diag. reflexivity.
  - assert (E' : bytes_eqb n rn = false).
    { destruct (bytes_eqb n rn) eqn:E2; [|reflexivity]. apply bytes_eqb_eq in E2. subst rn. rewrite bytes_eqb_refl in E. discriminate. }
    rewrite E'. pose proof (index_of_name_lt n t (S k) i H) as Hlt. rewrite (IH bs (S k) i H) by (cbn in Hl; lia).
    replace (i - k) with (S (i - S k)) by lia. reflexivity.
Qed.

Definition is_prefix (a b : list byte) : Prop := exists t, b = a ++ t.

(* frame 0, gaps anywhere: the translated reference with its gaps removed is a prefix of the translation of the
   reference with its gaps removed (the codons of the reference are read across its gaps) *)
Theorem byref_frame0_prefix gc code refname (rs : list row) out refrow refout :
  genetic_code gc = Some code ->
  translate_by_reference NUCLEOTIDS gc 0 refname rs = Some out ->
  lassoc refname rs = Some refrow -> lassoc refname out = Some refout ->
  is_prefix (ungap refout) (translate_from code (ungap refrow)).
Proof.
  intros Hg H Hin Hout. unfold translate_by_reference in H.
  destruct refname as [|c0 cn]; [discriminate|].
  destruct (index_of_name (c0 :: cn) rs 0) as [refid|] eqn:Ei; [|discriminate].
  cbn [negb andb Z.eqb NUCLEOTIDS] in H. rewrite Hg in H. cbv zeta in H. injection H as <-.
  set (alen := length (snd (hd ([], []) rs))) in *.
  set (bufs := byref_loop (S alen) code refid alen (map snd rs) (map (fun _ => []) rs) 0 (0 + 1) (0 + 2)) in *.
  assert (Hlen : length bufs = length rs).
  { unfold bufs. rewrite byref_loop_length; rewrite !map_length; reflexivity. }
  rewrite (index_lassoc_in _ _ _ _ Ei) in Hin. injection Hin as <-.
  change (byref_loop (S alen) code refid alen (map snd rs) (map (fun _ => []) rs) 0 1 2) with bufs in Hout.
  rewrite (index_lassoc_out _ _ bufs _ _ Ei Hlen) in Hout. injection Hout as <-. rewrite Nat.sub_0_r.
  pose proof (index_of_name_lt _ _ _ _ Ei) as Hlt.
  destruct (byref_loop_ref_inv gc code refid alen (map snd rs) Hg ltac:(rewrite map_length; lia) (S alen)
              (map (fun _ => []) rs) 0) as [i [I1 I2]].
  - rewrite !map_length. reflexivity.
  - split; [|reflexivity]. cbn [firstn]. 
    assert (E : nth refid (map (fun _ : row => @nil byte) rs) [] = []).
    { clear. revert refid. induction rs as [|r t IH]; intros [|k]; cbn; auto. }
    rewrite E. reflexivity.
  - fold bufs in I1. rewrite I1. set (ref := nth refid (map snd rs) []) in *.
    exists (translate_from code (F (skipn i ref))).
    rewrite <- translate_from_app3 by exact I2. rewrite <- F_app, firstn_skipn. reflexivity.
Qed.
