From Coq Require Import List Bool NArith ZArith Lia Arith.
From Coq.Strings Require Import Byte.
Import ListNotations.
From GA.Base Require Import Bytes Case.
From GA.Gen Require Import GenCodes Iupac Alpha CaseTables.
From GA.Spec Require Import IupacSets NCBI.
From GA.Model Require Import Translate.

(* ---- tables ------------------------------------------------------------------ *)
Definition base_of_idx (i : nat) : byte :=
  match i with 0 => x54 | 1 => x43 | 2 => x41 | _ => x47 end.

Definition opt_beqb (a : option byte) (b : byte) : bool :=
  match a with Some x => beqb x b | None => false end.

Definition table_matches (gc : Z) (tbl : code_table) : bool :=
  forallb (fun i => forallb (fun j => forallb (fun k =>
     opt_beqb (lassoc [base_of_idx i; base_of_idx j; base_of_idx k] tbl) (ncbi_aa gc i j k))
     [0;1;2;3]) [0;1;2;3]) [0;1;2;3]
  && opt_beqb (lassoc [x2d; x2d; x2d] tbl) x2d
  && Nat.eqb (length tbl) 65.

Lemma tables_are_ncbi :
  table_matches 0 standardcode = true /\
  table_matches 1 vertebratemitocode = true /\
  table_matches 2 invertebratemitocode = true /\
  GENETIC_CODE_STANDARD = 0%Z /\ GENETIC_CODE_VETEBRATE_MITO = 1%Z /\ GENETIC_CODE_INVETEBRATE_MITO = 2%Z.
Proof. repeat split; vm_compute; reflexivity. Qed.

Lemma table_entry gc tbl i j k :
  table_matches gc tbl = true -> i < 4 -> j < 4 -> k < 4 ->
  lassoc [base_of_idx i; base_of_idx j; base_of_idx k] tbl = Some (ncbi_aa gc i j k).
Proof.
  unfold table_matches. intros H Hi Hj Hk.
  apply andb_true_iff in H as [H _]. apply andb_true_iff in H as [H _].
  rewrite forallb_forall in H.
  assert (Ii : In i [0;1;2;3]) by (simpl; lia).
  assert (Ij : In j [0;1;2;3]) by (simpl; lia).
  assert (Ik : In k [0;1;2;3]) by (simpl; lia).
  specialize (H i Ii). rewrite forallb_forall in H. specialize (H j Ij).
  rewrite forallb_forall in H. specialize (H k Ik).
  unfold opt_beqb in H. destruct (lassoc _ tbl); [|discriminate].
  apply beqb_eq in H. congruence.
Qed.

(* IUPAC expansion table of the code = base sets of the spec *)
Definition mask_of_bases (l : list byte) : Z :=
  fold_left (fun acc b => Z.lor acc (match iupac_mask_upper b with Some m => m | None => 16 end)) l 0%Z.

Definition iupac_entry_ok (e : byte * list byte) : bool :=
  let '(k, v) := e in
  if beqb k x2d then list_eqb beqb v [x2d]
  else match iupac_mask_upper k with
       | Some m => Z.eqb (mask_of_bases v) m && negb (beqb k x55) &&
                   Nat.eqb (length v) (length (bases_of_mask m))
       | None => false
       end.

Lemma iupac_table_semantic :
  forallb iupac_entry_ok iupac_code = true /\ length iupac_code = 16.
Proof. split; vm_compute; reflexivity. Qed.

(* ---- the per-codon theorem ---------------------------------------------------- *)
Definition classes : list (option Z) :=
  None :: map (fun n => Some (Z.of_nat n)) (seq 0 16).

Definition rep (c : option Z) : byte :=
  match c with
  | None => x21
  | Some 0%Z => x2d
  | Some m => letter_of_mask m
  end.

Definition L (b : byte) : option (list byte) := iupac_lookup (fold_nt b).

Definition T (code : code_table) (o1 o2 o3 : option (list byte)) : byte :=
  tc_of code (gen_codons_opt o1 o2 o3).

Lemma translate_codon_T code b1 b2 b3 : translate_codon code b1 b2 b3 = T code (L b1) (L b2) (L b3).
Proof. reflexivity. Qed.

Definition optlist_eqb (a b : option (list byte)) : bool :=
  match a, b with
  | Some x, Some y => bytes_eqb x y
  | None, None => true
  | _, _ => false
  end.
Lemma optlist_eqb_eq a b : optlist_eqb a b = true -> a = b.
Proof. destruct a, b; simpl; try congruence. intros H; apply bytes_eqb_eq in H; congruence. Qed.

Definition optZ_eqb (a b : option Z) : bool :=
  match a, b with
  | Some x, Some y => Z.eqb x y
  | None, None => true
  | _, _ => false
  end.
Lemma optZ_eqb_eq a b : optZ_eqb a b = true -> a = b.
Proof. destruct a, b; simpl; try congruence. intros H; apply Z.eqb_eq in H; congruence. Qed.

Definition in_classes (c : option Z) : bool := existsb (optZ_eqb c) classes.

Lemma in_classes_In c : in_classes c = true -> In c classes.
Proof.
  unfold in_classes. intros H. apply existsb_exists in H as [x [Hx E]].
  apply optZ_eqb_eq in E. subst. exact Hx.
Qed.

(* 256-byte sweep: the code's lookup only depends on the spec's class *)
Lemma byte_sweep :
  forall b, (in_classes (nt_class b) && optlist_eqb (L b) (L (rep (nt_class b)))) = true.
Proof. apply forall_bytes. vm_compute. reflexivity. Qed.

(* 17^3 sweep per genetic code *)
Definition cls_sweep (gc : Z) (code : code_table) : bool :=
  forallb (fun c1 => forallb (fun c2 => forallb (fun c3 =>
     beqb (T code (L (rep c1)) (L (rep c2)) (L (rep c3))) (spec_codon_cls gc c1 c2 c3))
     classes) classes) classes.

Lemma cls_sweep_all :
  cls_sweep 0 standardcode = true /\ cls_sweep 1 vertebratemitocode = true /\
  cls_sweep 2 invertebratemitocode = true.
Proof. repeat split; vm_compute; reflexivity. Qed.

Lemma cls_sweep_use gc code c1 c2 c3 :
  cls_sweep gc code = true -> In c1 classes -> In c2 classes -> In c3 classes ->
  T code (L (rep c1)) (L (rep c2)) (L (rep c3)) = spec_codon_cls gc c1 c2 c3.
Proof.
  unfold cls_sweep. intros H I1 I2 I3.
  rewrite forallb_forall in H. specialize (H c1 I1).
  rewrite forallb_forall in H. specialize (H c2 I2).
  rewrite forallb_forall in H. specialize (H c3 I3).
  apply beqb_eq in H. exact H.
Qed.

Lemma translate_codon_is_spec gc code :
  cls_sweep gc code = true ->
  forall b1 b2 b3, translate_codon code b1 b2 b3 = spec_codon gc b1 b2 b3.
Proof.
  intros HS b1 b2 b3. rewrite translate_codon_T. unfold spec_codon.
  pose proof (byte_sweep b1) as H1. pose proof (byte_sweep b2) as H2. pose proof (byte_sweep b3) as H3.
  apply andb_true_iff in H1 as [I1 E1]. apply andb_true_iff in H2 as [I2 E2].
  apply andb_true_iff in H3 as [I3 E3].
  apply optlist_eqb_eq in E1, E2, E3. rewrite E1, E2, E3.
  apply cls_sweep_use; auto using in_classes_In.
Qed.

Theorem codon_theorem :
  forall gc code, genetic_code gc = Some code ->
  forall b1 b2 b3, translate_codon code b1 b2 b3 = spec_codon gc b1 b2 b3.
Proof.
  intros gc code H. destruct cls_sweep_all as [S0 [S1 S2]].
  unfold genetic_code in H.
  replace GENETIC_CODE_STANDARD with 0%Z in H by reflexivity.
  replace GENETIC_CODE_VETEBRATE_MITO with 1%Z in H by reflexivity.
  replace GENETIC_CODE_INVETEBRATE_MITO with 2%Z in H by reflexivity.
  destruct (Z.eqb_spec gc 0) as [E0|N0].
  { rewrite E0. inversion H as [Hc]. apply translate_codon_is_spec. exact S0. }
  destruct (Z.eqb_spec gc 1) as [E1|N1].
  { rewrite E1. inversion H as [Hc]. apply translate_codon_is_spec. exact S1. }
  destruct (Z.eqb_spec gc 2) as [E2|N2].
  { rewrite E2. inversion H as [Hc]. apply translate_codon_is_spec. exact S2. }
  clear S0 S1 S2. discriminate H.
Qed.

Lemma genetic_code_domain gc :
  (exists code, genetic_code gc = Some code) <-> (gc = 0 \/ gc = 1 \/ gc = 2)%Z.
Proof.
  unfold genetic_code.
  replace GENETIC_CODE_STANDARD with 0%Z by reflexivity.
  replace GENETIC_CODE_VETEBRATE_MITO with 1%Z by reflexivity.
  replace GENETIC_CODE_INVETEBRATE_MITO with 2%Z by reflexivity.
  split.
  - intros [code H].
    destruct (Z.eqb_spec gc 0); [auto|]. destruct (Z.eqb_spec gc 1); [auto|].
    destruct (Z.eqb_spec gc 2); [auto|]. discriminate.
  - intros [H|[H|H]]; subst; simpl; eauto.
Qed.

(* ---- frame loop: whole sequences ------------------------------------------------------- *)
Lemma translate_from_spec gc code :
  genetic_code gc = Some code -> forall s, translate_from code s = spec_translate gc s.
Proof.
  intros H s.
  assert (G : forall n s, length s <= n -> translate_from code s = spec_translate gc s).
  { induction n as [|n IH]; intros s0 Hl.
    - destruct s0; [reflexivity | simpl in Hl; lia].
    - destruct s0 as [|a [|b [|c t]]]; try reflexivity.
      cbn [translate_from spec_translate]. rewrite (codon_theorem gc code H). f_equal.
      apply IH. simpl in Hl. lia. }
  apply (G (length s)). lia.
Qed.

Lemma div3_step k : (S (S (S k))) / 3 = S (k / 3).
Proof.
  change (S (S (S k))) with (3 + k). replace (3 + k) with (k + 1 * 3) by lia.
  rewrite Nat.div_add by lia. lia.
Qed.

Lemma translate_from_length code s : length (translate_from code s) = length s / 3.
Proof.
  assert (G : forall n s, length s <= n -> length (translate_from code s) = length s / 3).
  { induction n as [|n IH]; intros s0 Hl.
    - destruct s0; [reflexivity | simpl in Hl; lia].
    - destruct s0 as [|a [|b [|c t]]]; try reflexivity.
      cbn [translate_from length]. rewrite div3_step. f_equal. apply IH. simpl in Hl. lia. }
  apply (G (length s)). lia.
Qed.

(* Sequence.Translate: floor((L-frame)/3) residues, an error exactly when that
   is zero or the alphabet test fails; each residue is the spec's *)
Lemma seq_translate_spec gc code phase s :
  genetic_code gc = Some code ->
  (Z.eqb (detect_alphabet_seq s) NUCLEOTIDS || Z.eqb (detect_alphabet_seq s) BOTH) = true ->
  (seq_translate gc phase s = None <-> (length s - phase) / 3 = 0) /\
  (forall p, seq_translate gc phase s = Some p ->
     p = spec_translate gc (skipn phase s) /\ length p = (length s - phase) / 3).
Proof.
  intros Hc Ha. unfold seq_translate. rewrite Hc. unfold buffer_translate.
  assert (Ha' : (negb (Z.eqb (detect_alphabet_seq s) NUCLEOTIDS) && negb (Z.eqb (detect_alphabet_seq s) BOTH)) = false).
  { destruct (Z.eqb (detect_alphabet_seq s) NUCLEOTIDS), (Z.eqb (detect_alphabet_seq s) BOTH); simpl in *; congruence. }
  rewrite Ha'.
  destruct (Nat.ltb_spec (length s) (3 + phase)) as [Hlt|Hge].
  - split.
    + split; [intros _|reflexivity]. apply Nat.div_small. lia.
    + intros p Hp. discriminate.
  - split.
    + split; [discriminate|]. intros Hz. exfalso.
      assert (3 <= length s - phase) by lia.
      assert (1 <= (length s - phase) / 3).
      { apply Nat.div_le_lower_bound; lia. }
      lia.
    + intros p Hp. inversion Hp; subst. split.
      * apply translate_from_spec. exact Hc.
      * rewrite translate_from_length, skipn_length. reflexivity.
Qed.

Lemma seq_translate_wrong_alphabet gc phase s :
  (Z.eqb (detect_alphabet_seq s) NUCLEOTIDS || Z.eqb (detect_alphabet_seq s) BOTH) = false ->
  seq_translate gc phase s = None.
Proof.
  intros H. unfold seq_translate. destruct (genetic_code gc); [|reflexivity].
  unfold buffer_translate.
  destruct (Z.eqb (detect_alphabet_seq s) NUCLEOTIDS), (Z.eqb (detect_alphabet_seq s) BOTH); simpl in *; congruence.
Qed.

(* every residue of the quantifier's alphabet passes the alphabet test *)
Lemma residues_are_nt :
  forall b, (negb (is_residue b) || fst (could_be_nt_aa b)) = true.
Proof. apply forall_bytes. vm_compute. reflexivity. Qed.

Lemma residue_seq_alphabet s :
  forallb is_residue s = true ->
  (Z.eqb (detect_alphabet_seq s) NUCLEOTIDS || Z.eqb (detect_alphabet_seq s) BOTH) = true.
Proof.
  intros H. unfold detect_alphabet_seq.
  assert (N : forallb (fun b => fst (could_be_nt_aa b)) s = true).
  { rewrite forallb_forall in *. intros b Hb. specialize (H b Hb).
    pose proof (residues_are_nt b) as R. rewrite H in R. simpl in R. exact R. }
  rewrite N. simpl.
  destruct (forallb (fun b => snd (could_be_nt_aa b)) s); vm_compute; reflexivity.
Qed.

(* ---- three-frame naming of seqbag.Translate --------------------------------------------- *)
Lemma translate_rows_ok_spec code suffix phases rs out :
  translate_rows code suffix phases rs = (out, true) ->
  out = flat_map (fun r => map (fun p => ((if suffix then suffix_name (fst r) p else fst r),
                                           translate_from code (skipn p (snd r)))) phases) rs.
Proof.
  assert (R : forall phases r out, translate_row_phases code suffix phases r = (out, true) ->
     out = map (fun p => ((if suffix then suffix_name (fst r) p else fst r),
                          translate_from code (skipn p (snd r)))) phases).
  { induction phases0 as [|p more IH]; intros r o H; simpl in H.
    - inversion H. reflexivity.
    - unfold buffer_translate in H.
      destruct (negb (Z.eqb (detect_alphabet_seq (snd r)) NUCLEOTIDS) && negb (Z.eqb (detect_alphabet_seq (snd r)) BOTH));
        [inversion H|].
      destruct (Nat.ltb (length (snd r)) (3 + p)); [inversion H|].
      destruct (translate_row_phases code suffix more r) as [rest ok] eqn:E.
      inversion H; subst. simpl. f_equal. apply IH. exact E. }
  revert out. induction rs as [|r t IH]; intros out H; simpl in H.
  - inversion H. reflexivity.
  - destruct (translate_row_phases code suffix phases r) as [o ok] eqn:E.
    destruct ok.
    + destruct (translate_rows code suffix phases t) as [rest ok'] eqn:E'.
      inversion H; subst. simpl. f_equal; [apply R; exact E | apply IH; reflexivity].
    + inversion H.
Qed.

(* ---- CodonAlign -------------------------------------------------------------------------------- *)
Definition ungap (s : list byte) : list byte := filter (fun b => negb (beqb b x2d)) s.

Lemma gap_codon_translates_to_gap code :
  lassoc [x2d; x2d; x2d] code = Some x2d -> translate_codon code x2d x2d x2d = x2d.
Proof.
  intros H. unfold translate_codon, gen_all_codons.
  replace (iupac_lookup (fold_nt x2d)) with (Some [x2d]) by (vm_compute; reflexivity).
  cbn [gen_codons_opt gen_codons_of map flat_map app tc_of tc_loop]. rewrite H. reflexivity.
Qed.

Lemma thread_spec code :
  lassoc [x2d; x2d; x2d] code = Some x2d ->
  forall p nt,
  ungap p = translate_from code nt ->
  forallb (fun b => negb (beqb b x2d)) nt = true ->
  exists r, thread p nt = Some (r, skipn (3 * (length nt / 3)) nt) /\
            length r = 3 * length p /\
            ungap r = firstn (3 * (length nt / 3)) nt /\
            translate_from code r = p.
Proof.
  intros Hg. induction p as [|a p IH]; intros nt Hu Hn.
  - simpl in Hu. exists [].
    assert (length nt / 3 = 0) as Hz.
    { rewrite <- translate_from_length with (code := code). rewrite <- Hu. reflexivity. }
    cbn [thread]. rewrite Hz. cbn. auto.
  - cbn [thread]. destruct (beqb a x2d) eqn:Ea.
    + apply beqb_eq in Ea. subst a.
      assert (Hu' : ungap p = translate_from code nt).
      { unfold ungap in *. simpl in Hu. exact Hu. }
      destruct (IH nt Hu' Hn) as [r [Ht [Hl [Hug Htr]]]].
      rewrite Ht. eexists. split; [reflexivity|]. repeat split.
      * simpl. rewrite Hl. simpl. lia.
      * unfold ungap in *. simpl. exact Hug.
      * cbn [translate_from]. rewrite gap_codon_translates_to_gap by exact Hg. f_equal. exact Htr.
    + assert (Hu' : a :: ungap p = translate_from code nt).
      { unfold ungap in *. simpl in Hu. rewrite Ea in Hu. simpl in Hu. exact Hu. }
      destruct nt as [|x [|y [|z nt']]]; try (simpl in Hu'; discriminate).
      cbn [translate_from] in Hu'. inversion Hu' as [[Ha Hrest]].
      assert (Hn' : forallb (fun b => negb (beqb b x2d)) nt' = true).
      { simpl in Hn. repeat (apply andb_true_iff in Hn as [_ Hn]). exact Hn. }
      destruct (IH nt' Hrest Hn') as [r [Ht [Hl [Hug Htr]]]].
      rewrite Ht. eexists. split.
      { f_equal. f_equal. cbn [length]. rewrite div3_step.
        replace (3 * S (length nt' / 3)) with (S (S (S (3 * (length nt' / 3))))) by lia.
        reflexivity. }
      repeat split.
      * simpl. rewrite Hl. lia.
      * cbn [length]. rewrite div3_step.
        replace (3 * S (length nt' / 3)) with (S (S (S (3 * (length nt' / 3))))) by lia.
        simpl in Hn. apply andb_true_iff in Hn as [Hx Hn]. apply andb_true_iff in Hn as [Hy Hn].
        apply andb_true_iff in Hn as [Hz _].
        unfold ungap in *. cbn [filter firstn]. rewrite Hx, Hy, Hz. rewrite Hug. reflexivity.
      * cbn [translate_from]. rewrite Htr. reflexivity.
Qed.

Lemma skipn_3div_short (nt : list byte) : length (skipn (3 * (length nt / 3)) nt) <= 2.
Proof.
  rewrite skipn_length. pose proof (Nat.div_mod (length nt) 3 ltac:(lia)) as H.
  pose proof (Nat.mod_upper_bound (length nt) 3 ltac:(lia)). lia.
Qed.

Lemma codon_align_row_spec code :
  lassoc [x2d; x2d; x2d] code = Some x2d ->
  forall p nt,
  ungap p = translate_from code nt ->
  forallb (fun b => negb (beqb b x2d)) nt = true ->
  exists r, codon_align_row p nt = Some r /\
            length r = 3 * length p /\
            ungap r = firstn (3 * (length nt / 3)) nt /\
            length nt - length (ungap r) <= 2 /\
            translate_from code r = p.
Proof.
  intros Hg p nt Hu Hn. destruct (thread_spec code Hg p nt Hu Hn) as [r [Ht [Hl [Hug Htr]]]].
  exists r. unfold codon_align_row. rewrite Ht.
  pose proof (skipn_3div_short nt) as Hs.
  destruct (Nat.leb_spec (length (skipn (3 * (length nt / 3)) nt)) 2); [|lia].
  repeat split; auto.
  rewrite Hug, firstn_length. rewrite skipn_length in Hs. lia.
Qed.

Lemma code_has_gap_codon gc code : genetic_code gc = Some code -> lassoc [x2d; x2d; x2d] code = Some x2d.
Proof.
  unfold genetic_code.
  destruct (Z.eqb gc GENETIC_CODE_STANDARD); [intros H; inversion H; vm_compute; reflexivity|].
  destruct (Z.eqb gc GENETIC_CODE_VETEBRATE_MITO); [intros H; inversion H; vm_compute; reflexivity|].
  destruct (Z.eqb gc GENETIC_CODE_INVETEBRATE_MITO); [intros H; inversion H; vm_compute; reflexivity|].
  discriminate.
Qed.
